import HqModel.Lemmas.SchedF1
import HqModel.Lemmas.SchedF2
import HqModel.Lemmas.SchedSpec
import HqModel.Lemmas.SchedBatchesSpec
import HqModel.Lemmas.SchedBox
import HqModel.Lemmas.SchedPrio
import HqModel.Lemmas.Sched2Gap
/-!
# C15 — priorities: lower-priority tasks never take what a waiting higher one fits

Model: `HqModel.Sched` (instance of one scheduling decision, `batches` = `create_task_batches`, `milp` = the MILP
of `run_scheduling_solver` as data, `Feasible`/`Optimal`, `extract`, `ValidPlacement` = what `create_task_mapping`
can make of a solution, `PriorityRespecting` = the statement of C15 including its documented exception) and
`HqModel.Core.takeFromQueue`/`Queue.takeTasks` = `take_tasks`.

* `c15_queue_order`, `c15_queue_order_takeTasks`, `c15_queue_sorted_reachable` — full strength: for every queue
  content, count and fuel, `take_tasks` pops the first `count` tasks of the queue, and a queue kept by `readyAdd`
  lists its tasks by descending priority, then ascending id.
* `prio_embedding_mono` — full strength: `Priority::from_user_priority` is strictly monotone i32 → u64.
* `c15_partial_F` — PARTIAL: `PriorityRespecting` for every instance of the fragment F = F1 ∪ (F2 ∩ CpuOnly), every
  optimal solution of `milp inst` and every placement the mapping can produce from it. Request classes range over two
  resource kinds (cpus and a second kind, e.g. gpus); workers may lack the second kind.
  F1 = at most one request class has ready tasks (any cluster, idle or busy, any resource needs; follows from the
  queue order alone; stated on its own as `c15_F1_two_resources`).
  F2 = one worker (idle or busy), at most two request classes with ready tasks, default class weights, at most 32
  priority levels — and, as an explicit hypothesis, `CpuOnly`: the classes with ready tasks ask for cpus only (the
  worker may have the second kind and tasks running there may use it). Without `CpuOnly` the statement is false
  (`c15_counterexample_two_resources`). Proved by an exchange argument on the cut / gap / blocker rows (`Lemmas/SchedF2*.lean`) on top of
  `c15_batches_spec`: the loop of `batches` meets the closed-form specification `BatchesSpec` (loop invariant,
  `Lemmas/SchedInv.lean`, `SchedLink.lean`, `SchedBatchesSpec.lean`).
  What is missing for the full property: the instances outside F — and there the statement is FALSE for the code
  as it is (`c15_counterexample*`): the encoding of priorities by cuts/gaps/blockers is an approximation. Known
  finding F7.
* `c15_counterexample` (one worker, three classes), `c15_counterexample_two_workers` (two unequal workers, two
  classes), `c15_counterexample_weights` (one worker, two classes, unequal class weights — found while proving F2) —
  concrete instances outside F with an optimal solution (over all integer points) whose placement is not
  `PriorityRespecting`; all three are the solutions the real scheduler returns (corpus/sched/f7_*.trace).
-/
namespace HqModel.C15
open HqModel.Sched
open HqModel.Core (TaskId takeFromQueue Queue Queue.takeTasks readyAdd)

/-- Within one request class tasks are taken in descending priority, then ascending id: for EVERY sorted queue
content, count and fuel a successful `take_tasks` returns exactly the first `count` tasks of the queue order,
leaves exactly the rest, and the queue order is "descending priority, then ascending id". -/
theorem c15_queue_order (ready ready' : List (Int × List TaskId)) (count fuel : Nat) (res : List TaskId)
    (hs : QueueSorted ready) (h : takeFromQueue fuel ready count [] = .ok (ready', res)) :
    res = ((flat ready).take count).map (·.2) ∧ flat ready' = (flat ready).drop count ∧
      (flat ready).Pairwise Before := by
  obtain ⟨h1, h2, _⟩ := takeFromQueue_spec fuel ready count [] ready' res h
  exact ⟨by simpa using h1, h2, flat_sorted hs⟩

/-- the same for `TaskQueue::take_tasks` as the core model calls it (no prefill; the prefill set is empty in every
instance of C15's quantifier because proactive filling is off): the observed ids are accepted only if they are
the first `count` of the queue order -/
theorem c15_queue_order_takeTasks (q q' : Queue) (count : Nat) (taken : List TaskId) (hp : q.prefill = none)
    (h : q.takeTasks count taken = .ok q') :
    taken = ((flat q.ready).take count).map (·.2) ∧ flat q'.ready = (flat q.ready).drop count := by
  unfold Queue.takeTasks at h
  simp only [hp] at h
  split at h
  · cases h
  · rename_i ready' res hq
    split at h
    · cases h
    · rename_i hne
      simp only [ne_eq, Decidable.not_not] at hne
      cases h
      obtain ⟨h1, h2, _⟩ := takeFromQueue_spec _ _ _ _ _ _ hq
      subst hne
      exact ⟨by simpa using h1, h2⟩

/-- every queue content reachable by `TaskQueue::add` from the empty queue is sorted -/
theorem c15_queue_sorted_reachable :
    QueueSorted [] ∧ ∀ ready t p, QueueSorted ready → QueueSorted (readyAdd ready t p) :=
  ⟨⟨List.Pairwise.nil, by simp, by simp⟩, fun _ t p h => readyAdd_sorted h t p⟩

/-- `Priority::from_user_priority` is strictly monotone (and order reflecting) from the signed order of the user
priority (i32) to the unsigned order of `Priority` (u64) -/
theorem prio_embedding_mono (x y : BitVec 32) :
    x.slt y = (fromUserPriority x).ult (fromUserPriority y) := by
  rw [BitVec.slt_eq_decide, BitVec.ult_eq_decide]
  have hx := fromUserPriority_value x
  have hy := fromUserPriority_value y
  rw [decide_eq_decide]
  constructor <;> intro h <;> omega

/-- `create_task_batches` meets its closed-form specification (sizes and limit flags from the task counts; every cut
sits at a priority level of its class and names exactly the other classes that hold tasks of higher priority, with
their count or `none` beyond their limit; every level that needs a cut is covered by one with the same blockers and
a smaller-or-equal size; cut sizes ascend) — for every instance with non-empty levels and at most 32 priority levels
(so that `prune_progressive` is the identity). Proved by a loop invariant over `stepLevel`. -/
theorem c15_batches_spec (inst : Instance) (hne : ∀ q ∈ inst.queues, ∀ e ∈ q, e.2 ≠ [])
    (hlv : inst.prios.length ≤ 32) : BatchesSpec inst (batches inst) :=
  batches_spec hne hlv

/-- PARTIAL (fragment F = F1 ∪ (F2 ∩ CpuOnly)): for every well-formed instance (request classes over two resource
kinds, heterogeneous workers) with
* at most one request class that has ready tasks (any cluster, idle or busy, any priorities, any resource needs), or
* one worker (idle or busy), at most two request classes with ready tasks, default class weights, at most 32
  priority levels (C15 asks for up to 8) — and `CpuOnly`: the classes with ready tasks ask for cpus only (explicit
  hypothesis; the exchange argument needs that a gap holds less than one task of the higher class in EVERY resource
  the objective counts, which fails with a second kind: `c15_counterexample_two_resources`),
every optimal solution of the modelled MILP and every placement `create_task_mapping` can produce from it
respects the priorities. Missing: all instances outside F — see `c15_counterexample*` for why the full statement
cannot be proved for the present encoding. -/
theorem c15_partial_F (inst : Instance) (hwf : inst.WF)
    (hF : inst.inF1 = true ∨ (inst.inF2 = true ∧ inst.CpuOnly)) (x : Sched.Assign)
    (hopt : Optimal (milp inst) x) (pl : Placement) (hv : ValidPlacement inst x pl) :
    PriorityRespecting inst pl := by
  rcases hF with hF | ⟨hF, hco⟩
  · exact priorityRespecting_of_inF1 hwf hF hv
  · have hlv : inst.prios.length ≤ 32 := by
      simp only [Instance.inF2, Bool.and_eq_true, decide_eq_true_eq] at hF
      exact hF.2
    exact priorityRespecting_of_inF2 hwf hF hco (batches_spec hwf.levelsNonempty hlv) hopt hv

/-! ### the property fails outside F (known finding F7) -/

/-- one worker with 5 cpus, three request classes (1, 3, 2 cpus), tasks (priority, cpus) =
(0,1) (2,1) (2,3) (0,3) (0,2) (1,1) (1,3) -/
def witness1 : Instance where
  workers := [{ id := 1, total := 50000, free := 50000 }]
  classes := [{ need := 10000 }, { need := 30000 }, { need := 20000 }]
  queues := [[(2, [(1, 2)]), (1, [(1, 6)]), (0, [(1, 1)])],
             [(2, [(1, 3)]), (1, [(1, 7)]), (0, [(1, 4)])],
             [(0, [(1, 5)])]]

/-- the solution HiGHS returns on the real scheduler for `witness1` -/
def witness1Sol : Assign :=
  assignOf [(.P 1 0, 3), (.P 1 1, 0), (.P 1 2, 1), (.B 0 1, 1), (.B 0 2, 0), (.B 1 1, 1)]

/-- the placement of the real scheduler: the three 1-cpu tasks and the 2-cpu task; the priority-2 3-cpu task
1.3 stays ready although it fits beside the priority-2 task 1.2 -/
def witness1Placement : Placement := [((1, 1), 1), ((1, 2), 1), ((1, 5), 1), ((1, 6), 1)]

theorem witness1_wf : witness1.WF where
  workersSorted := by decide
  needPos := by decide
  weightPos := by decide
  sameLen := by decide
  queuesSorted := by decide
  levelsNonempty := by decide
  idsNodup := by decide
  freeLeTotal := by decide

theorem witness1_valid : ValidPlacement witness1 witness1Sol witness1Placement where
  nodup := by decide
  workers := by decide
  taken := by
    intro c hc
    have hc' : c = 0 ∨ c = 1 ∨ c = 2 := by simp [witness1] at hc; omega
    rcases hc' with rfl | rfl | rfl
    · exact ⟨[(1, 2), (1, 6), (1, 1)], by decide +kernel, by decide +kernel⟩
    · exact ⟨[], by decide +kernel, by decide +kernel⟩
    · exact ⟨[(1, 5)], by decide +kernel, by decide +kernel⟩
  ready := by decide
  counts := by decide +kernel

/-- C15 does not hold for all instances: an instance outside F (one worker, three classes), an optimal solution
of its MILP — optimal among ALL feasible integer points — and the placement it yields, which is not
`PriorityRespecting`. -/
theorem c15_counterexample :
    witness1.WF ∧ witness1.inF1 = false ∧ witness1.inF2 = false ∧
    Optimal (milp witness1) witness1Sol ∧ ValidPlacement witness1 witness1Sol witness1Placement ∧
    ¬ PriorityRespecting witness1 witness1Placement :=
  ⟨witness1_wf, by decide, by decide,
   optimal_of_box (ub := boxBound witness1) (by decide +kernel) (by decide +kernel) (by decide +kernel)
     (by decide +kernel),
   witness1_valid, by decide +kernel⟩

/-- workers with 5 and 1 cpus, two request classes (1, 2 cpus), tasks (priority, cpus) =
(0,1) (1,1) (1,1) (1,2) (1,2) (0,1) (0,2) -/
def witness2 : Instance where
  workers := [{ id := 1, total := 50000, free := 50000 }, { id := 2, total := 10000, free := 10000 }]
  classes := [{ need := 10000 }, { need := 20000 }]
  queues := [[(1, [(1, 2), (1, 3)]), (0, [(1, 1), (1, 6)])],
             [(1, [(1, 4), (1, 5)]), (0, [(1, 7)])]]

def witness2Sol : Assign :=
  assignOf [(.P 1 0, 3), (.P 1 1, 1), (.P 2 0, 1), (.B 0 2, 1), (.B 1 2, 1)]

/-- the two priority-0 1-cpu tasks 1.1 and 1.6 occupy the room of the waiting priority-1 2-cpu task 1.5 -/
def witness2Placement : Placement := [((1, 1), 1), ((1, 2), 1), ((1, 4), 1), ((1, 6), 1), ((1, 3), 2)]

theorem witness2_wf : witness2.WF where
  workersSorted := by decide
  needPos := by decide
  weightPos := by decide
  sameLen := by decide
  queuesSorted := by decide
  levelsNonempty := by decide
  idsNodup := by decide
  freeLeTotal := by decide

theorem witness2_valid : ValidPlacement witness2 witness2Sol witness2Placement where
  nodup := by decide
  workers := by decide
  taken := by
    intro c hc
    have hc' : c = 0 ∨ c = 1 := by simp [witness2] at hc; omega
    rcases hc' with rfl | rfl
    · exact ⟨[(1, 2), (1, 3), (1, 1), (1, 6)], by decide +kernel, by decide +kernel⟩
    · exact ⟨[(1, 4)], by decide +kernel, by decide +kernel⟩
  ready := by decide
  counts := by decide +kernel

/-- a second witness: two unequal workers, two classes -/
theorem c15_counterexample_two_workers :
    witness2.WF ∧ witness2.inF1 = false ∧ witness2.inF2 = false ∧
    Optimal (milp witness2) witness2Sol ∧ ValidPlacement witness2 witness2Sol witness2Placement ∧
    ¬ PriorityRespecting witness2 witness2Placement :=
  ⟨witness2_wf, by decide, by decide,
   optimal_of_box (ub := boxBound witness2) (by decide +kernel) (by decide +kernel) (by decide +kernel)
     (by decide +kernel),
   witness2_valid, by decide +kernel⟩

/-- one worker with 5 cpus, two request classes: 3 cpus with weight 1 and 1 cpu with weight 10; tasks
(priority, cpus) = (2,1) (1,3) (0,1) (0,1) (0,1) (0,1) -/
def witness3 : Instance where
  workers := [{ id := 1, total := 50000, free := 50000 }]
  classes := [{ need := 30000 }, { need := 10000, weight := 100000 }]
  queues := [[(1, [(1, 2)])], [(2, [(1, 1)]), (0, [(1, 3), (1, 4), (1, 5), (1, 6)])]]

def witness3Sol : Sched.Assign := assignOf [(.P 1 0, 0), (.P 1 1, 3), (.B 0 1, 1), (.B 1 1, 1)]

/-- the priority-1 3-cpu task 1.2 stays ready although it fits beside the priority-2 task 1.1 -/
def witness3Placement : Placement := [((1, 1), 1), ((1, 3), 1), ((1, 4), 1)]

theorem witness3_wf : witness3.WF where
  workersSorted := by decide
  needPos := by decide
  weightPos := by decide
  sameLen := by decide
  queuesSorted := by decide
  levelsNonempty := by decide
  idsNodup := by decide
  freeLeTotal := by decide

theorem witness3_valid : ValidPlacement witness3 witness3Sol witness3Placement where
  nodup := by decide
  workers := by decide
  taken := by
    intro c hc
    have hc' : c = 0 ∨ c = 1 := by simp [witness3] at hc; omega
    rcases hc' with rfl | rfl
    · exact ⟨[], by decide +kernel, by decide +kernel⟩
    · exact ⟨[(1, 1), (1, 3), (1, 4)], by decide +kernel, by decide +kernel⟩
  ready := by decide
  counts := by decide +kernel

/-- a third witness, found while proving F2: one worker and two classes, but unequal class weights — the heavier
low-priority class outweighs the waiting higher-priority task. The default-weight condition of F2 is necessary. -/
theorem c15_counterexample_weights :
    witness3.WF ∧ witness3.inF1 = false ∧ witness3.inF2 = false ∧
    (witness3.workers.length = 1 ∧ witness3.readyClasses.length = 2) ∧
    BatchesSpec witness3 (batches witness3) ∧
    Optimal (milp witness3) witness3Sol ∧ ValidPlacement witness3 witness3Sol witness3Placement ∧
    ¬ PriorityRespecting witness3 witness3Placement :=
  ⟨witness3_wf, by decide, by decide, by decide, batchesSpec_of_B (by decide +kernel),
   optimal_of_box (ub := boxBound witness3) (by decide +kernel) (by decide +kernel) (by decide +kernel)
     (by decide +kernel),
   witness3_valid, by decide +kernel⟩

/-! ### the hypotheses are satisfiable -/

/-- a sorted queue with two levels: taking two tasks pops the priority-5 task and the smaller id of priority 1 -/
example : takeFromQueue 5 [(5, [(1, 9)]), (1, [(1, 2), (1, 4)])] 2 [] = .ok ([(1, [(1, 4)])], [(1, 9), (1, 2)]) := by
  rfl

example : QueueSorted [(5, [(1, 9)]), (1, [(1, 2), (1, 4)])] :=
  ⟨by decide, by decide, by decide⟩

/-- a non-trivial instance inside F1 (two unequal workers, one busy; one class with three priority levels) with an
optimal solution and a valid placement -/
def inF : Instance where
  workers := [{ id := 1, total := 30000, free := 10000, assigned := [0] }, { id := 2, total := 20000, free := 20000 }]
  classes := [{ need := 20000 }, { need := 10000 }]
  queues := [[], [(7, [(1, 1)]), (0, [(1, 2), (2, 0)]), (-3, [(1, 5)])]]

example : inF.WF ∧ inF.inF1 = true ∧
    Optimal (milp inF) (assignOf [(.P 1 1, 1), (.P 2 1, 2)]) ∧
    ValidPlacement inF (assignOf [(.P 1 1, 1), (.P 2 1, 2)]) [((1, 1), 2), ((1, 2), 1), ((2, 0), 2)] :=
  ⟨⟨by decide, by decide, by decide, by decide, by decide, by decide, by decide, by decide⟩, by decide,
   optimal_of_box (ub := boxBound inF) (by decide +kernel) (by decide +kernel) (by decide +kernel) (by decide +kernel),
   ⟨by decide, by decide,
    by
      intro c hc
      have hc' : c = 0 ∨ c = 1 := by simp [inF] at hc; omega
      rcases hc' with rfl | rfl
      · exact ⟨[], by decide +kernel, by decide +kernel⟩
      · exact ⟨[(1, 1), (1, 2), (2, 0)], by decide +kernel, by decide +kernel⟩,
    by decide, by decide +kernel⟩⟩

/-- a non-trivial instance inside F2 (one busy worker: 7 cpus, a 2-cpu task running; classes of 3 cpus and 1 cpu
with interleaved priorities, so cuts, a reached limit and blocker variables exist) with an optimal solution and a
valid placement -/
def inF2ex : Instance where
  workers := [{ id := 1, total := 70000, free := 50000, assigned := [2] }]
  classes := [{ need := 30000 }, { need := 10000 }, { need := 20000 }]
  queues := [[(5, [(1, 1)]), (1, [(1, 2)])], [(3, [(2, 1)]), (0, [(2, 2), (2, 3)])], []]

example : inF2ex.WF ∧ inF2ex.inF1 = false ∧ inF2ex.inF2 = true ∧
    Optimal (milp inF2ex) (assignOf [(.P 1 0, 1), (.P 1 1, 1), (.B 0 1, 0), (.B 1 1, 0)]) ∧
    ValidPlacement inF2ex (assignOf [(.P 1 0, 1), (.P 1 1, 1), (.B 0 1, 0), (.B 1 1, 0)])
      [((1, 1), 1), ((2, 1), 1)] :=
  ⟨⟨by decide, by decide, by decide, by decide, by decide, by decide, by decide, by decide⟩, by decide, by decide,
   optimal_of_box (ub := boxBound inF2ex) (by decide +kernel) (by decide +kernel) (by decide +kernel) (by decide +kernel),
   ⟨by decide, by decide,
    by
      intro c hc
      have hc' : c = 0 ∨ c = 1 ∨ c = 2 := by simp [inF2ex] at hc; omega
      rcases hc' with rfl | rfl | rfl
      · exact ⟨[(1, 1)], by decide +kernel, by decide +kernel⟩
      · exact ⟨[(2, 1)], by decide +kernel, by decide +kernel⟩
      · exact ⟨[], by decide +kernel, by decide +kernel⟩,
    by decide, by decide +kernel⟩⟩

/-! ### two resource kinds (extension of the component; everything above is stated for the extended model) -/

/-- F1 on its own, FULL for its fragment: if at most one request class has ready tasks, EVERY solution (optimal or
not) and every placement the mapping can make of it respects the priorities — whatever the classes ask for of the
two resource kinds, whatever the workers have, idle or busy. (The queue order decides, not the MILP.) -/
theorem c15_F1_two_resources (inst : Instance) (hwf : inst.WF) (hF : inst.inF1 = true) (x : Sched.Assign)
    (pl : Placement) (hv : ValidPlacement inst x pl) : PriorityRespecting inst pl :=
  priorityRespecting_of_inF1 hwf hF hv

/-- what the gap of `GapCache::get_gap` means with two resource kinds, for every instance, pair of classes and worker
(busy or idle): with `n` = the number of tasks of the higher class the worker can hold at all,
* the gap tasks of the lower class fit in BOTH kinds beside `n` tasks of the higher class, and
* in SOME kind the higher class asks for they take less than one task of the higher class.
With cpu-only classes the second clause is the inequality the F2 exchange rests on (`gap_mul_lt`); with two kinds it
holds in one kind only while the objective adds the shares of both — the mechanism of the witness below. -/
theorem c15_gap_two_resources (inst : Instance) (high low : Nat) (w : Worker) (hpos : 0 < inst.need high) :
    (inst.need low * gap inst high low w +
        inst.need high * fitCount w.total w.total2 (inst.need high) (inst.need2 high) ≤ w.total ∧
      inst.need2 low * gap inst high low w +
        inst.need2 high * fitCount w.total w.total2 (inst.need high) (inst.need2 high) ≤ w.total2) ∧
    (inst.need low * gap inst high low w < inst.need high ∨
      (inst.need2 high ≠ 0 ∧ inst.need2 low * gap inst high low w < inst.need2 high)) :=
  ⟨gap_fits inst high low w, gap_lt_some_kind inst high low w hpos⟩

/-- one worker with 7 cpus and 4 gpus (idle), two request classes with the default weight: 3 cpus, and 1 cpu + 2 gpus
(class 2 is the harness' filler class, no ready tasks); tasks (priority, class) = (3, 1cpu+2gpus) (2, 3cpus) (2, 3cpus)
(1, 1cpu+2gpus) (1, 1cpu+2gpus) -/
def witness4 : Instance where
  workers := [{ id := 1, total := 70000, free := 70000, total2 := 40000, free2 := 40000 }]
  classes := [{ need := 30000 }, { need := 10000, need2 := 20000 }, { need := 10000 }]
  queues := [[(2, [(1, 1), (1, 2)])], [(3, [(1, 3)]), (1, [(1, 4), (1, 5)])], []]

/-- the solution HiGHS returns on the real scheduler for `witness4` -/
def witness4Sol : Sched.Assign := assignOf [(.P 1 0, 1), (.P 1 1, 2), (.B 0 2, 1), (.B 1 1, 0)]

/-- the priority-2 3-cpu task 1.2 stays ready although it fits beside the tasks 1.3 (priority 3) and 1.1 (priority 2);
the priority-1 task 1.4 runs instead: the gap next to two 3-cpu tasks (1 cpu, 4 gpus) holds one task of the other
class, and that task weighs 1/7 + 2/4 > 3/7 -/
def witness4Placement : Placement := [((1, 1), 1), ((1, 3), 1), ((1, 4), 1)]

theorem witness4_wf : witness4.WF where
  workersSorted := by decide
  needPos := by decide
  weightPos := by decide
  sameLen := by decide
  queuesSorted := by decide
  levelsNonempty := by decide
  idsNodup := by decide
  freeLeTotal := by decide

theorem witness4_valid : ValidPlacement witness4 witness4Sol witness4Placement where
  nodup := by decide
  workers := by decide
  taken := by
    intro c hc
    have hc' : c = 0 ∨ c = 1 ∨ c = 2 := by simp [witness4] at hc; omega
    rcases hc' with rfl | rfl | rfl
    · exact ⟨[(1, 1)], by decide +kernel, by decide +kernel⟩
    · exact ⟨[(1, 3), (1, 4)], by decide +kernel, by decide +kernel⟩
    · exact ⟨[], by decide +kernel, by decide +kernel⟩
  ready := by decide
  counts := by decide +kernel

/-- a fourth witness, of a new kind: the SHAPE of F2 (one worker, two request classes with ready tasks, default
weights, three priority levels) but one class also asks for the second resource kind. The solution is optimal among
ALL integer points, the batches meet their specification, and the placement is not `PriorityRespecting`. So `CpuOnly`
in `c15_partial_F` is necessary; it is what the real scheduler returns (corpus/sched/f7_w4_…). -/
theorem c15_counterexample_two_resources :
    witness4.WF ∧ witness4.inF1 = false ∧ witness4.inF2 = true ∧ ¬ witness4.CpuOnly ∧
    BatchesSpec witness4 (batches witness4) ∧
    Optimal (milp witness4) witness4Sol ∧ ValidPlacement witness4 witness4Sol witness4Placement ∧
    ¬ PriorityRespecting witness4 witness4Placement :=
  ⟨witness4_wf, by decide, by decide, by decide +kernel, batchesSpec_of_B (by decide +kernel),
   optimal_of_box (ub := boxBound witness4) (by decide +kernel) (by decide +kernel) (by decide +kernel)
     (by decide +kernel),
   witness4_valid, by decide +kernel⟩

/-- the hypotheses of the F2 part are satisfiable with a second resource kind around: one worker with 7 cpus and 2 gpus
that runs a task of 2 cpus + 1 gpu; the classes with ready tasks (3 cpus, 1 cpu) ask for cpus only -/
def inF2gpu : Instance where
  workers := [{ id := 1, total := 70000, free := 50000, assigned := [2], total2 := 20000, free2 := 10000 }]
  classes := [{ need := 30000 }, { need := 10000 }, { need := 20000, need2 := 10000 }]
  queues := [[(5, [(1, 1)]), (1, [(1, 2)])], [(3, [(2, 1)]), (0, [(2, 2), (2, 3)])], []]

example : inF2gpu.WF ∧ inF2gpu.inF1 = false ∧ inF2gpu.inF2 = true ∧ inF2gpu.CpuOnly ∧
    Optimal (milp inF2gpu) (assignOf [(.P 1 0, 1), (.P 1 1, 1), (.B 0 1, 0), (.B 1 1, 0)]) ∧
    ValidPlacement inF2gpu (assignOf [(.P 1 0, 1), (.P 1 1, 1), (.B 0 1, 0), (.B 1 1, 0)])
      [((1, 1), 1), ((2, 1), 1)] :=
  ⟨⟨by decide, by decide, by decide, by decide, by decide, by decide, by decide, by decide⟩, by decide, by decide,
   by decide +kernel,
   optimal_of_box (ub := boxBound inF2gpu) (by decide +kernel) (by decide +kernel) (by decide +kernel) (by decide +kernel),
   ⟨by decide, by decide,
    by
      intro c hc
      have hc' : c = 0 ∨ c = 1 ∨ c = 2 := by simp [inF2gpu] at hc; omega
      rcases hc' with rfl | rfl | rfl
      · exact ⟨[(1, 1)], by decide +kernel, by decide +kernel⟩
      · exact ⟨[(2, 1)], by decide +kernel, by decide +kernel⟩
      · exact ⟨[], by decide +kernel, by decide +kernel⟩,
    by decide, by decide +kernel⟩⟩

/-- a non-trivial instance inside F1 with two resource kinds: workers with (4 cpus, 2 gpus; a 2-cpu task running) and
(3 cpus, no gpus); the one class with ready tasks asks for 1 cpu + 1 gpu, so only the first worker can run it -/
def inF1gpu : Instance where
  workers := [{ id := 1, total := 40000, free := 20000, assigned := [0], total2 := 20000, free2 := 20000 },
              { id := 2, total := 30000, free := 30000 }]
  classes := [{ need := 20000 }, { need := 10000, need2 := 10000 }]
  queues := [[], [(7, [(1, 1)]), (0, [(1, 2), (2, 0)]), (-3, [(1, 5)])]]

example : inF1gpu.WF ∧ inF1gpu.inF1 = true ∧ ¬ inF1gpu.CpuOnly ∧
    Optimal (milp inF1gpu) (assignOf [(.P 1 1, 2)]) ∧
    ValidPlacement inF1gpu (assignOf [(.P 1 1, 2)]) [((1, 1), 1), ((1, 2), 1)] :=
  ⟨⟨by decide, by decide, by decide, by decide, by decide, by decide, by decide, by decide⟩, by decide,
   by decide +kernel,
   optimal_of_box (ub := boxBound inF1gpu) (by decide +kernel) (by decide +kernel) (by decide +kernel) (by decide +kernel),
   ⟨by decide, by decide,
    by
      intro c hc
      have hc' : c = 0 ∨ c = 1 := by simp [inF1gpu] at hc; omega
      rcases hc' with rfl | rfl
      · exact ⟨[], by decide +kernel, by decide +kernel⟩
      · exact ⟨[(1, 1), (1, 2)], by decide +kernel, by decide +kernel⟩,
    by decide, by decide +kernel⟩⟩

end HqModel.C15
