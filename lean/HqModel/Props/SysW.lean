import HqModel.Lemmas.SysWCancel
import HqModel.Props.Sys
/-!
# The composed system WITH the workers: `Sys` (job layer M4 on the tako core M1) + one worker model M2 per worker + FIFO queues

`HqModel/SysW/Model.lean` is the world of the harness (`harness/src/world.rs`): client requests and scheduling rounds
of `Sys`, `addWorker` / `loseWorker`, explicit deliveries of the head of a server → worker queue (an M2 step) and of a
worker → server queue (a `Sys` `update` / `retracted` action), worker-local events (a task ends, a time limit fires,
a retract-check tick, …). The messages a `Sys` action emits are appended to the queues of their workers; what an M2
step emits is appended to that worker's queue to the server.

The theorems are about ALL runs from the empty state whose world actions satisfy `SysW.OpOk` (decidable, evaluated on
the pre-state of every action): the side conditions of `Sys` that are about INPUTS — a fresh worker record with a new
id, `SubmitOk`, `QueueOkD` / `SolMnOk` for a scheduling round —, "no task id is submitted twice" and "no task refers
to a new worker's id". There is NO condition on what a worker sends: `FinProto` and `UpdProto` (`RejectOk`), the
worker-protocol hypotheses of the `Sys` theorems, are CONSEQUENCES here:

* `sysw_fin_proto` — every `TaskUpdate` batch in a worker → server queue satisfies, when it is delivered,
  `Core.UpdatesOk Sys.UpdOk`: every `finished t` finds `t` unknown to the core, Running, or multi-node with the
  `started` flag (`Sys.FinProto`: because the worker emitted `Running` / `RunningPrefilled` for that launch earlier in
  the same FIFO stream and only a cancel / failure can have intervened), every `reject t rv` of an Assigned task comes
  from its worker with its variant (`Core.RejectOk`) — each judged in the state in which the reactor processes it;
* `sysw_pipeline` — the invariant behind it (`Pipe`): per worker and task, the pending `ComputeTasks` items, what the
  worker holds and the pending events to the server fit the core's view of the task;
* `sysw_sys_run` — the server part of a composed run is a `Sys.run` satisfying `Sys.RunOk`: every theorem of
  `Props/Sys.lean` applies without a worker-protocol hypothesis: `sysw_registry`, `sysw_no_job_panic`,
  `sysw_run_no_job_panic`, `sysw_started_running`, `sysw_cancel_final`, `sysw_max_fails`, `sysw_outcome_once`.

Proof: `Lemmas/SysW*.lean`.
-/
namespace HqModel.SysW
open HqModel

/-- the invariant holds in every reachable state -/
theorem sysw_inv (reserve max : Nat) (ops : List Op) (s : State) (outs : List Out)
    (hok : RunOk (initState reserve max) ops) (h : run (initState reserve max) ops = .ok (s, outs)) : WInv s :=
  run_winv ops (winv_init reserve max) hok h

/-! ### (1), (2): the worker-protocol side conditions of `Sys` are theorems -/

/-- **`sysw_fin_proto`** — in every reachable state, the `TaskUpdate` batch `us` at the head of the queue of worker
`w` satisfies the side condition `Sys.OpOk (update w us rets)` = `Core.UpdatesOk Sys.UpdOk`: for every update of the
batch, in the state in which the reactor processes it, `Core.UpdProto` (a `reject` of an Assigned task comes from the
worker and with the variant it is assigned to: `Core.RejectOk`) and, for `finished t`, `Sys.FinProto` (the core does not
know `t`, or holds it as Running, or as RunningMultiNode with the `started` flag of the root) -/
theorem sysw_fin_proto (reserve max : Nat) (ops : List Op) (s : State) (outs : List Out)
    (hok : RunOk (initState reserve max) ops) (h : run (initState reserve max) ops = .ok (s, outs))
    (w : Nat) (x : WState) (hf : findW s.workers w = some x) (us : List Core.Update) (rest : List W2S)
    (hq : x.w2s = .updates us :: rest) (rets : List (List TaskId)) :
    Sys.OpOk s.sys (.update w us rets) :=
  deliver_updOk (sysw_inv reserve max ops s outs hok h) hf hq rets

/-- the first update of the batch, spelled out -/
theorem sysw_fin_proto_head (reserve max : Nat) (ops : List Op) (s : State) (outs : List Out)
    (hok : RunOk (initState reserve max) ops) (h : run (initState reserve max) ops = .ok (s, outs))
    (w : Nat) (x : WState) (hf : findW s.workers w = some x) (u : Core.Update) (us : List Core.Update) (rest : List W2S)
    (hq : x.w2s = .updates (u :: us) :: rest) :
    (∀ t, u = .finished t → Sys.FinProto s.sys.core t) ∧
    (∀ t rv, u = .reject t rv → Core.RejectOk s.sys.core w t rv) := by
  have := sysw_fin_proto reserve max ops s outs hok h w x hf (u :: us) rest hq []
  simp only [Sys.OpOk, Core.UpdatesOk] at this
  obtain ⟨⟨h1, h2⟩, _⟩ := this
  exact ⟨fun t e => by subst e; exact h2, fun t rv e => by subst e; exact h1⟩

/-- the STRONGER form the composition gives: a delivered `finished t` from worker `w` finds the core's view of `t`
from `w` `hot` — `t` unknown, Running ON `w`, or RunningMultiNode with root `w` and the `started` flag (`Sys.FinProto`
also admits Running on another worker; that cannot happen: the core's `assert_worker` in `task_finished` never fires
for a message of a worker model) -/
theorem sysw_fin_view (reserve max : Nat) (ops : List Op) (s : State) (outs : List Out)
    (hok : RunOk (initState reserve max) ops) (h : run (initState reserve max) ops = .ok (s, outs))
    (w : Nat) (x : WState) (hf : findW s.workers w = some x) (t : TaskId) (us : List Core.Update) (rest : List W2S)
    (hq : x.w2s = .updates (.finished t :: us) :: rest) : view s.sys.core w t = .hot := by
  have hi := sysw_inv reserve max ops s outs hok h
  obtain ⟨hx, hxid⟩ := findW_some hf
  have hp : pend t x.w2s = .fin :: pend t (.updates us :: rest) := by
    rw [hq, pend_updates_cons]; simp [evsOfUpd]
  have hu : t ∈ s.submitted := by
    apply Classical.byContradiction
    intro hn
    have := ((hi.pipe x hx t).2 hn).2.1
    rw [hp] at this; cases this
  have := (hi.pipe x hx t).1 hu
  rw [hp, hxid] at this
  exact this.head_fin

/-- what `hot` means -/
theorem view_hot_iff (c : Core.State) (w : Nat) (t : TaskId) :
    view c w t = .hot ↔
      (Core.stOf c.tasks t = none ∨ (∃ rv, Core.stOf c.tasks t = some (.running w rv)) ∨
       ∃ l, Core.stOf c.tasks t = some (.runningMN (w :: l)) ∧ mnStarted c w t = true) := by
  cases hs : Core.stOf c.tasks t with
  | none => rw [view_none hs]; simp
  | some st =>
    rw [view_some hs]
    cases st with
    | running x v =>
      by_cases hx : x = w
      · subst hx; simp [viewSt]
      · simp only [viewSt, hx, if_false]
        constructor
        · intro e; cases e
        · rintro (e | ⟨rv, e⟩ | ⟨l, e, _⟩)
          · cases e
          · cases e; exact (hx rfl).elim
          · cases e
    | runningMN l =>
      cases l with
      | nil => simp [viewSt]
      | cons x xs =>
        by_cases hx : x = w
        · subst hx
          by_cases hm : mnStarted c x t = true <;> simp [viewSt, hm]
        · simp only [viewSt, hx, if_false]
          constructor
          · intro e; cases e
          · rintro (e | ⟨rv, e⟩ | ⟨l, e, _⟩)
            · cases e
            · cases e
            · cases e; exact (hx rfl).elim
    | waiting n => simp [viewSt]
    | finished => simp [viewSt]
    | assigned x v => by_cases hx : x = w <;> simp [viewSt, hx]
    | prefilled x => by_cases hx : x = w <;> simp [viewSt, hx]
    | retracting x => by_cases hx : x = w <;> simp [viewSt, hx]

/-- **the pipeline invariant**: for every worker record `x` and every submitted task `t`, the `ComputeTasks` items for
`t` still in the queue to the worker, what the worker holds of `t`, and the events about `t` still in the queue to the
server are one of the pipelines `PipeOk` allows for the core's view of `t` from that worker — in particular a pending
`finished t` is either preceded (in the queue) by the `running t` of the same launch, or the core's view is `hot` -/
theorem sysw_pipeline (reserve max : Nat) (ops : List Op) (s : State) (outs : List Out)
    (hok : RunOk (initState reserve max) ops) (h : run (initState reserve max) ops = .ok (s, outs))
    (x : WState) (hx : x ∈ s.workers) (t : TaskId) (ht : t ∈ s.submitted) :
    PipeOk (view s.sys.core x.id t) (comps t x.s2w) (pend t x.w2s) x.w (enc t) :=
  ((sysw_inv reserve max ops s outs hok h).pipe x hx t).1 ht

/-! ### (3): the `Sys` theorems without worker-protocol hypotheses -/

/-- **the server part of a composed run is a run of `Sys` that satisfies `Sys.RunOk`** — all side conditions of the
`Sys` theorems, including `FinProto` / `UpdProto` on every delivered update -/
theorem sysw_sys_run (reserve max : Nat) (ops : List Op) (s : State) (outs : List Out)
    (hok : RunOk (initState reserve max) ops) (h : run (initState reserve max) ops = .ok (s, outs)) :
    Sys.run (Sys.initState reserve max) (sysOps outs) = .ok (s.sys, sysOuts outs) ∧
    Sys.RunOk (Sys.initState reserve max) (sysOps outs) := by
  obtain ⟨a, b⟩ := run_sys_run ops _ _ _ h
  exact ⟨a, b (winv_init reserve max) hok⟩

/-- **`sysw_registry`** (C02): in every reachable state of the composed system the keys of the core's task map, the
job layer's `sent` list and the non-terminal tasks of the stored jobs are the same set (`Sys.sys_registry`, no
worker-protocol hypothesis) -/
theorem sysw_registry (reserve max : Nat) (ops : List Op) (s : State) (outs : List Out)
    (hok : RunOk (initState reserve max) ops) (h : run (initState reserve max) ops = .ok (s, outs)) :
    (∀ t, t ∈ Core.taskIds s.sys.core.tasks ↔ t ∈ s.sys.job.sent) ∧ (Core.taskIds s.sys.core.tasks).Nodup ∧
    (∀ t ∈ Core.taskIds s.sys.core.tasks, ∃ job st, s.sys.job.getJob t.1 = some job ∧
      Job.lookup job.tasks t.2 = some st ∧ st.terminal = false) ∧
    (∀ job ∈ s.sys.job.jobs, ∀ p ∈ job.tasks,
      p.2.terminal = false ↔ (job.id, p.1) ∈ Core.taskIds s.sys.core.tasks) := by
  obtain ⟨a, b⟩ := sysw_sys_run reserve max ops s outs hok h
  exact Sys.sys_registry reserve max _ _ _ b a

/-- **`sysw_no_job_panic`** (C09 / C01): in every reachable state no world action satisfying the (input) side
conditions stops in the job layer — in particular the delivery of ANY message a worker model sent: every callback the
core makes for it is accepted by `process_task_started`, `process_task_finished` (`set_finished_state`), … -/
theorem sysw_no_job_panic (reserve max : Nat) (ops : List Op) (s : State) (outs : List Out)
    (hok : RunOk (initState reserve max) ops) (h : run (initState reserve max) ops = .ok (s, outs))
    (op : Op) (hop : OpOk s op) (site : String) : step s op ≠ .error (.sys (.job site)) :=
  step_no_job (sysw_inv reserve max ops s outs hok h) hop site

/-- the same for whole runs -/
theorem sysw_run_no_job_panic (reserve max : Nat) (ops : List Op) (hok : RunOk (initState reserve max) ops)
    (site : String) : run (initState reserve max) ops ≠ .error (.sys (.job site)) := by
  have key : ∀ (ops : List Op) (s : State), WInv s → RunOk s ops → run s ops ≠ .error (.sys (.job site)) := by
    intro ops
    induction ops with
    | nil => intro s _ _ h; simp [run] at h
    | cons op rest ih =>
      intro s hi hok h
      simp only [run] at h
      split at h
      · rename_i e he
        cases h
        exact step_no_job hi hok.1 site he
      · rename_i s1 o1 h1
        simp only [RunOk, h1] at hok
        split at h
        · rename_i e he
          cases h
          exact ih s1 (step_inv hi hok.1 h1) hok.2 he
        · cases h
  exact key ops _ (winv_init reserve max) hok

/-- **the state coupling** (`Sys.sys_started_running`) in every reachable state of the composed system -/
theorem sysw_started_running (reserve max : Nat) (ops : List Op) (s : State) (outs : List Out)
    (hok : RunOk (initState reserve max) ops) (h : run (initState reserve max) ops = .ok (s, outs))
    (t : TaskId) (task : Core.Task) (ht : s.sys.core.task? t = some task) :
    ∃ job, s.sys.job.getJob t.1 = some job ∧
      (Job.lookup job.tasks t.2 = some .waiting ∨ Job.lookup job.tasks t.2 = some .running) ∧
      ((∃ w v, task.state = .running w v) → Job.lookup job.tasks t.2 = some .running) ∧
      (∀ l x wk r, task.state = .runningMN l → s.sys.core.worker? x = some wk → wk.assign = .mn t r true →
        Job.lookup job.tasks t.2 = some .running) := by
  obtain ⟨a, b⟩ := sysw_sys_run reserve max ops s outs hok h
  exact Sys.sys_started_running reserve max _ _ _ b a t task ht

/-- **`sysw_cancel_final`** (C08): after a client cancel of job `j` no task of `j` is in the core map and all its
tasks are terminal in the job layer — whatever the workers still hold or have in flight -/
theorem sysw_cancel_final (reserve max : Nat) (ops : List Op) (s : State) (outs : List Out)
    (hok : RunOk (initState reserve max) ops) (h : run (initState reserve max) ops = .ok (s, outs))
    (j : Nat) (ids : List TaskId) (s' : State) (o : Out) (hstep : step s (.srv (.cancel j ids)) = .ok (s', o)) :
    (∀ t ∈ Core.taskIds s'.sys.core.tasks, t.1 ≠ j) ∧
    (∀ job', s'.sys.job.getJob j = some job' → ∀ p ∈ job'.tasks, p.2.terminal = true) := by
  obtain ⟨a, b⟩ := sysw_sys_run reserve max ops s outs hok h
  simp only [step, srvAllowed, if_true] at hstep
  obtain ⟨so, _, _, hs⟩ := sysStep_sys hstep
  exact Sys.sys_cancel_final reserve max _ _ _ b a j ids s'.sys so hs

/-- **`sysw_max_fails`** (C14) for the delivery of a worker's message: if the core made an `error` callback for `t`
and the job of `t` exceeds its `max_fails` afterwards, no task of the job is left in the core -/
theorem sysw_max_fails (reserve max : Nat) (ops : List Op) (s : State) (outs : List Out)
    (hok : RunOk (initState reserve max) ops) (h : run (initState reserve max) ops = .ok (s, outs))
    (op : Op) (hop : OpOk s op) (s' : State) (o : Out) (hstep : step s op = .ok (s', o)) (so : Sys.Out)
    (hso : o.sys = some so) (t : TaskId) (consumers : List TaskId) (hcb : Core.Cb.error t consumers ∈ so.core.cbs)
    (job' : Job.Job) (m : Nat) (hj : s'.sys.job.getJob t.1 = some job') (hm : job'.maxFails = some m)
    (hex : job'.cnt.failed > m) :
    (∀ x ∈ Core.taskIds s'.sys.core.tasks, x.1 ≠ t.1) ∧ (∀ p ∈ job'.tasks, p.2.terminal = true) := by
  obtain ⟨a, b⟩ := sysw_sys_run reserve max ops s outs hok h
  rcases step_sys hstep with ⟨_, e, _⟩ | ⟨sop, so', _, e, hs, hk⟩
  · rw [e] at hso; cases hso
  · rw [e] at hso; cases hso
    exact Sys.sys_max_fails reserve max _ _ _ b a sop (hk (sysw_inv reserve max ops s outs hok h) hop) s'.sys so hs
      t consumers hcb job' m hj hm hex

/-- **C01 over composed runs with workers**: in the event stream of the job layer no task has two outcomes and every
`finished` is preceded by a `started` (`Sys.sys_outcome_once`) -/
theorem sysw_outcome_once (reserve max : Nat) (ops : List Op) (s : State) (outs : List Out)
    (h : run (initState reserve max) ops = .ok (s, outs)) :
    (∀ t : Job.TaskId, Job.termCount t ((sysOuts outs).map (·.evs)).flatten ≤ 1) ∧
    (∀ t pre post, ((sysOuts outs).map (·.evs)).flatten = pre ++ [Job.Ev.finished t] ++ post →
      ∃ i ws rv, Job.Ev.started t i ws rv ∈ pre) := by
  obtain ⟨a, _⟩ := run_sys_run ops _ _ _ h
  obtain ⟨x, _, z⟩ := Sys.sys_outcome_once reserve max _ _ _ a
  exact ⟨x, z⟩

/-! ### (4), partial: C06 on the composed state -/

/-- **`sysw_c06_single_partial`** — in every reachable state, a task the core still knows is in a running launch on at
most one worker: two worker records that both hold `t` in their `running_tasks` are the same record. (PARTIAL: for a
task the core no longer knows — cancelled, or removed after a reported failure — the invariant `Pipe` puts no constraint
on the pipelines (`hot`), so "at most one worker" is not derived for those; it holds there too — such a task had at
most one owner when it left the map and is never sent again — but needs a stronger invariant: exclusive pipelines also
for unknown tasks.) -/
theorem sysw_c06_single_partial (reserve max : Nat) (ops : List Op) (s : State) (outs : List Out)
    (hok : RunOk (initState reserve max) ops) (h : run (initState reserve max) ops = .ok (s, outs))
    (x1 x2 : WState) (h1 : x1 ∈ s.workers) (h2 : x2 ∈ s.workers) (t : TaskId) (st : Core.TS)
    (hst : Core.stOf s.sys.core.tasks t = some st) (r1 : isRun x1.w (enc t)) (r2 : isRun x2.w (enc t)) : x1 = x2 := by
  have hi := sysw_inv reserve max ops s outs hok h
  have hu : t ∈ s.submitted := hi.sub t (Core.mem_ids_of_stOf hst)
  have owner_of : ∀ x ∈ s.workers, isRun x.w (enc t) → Core.owner st = some x.id := by
    intro x hx hr
    have hp := (hi.pipe x hx t).1 hu
    have hnf : ¬ Free x.w (enc t) := fun f => f.1 hr
    have hv : view s.sys.core x.id t ≠ .quiet := by
      intro e
      rw [e] at hp
      exact hnf hp.2.2
    rw [view_some hst] at hv
    exact owner_of_viewSt_ne_quiet hv
  have e1 := owner_of x1 h1 r1
  have e2 := owner_of x2 h2 r2
  rw [e1] at e2
  exact (eq_of_id hi.nodup h1 h2 (Option.some.inj e2).symm).symm

/-! ### (4): C08 on the composed state -/

/-- **`sysw_c08_cancel_sent`** — when a client cancel of job `j` is answered, every worker that executes a task `t` of
`j` the core still knew has a `CancelTasks` message naming `t` in its queue from the server (the record is otherwise
unchanged: same id, same worker state). What the worker does when the message arrives is `WorkerSide.c08_worker`
(stop signal to the running copy, removal from every backlog). A task of `j` the core did NOT know any more was
cancelled (or reported) before: its `CancelTasks` was sent by that earlier action. -/
theorem sysw_c08_cancel_sent (reserve max : Nat) (ops : List Op) (s : State) (outs : List Out)
    (hok : RunOk (initState reserve max) ops) (h : run (initState reserve max) ops = .ok (s, outs))
    (j : Nat) (ids : List TaskId) (s' : State) (o : Out) (hstep : step s (.srv (.cancel j ids)) = .ok (s', o))
    (x : WState) (hx : x ∈ s.workers) (t : TaskId) (htj : t.1 = j) (hid : t ∈ ids) (st : Core.TS)
    (hst : Core.stOf s.sys.core.tasks t = some st) (hr : isRun x.w (enc t)) :
    ∃ x' ∈ s'.workers, x'.id = x.id ∧ x'.w = x.w ∧ ∃ l, S2W.cancel l ∈ x'.s2w ∧ t ∈ l := by
  have hi := sysw_inv reserve max ops s outs hok h
  have hfin := sysw_cancel_final reserve max ops s outs hok h j ids s' o hstep
  simp only [step, srvAllowed, if_true] at hstep
  obtain ⟨so, _, _, hs⟩ := sysStep_sys hstep
  -- the worker is the owner
  have hu : t ∈ s.submitted := hi.sub t (Core.mem_ids_of_stOf hst)
  have ho : Core.owner st = some x.id := by
    have hp := (hi.pipe x hx t).1 hu
    have hv : view s.sys.core x.id t ≠ .quiet := by
      intro e
      rw [e] at hp
      exact hp.2.2.1 hr
    rw [view_some hst] at hv
    exact owner_of_viewSt_ne_quiet hv
  -- the cancel reached the core
  have hcs : s.sys.core.cancelTasks ids = .ok (s'.sys.core, so.core) := by
    rcases Sys.step_core_step hs with ⟨e, _, _⟩ | ⟨cop, hcop, hcs⟩
    · exact absurd htj (hfin.1 t (by rw [e]; exact Core.mem_ids_of_stOf hst))
    · simp only [Sys.coreOp, Option.some.injEq] at hcop
      subst hcop
      simpa only [Core.step] using hcs
  obtain ⟨l, hl, htl⟩ := Core.cancelTasks_sent hcs t hid st x.id hst ho
  -- … and the message was routed
  simp only [sysStep, hs] at hstep
  simp only [Except.ok.injEq, Prod.mk.injEq] at hstep
  obtain ⟨es, _⟩ := hstep
  have ew : s'.workers = routeMsgs s.workers so.core.msgs := by rw [← es]
  refine ⟨route1 x so.core.msgs, ?_, rfl, rfl, l, ?_, htl⟩
  · rw [ew, routeMsgs_eq]; exact List.mem_map_of_mem hx
  · show S2W.cancel l ∈ x.s2w ++ so.core.msgs.filterMap (msgFor x.id)
    refine List.mem_append_right _ (List.mem_filterMap.mpr ⟨_, hl, ?_⟩)
    simp [msgFor]

/-! ### non-vacuity: concrete composed runs (races included) -/

section examples

private def rq1 : Core.Rqv := [{ entries := [⟨0, .amount 5000⟩] }]
private def wkr (id : Nat) : Core.Worker := { id := id, assign := .sn [] [10000] [], total := [10000] }
private def ntk (j : Nat) : Core.NewTask := { id := (1, j), rq := 0, prio := 0, crashLimit := .max 5, deps := [] }

/-- what is left: the job layer's task states, the core's task states, and per worker the lengths of the two queues
and the ids of the running tasks -/
private def sJobs (r : Except Stop (State × List Out)) : Option (List (List (Nat × Job.TState))) :=
  r.toOption.map fun x => x.1.sys.job.jobs.map (·.tasks)
private def sCore (r : Except Stop (State × List Out)) : Option (List (TaskId × Core.TS)) :=
  r.toOption.map fun x => x.1.sys.core.tasks.map (fun t => (t.id, t.state))
private def sWorkers (r : Except Stop (State × List Out)) : Option (List (Nat × Nat × Nat × List Nat)) :=
  r.toOption.map fun x => x.1.workers.map fun y => (y.id, y.s2w.length, y.w2s.length, y.w.running.map (·.task.id))

/-- the life of one task: submitted, placed, `ComputeTasks` delivered (the worker starts it and sends `Running`),
`Running` delivered, the task ends (`Finished` is sent), `Finished` delivered -/
private def opsLife : List Op := [
  .srv (.newRq rq1), .addWorker (wkr 1) [[0]] none,
  .srv (.submit none none (.array [⟨0, 1, 1⟩] none) [ntk 0]),
  .srv (.schedule { now := 10, sn := [{ rq := 0, v := 0, counts := [(1, 1)], taken := [(1, 0)] }] }),
  .deliverS2W 1 [{ rq := 0, alloc := some 7 }],
  .deliverW2S 1 [],
  .wlocal 1 (.taskEnd (enc (1, 0)) .finished []),
  .deliverW2S 1 []]

example : RunOk {} opsLife := by decide
example : sJobs (run {} opsLife) = some [[(0, .finished)]] ∧ sCore (run {} opsLife) = some [] ∧
    sWorkers (run {} opsLife) = some [(1, 0, 0, [])] := by decide

/-- **cancel overtakes the worker**: the client cancels while `Running` is still in the queue and the task runs; the
task finishes before `CancelTasks` arrives. `Running` and `Finished` are delivered to a core that no longer knows the
task (`FinProto`: unknown) and are ignored; the job stays `canceled` -/
private def opsCancelRace : List Op := [
  .srv (.newRq rq1), .addWorker (wkr 1) [[0]] none,
  .srv (.submit none none (.array [⟨0, 1, 1⟩] none) [ntk 0]),
  .srv (.schedule { now := 10, sn := [{ rq := 0, v := 0, counts := [(1, 1)], taken := [(1, 0)] }] }),
  .deliverS2W 1 [{ rq := 0, alloc := some 7 }],
  .srv (.cancel 1 [(1, 0)]),
  .wlocal 1 (.taskEnd (enc (1, 0)) .finished []),
  .deliverW2S 1 [], .deliverW2S 1 [], .deliverS2W 1 []]

example : RunOk {} opsCancelRace := by decide
example : sJobs (run {} opsCancelRace) = some [[(0, .canceled)]] ∧ sCore (run {} opsCancelRace) = some [] ∧
    sWorkers (run {} opsCancelRace) = some [(1, 0, 0, [])] := by decide

/-- **the retract comes too late**: task (1,1) is prefilled on worker 1, the next round redirects it to worker 2
(Retracting, `RetractTasks` to worker 1); before that message arrives task (1,0) ends on worker 1 and the prefill loop
starts (1,1): the stream of worker 1 is `[Running (1,0)] [Finished (1,0), RunningPrefilled (1,1)] RetractResponse []`.
The core takes (1,1) from Retracting to Running on worker 1 and drops the redirect -/
private def opsRetractRace : List Op := [
  .srv (.newRq rq1), .addWorker (wkr 1) [[0]] none, .addWorker (wkr 2) [[0]] none,
  .srv (.submit none none (.array [⟨0, 3, 1⟩] none) [ntk 0, ntk 1, ntk 2]),
  .srv (.schedule { sn := [{ rq := 0, v := 0, counts := [(1, 1)], taken := [(1, 0)] }], prefillOrders := [(0, [1])] }),
  .srv (.schedule { sn := [{ rq := 0, v := 0, counts := [(2, 2)], taken := [(1, 2), (1, 1)] }] }),
  .deliverS2W 1 [{ rq := 0 }, { rq := 0, alloc := some 1 }],
  .wlocal 1 (.taskEnd (enc (1, 0)) .finished []),
  .deliverS2W 1 [],
  .deliverW2S 1 [], .deliverW2S 1 [], .deliverW2S 1 []]

example : RunOk {} opsRetractRace := by decide
example : sJobs (run {} opsRetractRace) = some [[(0, .finished), (1, .running), (2, .waiting)]] ∧
    sCore (run {} opsRetractRace) = some [((1, 1), .running 1 0), ((1, 2), .assigned 2 0)] ∧
    sWorkers (run {} opsRetractRace) = some [(1, 0, 0, [enc (1, 1)]), (2, 1, 0, [])] := by decide

/-- **the worker is lost with three messages in flight** (`Running (1,0)`, `Finished (1,0)` + `RunningPrefilled (1,1)`):
they vanish with the connection; (1,0) goes back to Waiting, (1,1) to its redirect target -/
private def opsLost : List Op :=
  opsRetractRace.take 8 ++ [.loseWorker 1 "lost" true [(1, 0)] [], .srv (.schedule { sn := [] })]

example : RunOk {} opsLost := by decide
example : sJobs (run {} opsLost) = some [[(0, .waiting), (1, .waiting), (2, .waiting)]] ∧
    sCore (run {} opsLost) = some [((1, 0), .waiting 0), ((1, 1), .assigned 2 0), ((1, 2), .assigned 2 0)] ∧
    sWorkers (run {} opsLost) = some [(2, 2, 0, [])] := by decide

/-- after the cancel is answered (6 actions) worker 1 still runs the task, `Running` is on its way to the server and
`CancelTasks` on its way to the worker (`sysw_c08_cancel_sent`) -/
example : sWorkers (run {} (opsCancelRace.take 6)) = some [(1, 1, 1, [enc (1, 0)])] := by decide

private def sysStopOf (r : Except Stop (State × List Out)) : Option Sys.Stop :=
  match r with
  | .error (.sys e) => some e
  | _ => none

/-- the core's ready queues, and per core worker record: id, whether it is back to an EMPTY single-node assignment
with all resources free, and its blocked (request, variant) pairs -/
private def sQueues (r : Except Stop (State × List Out)) : Option (List (List (Int × List TaskId))) :=
  r.toOption.map fun x => x.1.sys.core.queues.map (·.ready)
private def sCoreWorkers (r : Except Stop (State × List Out)) : Option (List (Nat × Bool × List (Nat × Nat))) :=
  r.toOption.map fun x => x.1.sys.core.workers.map fun wk =>
    (wk.id, (match wk.assign with | .sn [] free [] => decide (free = wk.total) | _ => false), wk.blocked)

/-- **REGRESSION of finding F32** (`task_reject` ended in `unreachable!()` for `RunningMultiNode`; before the fix this
run — all side conditions true — stopped with `Stop.sys (.core "task_reject.unreachable")`): a multi-node task whose
root is a worker with less remaining life time (50 s) than the request's `min_time` (100 s). The worker hard-rejects it
(`try_start_task`: `remaining_time() < min_time` → `RejectRequest`). With the fix `task_reject` treats the refusal of a
placed, NOT started multi-node task by its root as a regular transition: the reserved workers are reset
(`reset_mn_task_workers`), the task goes back to `Waiting 0` — same instance id, no client callback — and into the
ready queue, and the root stays blocked for (request 0, variant 0). (How the placement arises although the solver now
tests the root's life time: the core's record of worker 1 has no termination time — clock skew / a worker that
announces none — while the worker itself has 50 s left.) -/
private def opsMnReject : List Op := [
  .srv (.newRq [{ nNodes := 1, entries := [], minTime := 100 }]), .addWorker (wkr 1) [[100]] (some 50),
  .srv (.submit none none (.array [⟨0, 1, 1⟩] none) [ntk 0]),
  .srv (.schedule { now := 10, mn := [{ rq := 0, sets := [[1]] }] }),
  .deliverS2W 1 [{ rq := 0, alloc := some 7 }],
  .deliverW2S 1 []]

example : RunOk {} opsMnReject := by decide
/-- before the reject is delivered the task is `RunningMultiNode [1]`, worker 1 is reserved for it (not free) and the
`RejectRequest` is in its queue to the server -/
example : sCore (run {} (opsMnReject.take 5)) = some [((1, 0), .runningMN [1])] ∧
    sWorkers (run {} (opsMnReject.take 5)) = some [(1, 0, 1, [])] := by decide
example : sCoreWorkers (run {} (opsMnReject.take 5)) = some [(1, false, [])] := by decide
/-- the run does NOT stop; afterwards the task is `Waiting 0` in the core and in the ready queue of its request, the
job layer still has it `waiting` (no callback was made), worker 1 is free again (empty single-node assignment, all
resources free), blocked for (request 0, variant 0), and nothing is in flight -/
example : sysStopOf (run {} opsMnReject) = none ∧ (run {} opsMnReject).toOption.isSome = true ∧
    sCore (run {} opsMnReject) = some [((1, 0), .waiting 0)] ∧
    sJobs (run {} opsMnReject) = some [[(0, .waiting)]] ∧
    sWorkers (run {} opsMnReject) = some [(1, 0, 0, [])] := by decide
example : sQueues (run {} opsMnReject) = some [[(0, [(1, 0)])]] := by decide
example : sCoreWorkers (run {} opsMnReject) = some [(1, true, [(0, 0)])] := by decide
/-- … and the next round may place it again (here on a second worker that has the time): the composed run goes on -/
example : RunOk {} (opsMnReject ++ [.addWorker (wkr 2) [[100]] none,
      .srv (.schedule { now := 20, mn := [{ rq := 0, sets := [[2]] }] }), .deliverS2W 2 [{ rq := 0, alloc := some 7 }],
      .deliverW2S 2 []]) ∧
    sCore (run {} (opsMnReject ++ [.addWorker (wkr 2) [[100]] none,
      .srv (.schedule { now := 20, mn := [{ rq := 0, sets := [[2]] }] }), .deliverS2W 2 [{ rq := 0, alloc := some 7 }],
      .deliverW2S 2 []])) = some [((1, 0), .runningMN [2])] ∧
    sJobs (run {} (opsMnReject ++ [.addWorker (wkr 2) [[100]] none,
      .srv (.schedule { now := 20, mn := [{ rq := 0, sets := [[2]] }] }), .deliverS2W 2 [{ rq := 0, alloc := some 7 }],
      .deliverW2S 2 []])) = some [[(0, .running)]] := by decide

/-- the side condition "no task id is submitted twice" is checked: a second submit of the same id violates `OpOk` -/
example : ¬ RunOk {} (opsLife ++ [.srv (.submit (some 1) none (.array [⟨0, 1, 1⟩] none) [ntk 0])]) := by decide

end examples

end HqModel.SysW
