import HqModel.Lemmas.CoreNoPanicStep
import HqModel.Lemmas.CoreNoPanicLossP2
import HqModel.Lemmas.CoreNoPanicWitness
/-!
# C09 — no reachable panic: the tako server core (model M1), PROGRESS

Every `unwrap` / `assert!` / `unreachable!` / index of the reactor and of the scheduler mapping is an explicit
outcome `.error (.panic "<site>")` of `Core.step` (≈ 90 sites); a site whose name starts with `!` is the refusal of an
invalid RECORDED input (`!bad-choice …`: solver answer, hash-order pick), not a panic of the code. All earlier
theorems about M1 are of the preservation kind ("if the step succeeds the invariant holds afterwards"); here:

* `c09_core_step_no_panic` — in every state that satisfies the invariant `CoreGood U s`, every operation that
  satisfies its side conditions does not panic: `step s op` is a value or a `!…` refusal;
* `c09_core_inv_step` / `c09_core_inv_reachable` — the invariant is inductive / holds in every reachable state;
* `c09_core_run_no_panic` — no run from the empty core whose operations satisfy the side conditions, and that submits
  no task id twice, ends in a panic of the code;
* `c09_core_f27_witness` — the one exclusion (`NoF27`, the known finding F27) cannot be dropped.

**Invariant.** `CoreGood U s = InvF s ∧ QInv U none [] s ∧ NpInv U [] s`: the existing structural invariant (both
directions of the worker ↔ task checks), the existing queue / dependency-count invariant, and the NEW `NpInv`
(`Lemmas/CoreNoPanicDefs.lean`): worker ids unique, free vector as long as total; one queue per request, every `rq` in
range, every held (worker, variant) exists and names only resource slots of that worker; RunningMultiNode lists
non-empty and duplicate-free, single-node states only for single-node requests; consumers are tasks of the map,
dependency registration in both directions; and the EXACT queue ↔ state correspondence (ready lists sorted,
entries non-empty and ascending, an id is queued iff its task is `Waiting 0` / Retracting without redirect, the
prefill sets are exactly the Prefilled tasks).

**Side conditions** (all decidable, evaluated on the pre-state): `NpOk2 s op = OpOk2q s op ∧ OpNP s op ∧ OpExcl s op`.
`OpOk2q` = the existing conditions WITHOUT `QueueOkD`, `RqvOk`, `NoSaturation` (fresh worker record, `RejectOk`,
multi-node placements for multi-node requests). `OpNP` = NEW input conditions: the worker id is new; the lost worker
is known; `on_new_tasks` is non-empty, names existing requests, no dependency twice; cancel lists name a task once
(also those returned by the client's `on_task_error`); the worker protocol `UpdNP` for every update of a message
(judged in the state in which the reactor processes it); `SolOk` for the recorded solution (entries for existing
single-node (request, variant)s, not more placements than the queue offers, multi-node sets of distinct free
workers). `OpExcl` = `NoF27`. Necessity witnesses (`decide`) for each: `Lemmas/CoreNoPanicWitness.lean`.
Neither `NoSaturation` (F29) nor `RqvOk` is needed: the saturating arithmetic never panics.
-/
namespace HqModel.Core

/-- a run followed by a step that stops, stops -/
theorem run_append_stop : ∀ (pre : List Op) (s s1 : State) (o1 : Out) (op : Op) (e : Stop),
    run s pre = .ok (s1, o1) → step s1 op = .error e → run s (pre ++ [op]) = .error e
  | [], s, s1, o1, op, e, h1, h2 => by
    simp only [run] at h1; cases h1
    simp only [List.nil_append, run, h2]
  | x :: pre, s, s1, o1, op, e, h1, h2 => by
    simp only [run] at h1
    cases hx : step s x with
    | error e' => rw [hx] at h1; cases h1
    | ok r =>
      obtain ⟨sa, oa⟩ := r
      simp only [hx] at h1
      cases hr : run sa pre with
      | error e' => rw [hr] at h1; cases h1
      | ok r2 =>
        obtain ⟨sb, ob⟩ := r2
        simp only [hr] at h1
        cases h1
        simp only [List.cons_append, run, hx, run_append_stop pre sa _ ob op e hr h2]

end HqModel.Core

namespace HqModel.C09

open HqModel.Core

/-- **C09, one step of the core**: from the invariant and the side conditions of the operation, `step s op` is never a
panic of the code (`NoCorePanic`: for every `site`, `step s op = .error (.panic site)` implies that `site` starts
with `!`, i.e. is a refusal of an invalid recorded input). `U` = ghost list of all task ids submitted so far. -/
theorem c09_core_step_no_panic {U : List TaskId} {s : State} {op : Op} (hg : CoreGood U s) (hok : OpOk2q s op)
    (hnp : OpNP s op) (hex : OpExcl s op) (hfresh : ∀ x ∈ op.newIds, x ∉ U) (hnd : op.newIds.Nodup) :
    ∀ site, step s op = .error (.panic site) → site.startsWith "!" = true :=
  step_np_of (fun _ _ _ _ _ _ _ hi hq hn hw hr => NPL.removeWorker_np hi hq hn hw hr) hg hok hnp hex hfresh hnd

/-- the operations that have no `!…` outcome never stop at all -/
theorem c09_core_step_ok {U : List TaskId} {s : State} {op : Op} (hg : CoreGood U s) (hok : OpOk2q s op)
    (hnp : OpNP s op) (hex : OpExcl s op) (hfresh : ∀ x ∈ op.newIds, x ∉ U) (hnd : op.newIds.Nodup)
    (hop : (∀ sol, op ≠ .schedule sol) ∧ ∀ w r f o rets, op ≠ .removeWorker w r f o rets) :
    ∃ r, step s op = .ok r := by
  obtain ⟨hi, hq, hn⟩ := hg
  have hb := NPR.Bd.of hi hq hn
  cases op with
  | newWorker w => exact ⟨_, rfl⟩
  | removeWorker w reason f order rets => exact absurd rfl (hop.2 w reason f order rets)
  | newRq rqv => exact ⟨_, rfl⟩
  | newTasks nts =>
    exact NP.newTasks_ok hq hi.tw hn.idx hn.q hnp (fun nt hnt => hfresh nt.id (List.mem_map_of_mem hnt)) hnd
  | cancel ids => exact NPR.cancelTasks_ok hb hnp
  | update w us rets => exact NPR.taskUpdate_ok hb hok hnp.1 hex hnp.2
  | retracted w ids => exact NP.retractResponse_ok s w ids
  | schedule sol => exact absurd rfl (hop.1 sol)

/-- **the invariant is inductive** -/
theorem c09_core_inv_step {U : List TaskId} {s s' : State} {op : Op} {out : Out} (hg : CoreGood U s)
    (hok : OpOk2q s op) (hnp : OpNP s op) (hex : OpExcl s op) (hfresh : ∀ x ∈ op.newIds, x ∉ U)
    (hnd : op.newIds.Nodup) (h : step s op = .ok (s', out)) : CoreGood (U ++ op.newIds) s' :=
  coreGood_step hg hok hnp hex hfresh hnd h

/-- **the invariant holds in every reachable state** -/
theorem c09_core_inv_reachable {ops : List Op} {s : State} {out : Out} (hok : RunOk NpOk2 {} ops)
    (hr : NoIdReuse ops) (h : run {} ops = .ok (s, out)) : CoreGood (allNewIds ops) s :=
  coreGood_run hok hr h

/-- **C09, all runs of the core**: a run from the empty core whose operations satisfy the side conditions (each
judged in the state it is applied to) and that submits no task id twice never ends in a panic of the code: if it
stops, the site is a `!…` refusal of an invalid recorded input. -/
theorem c09_core_run_no_panic {ops : List Op} (hok : RunOk NpOk2 {} ops) (hr : NoIdReuse ops) :
    ∀ site, run {} ops = .error (.panic site) → site.startsWith "!" = true :=
  (NP.run_no_panic_gen (G := CoreGood) (C := NpOk2)
    (fun _ _ _ hg hc hf hn => c09_core_step_no_panic hg hc.1 hc.2.1 hc.2.2 hf hn)
    (fun _ _ _ _ _ hg hc hf hn hs => coreGood_step hg hc.1 hc.2.1 hc.2.2 hf hn hs)
    ops {} [] coreGood_init (by simpa [NoIdReuse] using hr) hok).1

/-- the same under the project's full side conditions `OpOk5` (which add `RqvOk` and `NoSaturation`) -/
theorem c09_core_run_no_panic' {ops : List Op} (hok : RunOk NpOk {} ops) (hr : NoIdReuse ops) :
    ∀ site, run {} ops = .error (.panic site) → site.startsWith "!" = true :=
  c09_core_run_no_panic (RunOk.mono (fun _ _ h => ⟨h.1.ok2q, h.2.1, h.2.2⟩) ops _ hok) hr

/-- in particular: for every operation of such a run, applied to the state the run has reached -/
theorem c09_core_run_step_no_panic {pre : List Op} {op : Op} {s : State} {out : Out}
    (hok : RunOk NpOk2 {} (pre ++ [op])) (hr : NoIdReuse (pre ++ [op])) (h : run {} pre = .ok (s, out)) :
    ∀ site, step s op = .error (.panic site) → site.startsWith "!" = true := by
  intro site hs
  exact c09_core_run_no_panic hok hr site (run_append_stop pre _ _ _ op _ h hs)

/-- **`task_reject` of a RunningMultiNode task does not panic — WITHOUT the tail hypotheses** of
`c09_mn_reject_no_panic` (`hq`: the request has a queue; `hpf`: `add_ready_task` disposes no prefill set): in a state
that satisfies `CoreGood` the common tail of `task_reject` (`add_ready_task`, `process_retracted`) cannot panic —
`NpIdx` gives the queue index, `NpQ` + `TWI` say that every disposed prefill id is a Prefilled task listed by its worker.
(No claim about the output: a disposed prefill set produces retract messages.) -/
theorem c09_mn_reject_no_panic' {U : List TaskId} {s : State} (hg : CoreGood U s) (w : Nat) (id : TaskId)
    (rv : Option Nat) (task : Task) (ws : List Nat) (ht : s.task? id = some task) (hs : task.state = .runningMN ws)
    (hw : (s.worker? w).isSome = true) : ∃ r, s.taskReject w id rv = .ok r := by
  obtain ⟨hi, hq, hn⟩ := hg
  refine NPR.taskReject_ok (NPR.Bd.of hi hq hn) ?_ ?_
  · unfold UpdNP
    refine ⟨hw, ?_⟩
    simp only [ht, hs]
  · intro t w' rv' ht' hs'
    rw [ht] at ht'; cases ht'
    rw [hs] at hs'; cases hs'

/-- … in every reachable state -/
theorem c09_mn_reject_no_panic_reachable' {ops : List Op} {s : State} {out : Out} (hok : RunOk NpOk2 {} ops)
    (hr : NoIdReuse ops) (hrun : run {} ops = .ok (s, out)) (w : Nat) (id : TaskId) (rv : Option Nat) (task : Task)
    (ws : List Nat) (ht : s.task? id = some task) (hs : task.state = .runningMN ws)
    (hw : (s.worker? w).isSome = true) : ∃ r, s.taskReject w id rv = .ok r :=
  c09_mn_reject_no_panic' (coreGood_run hok hr hrun) w id rv task ws ht hs hw

/-! ### non-vacuity and witnesses (all `decide`) -/

/-- the hypotheses are satisfiable on non-trivial runs (placements, prefill + retract + redirect, reject, worker loss
with a redirect, dependencies): every side condition holds on every operation and nothing stops -/
example : RunOk NpOk {} resendOps ∧ NoIdReuse resendOps ∧ runStop resendOps = none := by decide
example : RunOk NpOk {} lossOps ∧ NoIdReuse lossOps ∧ runStop lossOps = none := by decide
example : RunOk NpOk {} depOps ∧ NoIdReuse depOps ∧ runStop depOps = none := by decide

/-- and `NpOk` implies the hypotheses of the run theorem -/
example : RunOk NpOk2 {} lossOps :=
  RunOk.mono (fun _ _ h => ⟨h.1.ok2q, h.2.1, h.2.2⟩) _ _ (by decide : RunOk NpOk {} lossOps)

/-- **F27 — the exclusion `NoF27` cannot be dropped**: on `f27Ops` every side condition holds on every operation;
on the final update (`RunningPrefilled` for a task whose retraction is under way, from a worker that meanwhile got a
multi-node task) every condition except `NoF27` holds, and the step ends in `insert_sn_task.unreachable`. -/
theorem c09_core_f27_witness :
    RunOk NpOk {} f27Ops ∧ NoIdReuse (f27Ops ++ [f27Op]) ∧ runStop f27Ops = none ∧
    NpOk0 (endState f27Ops) f27Op ∧ ¬ OpExcl (endState f27Ops) f27Op ∧
    step (endState f27Ops) f27Op = .error (.panic "insert_sn_task.unreachable") := f27_witness

end HqModel.C09
