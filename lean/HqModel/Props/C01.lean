import HqModel.Props.WorkerSide
import HqModel.Lemmas.JobSteps
import HqModel.Lemmas.JobHistory
import HqModel.Lemmas.CoreSteps
import HqModel.Lemmas.CoreInvIds
/-!
# C01 — exactly one terminal outcome, reported once, in order

Two layers carry the property: the job layer (M4) refuses every second terminal transition and every finish
that was not preceded by a start; the core (M1) makes a task unknown in the very step in which it reports its
outcome, and ignores every later worker message about an unknown task. The worker-side clause (time limit)
is `HqModel.WorkerSide.c01_timeout`. The history form over the composed system (`OutcomeOnce` over event
lists of whole cluster runs) is checked by the harness monitor `c01.outcome_once` on every real trace and is
not yet a theorem (`c01_sim_partial` in DESIGN.md 7/C01).
-/
namespace HqModel.C01
open HqModel

/-- **A finish is accepted only for a task that was started**: `set_finished_state` succeeds only on a
Running task, and a task becomes Running only through `on_task_started`. For all jobs and tasks. -/
theorem c01_finish_needs_start (job job' : Job.Job) (t : Nat) (evs : List Job.Ev)
    (e : job.setFinished t = .ok (job', evs)) : Job.lookup job.tasks t = some .running :=
  Job.setFinished_ok_running e

/-- **The outcome is final in the job layer**: once a task is finished / failed / canceled / aborted, every
further terminal transition (finish, fail, cancel, abort, worker-lost reset) is refused (the Rust code panics
instead of announcing a second outcome) and a late start report does not change the task. -/
theorem c01_terminal_is_final (job : Job.Job) (t : Nat) (st : Job.TState)
    (hl : Job.lookup job.tasks t = some st) (ht : st.terminal = true) :
    (∃ e, job.setFinished t = .error e) ∧ (∃ e, job.setFailed t = .error e) ∧ (∃ e, job.setWaiting t = .error e) ∧
    (∀ target site rest, ∃ e, job.markAll target site ((job.id, t) :: rest) = .error e) ∧
    job.setRunning t = .ok job :=
  Job.terminal_is_final hl ht

/-- **The core forgets the task together with its outcome**: after `Core::remove_task` (called by
`task_finished`, `task_failed`, `on_cancel_tasks` in the step that reports the outcome) the id is unknown. -/
theorem c01_core_forgets (s s' : Core.State) (id : Core.TaskId) (st : Core.TS)
    (hnd : (Core.taskIds s.tasks).Nodup) (h : s.removeTask id = .ok (s', st)) : s'.task? id = none :=
  Core.removeTask_unknown hnd h

/-- **Nothing is reported for an unknown task**: Running / Finished / Failed / Reject messages about a task
the core no longer knows produce no callback and no state change, for every worker and state. -/
theorem c01_core_ignores_unknown (s : Core.State) (w : Nat) (id : Core.TaskId) (rv : Nat) (orv : Option Nat)
    (h : s.task? id = none) :
    s.taskRunning w id rv = .ok (s, {}) ∧ s.taskFinished w id = .ok (s, {}, false) ∧
    s.taskFailed (some w) id [] = .ok (s, {}) ∧ s.taskReject w id orv = .ok (s, {}, false) :=
  Core.unknown_task_ignored s w id rv orv h

/-- non-vacuity: a job with a finished task refuses a second finish -/
example : (({ id := 1, tasks := [(0, .finished)], isOpen := false, maxFails := none } : Job.Job).setFinished 0).toOption
    = none := by decide

/-- **The core forgets the task together with its outcome, in every reachable state**: task ids are unique in
every state the core reaches from the empty state by ANY sequence of operations (`Core.run_nodup`), hence after
`Core::remove_task` the id is unknown — no uniqueness hypothesis. -/
theorem c01_core_forgets_reachable (ops : List Core.Op) (s : Core.State) (out : Core.Out)
    (hrun : Core.run {} ops = .ok (s, out)) (s' : Core.State) (id : Core.TaskId) (st : Core.TS)
    (h : s.removeTask id = .ok (s', st)) : s'.task? id = none :=
  Core.removeTask_unknown (Core.run_nodup hrun) h

/-- non-vacuity of `c01_core_forgets_reachable`: a run that submits two tasks, after which `remove_task` succeeds -/
example : ((Core.run {} [.newRq [{}], .newTasks [⟨(1, 0), 0, 0, .max 5, [], 0, 0⟩, ⟨(1, 1), 0, 0, .max 5, [(1, 0)], 0, 0⟩]]).toOption.map
    fun r => (r.1.tasks.map (·.id), (r.1.removeTask (1, 1)).toOption.map (·.1.tasks.map (·.id)))) =
    some ([(1, 0), (1, 1)], some [(1, 0)]) := by decide

/-- **History form for the job layer: every task gets at most one terminal report, exactly one iff its state
is terminal, and a finish is reported only after a start.** For ALL operation sequences `ops` (client requests
and tako callbacks in any order, any length) and every run from the empty server state that does not stop with
a panic, with `evs` = all events emitted during the run (`Job.termCount t evs` counts the terminal reports of
`t`: `finished t`, `failed t`, and the occurrences of `t` in the id lists of `canceled` / `aborted` events):

* (a) no task id — also of jobs that were forgotten meanwhile — is reported more than once;
* (b) for every job still stored and every task of it: exactly one report if the task's state is terminal
  (finished / failed / canceled / aborted), none if it is waiting or running;
* (c) every `finished t` event is preceded in `evs` by a `started t …` event. -/
theorem c01_outcome_once (ops : List Job.Op) (s : Job.State) (evs : List Job.Ev)
    (h : Job.run {} ops = .ok (s, evs)) :
    (∀ t : Job.TaskId, Job.termCount t evs ≤ 1) ∧
    (∀ job ∈ s.jobs, ∀ p ∈ job.tasks,
      Job.termCount (job.id, p.1) evs = if p.2.terminal then 1 else 0) ∧
    (∀ t pre post, evs = pre ++ [Job.Ev.finished t] ++ post →
      ∃ i ws rv, Job.Ev.started t i ws rv ∈ pre) := by
  have hist := Job.run_hist h
  have wf := Job.run_wf ops Job.init_wf h
  refine ⟨hist.once, ?_, ?_⟩
  · intro job hj p hp
    have hf := Job.findJob_of_mem wf.ids hj
    have hl := Job.lookup_of_mem (wf.jobs job hj).nodup (t := p.1) (a := p.2) hp
    rw [hist.cnt _ _ hf p.1, hl]
    rfl
  · intro t pre post he
    exact hist.order t pre post (by simpa using he)

/-- non-vacuity of `c01_outcome_once`: open job 1, submit tasks 0,1,2, start and finish task 0, fail task 1
(running) with task 2 as a consumer, close: the run does not panic, task 0 and 1 have one report each (finished
/ failed), task 2 one (aborted), an id that is no task has none. -/
example :
    (Job.run {} [.openJob none, .submit (some 1) none (.array [⟨0, 3, 1⟩] none),
             .started (1, 0) 0 [1] 0, .started (1, 1) 0 [1] 0, .finished (1, 0), .failed (1, 1) [(1, 2)],
             .close 1]).toOption.map
      (fun r => ([(1, 0), (1, 1), (1, 2), (1, 3)].map (Job.termCount · r.2),
                 r.1.jobs.map fun j => j.tasks.map (·.2)))
    = some ([1, 1, 1, 0], [[.finished, .failed, .aborted]]) := by decide

end HqModel.C01
