import HqModel.Lemmas.JobSteps
import HqModel.Lemmas.CoreSteps
/-!
# C01 — exactly one terminal outcome, reported once, in order

Two layers carry the property: the job layer (M4) refuses every second terminal transition and every finish
that was not preceded by a start; the core (M1) makes a task unknown in the very step in which it reports its
outcome, and ignores every later worker message about an unknown task. The worker-side clause (time limit)
is `HqModel.WorkerSide.c01_timeout`. The history form over the composed system (`OutcomeOnce` over event
lists of whole cluster runs) is checked by the harness monitor `c01.outcome_once` on every real trace and is
not yet a theorem (`c01_sim_partial` in DESIGN.md 7/C01).
-/
namespace HqModel.C01
open HqModel

/-- **A finish is accepted only for a task that was started**: `set_finished_state` succeeds only on a
Running task, and a task becomes Running only through `on_task_started`. For all jobs and tasks. -/
theorem c01_finish_needs_start (job job' : Job.Job) (t : Nat) (evs : List Job.Ev)
    (e : job.setFinished t = .ok (job', evs)) : Job.lookup job.tasks t = some .running :=
  Job.setFinished_ok_running e

/-- **The outcome is final in the job layer**: once a task is finished / failed / canceled / aborted, every
further terminal transition (finish, fail, cancel, abort, worker-lost reset) is refused (the Rust code panics
instead of announcing a second outcome) and a late start report does not change the task. -/
theorem c01_terminal_is_final (job : Job.Job) (t : Nat) (st : Job.TState)
    (hl : Job.lookup job.tasks t = some st) (ht : st.terminal = true) :
    (∃ e, job.setFinished t = .error e) ∧ (∃ e, job.setFailed t = .error e) ∧ (∃ e, job.setWaiting t = .error e) ∧
    (∀ target site rest, ∃ e, job.markAll target site ((job.id, t) :: rest) = .error e) ∧
    job.setRunning t = .ok job :=
  Job.terminal_is_final hl ht

/-- **The core forgets the task together with its outcome**: after `Core::remove_task` (called by
`task_finished`, `task_failed`, `on_cancel_tasks` in the step that reports the outcome) the id is unknown. -/
theorem c01_core_forgets (s s' : Core.State) (id : Core.TaskId) (st : Core.TS)
    (hnd : (Core.taskIds s.tasks).Nodup) (h : s.removeTask id = .ok (s', st)) : s'.task? id = none :=
  Core.removeTask_unknown hnd h

/-- **Nothing is reported for an unknown task**: Running / Finished / Failed / Reject messages about a task
the core no longer knows produce no callback and no state change, for every worker and state. -/
theorem c01_core_ignores_unknown (s : Core.State) (w : Nat) (id : Core.TaskId) (rv : Nat) (orv : Option Nat)
    (h : s.task? id = none) :
    s.taskRunning w id rv = .ok (s, {}) ∧ s.taskFinished w id = .ok (s, {}, false) ∧
    s.taskFailed (some w) id [] = .ok (s, {}) ∧ s.taskReject w id orv = .ok (s, {}, false) :=
  Core.unknown_task_ignored s w id rv orv h

/-- non-vacuity: a job with a finished task refuses a second finish -/
example : (({ id := 1, tasks := [(0, .finished)], isOpen := false, maxFails := none } : Job.Job).setFinished 0).toOption
    = none := by decide

end HqModel.C01
