import HqModel.Props.C03Restart
import HqModel.Lemmas.CoreSteps
/-!
# C03 — dependencies: never start early; failure/cancel propagates

Proved here (M1): a new task whose number of unfinished dependencies is positive enters no ready queue
(so the scheduler, which only takes tasks from ready queues, cannot place it), and failure/cancel removes the
task together with its outcome (`C01.c01_core_forgets`). That every `ComputeTasks` names only tasks whose
dependencies all finished, and that all transitive dependents of a failed/cancelled task are aborted and never
started, is evaluated on every real trace by the monitors `c03.no_early_start` / `c03.propagate`; the global
invariant `DepInv` is not yet a theorem (`c03_*_partial`). Restart clause: `c03_restart` (Props/C03Restart.lean, component `journal`).
-/
namespace HqModel.C03
open HqModel.Core

/-- **A task with unfinished dependencies is not made ready**, for every core state and new task. -/
theorem c03_not_ready_with_deps (s : State) (nt : NewTask) (s' : State) (r : List TaskId)
    (h : s.addNewTasks [nt] [] = .ok (s', r)) (hn : (registerDeps s.tasks nt.id nt.deps).2.2 > 0) :
    s'.queues = s.queues :=
  addNewTasks_waits s nt s' r h hn

/-- non-vacuity: task (1,1) depends on the unfinished task (1,0): count 1 -/
example : (registerDeps [{ id := (1, 0) }] (1, 1) [(1, 0)]).2.2 = 1 := by decide

end HqModel.C03
