import HqModel.Props.C03Restart
import HqModel.Lemmas.CoreSteps
import HqModel.Lemmas.CoreMsgWitness
/-!
# C03 — dependencies: never start early; failure/cancel propagates

Proved here (M1): a new task whose number of unfinished dependencies is positive enters no ready queue
(so the scheduler, which only takes tasks from ready queues, cannot place it), and failure/cancel removes the
task together with its outcome (`C01.c01_core_forgets`). That every `ComputeTasks` names only tasks whose
dependencies all finished, and that all transitive dependents of a failed/cancelled task are aborted and never
started, is evaluated on every real trace by the monitors `c03.no_early_start` / `c03.propagate`; the global
invariant `DepInv` is not yet a theorem (`c03_*_partial`). Restart clause: `c03_restart` (Props/C03Restart.lean, component `journal`).
-/
namespace HqModel.C03
open HqModel.Core

/-- **A task with unfinished dependencies is not made ready**, for every core state and new task. -/
theorem c03_not_ready_with_deps (s : State) (nt : NewTask) (s' : State) (r : List TaskId)
    (h : s.addNewTasks [nt] [] = .ok (s', r)) (hn : (registerDeps s.tasks nt.id nt.deps).2.2 > 0) :
    s'.queues = s.queues :=
  addNewTasks_waits s nt s' r h hn

/-- non-vacuity: task (1,1) depends on the unfinished task (1,0): count 1 -/
example : (registerDeps [{ id := (1, 0) }] (1, 1) [(1, 0)]).2.2 = 1 := by decide

/-! ## Message level: what the server SENDS, for all runs

`Core.sends msgs` (used in the examples) lists the `(task id, instance id)` pairs of the compute messages of a
message list. The statements below are about every `Msg.compute` in the output of an operation.

"Every dependency has finished" in the vocabulary of the model: `on_new_tasks` registers a new task as a consumer
of every dependency that is in the map (`registerDeps`; a dependency that already left the map has finished — a
failed / cancelled one takes its dependents with it, F16); `task_finished` wakes the consumers and removes the
finished task from the map; nothing else removes a consumer entry of a live consumer. So a task of the map has an
unfinished dependency exactly as long as some task of the map lists it as a consumer. -/

/-- **Only ready tasks are sent — one operation.** For every state satisfying the global invariant `Core.Inv`,
every operation (with its side condition `OpOk2`: a scheduling round starts from queues that pass the queue clause
of the sanity checks `QueueOkD`, a Reject comes from the task's worker) and every compute message the operation
emits — in a scheduling round (assignments, prefills, multi-node placements), as the redirect send of a retract
response / a reject, or for a task retracted from a lost worker —: every task named in the message is a task of
the map of the state the operation is applied to, and NO task of that map lists it as a consumer. -/
theorem c03_compute_only_ready (s s' : State) (op : Op) (out : Out) (hi : Core.Inv s) (hok : Core.OpOk2 s op)
    (h : Core.step s op = .ok (s', out)) (w : Nat) (items : List (TaskId × Nat × Option Nat × List Nat))
    (hm : Msg.compute w items ∈ out.msgs) (it : TaskId × Nat × Option Nat × List Nat) (hit : it ∈ items) :
    (∃ task, s.task? it.1 = some task) ∧ ∀ dt ∈ s.tasks, it.1 ∉ dt.consumers :=
  Core.step_ready hi hok h (it.1, it.2.1) (Core.mem_sends.mpr ⟨w, items, it, hm, hit, rfl⟩)

/-- **Only ready tasks are sent — every step of every run** from the empty core whose operations satisfy the side
conditions (`pre` = the operations before the step, `post` = those after it). -/
theorem c03_compute_only_ready_run (pre post : List Op) (op : Op) (s s' : State) (out out' : Out)
    (hok : Core.RunOk Core.OpOk2 {} (pre ++ op :: post)) (hrun : Core.run {} pre = .ok (s, out))
    (hstep : Core.step s op = .ok (s', out')) (w : Nat) (items : List (TaskId × Nat × Option Nat × List Nat))
    (hm : Msg.compute w items ∈ out'.msgs) (it : TaskId × Nat × Option Nat × List Nat) (hit : it ∈ items) :
    (∃ task, s.task? it.1 = some task) ∧ ∀ dt ∈ s.tasks, it.1 ∉ dt.consumers := by
  obtain ⟨h1, h2⟩ := Core.RunOk.split pre _ _ _ _ hok hrun
  exact c03_compute_only_ready s s' op out' (Core.run_inv h1 hrun) h2.1 hstep w items hm it hit

/-- **A task with an unfinished dependency is held back in every reachable state**: every registered consumer of a
task in the map is Waiting — never Assigned, Prefilled, Retracting, Running, RunningMultiNode or Finished
(`CW3`, part of the global invariant, lifted through `run_inv`). -/
theorem c03_consumers_waiting_reachable (ops : List Op) (s : State) (out : Out)
    (hok : Core.RunOk Core.OpOk2 {} ops) (hrun : Core.run {} ops = .ok (s, out))
    (d c : TaskId) (dt ct : Task) (hd : s.task? d = some dt) (hc : c ∈ dt.consumers) (hct : s.task? c = some ct) :
    ∃ n, ct.state = .waiting n := by
  have := (Core.run_inv hok hrun).cw d dt hd c hc ct.state (Core.stOf_of_find hct)
  cases hs : ct.state <;> rw [hs] at this <;> first | exact ⟨_, rfl⟩ | exact this.elim

/-- non-vacuity: the run `Core.depOps` (task (1,1) depends on task (1,0)) satisfies all side conditions; the server
sends (1,0) first, hears Running and Finished, and only then sends (1,1) -/
example : Core.RunOk Core.OpOk2 {} Core.depOps ∧
    Core.runSends Core.depOps = some ([((1, 0), 0), ((1, 1), 0)], [((1, 0), 0)]) :=
  ⟨Core.RunOk.mono (fun _ _ h => h.1.ok2) _ _ Core.depOps_ok.1, Core.depOps_ok.2.2⟩

/-- … and while (1,0) is unfinished, (1,1) is a registered consumer of it and Waiting 1 -/
example : ((Core.run {} (Core.depOps.take 5)).toOption.map fun r =>
    r.1.tasks.map fun t => (t.id, t.consumers, t.state)) =
    some [((1, 0), [(1, 1)], .running 1 0), ((1, 1), [], .waiting 1)] := by decide

end HqModel.C03
