import HqModel.Props.SysW
import HqModel.Props.C06Restart
import HqModel.Props.WorkerSide
import HqModel.Lemmas.CoreSteps
import HqModel.Lemmas.CoreMsgWitness
import HqModel.Lemmas.CoreMsgLoss
import HqModel.Lemmas.CoreMsgStart
/-!
# C06 — one live execution per task; instance ids strictly increase

Server side (M1): every path on which a task comes back from a lost worker increments its instance id
(`lostPrefilled`, `lostAssigned`, the multi-node root arm and — since the `fix:` commit for F8 —
`lostRetracting`); stated below for the retracting case, which was the defect. Worker side:
`HqModel.WorkerSide.c06_given_back`. The composed statements (`c06_single`, launch log strictly increasing) are
evaluated on every real trace by the monitors `c06.single` / `c06.instance`; `HoldInv` is not yet a theorem.
-/
namespace HqModel.C06
open HqModel.Core

/-- **A task retracted from a lost worker is re-sent with a larger instance id** (single task, with redirect):
the compute message to the redirect target carries `inst + 1`. -/
theorem c06_retracting_lost_increments (s : State) (w target rv : Nat) (task : Task)
    (hs : task.state = .retracting w)
    (ht : s.task? task.id = some task)
    (hr : s.redirects.find? (·.1 = task.id) = some (task.id, target, rv)) :
    ∃ s' , s.lostRetracting w [task] {} = .ok (s',
      { msgs := [.compute target [(task.id, task.inst + 1, some rv, [])]] }) := by
  simp only [State.lostRetracting, ht, hs, hr]
  simp [computeOne, Out.add]

/-- non-vacuity: a concrete state with a retracting task and a redirect -/
example : ∃ s', (State.lostRetracting
    { tasks := [{ id := (1, 0), state := .retracting 5, inst := 3 }], redirects := [((1, 0), 7, 0)] } 5
    [{ id := (1, 0), state := .retracting 5, inst := 3 }] {}) = .ok (s',
      { msgs := [.compute 7 [((1, 0), 4, some 0, [])]] }) :=
  c06_retracting_lost_increments _ 5 7 0 _ rfl rfl rfl

/-! ## Message level: the instance ids the server SENDS, for all runs

`Core.sends msgs` = the `(task id, instance id)` pairs of all `Msg.compute` messages of `msgs`, in message order
(assignments, prefills, multi-node placements, redirect sends after a retract response / a reject / the loss of the
worker a task was being retracted from); `Core.starts cbs` = the `(task id, instance id)` pairs of the `started`
callbacks. `Core.NoIdReuse ops` = no task id is submitted (`newTasks`) twice in `ops` — decidable, a fact about the
client of the core (HyperQueue attaches fresh ids, `C02.c02_submit_ids`); it cannot be dropped (`c06_reuse_witness`).
`c06_sends_nondecreasing`, `c06_sent_le_current`, `c06_inst_never_decreases` need no other side condition: they hold
for ALL runs of the model, whatever the workers report. `c06_send_after_start` additionally assumes the side
conditions `OpOk2` of the global invariant `InvF` on the run that made the announcement (since the fix of F32: see
there).

What is true and what is not:
* the instance ids sent for one task NEVER DECREASE (`c06_sends_nondecreasing`) and never exceed the task's current
  one (`c06_sent_le_current`);
* they do NOT strictly increase: a task that a worker gave back WITHOUT starting it — successful retract
  (`on_retract_response`), `task_reject` (since the fix of F32 also of a multi-node task by its root:
  `c06_mn_reject_witness`) — is sent again with the SAME instance id (`c06_equal_resend_witness`: concrete runs
  satisfying every side condition). The server increments the instance id only when a task comes back
  from a LOST worker (`lostPrefilled`, `lostAssigned`, the multi-node root arm, `lostRetracting`);
* once the server has announced a start of instance `i` (`started` callback: the task is Running, or
  RunningMultiNode with the `started` flag of its root set), every LATER send of that task carries a strictly larger
  instance id (`c06_send_after_start`) — so an instance id is re-sent only while the server has not heard that it
  started; `c06_started_stays` says what the task is as long as its instance id is the announced one;
* finding (`c06_started_unsent_witness`): the instance id announced by `started` need not be one that was ever sent. -/

/-- **The instance id of a task in the map never decreases** along any run in which the id is not submitted again
(`s` = any reachable state, `ops` = any continuation). -/
theorem c06_inst_never_decreases (pre ops : List Op) (s s' : State) (out out' : Out)
    (hpre : Core.run {} pre = .ok (s, out)) (hrun : Core.run s ops = .ok (s', out'))
    (id : TaskId) (hid : id ∉ Core.allNewIds ops) (t t' : Task)
    (ht : s.task? id = some t) (ht' : s'.task? id = some t') : t.inst ≤ t'.inst :=
  (Core.run_task_mono (Core.run_nodup hpre) hrun hid ht ht').1

/-- **The instance ids sent for one task never decrease**: in the message history of every run from the empty core
in which no task id is submitted twice, whenever two compute messages name the same task, the later one carries an
instance id at least as large as the earlier one. -/
theorem c06_sends_nondecreasing (ops : List Op) (s : State) (out : Out) (hr : Core.NoIdReuse ops)
    (hrun : Core.run {} ops = .ok (s, out)) :
    (Core.sends out.msgs).Pairwise fun p q => p.1 = q.1 → p.2 ≤ q.2 :=
  (Core.Hist.of_run hr hrun).mono

/-- **No sent instance id exceeds the task's current one**: after every such run, a task that is still in the map
has an instance id at least as large as every instance id it was ever sent with. -/
theorem c06_sent_le_current (ops : List Op) (s : State) (out : Out) (hr : Core.NoIdReuse ops)
    (hrun : Core.run {} ops = .ok (s, out)) (p : TaskId × Nat) (hp : p ∈ Core.sends out.msgs)
    (t : Task) (ht : s.task? p.1 = some t) : p.2 ≤ t.inst :=
  (Core.Hist.of_run hr hrun).hi p hp t (Core.findTask_some_mem ht) (Core.findTask_some_id ht)

/-- **After an announced start every later send is strictly larger**: if the server announced `started` for
instance `i` of a task during the operations `pre`, then every compute message for that task emitted by a LATER
operation carries an instance id `> i`.

Side condition `hok` (added with the fix of F32): the operations that led to the announcement satisfy `OpOk2` — the
input conditions under which the global invariant `InvF` is proved (fresh worker records, Reject protocol for
Assigned tasks, `QueueOkD` / `SolMnOk` before a round); the driver evaluates them on every real operation
(`core.hyp`). Why it is needed now: the fixed `task_reject` takes a RunningMultiNode task back to Waiting WITHOUT
incrementing the instance id when its root has not started it; that a Reject cannot do this AFTER the start was
announced is decided by the `is_started` flag of the ROOT'S WORKER RECORD, so the statement is no longer a fact about
task records alone (`Core.TRel`) but needs the coupling of the root's record with the task — part of `InvF`
(`TW3.t3`). Before the fix the Reject of a RunningMultiNode task was a panic (no later operation), which is why no
side condition was needed. The last operation `op` itself needs none. -/
theorem c06_send_after_start (pre : List Op) (op : Op) (s s' : State) (out out' : Out)
    (hok : Core.RunOk Core.OpOk2 {} pre)
    (hr : Core.NoIdReuse pre) (hrun : Core.run {} pre = .ok (s, out)) (hstep : Core.step s op = .ok (s', out'))
    (q p : TaskId × Nat) (hq : q ∈ Core.starts out.cbs) (hp : p ∈ Core.sends out'.msgs) (hpq : p.1 = q.1) :
    q.2 < p.2 := by
  have hn := (Core.run_invF hok hrun).inv.nd
  obtain ⟨_, _, lk, _⟩ := Core.step_fx hn hstep
  obtain ⟨t, ht, hid, hle, hlk⟩ := lk p hp
  rcases Core.run_stK hok hr hrun q hq t ht (hid.trans hpq) with h | ⟨h1, w, hw⟩
  · exact Nat.lt_of_lt_of_le h hle
  · exact h1 ▸ hlk (Core.locked_of_hot hn ht hw)

/-- **What an announced start means for the task afterwards**: after every run (side conditions as above), a task for
which `started` was announced with instance `i` and that is still in the map has a larger instance id, or it has
instance `i` and is Running, or RunningMultiNode with the `started` flag of its root's worker record set — the two
states in which `task_reject` does not give the task back (Running: `unreachable!()`; started multi-node: ignored). -/
theorem c06_started_stays (ops : List Op) (s : State) (out : Out)
    (hok : Core.RunOk Core.OpOk2 {} ops) (hr : Core.NoIdReuse ops) (hrun : Core.run {} ops = .ok (s, out))
    (q : TaskId × Nat) (hq : q ∈ Core.starts out.cbs) (t : Task) (ht : s.task? q.1 = some t) :
    q.2 < t.inst ∨ (q.2 = t.inst ∧
      ((∃ w v, t.state = .running w v) ∨
       ∃ root others wk r, t.state = .runningMN (root :: others) ∧ s.worker? root = some wk ∧
         wk.assign = .mn q.1 r true)) :=
  Core.run_started_locked hok hr hrun q hq t ht

/-- **Every task that comes back from a lost worker gets a strictly larger instance id** — all of
`on_remove_worker` at once, in every reachable state (side conditions `OpOk2` on the run that reached it): a task
that before the loss of worker `w` was Assigned, Running or Prefilled on `w`, was being retracted from `w`, or was
RunningMultiNode with root `w` — i.e. every task `w` may have started — has, if it is still in the map afterwards
(it may have been failed by its crash limit), an instance id strictly larger than before. Generalises
`c06_retracting_lost_increments` (one function, one task) to the whole operation and all five cases; with
`c06_sent_le_current` / `c06_sends_nondecreasing`: every later send of such a task is strictly larger than every
send before the loss. -/
theorem c06_lost_worker_increments (pre : List Op) (s s' : State) (out out' : Out)
    (w : Nat) (reason : String) (f : Bool) (order : List TaskId) (rets : List (List TaskId))
    (hok : Core.RunOk Core.OpOk2 {} pre) (hpre : Core.run {} pre = .ok (s, out))
    (hstep : Core.step s (.removeWorker w reason f order rets) = .ok (s', out'))
    (id : TaskId) (t t' : Task) (ht : s.task? id = some t) (ht' : s'.task? id = some t')
    (hst : (∃ v, t.state = .assigned w v) ∨ (∃ v, t.state = .running w v) ∨ t.state = .prefilled w ∨
      t.state = .retracting w ∨ (∃ others, t.state = .runningMN (w :: others))) : t.inst < t'.inst :=
  Core.removeWorker_bumped (Core.run_invF hok hpre) hstep ht ht' hst

/-- non-vacuity: in `Core.crashOps` task (1,0) is Running on worker 1 with instance id 0 when the worker is lost;
afterwards it is Waiting with instance id 1 -/
example : Core.RunOk Core.OpOk2 {} Core.crashOps ∧
    ((Core.run {} (Core.crashOps.take 6)).toOption.map fun r => r.1.tasks.map fun t => (t.id, t.state, t.inst, t.crashes)) =
      some [((1, 0), .running 1 0, 0, 0)] ∧
    ((Core.run {} Core.crashOps).toOption.map fun r => r.1.tasks.map fun t => (t.id, t.state, t.inst, t.crashes)) =
      some [((1, 0), .waiting 0, 1, 1)] :=
  ⟨Core.RunOk.mono (fun _ _ h => h.1.ok2) _ _ Core.crashOps_ok.1, Core.crashOps_ok.2.2, Core.crashOps_ok.2.1⟩

/-- **Strictly increasing is FALSE for sends** — two runs that satisfy every side condition (`OpOk4`, no id
submitted twice) in which the same task is sent twice with the same instance id 0: `Core.resendOps` (prefilled on
worker 1, redirected to worker 2, worker 1 confirms the retract) and `Core.rejectOps` (assigned to worker 1, rejected
by it, assigned to worker 2). In both the first worker states that it did not start the task; the harness monitor
`c06.instance` checks on the real workers that LAUNCHES strictly increase. -/
theorem c06_equal_resend_witness :
    (Core.RunOk Core.OpOk4 {} Core.resendOps ∧ Core.NoIdReuse Core.resendOps ∧ ∃ s out,
      Core.run {} Core.resendOps = .ok (s, out) ∧
      Core.sends out.msgs = [((1, 1), 0), ((1, 0), 0), ((1, 2), 0), ((1, 1), 0)]) ∧
    (Core.RunOk Core.OpOk4 {} Core.rejectOps ∧ Core.NoIdReuse Core.rejectOps ∧ ∃ s out,
      Core.run {} Core.rejectOps = .ok (s, out) ∧ Core.sends out.msgs = [((1, 0), 0), ((1, 0), 0)]) := by
  obtain ⟨a1, a2, a3⟩ := Core.resendOps_ok
  obtain ⟨b1, b2, b3⟩ := Core.rejectOps_ok
  obtain ⟨s, out, h1, h2, _⟩ := Core.runSends_some a3
  obtain ⟨s', out', h1', h2', _⟩ := Core.runSends_some b3
  exact ⟨⟨a1, a2, s, out, h1, h2⟩, ⟨b1, b2, s', out', h1', h2'⟩⟩

/-- **The give-back path added by the fix of F32**: `Core.mnRejectOps` — a multi-node task is placed on worker 1
(sent with instance 0), its root refuses it before starting it (`task_reject`: workers reset, task back to `Waiting 0`,
instance id NOT incremented: the worker states that it has not started the task), the next round places it on worker 2:
sent again with instance 0. `Core.mnRejectStartedOps` — the root first reports Running (`started (1,0)` instance 0
announced): the Rejects that follow (from the root and from another worker) are ignored, the task stays
RunningMultiNode on worker 1 with instance 0 and is not sent again (`c06_send_after_start`). All side conditions
(`OpOk4`, no id submitted twice) hold in both runs. -/
theorem c06_mn_reject_witness :
    (Core.RunOk Core.OpOk4 {} Core.mnRejectOps ∧ Core.NoIdReuse Core.mnRejectOps ∧ ∃ s out,
      Core.run {} Core.mnRejectOps = .ok (s, out) ∧ Core.sends out.msgs = [((1, 0), 0), ((1, 0), 0)] ∧
      Core.starts out.cbs = []) ∧
    (Core.RunOk Core.OpOk4 {} Core.mnRejectStartedOps ∧ Core.NoIdReuse Core.mnRejectStartedOps ∧ ∃ s out,
      Core.run {} Core.mnRejectStartedOps = .ok (s, out) ∧ Core.sends out.msgs = [((1, 0), 0)] ∧
      Core.starts out.cbs = [((1, 0), 0)] ∧ s.tasks.map (fun t => (t.id, t.state, t.inst)) = [((1, 0), .runningMN [1], 0)]) := by
  obtain ⟨a1, a2, a3, _⟩ := Core.mnRejectOps_ok
  obtain ⟨b1, b2, b3, b4⟩ := Core.mnRejectStartedOps_ok
  obtain ⟨s, out, h1, h2, h3⟩ := Core.runSends_some a3
  obtain ⟨s', out', h1', h2', h3'⟩ := Core.runSends_some b3
  refine ⟨⟨a1, a2, s, out, h1, h2, h3⟩, ⟨b1, b2, s', out', h1', h2', h3', ?_⟩⟩
  rw [h1'] at b4
  simpa only [Except.toOption, Option.map_some, Option.some.injEq] using b4

/-- **`NoIdReuse` cannot be dropped**: the core accepts a task id again after the first record left the map; the
second submission may carry a smaller instance id, and the sends of that id decrease (5, then 0). -/
theorem c06_reuse_witness :
    Core.RunOk Core.OpOk4 {} Core.reuseOps ∧ ¬ Core.NoIdReuse Core.reuseOps ∧ ∃ s out,
      Core.run {} Core.reuseOps = .ok (s, out) ∧ Core.sends out.msgs = [((1, 0), 5), ((1, 0), 0)] ∧
      ¬ (Core.sends out.msgs).Pairwise fun p q => p.1 = q.1 → p.2 ≤ q.2 := by
  obtain ⟨a1, a2, a3⟩ := Core.reuseOps_ok
  obtain ⟨s, out, h1, h2, _⟩ := Core.runSends_some a3
  refine ⟨a1, a2, s, out, h1, h2, ?_⟩
  rw [h2]; decide

/-- **Finding — `started` may announce an instance id that was never sent**: in the run `Core.lossOps` (all side
conditions hold) task (1,1) is sent exactly once, to worker 1, with instance id 0; while it is being retracted from
worker 1 the redirect TARGET (worker 2) is lost and `on_remove_worker` increments the instance id of the task although
worker 1 still holds it; worker 1 had started it and reports Running; the server announces `started (1,1)` with
instance id 1. The worker executes (and streams output for) instance 0. -/
theorem c06_started_unsent_witness :
    Core.RunOk Core.OpOk4 {} Core.lossOps ∧ Core.NoIdReuse Core.lossOps ∧ ∃ s out,
      Core.run {} Core.lossOps = .ok (s, out) ∧ ((1, 1), 1) ∈ Core.starts out.cbs ∧
      ∀ i, ((1, 1), i) ∈ Core.sends out.msgs → i = 0 := by
  obtain ⟨a1, a2, a3⟩ := Core.lossOps_ok
  obtain ⟨s, out, h1, h2, h3⟩ := Core.runSends_some a3
  refine ⟨a1, a2, s, out, h1, by rw [h3]; decide, ?_⟩
  rw [h2]
  intro i hi
  simp at hi
  exact hi

/-- non-vacuity of the hypotheses of `c06_sends_nondecreasing` / `c06_send_after_start` / `c06_started_stays`: a run
with a dependency, a start and two sends -/
example : Core.RunOk Core.OpOk2 {} Core.depOps ∧ Core.NoIdReuse Core.depOps ∧
    Core.runSends Core.depOps = some ([((1, 0), 0), ((1, 1), 0)], [((1, 0), 0)]) :=
  ⟨Core.RunOk.mono (fun _ _ h => h.1.ok2) _ _ Core.depOps_ok.1, Core.depOps_ok.2.1, Core.depOps_ok.2.2⟩

end HqModel.C06
