import HqModel.Props.WorkerSide
import HqModel.Lemmas.CoreSteps
/-!
# C06 — one live execution per task; instance ids strictly increase

Server side (M1): every path on which a task comes back from a lost worker increments its instance id
(`lostPrefilled`, `lostAssigned`, the multi-node root arm and — since the `fix:` commit for F8 —
`lostRetracting`); stated below for the retracting case, which was the defect. Worker side:
`HqModel.WorkerSide.c06_given_back`. The composed statements (`c06_single`, launch log strictly increasing) are
evaluated on every real trace by the monitors `c06.single` / `c06.instance`; `HoldInv` is not yet a theorem.
-/
namespace HqModel.C06
open HqModel.Core

/-- **A task retracted from a lost worker is re-sent with a larger instance id** (single task, with redirect):
the compute message to the redirect target carries `inst + 1`. -/
theorem c06_retracting_lost_increments (s : State) (w target rv : Nat) (task : Task)
    (hs : task.state = .retracting w)
    (ht : s.task? task.id = some task)
    (hr : s.redirects.find? (·.1 = task.id) = some (task.id, target, rv)) :
    ∃ s' , s.lostRetracting w [task] {} = .ok (s',
      { msgs := [.compute target [(task.id, task.inst + 1, some rv, [])]] }) := by
  simp only [State.lostRetracting, ht, hs, hr]
  simp [computeOne, Out.add]

/-- non-vacuity: a concrete state with a retracting task and a redirect -/
example : ∃ s', (State.lostRetracting
    { tasks := [{ id := (1, 0), state := .retracting 5, inst := 3 }], redirects := [((1, 0), 7, 0)] } 5
    [{ id := (1, 0), state := .retracting 5, inst := 3 }] {}) = .ok (s',
      { msgs := [.compute 7 [((1, 0), 4, some 0, [])]] }) :=
  c06_retracting_lost_increments _ 5 7 0 _ rfl rfl rfl

end HqModel.C06
