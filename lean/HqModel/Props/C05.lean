import HqModel.Lemmas.CoreSteps
/-!
# C05 — the server never overbooks and only places where a task can run

Proved here (M1, all states and inputs): reservations are exact and reversible — when a request fits into the
free vector of a worker, `WorkerResources::remove` subtracts exactly the requested amounts (no saturation) and
`add` of the same request restores every component. The global invariant `ResInv` (free + Σ reserved = total for
every reachable state and every feasible solver solution) is evaluated on every state of every real trace by
the monitor `c05.resinv` (harness, from the core snapshot) and is not yet a theorem: `c05_inv_partial` =
these step lemmas + the correspondence. The multi-node clauses are monitored (`c05.mn`).
-/
namespace HqModel.C05
open HqModel.Core

/-- **Exact, non-saturating reservation**: if every requested amount fits, `remove` yields a vector in which
each requested resource is reduced by exactly the requested amount and all others are unchanged. -/
theorem c05_reserve_exact (es : List RqEntry) (free : List Nat) (h : Fits free es) :
    ∃ free', freeRemove free es = .ok free' ∧ free'.length = free.length ∧
      (∀ r, (∀ e ∈ es, e.res ≠ r) → getD free' r = getD free r) ∧
      (∀ e ∈ es, ∀ a, e.pol = .amount a → getD free' e.res + a = getD free e.res) :=
  freeRemove_exact es free h

/-- **Release restores the reservation**: `add` after `remove` of a fitting request gives back the original
free amounts, component by component. -/
theorem c05_release_restores (total : List Nat) (es : List RqEntry) (free : List Nat) (h : Fits free es)
    (hnd : (es.map (·.res)).Nodup) :
    ∃ f1 f2, freeRemove free es = .ok f1 ∧ freeAdd f1 total es = .ok f2 ∧ ∀ r, getD f2 r = getD free r := by
  obtain ⟨f1, h1, hl, hother, hreq⟩ := freeRemove_exact es free h
  have hes : ∀ e ∈ es, e.res < f1.length ∧ ∃ a, e.pol = .amount a := by
    intro e he
    have : ∀ (es' : List RqEntry), Fits free es' → ∀ e ∈ es', e.res < free.length ∧ ∃ a, e.pol = .amount a := by
      intro es'
      induction es' with
      | nil => intro _ e he; cases he
      | cons x xs ih =>
        intro hf e he
        obtain ⟨h1, ⟨a, h2, _⟩, _, h5⟩ := hf
        simp only [List.mem_cons] at he
        rcases he with rfl | he
        · exact ⟨h1, a, h2⟩
        · exact ih h5 e he
    have := this es h e he
    exact ⟨by rw [hl]; exact this.1, this.2⟩
  obtain ⟨f2, h2, _, hother2, hreq2⟩ := freeAdd_exact total es f1 hes hnd
  refine ⟨f1, f2, h1, h2, ?_⟩
  intro r
  by_cases hr : ∃ e ∈ es, e.res = r
  · obtain ⟨e, he, rfl⟩ := hr
    obtain ⟨_, a, ha⟩ := hes e he
    rw [hreq2 e he a ha]
    exact hreq e he a ha
  · have hr' : ∀ e ∈ es, e.res ≠ r := fun e he heq => hr ⟨e, he, heq⟩
    rw [hother2 r hr', hother r hr']

/-- non-vacuity: 2 of 4 cpus and 1 of 2 gpus fit and are restored -/
example : Fits [40000, 20000] [⟨0, .amount 20000⟩, ⟨1, .amount 10000⟩] := by
  refine ⟨by decide, ⟨20000, rfl, by decide⟩, by decide, ⟨by decide, ⟨10000, rfl, by decide⟩, by decide, trivial⟩⟩

end HqModel.C05
