import HqModel.Lemmas.CoreSteps
import HqModel.Lemmas.CoreInvFull
/-!
# C05 — the server never overbooks and only places where a task can run

Proved here (M1, all states and inputs): reservations are exact and reversible — when a request fits into the
free vector of a worker, `WorkerResources::remove` subtracts exactly the requested amounts (no saturation) and
`add` of the same request restores every component. The global invariant `ResInv` (free + Σ reserved = total for
every reachable state and every feasible solver solution) is evaluated on every state of every real trace by
the monitor `c05.resinv` (harness, from the core snapshot) and is not yet a theorem: `c05_inv_partial` =
these step lemmas + the correspondence. The multi-node clauses are monitored (`c05.mn`).
-/
namespace HqModel.C05
open HqModel.Core

/-- **Exact, non-saturating reservation**: if every requested amount fits, `remove` yields a vector in which
each requested resource is reduced by exactly the requested amount and all others are unchanged. -/
theorem c05_reserve_exact (es : List RqEntry) (free : List Nat) (h : Fits free es) :
    ∃ free', freeRemove free es = .ok free' ∧ free'.length = free.length ∧
      (∀ r, (∀ e ∈ es, e.res ≠ r) → getD free' r = getD free r) ∧
      (∀ e ∈ es, ∀ a, e.pol = .amount a → getD free' e.res + a = getD free e.res) :=
  freeRemove_exact es free h

/-- **Release restores the reservation**: `add` after `remove` of a fitting request gives back the original
free amounts, component by component. -/
theorem c05_release_restores (total : List Nat) (es : List RqEntry) (free : List Nat) (h : Fits free es)
    (hnd : (es.map (·.res)).Nodup) :
    ∃ f1 f2, freeRemove free es = .ok f1 ∧ freeAdd f1 total es = .ok f2 ∧ ∀ r, getD f2 r = getD free r := by
  obtain ⟨f1, h1, hl, hother, hreq⟩ := freeRemove_exact es free h
  have hes : ∀ e ∈ es, e.res < f1.length ∧ ∃ a, e.pol = .amount a := by
    intro e he
    have : ∀ (es' : List RqEntry), Fits free es' → ∀ e ∈ es', e.res < free.length ∧ ∃ a, e.pol = .amount a := by
      intro es'
      induction es' with
      | nil => intro _ e he; cases he
      | cons x xs ih =>
        intro hf e he
        obtain ⟨h1, ⟨a, h2, _⟩, _, h5⟩ := hf
        simp only [List.mem_cons] at he
        rcases he with rfl | he
        · exact ⟨h1, a, h2⟩
        · exact ih h5 e he
    have := this es h e he
    exact ⟨by rw [hl]; exact this.1, this.2⟩
  obtain ⟨f2, h2, _, hother2, hreq2⟩ := freeAdd_exact total es f1 hes hnd
  refine ⟨f1, f2, h1, h2, ?_⟩
  intro r
  by_cases hr : ∃ e ∈ es, e.res = r
  · obtain ⟨e, he, rfl⟩ := hr
    obtain ⟨_, a, ha⟩ := hes e he
    rw [hreq2 e he a ha]
    exact hreq e he a ha
  · have hr' : ∀ e ∈ es, e.res ≠ r := fun e he heq => hr ⟨e, he, heq⟩
    rw [hother2 r hr', hother r hr']

/-- non-vacuity: 2 of 4 cpus and 1 of 2 gpus fit and are restored -/
example : Fits [40000, 20000] [⟨0, .amount 20000⟩, ⟨1, .amount 10000⟩] := by
  refine ⟨by decide, ⟨20000, rfl, by decide⟩, by decide, ⟨by decide, ⟨10000, rfl, by decide⟩, by decide, trivial⟩⟩

/-! ## The global invariant

`Core.C05Full s` = `Core.C05Inv s ∧ Core.TWI noD s`, i.e.
* the structural invariant `Core.Inv` — task ids unique; **list → state**: every id in `assigned_tasks` /
  `prefilled_tasks` / a multi-node assignment of a worker is a task in the matching state (Assigned/Running there,
  or Retracting with a redirect to that worker); redirects only for Retracting tasks, at most one per task; the
  sets have no duplicates; registered consumers of a task in the map are Waiting; RunningMultiNode ⇒ multi-node
  request;
* **state → list** (`Core.TW3`, `Core.MNU`): a task Assigned/Running/Prefilled on `w` is in the corresponding set of
  worker `w`; every worker of a RunningMultiNode task is in a multi-node assignment for it; every redirect target
  holds the task;
* the resource equation `Core.Res`; every request names each resource once (`Core.RqsOk`).

`c05_inv_partial` is *partial* in exactly these points (all side conditions are decidable and stated on the
pre-state of the step / of the message):
* `NoSaturation` — a Running/RunningPrefilled for a Prefilled or Retracting task must fit into the reporting
  worker's free vector. The protocol does NOT guarantee this (finding F29, `c05_f29_witness`).
* `StepHyp4`, update part (`RejectOk`) — a Reject of an Assigned task comes from its worker and variant; otherwise
  `task_reject` re-queues the task without `remove_sn_task` (`c05_reject_witness`). A correct worker obeys it.
* `StepHyp4`, schedule part — `QueueOkD` (every id in ready/prefill queue `i` is a task of request `i` and no task
  of the map lists it as a consumer): the queue/dependency clause of the repo's `TaskQueues/Core::sanity_check`,
  not yet proved inductive here (evaluated on every real snapshot by the driver), and `SolMnOk` (multi-node
  placements only for multi-node requests). Placement feasibility itself needs no hypothesis: the model rejects an
  overbooking placement (`!bad-choice placement-overbooks`). The redirect-target clause `RdIn` is part of the
  invariant (no hypothesis).
* `newWorker` carries a fresh record, `newRq` a request without repeated resource indices (what `Worker::new` /
  `ResourceRequest::validate` guarantee).
-/

/-- **`ResInv` is inductive**: the invariant (structure in both directions + `free + Σ reserved = total`) is
preserved by EVERY operation of the core — new worker, worker loss, new request, new tasks, cancel, every
task-update message list, retract response, one scheduling round with an arbitrary solver solution and arbitrary
hash-order picks — under the side conditions `StepHyp4` and `NoSaturation`. -/
theorem c05_inv_partial (s s' : Core.State) (op : Core.Op) (out : Core.Out) (hi : Core.C05Full s)
    (hstep : Core.StepHyp4 s op) (hns : Core.NoSaturation s op) (h : Core.step s op = .ok (s', out)) :
    Core.C05Full s' :=
  Core.c05_step_full hi hstep hns h

/-- **the server never overbooks**, for all operation sequences: in every state reached from the empty core by a
run whose operations satisfy the side conditions, for every single-node worker and every resource index `r`:
`free r + Σ_{t ∈ assigned_tasks} need(t) r = total r` — exact, no truncation, `Policy.all` counted as the whole
`total r`; `need t` = the entries of variant `v` of the task's request, `v` from the state (Assigned/Running) or
from the redirect (Retracting) (`Core.reserved_assigned`, `Core.reserved_retracting`). -/
theorem c05_resinv_reachable (ops : List Core.Op) (s : Core.State) (out : Core.Out)
    (hok : Core.RunOk Core.OpOk4 {} ops) (hrun : Core.run {} ops = .ok (s, out))
    (w : Nat) (wk : Core.Worker) (A : List Core.TaskId) (F : List Nat) (P : List Core.TaskId)
    (hw : s.worker? w = some wk) (ha : wk.assign = .sn A F P) (r : Nat) :
    Core.getD F r + (A.map fun t => Core.need wk.total (s.reserved t) r).sum = Core.getD wk.total r :=
  (Core.c05_run_full hok hrun).c05.resinv hw ha r

/-- in particular no component of the free vector exceeds the worker's total and no reservation exceeds it -/
theorem c05_free_le_total (ops : List Core.Op) (s : Core.State) (out : Core.Out)
    (hok : Core.RunOk Core.OpOk4 {} ops) (hrun : Core.run {} ops = .ok (s, out))
    (w : Nat) (wk : Core.Worker) (A : List Core.TaskId) (F : List Nat) (P : List Core.TaskId)
    (hw : s.worker? w = some wk) (ha : wk.assign = .sn A F P) (r : Nat) : Core.getD F r ≤ Core.getD wk.total r := by
  have := c05_resinv_reachable ops s out hok hrun w wk A F P hw ha r
  omega

/-- **the worker ↔ task half of the sanity checks holds in every reachable state** (both directions), for all
operation sequences satisfying the protocol/sanity side conditions `OpOk2` (no saturation condition needed):
(a)/(b)/(d) list → state, (c)/(d) state → list, redirects. -/
theorem c05_worker_task_wf (ops : List Core.Op) (s : Core.State) (out : Core.Out)
    (hok : Core.RunOk Core.OpOk2 {} ops) (hrun : Core.run {} ops = .ok (s, out)) :
    (∀ w wk A F P t, s.worker? w = some wk → wk.assign = .sn A F P → t ∈ A →
      ∃ task, s.task? t = some task ∧ ((∃ v, task.state = .assigned w v) ∨ (∃ v, task.state = .running w v) ∨
        (∃ w0 v, task.state = .retracting w0 ∧ (t, w, v) ∈ s.redirects))) ∧
    (∀ w wk A F P t, s.worker? w = some wk → wk.assign = .sn A F P → t ∈ P →
      ∃ task, s.task? t = some task ∧ task.state = .prefilled w) ∧
    (∀ w wk t root st, s.worker? w = some wk → wk.assign = .mn t root st →
      ∃ task l, s.task? t = some task ∧ task.state = .runningMN l ∧ w ∈ l) ∧
    (∀ t task w v, s.task? t = some task → (task.state = .assigned w v ∨ task.state = .running w v) →
      ∃ wk A F P, s.worker? w = some wk ∧ wk.assign = .sn A F P ∧ t ∈ A) ∧
    (∀ t task w, s.task? t = some task → task.state = .prefilled w →
      ∃ wk A F P, s.worker? w = some wk ∧ wk.assign = .sn A F P ∧ t ∈ P) ∧
    (∀ t task l x, s.task? t = some task → task.state = .runningMN l → x ∈ l →
      ∃ wk root st, s.worker? x = some wk ∧ wk.assign = .mn t root st) ∧
    (∀ t w v, (t, w, v) ∈ s.redirects → (∃ task w0, s.task? t = some task ∧ task.state = .retracting w0) ∧
      t ∈ Core.asgW s.workers w ∧ ∀ w' v', (t, w', v') ∈ s.redirects → w' = w ∧ v' = v) := by
  have hF := Core.run_invF hok hrun
  refine ⟨?_, ?_, ?_, ?_, ?_, ?_, ?_⟩
  · intro w wk A F P t hw ha ht; exact hF.inv.assigned_sound hw ha ht
  · intro w wk A F P t hw ha ht; exact hF.inv.prefilled_sound hw ha ht
  · intro w wk t root st hw ha; exact hF.inv.mn_sound hw ha
  · intro t task w v ht hs; exact hF.assigned_complete ht hs
  · intro t task w ht hs; exact hF.prefilled_complete ht hs
  · intro t task l x ht hs hx; exact hF.mn_complete ht hs hx
  · intro t w v hm
    obtain ⟨h1, h2⟩ := hF.inv.redirect_sound hm
    exact ⟨h1, hF.redirect_complete t w v hm, h2⟩

/-- **F29 — `NoSaturation` cannot be dropped**: a concrete run satisfying all side conditions (hence ending in a
state with `C05Full`) followed by one `RunningPrefilled` message for which `NoSaturation` fails; the reactor accepts
it, `task_from_prefilled_to_started` saturates and afterwards `free + Σ reserved ≠ total` on worker 1 (resource 0:
`0 + 2·10000 ≠ 10000`). Scenario: a running task is cancelled while the worker has a prefilled backlog task; the
server releases the reservation at once and assigns another task; the worker reuses the allocation for the
backlog task. -/
theorem c05_f29_witness :
    ∃ s s' out out', Core.RunOk Core.OpOk4 {} Core.f29Ops ∧ Core.run {} Core.f29Ops = .ok (s, out) ∧ Core.C05Full s ∧
      ¬ Core.NoSaturation s Core.f29Op ∧ Core.StepHyp4 s Core.f29Op ∧
      Core.step s Core.f29Op = .ok (s', out') ∧ Core.resAtB s' 1 0 = false ∧ ¬ Core.C05Full s' := by
  obtain ⟨s, s', out, out', h1, h2, h3, h4, h5, h6, h7⟩ := Core.f29_witness
  have hok4 : Core.RunOk Core.OpOk4 {} Core.f29Ops := Core.RunOk.mono (fun _ _ h => h.ok4) _ _ h1
  have hsh : Core.StepHyp4 s Core.f29Op := by
    simp only [Core.StepHyp4, Core.f29Op, Core.UpdatesOk, Core.UpdProto, true_and]
    split <;> trivial
  refine ⟨s, s', out, out', hok4, h2, Core.c05_run_full hok4 h2, ?_, hsh, h5, h6, fun hf => h7 hf.c05⟩
  intro hns
  apply h4
  refine Core.OpOk3.of ?_ hns
  simp only [Core.StepHyp, Core.f29Op, Core.UpdatesOk, Core.UpdProto, true_and]
  split <;> trivial

/-- **the Reject protocol condition cannot be dropped**: after a run satisfying all side conditions a Reject from
a worker the task is not assigned to is accepted, the task becomes Waiting and stays in `assigned_tasks` of its
worker: the structural invariant is broken. -/
theorem c05_reject_witness :
    ∃ s s' out out', Core.RunOk Core.OpOk2 {} Core.rejectWitnessOps ∧ Core.run {} Core.rejectWitnessOps = .ok (s, out) ∧
      Core.Inv s ∧ ¬ Core.OpOk2 s Core.rejectWitnessOp ∧ Core.step s Core.rejectWitnessOp = .ok (s', out') ∧
      ¬ Core.Inv s' :=
  Core.reject_breaks_inv

/-- non-vacuity: the run of `c05_f29_witness` satisfies all side conditions, reaches a state in which worker 1
holds a task and has nothing free — and the equation `0 + 10000 = 10000` is the theorem's instance -/
example : Core.RunOk Core.OpOk4 {} Core.f29Ops ∧
    ((Core.run {} Core.f29Ops).toOption.map fun r => r.1.workers.map fun w => (Core.wAsg w, Core.wPre w, w.total)) =
      some [([(1, 2)], [(1, 1)], [10000])] := by decide

end HqModel.C05
