import HqModel.Lemmas.JobCompleted
/-!
# C13, last clause — a client that submits with wait/progress always receives the completion report

`hq submit --wait` sends `Submit` with stream options: the server registers a live listener for the job's events
while it processes the submit (after fix 6bae9eb: BEFORE it awaits the journal flush; before the fix the listener
was registered after the await and a job that completed meanwhile was never reported — defect F5). A listener
registered at that point receives exactly the events emitted by the submit and by everything after it. The
theorem: no completion report of the job can lie BEFORE that point, so the listener misses none; together with
`c13_completed_once` (the report exists exactly when the job ends closed with all tasks terminal, and at most once)
the waiting client receives the job's completion report whenever there is one.

That the real registration point is the submit (no operation of another connection, worker or scheduler in
between) is a fact about `client_rpc_loop` / `start_streaming`; it is checked on every run by the correspondence on
simulated cluster runs with a slow journal flush (`hqv job gen --wait`, out-tag `wait`, monitor `c13.wait`).
-/
namespace HqModel.C13
open HqModel.Job

/-- an accepted submit names a job that has no completion report so far -/
theorem submit_not_completed {s s' : State} {jobId mf : Option Nat} {desc : TaskDesc} {evs e : List Ev}
    {resp : SubmitResp} {core : List TaskId} (hc : Comp s.jobs s.jobCtr evs)
    (h : s.submit jobId mf desc = .ok (s', e, resp, core)) (j : Nat) (closed : Bool) (hj : Ev.submit j closed ∈ e) :
    completed j evs = 0 := by
  unfold State.submit at h
  split at h
  · cases h; cases hj
  · cases jobId with
    | some j0 =>
      simp only at h
      split at h
      · cases h; cases hj
      · rename_i job hjob
        split at h
        · cases h; cases hj
        · rename_i hopen
          split at h
          · cases h; cases hj
          · split at h
            · cases h
            · cases h
              simp only [List.mem_singleton, Ev.submit.injEq] at hj
              obtain ⟨rfl, -⟩ := hj
              have := hc.cnt j job hjob
              rw [this, isTerminated_of_open (by simpa using hopen)]
              rfl
    | none =>
      simp only at h
      split at h
      · cases h
      · split at h
        · cases h
        · cases h
          simp only [List.mem_singleton, Ev.submit.injEq] at hj
          obtain ⟨rfl, -⟩ := hj
          exact hc.fresh _ (Nat.le_refl _)

/-- **c13_wait.** For every run `ops1` from the empty server state (no panic), every accepted submit processed next
(into a new job or into an open job; `Ev.submit j _` is its event) and every continuation `ops2`: none of the
`jobCompleted j` events of the whole run lies before the submit — the listener registered while the submit is
processed receives every completion report of the job (`(e2 ++ e3).count = (e1 ++ e2 ++ e3).count`). -/
theorem c13_wait (ops1 ops2 : List Op) (jobId mf : Option Nat) (desc : TaskDesc)
    (hne : NoEmptySubmit ops1 = true) (s3 : State) (evs : List Ev)
    (h : run {} (ops1 ++ [.submit jobId mf desc] ++ ops2) = .ok (s3, evs)) :
    ∃ s1 e1 s2 e2 e3, run {} ops1 = .ok (s1, e1) ∧ step s1 (.submit jobId mf desc) = .ok (s2, e2) ∧
      run s2 ops2 = .ok (s3, e3) ∧ evs = e1 ++ e2 ++ e3 ∧
      ∀ j closed, Ev.submit j closed ∈ e2 →
        e1.count (Ev.jobCompleted j) = 0 ∧
        (e2 ++ e3).count (Ev.jobCompleted j) = evs.count (Ev.jobCompleted j) := by
  rw [List.append_assoc] at h
  obtain ⟨s1, e1, e23, h1, h23, he⟩ := run_append ops1 _ h
  obtain ⟨s2, e2, e3, h2, h3, he2⟩ := run_append [.submit jobId mf desc] ops2 h23
  -- the single step
  have hstep : step s1 (.submit jobId mf desc) = .ok (s2, e2) := by
    simp only [run] at h2
    split at h2
    · cases h2
    · rename_i sa ea hs
      simp only [List.append_nil] at h2
      cases h2
      exact hs
  refine ⟨s1, e1, s2, e2, e3, h1, hstep, h3, by rw [he, he2, List.append_assoc], ?_⟩
  intro j closed hj
  have hc := run_comp hne h1
  have h0 : e1.count (Ev.jobCompleted j) = 0 := by
    simp only [step] at hstep
    cases hsub : s1.submit jobId mf desc with
    | error e => rw [hsub] at hstep; cases hstep
    | ok r =>
      obtain ⟨sa, ea, resp, core⟩ := r
      rw [hsub] at hstep
      simp only [Except.map] at hstep
      cases hstep
      have := submit_not_completed hc hsub j closed hj
      simpa [completed] using this
  refine ⟨h0, ?_⟩
  rw [he, he2]
  simp only [List.count_append, h0, Nat.zero_add]

/-- non-vacuity: job 1 is submitted (closed, one task), runs and finishes: the only completion report comes after
the submit; and for a submit into the open job 1 after other jobs completed -/
example :
    (run {} ([.workerNew 1] ++ [.submit none none (.array [⟨0, 1, 1⟩] none)] ++
        [.started (1, 0) 0 [1] 0, .finished (1, 0)])).toOption.map
      (fun r => (r.2.count (Ev.jobCompleted 1), r.2.getLast?)) = some (1, some (Ev.jobCompleted 1)) := by decide

end HqModel.C13
