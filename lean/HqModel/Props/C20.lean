import HqModel.Props.C20Sites
import HqModel.Auth.Model
import HqModel.Auth.Trace
import HqModel.Lemmas.AuthBasic
import HqModel.Lemmas.AuthInv
/-!
# C20 — connections are accepted only from peers holding the same key and the right role

Model: `HqModel/Auth/Model.lean` (the three `Authenticator` functions as coded) and
`HqModel/Auth/Trace.lean` (unbounded Dolev–Yao trace system).  Premises of the symbolic model
(= trusted cryptographic assumptions, see `checks/props_auth.py`): AEAD unforgeability incl. first-chunk /
tag binding (`openC_eq_some`), freshness + unpredictability of `secure_rand_bytes` (side condition of
`Action.start`), honest keys not known to the adversary (`k ∉ adv`).
-/
namespace HqModel.C20
open HqModel.Auth

/-- **Completeness.** Two honest endpoints with the same key option, the same protocol number and
complementary roles, undisturbed exchange (16-byte challenges, any nonces): both accept. -/
theorem c20_complete (cfgA cfgB : Config) (chalA chalB : Bytes) (nA nB : Nat)
    (hkey : cfgA.key = cfgB.key) (hproto : cfgA.protocol = cfgB.protocol)
    (hAB : cfgA.peerRole = cfgB.myRole) (hBA : cfgB.peerRole = cfgA.myRole)
    (hlA : chalA.length = challengeLength) (hlB : chalB.length = challengeLength) :
    run2 cfgA cfgB chalA chalB nA nB = (true, true) := by
  obtain ⟨pA, mA, rA, kA⟩ := cfgA
  obtain ⟨pB, mB, rB, kB⟩ := cfgB
  simp only at hkey hproto hAB hBA
  subst hkey hproto hAB hBA
  cases kA <;>
    simp [run2, makeRequest, makeResponse, finish, Authenticator.new, openC, hlA, hlB]

/-- **Mismatch.** Undisturbed exchange, but the configurations differ in ANY of: key option (different
keys, or a key on one side only), protocol number, A's expectation of B's role, B's expectation of A's
role: both refuse (whatever the challenges and nonces are). -/
theorem c20_mismatch (cfgA cfgB : Config) (chalA chalB : Bytes) (nA nB : Nat)
    (h : cfgA.key ≠ cfgB.key ∨ cfgA.protocol ≠ cfgB.protocol ∨
         cfgA.peerRole ≠ cfgB.myRole ∨ cfgB.peerRole ≠ cfgA.myRole) :
    run2 cfgA cfgB chalA chalB nA nB = (false, false) := by
  obtain ⟨pA, mA, rA, kA⟩ := cfgA
  obtain ⟨pB, mB, rB, kB⟩ := cfgB
  simp only [ne_eq] at h
  by_cases hp : pB = pA
  · by_cases h1 : mB = rA
    · by_cases h2 : mA = rB
      · -- only the keys can differ
        have hk : kA ≠ kB := by
          rcases h with h | h | h | h
          · exact h
          · exact absurd hp.symm h
          · exact absurd h1.symm h
          · exact absurd h2.symm h
        subst hp h1 h2
        cases kA <;> cases kB <;>
          simp [run2, makeRequest, makeResponse, finish, Authenticator.new, Authenticator.fail] at hk ⊢
        rename_i a b
        by_cases hlA : chalA.length = challengeLength <;> by_cases hlB : chalB.length = challengeLength <;>
          simp [hlA, hlB, openC, hk, Ne.symm hk]
      · cases kA <;> cases kB <;>
          simp [run2, makeRequest, makeResponse, finish, Authenticator.new, Authenticator.fail, hp, h1, h2] <;>
          (split <;> simp)
    · cases kA <;> cases kB <;>
        simp [run2, makeRequest, makeResponse, finish, Authenticator.new, Authenticator.fail, hp, h1] <;>
        (repeat' split) <;> simp
  · cases kA <;> cases kB <;>
      simp [run2, makeRequest, makeResponse, finish, Authenticator.new, Authenticator.fail, hp]

/-- **Authentication (injective agreement, with recentness), for every reachable state of the unbounded
trace system** — any number of sessions, any interleaving, any adversary behaviour.

(1) If session `i` holds a key `k` the adversary does not know and has ACCEPTED, then there is a logged
responded-event `e` of an honest session `τ` such that: `τ` holds the same key `k`; `τ` acts in the role
that `σ` expects of its peer; `e` answers exactly `σ`'s challenge; the response `σ` consumed is exactly
the (nonce, seal) of that event; `e` happened after `σ` started; `τ` has indeed responded.
(2) Injectivity: two different keyed sessions never agree with the same event.

`role_chal_inj` is used in `Inv.deliverResponse` (field `accepted`): the opened plaintext equals
`peer_role ++ challenge` and, by `seal_origin`, also `e.role ++ e.chal`; both challenges have 16 bytes. -/
theorem c20_auth {adv : List Nat} {s : State} (hr : Reachable adv s) :
    (∀ {i σ k}, s.sessions i = some σ → σ.result = some true → σ.auth.key = some k → k ∉ adv →
      ∃ e ∈ s.log, Agrees σ k e ∧ σ.startTime < e.time ∧
        ∃ τ, s.sessions e.sid = some τ ∧ τ.auth.key = some k ∧ τ.auth.myRole = σ.auth.peerRole ∧
          τ.phase ≠ .awaitRequest) ∧
    (∀ {i j σi σj ki kj ei ej}, i ≠ j → s.sessions i = some σi → s.sessions j = some σj →
      σi.auth.key = some ki → σj.auth.key = some kj → Agrees σi ki ei → Agrees σj kj ej → ei ≠ ej) := by
  have inv := hr.inv
  constructor
  · intro i σ k hs hacc hk hadv
    obtain ⟨e, he, hag⟩ := inv.accepted hs hacc hk hadv
    obtain ⟨τ, hτ, h1, h2, h3, _, _⟩ := inv.event_origin he
    refine ⟨e, he, hag, inv.recent he hs hk hag.2.2.1, τ, hτ, ?_, ?_, h3⟩
    · rw [h1, hag.1]
    · rw [h2, hag.2.1]
  · intro i j σi σj ki kj ei ej hij hi hj hki hkj hai haj heq
    apply inv.chal_distinct hi hj hki hkj hij
    rw [← hai.2.2.1, ← haj.2.2.1, heq]

/-- No reflection: when an endpoint's own role differs from the role it expects (true for all four
declared role pairs), the session whose answer it accepted is a *different* session. -/
theorem c20_no_reflection {adv : List Nat} {s : State} (hr : Reachable adv s) {i : Nat} {σ : Session}
    {k : Nat} (hs : s.sessions i = some σ) (hacc : σ.result = some true) (hk : σ.auth.key = some k)
    (hadv : k ∉ adv) (hroles : σ.auth.myRole ≠ σ.auth.peerRole) :
    ∃ e ∈ s.log, Agrees σ k e ∧ e.sid ≠ i := by
  obtain ⟨e, he, hag, _, τ, hτ, _, hrole, _⟩ := (c20_auth hr).1 hs hacc hk hadv
  refine ⟨e, he, hag, ?_⟩
  intro heq
  rw [heq, hs] at hτ
  cases hτ
  exact hroles hrole

/-- `my_role ++ challenge` is concatenated without a separator; the pair is still determined because the
responder only answers 16-byte challenges and the requester's own challenge has 16 bytes. -/
theorem c20_role_chal_inj {r₁ c₁ r₂ c₂ : Bytes} (h : r₁ ++ c₁ = r₂ ++ c₂)
    (hl : c₁.length = c₂.length) : r₁ = r₂ ∧ c₁ = c₂ :=
  role_chal_inj h hl

/-- What a keyed endpoint accepts, exactly: its latch is clear and the response is the seal, under ITS key
and the announced nonce, of `peer_role ++ its own challenge`.  Hence a replayed answer (other challenge),
a reflected one (own role inside), a cross-role one, a bit-flipped ciphertext or nonce, `NoAuth` and
`Error` are all refused. -/
theorem c20_keyed_accepts_only_answer {a : Authenticator} {k : Nat} (hk : a.key = some k) (resp : Response) :
    finish a resp = true ↔
      a.error = false ∧ ∃ n, resp = .encryption n (.seal k n (a.peerRole ++ a.challenge)) :=
  finish_keyed hk resp

/-- Whatever an endpoint accepts at the end, the request it received before carried ITS protocol number,
the role IT expects of the peer and the authentication mode that fits ITS key (with a 16-byte challenge):
the error latch makes every rejected request fatal, whatever response arrives afterwards. -/
theorem c20_accept_request_checked (a : Authenticator) (req : Request) (n : Nat) (resp : Response)
    (h : finish (makeResponse a req n).1 resp = true) :
    req.protocol = a.protocol ∧ req.role = a.peerRole ∧
      ((req.mode = .noAuth ∧ a.key = none) ∨
       (∃ c k, req.mode = .encryption c ∧ a.key = some k ∧ c.length = challengeLength)) := by
  unfold makeResponse Authenticator.fail at h
  split at h
  · simp [finish] at h
  · rename_i hp
    split at h
    · simp [finish] at h
    · rename_i hr
      refine ⟨by simpa using hp, by simpa using hr, ?_⟩
      split at h
      · rename_i hm hk; exact .inl ⟨hm, hk⟩
      · rename_i c k hm hk
        split at h
        · simp [finish] at h
        · rename_i hl; exact .inr ⟨c, k, hm, hk, by simpa using hl⟩
      · simp [finish] at h
      · simp [finish] at h

/-- Key-less endpoints (configured behaviour, "same key" is vacuous): ANY peer that presents the expected
protocol number and role in a `NoAuth` request and then sends `NoAuth` is accepted; nothing else is. -/
theorem c20_keyless (cfg : Config) (hk : cfg.key = none) (chal : Bytes) (req : Request) (n : Nat)
    (hp : req.protocol = cfg.protocol) (hr : req.role = cfg.peerRole) (hm : req.mode = .noAuth) :
    let a1 := (makeRequest (.new cfg) chal).1
    (makeResponse a1 req n).2 = .noAuth ∧
    ∀ resp, finish (makeResponse a1 req n).1 resp = true ↔ resp = .noAuth := by
  obtain ⟨p, m, r, k⟩ := cfg
  obtain ⟨rp, rr, rm⟩ := req
  simp only at hk hp hr hm
  subst hk hp hr hm
  refine ⟨by simp [makeRequest, makeResponse, Authenticator.new], ?_⟩
  intro resp
  cases resp <;> simp [makeRequest, makeResponse, Authenticator.new, finish]

/-! ## Non-vacuity: concrete reachable states -/

/-- "server" -/
def roleServer : Bytes := [115, 101, 114, 118, 101, 114]
/-- "worker" -/
def roleWorker : Bytes := [119, 111, 114, 107, 101, 114]
def cA (proto : Nat) : Config := { protocol := proto, myRole := roleServer, peerRole := roleWorker, key := some 7 }
def cB (proto : Nat) : Config := { protocol := proto, myRole := roleWorker, peerRole := roleServer, key := some 7 }
def chA : Bytes := List.replicate 16 1
def chB : Bytes := List.replicate 16 2

/-- both sessions accepted, both hold key 7, with the given protocol numbers -/
def bothAccepted (pA pB : Nat) (s : State) : Bool :=
  match s.sessions 0, s.sessions 1 with
  | some a, some b =>
    a.result == some true && b.result == some true && a.auth.key == some 7 && b.auth.key == some 7 &&
    a.auth.protocol == pA && b.auth.protocol == pB
  | _, _ => false

/-- the honest run of two matching endpoints as a trace of the unbounded system -/
def honestTrace : List Action :=
  let a := makeRequest (.new (cA 0)) chA
  let b := makeRequest (.new (cB 0)) chB
  [ .start 0 (cA 0) chA, .start 1 (cB 0) chB,
    .deliverRequest 0 b.2 11, .deliverRequest 1 a.2 12,
    .deliverResponse 0 (makeResponse b.1 a.2 12).2, .deliverResponse 1 (makeResponse a.1 b.2 11).2 ]

theorem exists_of_any {o : Option State} {p : State → Bool} (h : o.any p = true) :
    ∃ s, o = some s ∧ p s = true := by
  cases o with
  | none => simp at h
  | some s => exact ⟨s, rfl, by simpa using h⟩

/-- The hypotheses of `c20_auth` are satisfiable: a reachable state (adversary knows no key) in which two
keyed sessions have accepted. -/
theorem c20_nonvacuous : ∃ s, Reachable [] s ∧ bothAccepted 0 0 s = true := by
  have h : (run [] .init honestTrace).any (bothAccepted 0 0) = true := by decide
  obtain ⟨s, hs, hp⟩ := exists_of_any h
  exact ⟨s, ⟨honestTrace, hs⟩, hp⟩

example : run2 (cA 0) (cB 0) chA chB 11 12 = (true, true) :=
  c20_complete _ _ _ _ _ _ rfl rfl rfl rfl rfl rfl

example : run2 (cA 0) { cB 0 with key := some 8 } chA chB 11 12 = (false, false) :=
  c20_mismatch _ _ _ _ _ _ (.inl (by decide))

/-! ## Finding: the protocol number is not covered by the seal

Outside C20's quantifier (it needs TWO substitutions): an active adversary who rewrites the `protocol`
field of BOTH requests makes two endpoints with DIFFERENT protocol numbers (same key, complementary roles)
accept each other.  Only the responder's `my_role` and the challenge are inside the seal. -/
def protoAttackTrace : List Action :=
  let a := makeRequest (.new (cA 0)) chA
  let b := makeRequest (.new (cB 1)) chB
  let a2b := { a.2 with protocol := 1 }   -- m1 rewritten 0 → 1
  let b2a := { b.2 with protocol := 0 }   -- m2 rewritten 1 → 0
  [ .start 0 (cA 0) chA, .start 1 (cB 1) chB,
    .deliverRequest 0 b2a 11, .deliverRequest 1 a2b 12,
    .deliverResponse 0 (makeResponse b.1 a2b 12).2, .deliverResponse 1 (makeResponse a.1 b2a 11).2 ]

/-- Reachable (adversary knows no key): session 0 runs protocol 0, session 1 runs protocol 1, both hold
the same key, both ACCEPT. -/
theorem c20_protocol_not_sealed : ∃ s, Reachable [] s ∧ bothAccepted 0 1 s = true := by
  have h : (run [] .init protoAttackTrace).any (bothAccepted 0 1) = true := by decide
  obtain ⟨s, hs, hp⟩ := exists_of_any h
  exact ⟨s, ⟨protoAttackTrace, hs⟩, hp⟩

end HqModel.C20
