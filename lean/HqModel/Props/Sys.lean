import HqModel.Lemmas.SysProj
import HqModel.Props.C01
/-!
# The composed system: job layer (M4) on top of the tako core (M1)

`HqModel/Sys/Model.lean` wires the two hand-written models the way the server wires the two layers: client
requests run M4 and hand the core what `submit.rs` / `client/mod.rs` hand it; every core-driven action runs
`Core.step` and delivers EVERY callback of `Out.cbs`, in order, to the matching M4 operation; the lists
`on_task_error` returns are checked against the `rets` the core step consumed (`Stop.badRets`). The theorems below
are about ALL runs of that system from the empty state `initState reserve max` (`{}` is `initState 1 1`; the two
numbers are the core's proactive-filling parameters, fixed per run) whose world actions satisfy the decidable side
conditions `Sys.OpOk` (`Lemmas/SysOk.lean`; a driver evaluates `decide (OpOk s op)` on every real step):

* `sys_registry` (C02, second sentence) — in every reachable state the key set of the core's task map, `job.sent`, and
  the set of non-terminal tasks of the stored jobs are the same set: no phantom and no orphan tasks;
* `sys_no_job_panic` / `sys_run_no_job_panic` (C09 / C01, the composed part) — every callback the core makes is
  accepted by the job layer and no client request panics in it: `Sys.step` never stops with `Stop.job _`;
  `sys_started_running` exposes the state coupling this rests on (core Running / started multi-node ⇒ job `running`);
* `sys_cancel_final` (C08) — after a client cancel of job `j` no task of `j` is in the core map (so, by
  `C01.c01_core_ignores_unknown`, no later message about such a task produces a callback: `sys_cancel_no_callback`);
* `sys_max_fails` (C14) — after a `task_failed` whose callback made the job exceed `max_fails`, no task of the job is in
  the core map.

Proof: `Lemmas/Sys*.lean` — the coupling invariant `Coupled` (`SysInv.lean`) is inductive over `Sys.step`
(`step_good`, `SysStep2.lean`); the two re-entrant loops of the core are followed in lock step with the job layer
(`SysLock.lean`).
-/
namespace HqModel.Sys
open HqModel

/-- the invariant behind everything: `Coupled` holds in every reachable state -/
theorem sys_coupled (reserve max : Nat) (ops : List Op) (s : State) (outs : List Out) (hok : RunOk (initState reserve max) ops)
    (h : run (initState reserve max) ops = .ok (s, outs)) : Coupled s :=
  run_coupled ops (coupled_initState reserve max) hok h

/-! ### C02: the two registries agree -/

/-- **`sys_registry`** — in every reachable state of the composed system
1. the keys of the core's task map are exactly the ids in `job.sent` (and they are distinct);
2. *no orphan*: every key of the core's task map is a task of a stored job, in a non-terminal state;
3. *no phantom*: a task of a stored job is non-terminal iff its id is a key of the core's task map. -/
theorem sys_registry (reserve max : Nat) (ops : List Op) (s : State) (outs : List Out) (hok : RunOk (initState reserve max) ops)
    (h : run (initState reserve max) ops = .ok (s, outs)) :
    (∀ t, t ∈ Core.taskIds s.core.tasks ↔ t ∈ s.job.sent) ∧ (Core.taskIds s.core.tasks).Nodup ∧
    (∀ t ∈ Core.taskIds s.core.tasks, ∃ job st, s.job.getJob t.1 = some job ∧ Job.lookup job.tasks t.2 = some st ∧
      st.terminal = false) ∧
    (∀ job ∈ s.job.jobs, ∀ p ∈ job.tasks, p.2.terminal = false ↔ (job.id, p.1) ∈ Core.taskIds s.core.tasks) := by
  have hc := (sys_coupled reserve max ops s outs hok h).c0
  refine ⟨fun t => by rw [hc.ids t, hc.sent t], hc.nd, ?_, ?_⟩
  · intro t ht
    obtain ⟨st, hst, hterm⟩ := live_some ((hc.ids t).mp ht)
    obtain ⟨job, hj, hl⟩ := getJob_of_tst (js := s.job) (t := t) (by rw [hst]; rfl)
    exact ⟨job, st, hj, by rw [hl, hst], hterm⟩
  · intro job hjob p hp
    have hw := hc.wf.jobs job hjob
    have hg : s.job.getJob job.id = some job := by
      have hnd := hc.wf.ids
      have : ∀ (l : List Job.Job), (l.map (·.id)).Nodup → job ∈ l → Job.findJob l job.id = some job := by
        intro l
        induction l with
        | nil => intro _ hm; cases hm
        | cons y ys ih =>
          intro hn hm
          simp only [List.map_cons, List.nodup_cons] at hn
          rcases List.mem_cons.mp hm with e | e
          · subst e; simp [Job.findJob]
          · have : y.id ≠ job.id := fun e' => hn.1 (e' ▸ List.mem_map_of_mem (f := (·.id)) e)
            simp only [Job.findJob, this, if_false]
            exact ih hn.2 e
      exact this _ hnd hjob
    have hl : tst s.job (job.id, p.1) = some p.2 := by
      rw [tst_of_getJob hg, Job.lookup_of_mem hw.nodup (a := p.2) hp]
    rw [hc.ids, hl]
    simp [live]

/-! ### C09 / C01: the job layer accepts everything the core does -/

/-- **`sys_no_job_panic`** — in every reachable state, no world action satisfying the side conditions makes the job
layer panic: every callback of the core step (`started` / `finished` / `error` / `worker new` / `worker lost`) is
accepted by `process_task_started`, …, and no client request hits a panic site of the job layer -/
theorem sys_no_job_panic (reserve max : Nat) (ops : List Op) (s : State) (outs : List Out) (hok : RunOk (initState reserve max) ops)
    (h : run (initState reserve max) ops = .ok (s, outs)) (op : Op) (hop : OpOk s op) (site : String) :
    step s op ≠ .error (.job site) := by
  intro he
  have := step_good (sys_coupled reserve max ops s outs hok h) op hop
  rw [he] at this
  exact this

/-- the same for whole runs: a run whose actions satisfy the side conditions never stops in the job layer -/
theorem sys_run_no_job_panic (reserve max : Nat) (ops : List Op) (hok : RunOk (initState reserve max) ops)
    (site : String) : run (initState reserve max) ops ≠ .error (.job site) := by
  have key : ∀ (ops : List Op) (s : State), Coupled s → RunOk s ops → run s ops ≠ .error (.job site) := by
    intro ops
    induction ops with
    | nil => intro s _ _ h; simp [run] at h
    | cons op rest ih =>
      intro s hc hok h
      simp only [run] at h
      have hg := step_good hc op hok.1
      split at h
      · rename_i e he
        cases h
        rw [he] at hg
        exact hg
      · rename_i s1 o1 h1
        rw [h1] at hg
        simp only [RunOk, h1] at hok
        split at h
        · rename_i e he
          cases h
          exact ih s1 hg hok.2 he
        · cases h
  exact key ops _ (coupled_initState reserve max) hok

/-- **the state coupling**: in every reachable state a task the core holds as Running — or as RunningMultiNode with
the `started` flag of a reserved worker set — is `running` in the job layer, and every task of the core map is
`waiting` or `running` there -/
theorem sys_started_running (reserve max : Nat) (ops : List Op) (s : State) (outs : List Out) (hok : RunOk (initState reserve max) ops)
    (h : run (initState reserve max) ops = .ok (s, outs)) (t : TaskId) (task : Core.Task) (ht : s.core.task? t = some task) :
    (∃ job, s.job.getJob t.1 = some job ∧
      (Job.lookup job.tasks t.2 = some .waiting ∨ Job.lookup job.tasks t.2 = some .running) ∧
      ((∃ w v, task.state = .running w v) → Job.lookup job.tasks t.2 = some .running) ∧
      (∀ l x wk r, task.state = .runningMN l → s.core.worker? x = some wk → wk.assign = .mn t r true →
        Job.lookup job.tasks t.2 = some .running)) := by
  have hc := (sys_coupled reserve max ops s outs hok h).c0
  have hlive := (hc.ids t).mp (Core.mem_ids_of_task? ht)
  obtain ⟨st, hst, _⟩ := live_some hlive
  obtain ⟨job, hj, hl⟩ := getJob_of_tst (js := s.job) (t := t) (by rw [hst]; rfl)
  have hstate := Core.stOf_of_find (show Core.findTask s.core.tasks t = some task from ht)
  refine ⟨job, hj, by rw [hl]; exact live_iff.mp hlive, ?_, ?_⟩
  · rintro ⟨w, v, hs⟩
    rw [hl]; exact hc.started t (.inl ⟨w, v, by rw [hstate, hs]⟩)
  · intro l x wk r hs hw ha
    rw [hl]; exact hc.started t (.inr ⟨l, by rw [hstate, hs], x, wk, r, hw, ha⟩)

/-! ### C08: cancel is final -/

/-- **`sys_cancel_final`** — after a client cancel of job `j` (in any reachable state), no task of job `j` is in the
core's task map, and every task of the job is terminal in the job layer -/
theorem sys_cancel_final (reserve max : Nat) (ops : List Op) (s : State) (outs : List Out) (hok : RunOk (initState reserve max) ops)
    (h : run (initState reserve max) ops = .ok (s, outs)) (j : Nat) (ids : List TaskId) (s' : State) (o : Out)
    (hstep : step s (.cancel j ids) = .ok (s', o)) :
    (∀ t ∈ Core.taskIds s'.core.tasks, t.1 ≠ j) ∧
    (∀ job', s'.job.getJob j = some job' → ∀ p ∈ job'.tasks, p.2.terminal = true) := by
  have hc := sys_coupled reserve max ops s outs hok h
  have hg := step_good hc (.cancel j ids) trivial
  rw [hstep] at hg
  obtain ⟨evs, resp, hj⟩ := step_cancel_job hstep
  obtain ⟨_, hv, _, _⟩ := cancelJob_spec hc.c0.wf hj
  constructor
  · intro t ht hjt
    have hl := (hg.c0.ids t).mp ht
    rw [hv t] at hl
    by_cases hcnd : t.1 = j ∧ live (tst s.job t) = true
    · rw [if_pos hcnd] at hl; exact absurd hl (by decide)
    · rw [if_neg hcnd] at hl; exact hcnd ⟨hjt, hl⟩
  · intro job' hj'
    exact Job.cancelJob_allTerminal hj hj' hc.c0.wf

/-- … hence no later message about a task of the cancelled job makes the core call back (until the job gets new
tasks): the task is unknown to the core -/
theorem sys_cancel_no_callback (reserve max : Nat) (ops : List Op) (s : State) (outs : List Out) (hok : RunOk (initState reserve max) ops)
    (h : run (initState reserve max) ops = .ok (s, outs)) (j : Nat) (ids : List TaskId) (s' : State) (o : Out)
    (hstep : step s (.cancel j ids) = .ok (s', o)) (t : TaskId) (ht : t.1 = j) (w rv : Nat) (orv : Option Nat) :
    s'.core.taskRunning w t rv = .ok (s'.core, {}) ∧ s'.core.taskFinished w t = .ok (s'.core, {}, false) ∧
    s'.core.taskFailed (some w) t [] = .ok (s'.core, {}) ∧ s'.core.taskReject w t orv = .ok (s'.core, {}, false) := by
  apply Core.unknown_task_ignored
  have := (sys_cancel_final reserve max ops s outs hok h j ids s' o hstep).1
  cases hf : s'.core.task? t with
  | none => rfl
  | some task => exact absurd ht (this t (Core.mem_ids_of_task? hf))

/-! ### C14: max-fails -/

/-- **`sys_max_fails`** — if a world action (in any reachable state) contains a failure of a task `t` — the core made
the callback `error t consumers` — and the job of `t` has more failed tasks than its `max_fails` limit afterwards,
then no task of that job is in the core's task map any more (`on_task_error` returned ALL remaining tasks of the job,
`C14.c14_decision`, and the core cancelled exactly those) — so none of them can be started later
(`C01.c01_core_ignores_unknown`) -/
theorem sys_max_fails (reserve max : Nat) (ops : List Op) (s : State) (outs : List Out) (hok : RunOk (initState reserve max) ops)
    (h : run (initState reserve max) ops = .ok (s, outs)) (op : Op) (hop : OpOk s op) (s' : State) (o : Out)
    (hstep : step s op = .ok (s', o)) (t : TaskId) (consumers : List TaskId)
    (hcb : Core.Cb.error t consumers ∈ o.core.cbs) (job' : Job.Job) (m : Nat)
    (hj : s'.job.getJob t.1 = some job') (hm : job'.maxFails = some m) (hex : job'.cnt.failed > m) :
    (∀ x ∈ Core.taskIds s'.core.tasks, x.1 ≠ t.1) ∧
    (∀ p ∈ job'.tasks, p.2.terminal = true) := by
  have hc := sys_coupled reserve max ops s outs hok h
  have hg := step_good hc op hop
  rw [hstep] at hg
  have hq : MaxFailsOk s'.job t.1 := by
    rcases step_route hstep with e | ⟨rets, evs, left, hr⟩
    · rw [e] at hcb; cases hcb
    · exact route_maxfails t.1 _ _ _ _ _ _ hc.c0.wf hr (.inr ⟨t, consumers, hcb, rfl⟩)
  have hnl := hq ⟨m, job'.cnt.failed, by simp [jmeta, hj, hm], hex⟩
  constructor
  · intro x hx hxt
    have := (hg.c0.ids x).mp hx
    rw [hnl x hxt] at this; cases this
  · intro p hp
    have hw := Job.getJob_wf hg.c0.wf hj
    have hl : tst s'.job (t.1, p.1) = some p.2 := by
      rw [tst_of_getJob hj, Job.lookup_of_mem hw.nodup (a := p.2) hp]
    have := hnl (t.1, p.1) rfl
    rw [hl] at this
    simpa [live] using this

/-! ### the single-layer theorems hold of the composed system -/

/-- **the job layer of a composed run is a run of M4** over the client requests and the delivered callbacks
(`runJobOps`), with the composed run's events — so every theorem about all `Job.run`s applies -/
theorem sys_job_run (reserve max : Nat) (ops : List Op) (s : State) (outs : List Out)
    (h : run (initState reserve max) ops = .ok (s, outs)) :
    Job.run {} (runJobOps ops outs) = .ok (s.job, (outs.map (·.evs)).flatten) :=
  run_job_run ops _ _ _ h

/-- **the core of a composed run is a run of M1** whose operations satisfy `Core.OpOk2` — so `Core.run_invF` and every
other theorem about all such `Core.run`s applies (for the default parameters; the general form is `run_core_run`) -/
theorem sys_core_run (ops : List Op) (s : State) (outs : List Out) (hok : RunOk {} ops)
    (h : run {} ops = .ok (s, outs)) :
    ∃ cops out, Core.run {} cops = .ok (s.core, out) ∧ Core.RunOk Core.OpOk2 {} cops := by
  obtain ⟨cops, out, hr, hk⟩ := run_core_run ops _ _ _ h
  exact ⟨cops, out, hr, hk hok⟩

/-- **C01 over composed runs** (`C01.c01_outcome_once` transferred): in the event stream of every composed run no task
has more than one outcome, the stored jobs' tasks have exactly one iff they are terminal, and every `finished` is
preceded by a `started` — with the callbacks the CORE makes, not arbitrary ones -/
theorem sys_outcome_once (reserve max : Nat) (ops : List Op) (s : State) (outs : List Out)
    (h : run (initState reserve max) ops = .ok (s, outs)) :
    (∀ t : Job.TaskId, Job.termCount t (outs.map (·.evs)).flatten ≤ 1) ∧
    (∀ job ∈ s.job.jobs, ∀ p ∈ job.tasks,
      Job.termCount (job.id, p.1) (outs.map (·.evs)).flatten = if p.2.terminal then 1 else 0) ∧
    (∀ t pre post, (outs.map (·.evs)).flatten = pre ++ [Job.Ev.finished t] ++ post →
      ∃ i ws rv, Job.Ev.started t i ws rv ∈ pre) :=
  C01.c01_outcome_once _ _ _ (sys_job_run reserve max ops s outs h)

/-! ### non-vacuity: concrete composed runs -/

section examples

private def stopOf {α : Type} : Except Stop α → Option Stop
  | .error e => some e
  | .ok _ => none

private def rq1 : Core.Rqv := [{ nNodes := 0, entries := [{ res := 0, pol := .amount 10000 }] }]
private def wk1 : Core.Worker := { id := 1, assign := .sn [] [40000] [], total := [40000] }
private def nt (j t : Nat) (deps : List TaskId := []) (cl : Core.CrashLimit := .max 5) : Core.NewTask :=
  { id := (j, t), rq := 0, prio := 0, crashLimit := cl, deps := deps }

/-- a graph job with `max_fails = 0`: task 0 and 2 are placed, 0 starts and fails; the consumer 1 is reported in the
`error` callback, the job layer answers with the remaining task 2, the core cancels it -/
private def opsFail : List Op := [
  .newRq rq1, .newWorker wk1,
  .submit none (some 0) (.graph [(0, []), (1, [0]), (2, [])]) [nt 1 0, nt 1 1 [(1, 0)], nt 1 2],
  .schedule { now := 10, sn := [{ rq := 0, v := 0, counts := [(1, 2)], taken := [(1, 0), (1, 2)] }] },
  .update 1 [.running (1, 0) 0] [],
  .update 1 [.failed (1, 0)] [[(1, 2)]]]

/-- the side conditions hold on this run, it does not stop, and both registries are empty afterwards -/
example : RunOk {} opsFail := by decide
example : ((run {} opsFail).toOption.map fun r => (r.1.job.sent, r.1.core.tasks.map (·.id))) = some ([], []) ∧
    ((run {} opsFail).toOption.map fun r => r.1.job.jobs.map (·.tasks)) =
      some [[(0, .failed), (1, .aborted), (2, .aborted)]] ∧
    ((run {} opsFail).toOption.map fun r => r.2.map (·.core.cbs.length)) = some [0, 1, 0, 0, 1, 1] := by decide

/-- `rets` is checked: the same run with a wrong list for the `error` callback stops with `badRets` -/
example : stopOf (run {} (opsFail.dropLast ++ [.update 1 [.failed (1, 0)] [[]]])) = some .badRets := by decide

/-- a worker is lost while two tasks run on it: both go back to `waiting` in the job layer; the never-restart task
0 fails in the crash loop (one `error` callback, with its consumer 1), task 2 stays in both registries -/
private def opsLost : List Op := [
  .newRq rq1, .newWorker wk1,
  .submit none none (.graph [(0, []), (1, [0]), (2, [])]) [nt 1 0 [] .never, nt 1 1 [(1, 0)], nt 1 2],
  .schedule { now := 10, sn := [{ rq := 0, v := 0, counts := [(1, 2)], taken := [(1, 0), (1, 2)] }] },
  .update 1 [.running (1, 0) 0, .running (1, 2) 0] [],
  .removeWorker 1 "lost" true [(1, 0), (1, 2)] [[]]]

example : RunOk {} opsLost := by decide
example : ((run {} opsLost).toOption.map fun r => (r.1.job.sent, r.1.core.tasks.map (·.id))) =
      some ([(1, 2)], [(1, 2)]) ∧
    ((run {} opsLost).toOption.map fun r => r.1.job.jobs.map (·.tasks)) =
      some [[(0, .failed), (1, .aborted), (2, .waiting)]] := by decide

/-- a cancel after one task finished: the two remaining tasks leave both registries -/
private def opsCancel : List Op := [
  .newRq rq1, .newWorker wk1,
  .submit none none (.array [⟨0, 3, 1⟩] none) [nt 1 0, nt 1 1, nt 1 2],
  .schedule { now := 10, sn := [{ rq := 0, v := 0, counts := [(1, 2)], taken := [(1, 0), (1, 1)] }] },
  .update 1 [.running (1, 0) 0, .finished (1, 0)] [],
  .cancel 1 [(1, 2), (1, 1)]]

example : RunOk {} opsCancel := by decide
example : ((run {} opsCancel).toOption.map fun r => (r.1.job.sent, r.1.core.tasks.map (·.id))) = some ([], []) ∧
    ((run {} opsCancel).toOption.map fun r => r.1.job.jobs.map (·.tasks)) =
      some [[(0, .finished), (1, .canceled), (2, .canceled)]] := by decide

/-- **the worker-protocol side condition cannot be dropped**: a `finished` message for a task that was never reported
running (the core holds it as Assigned) is accepted by the core and makes the job layer panic
(`set_finished_state`: "finished for a task that is not Running"); `FinProto` is false on that step -/
private def opsNoRunning : List Op := [
  .newRq rq1, .newWorker wk1,
  .submit none none (.array [⟨0, 1, 1⟩] none) [nt 1 0],
  .schedule { now := 10, sn := [{ rq := 0, v := 0, counts := [(1, 1)], taken := [(1, 0)] }] },
  .update 1 [.finished (1, 0)] []]

example : stopOf (run {} opsNoRunning) = some (.job "set_finished_state.invalid_state") ∧ ¬ RunOk {} opsNoRunning := by
  decide

end examples

end HqModel.Sys
