import HqModel.Props.SysW
import HqModel.Props.WorkerSide
import HqModel.Lemmas.JobSteps
import HqModel.Lemmas.CoreSteps
import HqModel.Lemmas.CoreInvIds
/-!
# C08 — cancel is final

Job layer (M4): after the cancel is answered every task of the job is terminal and a repeated cancel changes
nothing; a terminal task never changes again (`C01.c01_terminal_is_final`). Core (M1): a cancelled task is
removed from the task map in the same step (`c08_core_forgets`), every later message about it is ignored
(`C01.c01_core_ignores_unknown`). Worker: `HqModel.WorkerSide.c08_worker`. The composed statement over cluster
runs is monitored on real traces (`c08.*`) and not yet a theorem.
-/
namespace HqModel.C08
open HqModel

/-- **All tasks terminal after the answer**, in every well-formed state. -/
theorem c08_all_terminal (s s' : Job.State) (j : Nat) (evs : List Job.Ev) (r : Job.CancelResp) (job' : Job.Job)
    (h : s.cancelJob j = .ok (s', evs, r)) (hj : s'.getJob j = some job') (hs : Job.StateWF s) :
    job'.allTerminal :=
  Job.cancelJob_allTerminal h hj hs

/-- **Repeating the cancel changes nothing** and answers `Canceled([], n)`. -/
theorem c08_idempotent (s : Job.State) (j : Nat) (job : Job.Job) (hj : s.getJob j = some job)
    (hall : job.allTerminal) : s.cancelJob j = .ok (s, [], .canceled [] job.nTasks) :=
  Job.cancelJob_idempotent hj hall

/-- **Other jobs are unaffected** by the job-layer part of a cancel: only the job with id `j` is replaced. -/
theorem c08_other_jobs (s s' : Job.State) (j : Nat) (evs : List Job.Ev) (r : Job.CancelResp)
    (h : s.cancelJob j = .ok (s', evs, r)) :
    s'.jobs.map (·.id) = s.jobs.map (·.id) ∧ ∀ x ∈ s'.jobs, x.id ≠ j → x ∈ s.jobs := by
  simp only [Job.State.cancelJob] at h
  split at h
  · cases h; exact ⟨rfl, fun x hx _ => hx⟩
  · rename_i job hjob
    split at h
    · cases h; exact ⟨rfl, fun x hx _ => hx⟩
    · split at h
      · cases h
      · rename_i jobc evc hc
        cases h
        refine ⟨Job.replaceJob_ids _ _, ?_⟩
        intro x hx hne
        rcases Job.mem_replaceJob hx with rfl | hx
        · exfalso; apply hne
          rw [Job.setCancel_id hc]; exact Job.getJob_id hjob
        · exact hx

/-- **The core forgets a cancelled task in the same step** (so nothing can be reported for it later). -/
theorem c08_core_forgets (s s' : Core.State) (id : Core.TaskId) (st : Core.TS)
    (hnd : (Core.taskIds s.tasks).Nodup) (h : s.removeTask id = .ok (s', st)) : s'.task? id = none :=
  Core.removeTask_unknown hnd h

/-- non-vacuity: cancelling a job with a running and a waiting task makes both canceled -/
example :
    ((Job.State.cancelJob (⟨[(⟨1, [(0, .running), (1, .waiting)], ⟨1, 0, 0, 0, 0⟩, false, none⟩ : Job.Job)],
        2, [], []⟩ : Job.State) 1).toOption.map
      (fun r => r.1.jobs.map (·.tasks))) = some [[(0, .canceled), (1, .canceled)]] := by decide

/-- **The core forgets a cancelled task in the same step, in every reachable state** (ids are unique after
every sequence of operations from the empty core, `Core.run_nodup`). -/
theorem c08_core_forgets_reachable (ops : List Core.Op) (s : Core.State) (out : Core.Out)
    (hrun : Core.run {} ops = .ok (s, out)) (s' : Core.State) (id : Core.TaskId) (st : Core.TS)
    (h : s.removeTask id = .ok (s', st)) : s'.task? id = none :=
  Core.removeTask_unknown (Core.run_nodup hrun) h

/-- non-vacuity: a run that submits a task and cancels it; the task is unknown afterwards -/
example : ((Core.run {} [.newRq [{}], .newTasks [⟨(1, 0), 0, 0, .max 5, [], 0, 0⟩], .cancel [(1, 0)]]).toOption.map
    fun r => r.1.tasks.map (·.id)) = some [] := by decide

end HqModel.C08
