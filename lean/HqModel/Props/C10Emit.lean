import HqModel.Lemmas.JobJournalInterleave
import HqModel.Props.C03Restart
/-!
# C10 / C03 (restart) — the hypotheses of the restart theorems hold of the journal the job layer writes

`c10_restore_refines` needs `Producible J`, `c03_restart` needs in addition `DepClosed (meaning J)`: both are facts
about the code that WRITES the journal. Here they are proved for the journal the job-layer model M4
(`HqModel/Job/{Model,Run}.lean`, tied to the real `server/{job,state,tako_events}.rs`, `client/submit.rs` by the
`job` correspondence check) emits, for ALL operation sequences, from the empty server, at EVERY record boundary.

* translation M4 → journal: `Emit.recordsOf`, `Emit.journalOf` (`Lemmas/JobJournal.lean`; which events are persisted
  and as which record: `event/streamer.rs`, `harness/src/journal/rec.rs: from_event`);
* side condition `Emit.EmitOk s A op` (decidable, computable; `s` = M4 pre-state, `A` = `meaning` of the journal written
  so far) on the inputs the job layer does not itself check — see the doc comment of `EmitOkRun` below;
* proof: the simulation invariant `Emit.Inv s A` (`Lemmas/JobJournalSim.lean`) is preserved by every operation and
  every record it writes is allowed by `recordOk` (`Emit.step_leads`, `Lemmas/JobJournalStep.lean`).

`journalOf uid ops` is defined for every `ops`: it ends at the first operation on which the job layer panics (the
server is dead then), so no hypothesis "the run does not panic" is needed; for `run {} ops = .ok _` it is the
journal of the whole run.
-/
namespace HqModel.C10
open HqModel.Job HqModel.Journal HqModel.Emit

/-- **c10_emitted_producible.** For every operation sequence `ops` of the job layer whose inputs satisfy the side
condition `EmitOkRun uid ops` — i.e. `EmitOk s A op` for every operation `op` up to the first panic, evaluated on the
M4 state `s` before `op` and on `A = meaning (journal written so far)`:

* `started t inst ws rv` (from the core): the task has no outcome yet in the job layer (no *late* start report),
  `inst` is larger than every instance id recorded for `t`, every worker of `ws` has an id ≤ the largest connected id;
* `failed t consumers` (from the core): no task of the job without recorded outcome outside `consumers` depends on `t`
  or on a member of `consumers` (`consumers` ⊇ the transitive dependents of `t` that have no outcome);
* `workerNew w`: `w` is larger than every worker id seen; `workerLost w _ _`: `w` is connected;
* `submit _ _ d` (from the client): array ranges have a positive step and, when ids and entries are both given,
  there is one entry per id;
* nothing for `openJob`, `close`, `cancel`, `forget`, `finished` (what they need, the job layer enforces itself) —

the journal the job layer writes is `Producible`. -/
theorem c10_emitted_producible (uid : String) (ops : List Op) (h : EmitOkRun uid ops) :
    Producible (journalOf uid ops) := by
  have g := journalFrom_good ops (Inv.init (meaningStep {} (.serverStart uid)) rfl) h
  unfold Producible journalOf
  simp only [producibleFrom, Bool.and_eq_true]
  exact ⟨rfl, g.producible⟩

/-- **c10_emitted_dep_closed.** Under the same side condition, what the journal records is closed under failure
propagation at EVERY crash point: for every prefix `K` of the emitted journal (every record boundary, also the
boundaries inside the records of one operation — `TasksAborted` is written before the `TaskFailed` that caused it),
no task without recorded outcome depends on a task recorded as failed / canceled / aborted. -/
theorem c10_emitted_dep_closed (uid : String) (ops : List Op) (h : EmitOkRun uid ops)
    (K : List Record) (hK : K <+: journalOf uid ops) : HqModel.C03.DepClosed (meaning K) := by
  have g := journalFrom_good ops (Inv.init (meaningStep {} (.serverStart uid)) rfl) h
  cases K with
  | nil => intro ja hja; cases hja
  | cons r K' =>
    unfold journalOf at hK
    obtain ⟨hr, hK'⟩ := List.cons_prefix_cons.mp hK
    subst hr
    exact g.prefix hK'

/-- every prefix of an emitted journal is producible (the statement of `c10_emitted_producible` at every crash point) -/
theorem c10_emitted_producible_prefix (uid : String) (ops : List Op) (h : EmitOkRun uid ops)
    (K : List Record) (hK : K <+: journalOf uid ops) : Producible K := by
  obtain ⟨M, hM⟩ := hK
  exact c10_prefix K M (hM ▸ c10_emitted_producible uid ops h)

/-- **c10_emitted_restore.** Hence, for the journal of every run of the job layer whose inputs satisfy the side
condition, cut at ANY record boundary `K`: restore does not stop and equals the specification `meaning K` on jobs,
open flags, outcomes, counters, pending tasks with remaining dependencies / next instance id / crash count
(`RestoreRefines`, the conclusion of `c10_restore_refines`), and every task handed back to the core has no recorded
outcome and each of its ORIGINAL dependencies is still among the dependencies it is resubmitted with or is recorded
as finished (the conclusion of `c03_restart`) — without any assumption on the journal. -/
theorem c10_emitted_restore (uid : String) (ops : List Op) (h : EmitOkRun uid ops)
    (K : List Record) (hK : K <+: journalOf uid ops) :
    RestoreRefines K ∧
    ∃ R X, restore K = .ok (R, X) ∧
      ∀ job t deps i c, (job, t, deps, i, c) ∈ batchPending X.batches →
        ∃ ja ∈ (meaning K).jobs, ∃ a ∈ ja.2.tasks, ja.1 = job ∧ a.id = t ∧ a.st = .waiting ∧
          ∀ d ∈ a.deps, d ∈ deps ∨ ∃ b, ja.2.find d = some b ∧ b.st = .finished :=
  ⟨c10_restore_refines K (c10_emitted_producible_prefix uid ops h K hK),
   HqModel.C03.c03_restart K (c10_emitted_producible_prefix uid ops h K hK) (c10_emitted_dep_closed uid ops h K hK)⟩

/-- the step form (what a driver evaluates): one operation from ANY configuration that satisfies the simulation
invariant — e.g. later in a run — writes allowed records, keeps the recorded state failure-closed at every record
boundary, and re-establishes the invariant -/
theorem c10_emitted_step {s s' : State} {A : AState} {op : Op} {evs : List Ev} (hi : Emit.Inv s A)
    (hok : EmitOk s A op) (e : step s op = .ok (s', evs)) :
    producibleFrom A (recordsOf s op evs) = true ∧
    (∀ K, K <+: recordsOf s op evs → HqModel.C03.DepClosed (K.foldl meaningStep A)) ∧
    Emit.Inv s' ((recordsOf s op evs).foldl meaningStep A) :=
  have L := step_leads hi hok e
  ⟨L.1.producible, fun _ hK => L.1.prefix hK, L.2⟩

/-- **c10_emitted_state_agrees.** What the journal means is what the job layer holds: after every run that does not
panic and satisfies the side condition, every job `j` stored in the job layer is either a job of
`meaning (journalOf uid ops)` with the same open flag, the same task ids in the same order and, for every task, recorded
outcome = its terminal state in the job layer (`waiting` for Waiting / Running; a Running task has a recorded instance
id) — or the journal has reported it completed, and then it is closed with every task terminal. Together with
`c10_emitted_restore` (restore = `meaning`): a restart at the end of the run recovers the state of the job layer. -/
theorem c10_emitted_state_agrees (uid : String) (ops : List Op) (h : EmitOkRun uid ops) {s : State} {evs : List Ev}
    (hr : run {} ops = .ok (s, evs)) (j : Nat) (job : Job) (hj : s.getJob j = some job) :
    match alGet (meaning (journalOf uid ops)).jobs j with
    | some aj => aj.isOpen = job.isOpen ∧ aj.tasks.map (·.id) = job.tasks.map (·.1) ∧
        ∀ a ∈ aj.tasks, ∃ x, lookup job.tasks a.id = some x ∧ a.st = Emit.oc x ∧ (x = .running → a.inst.isSome = true)
    | none => job.isOpen = false ∧ ∀ p ∈ job.tasks, p.2.terminal = true := by
  have hi := run_inv ops (Inv.init (meaningStep {} (.serverStart uid)) rfl) h hr
  have e : meaning (journalOf uid ops) =
      (journalFrom {} ops).foldl meaningStep (meaningStep {} (.serverStart uid)) := rfl
  rw [e]
  have := hi.sim j job hj
  cases hg : alGet ((journalFrom {} ops).foldl meaningStep (meaningStep {} (.serverStart uid))).jobs j with
  | none => rw [hg] at this; exact this
  | some aj => rw [hg] at this; exact ⟨this.isOpen, this.ids, this.st⟩

/-- **c10_emitted_interleaved** (general form of the three theorems above). A real journal also contains records of
other emitters between those of the job layer (`WorkerOverview`, the allocation-queue records of the autoalloc
service, `ServerStop`: `Emit.isOther`), and its `WorkerConnected` records carry the allocation id of the worker, which
the job layer does not know. For every interleaved history `items` (operations of the job layer and records of other
emitters) with `OkRunI uid items` — `EmitOk` for every operation, and every other record is of one of these kinds and
allowed where it is written (`recordOk`: a created queue id is new) — and every journal `J` that equals the emitted
one up to the allocation ids of `WorkerConnected`: every prefix `K` of `J` is producible and failure-closed, restore
of `K` refines `meaning K`, and the conclusion of `c03_restart` holds. -/
theorem c10_emitted_interleaved (uid : String) (items : List Item) (h : OkRunI uid items)
    (J : List Record) (hJ : J.map eraseAlloc = journalOfI uid items) (K : List Record) (hK : K <+: J) :
    Producible K ∧ HqModel.C03.DepClosed (meaning K) ∧ RestoreRefines K ∧
    ∃ R X, restore K = .ok (R, X) ∧
      ∀ job t deps i c, (job, t, deps, i, c) ∈ batchPending X.batches →
        ∃ ja ∈ (meaning K).jobs, ∃ a ∈ ja.2.tasks, ja.1 = job ∧ a.id = t ∧ a.st = .waiting ∧
          ∀ d ∈ a.deps, d ∈ deps ∨ ∃ b, ja.2.find d = some b ∧ b.st = .finished := by
  have g := journalFromI_good items (Inv.init (meaningStep {} (.serverStart uid)) rfl) h
  have hK0 : K.map eraseAlloc <+: journalOfI uid items := by
    obtain ⟨M, rfl⟩ := hK
    rw [← hJ, List.map_append]
    exact List.prefix_append _ _
  have hp : Producible K := by
    have hfull : Producible (journalOfI uid items) := by
      unfold Producible journalOfI
      simp only [producibleFrom, Bool.and_eq_true]
      exact ⟨rfl, g.producible⟩
    obtain ⟨M, hM⟩ := hK0
    have := c10_prefix (K.map eraseAlloc) M (hM ▸ hfull)
    unfold Producible at this ⊢
    rw [← producibleFrom_erase]; exact this
  have hd : HqModel.C03.DepClosed (meaning K) := by
    have e : meaning K = (K.map eraseAlloc).foldl meaningStep {} := (foldl_erase K {}).symm
    rw [e]
    generalize K.map eraseAlloc = K0 at hK0
    cases K0 with
    | nil => intro ja hja; cases hja
    | cons r K' =>
      unfold journalOfI at hK0
      obtain ⟨hr, hK'⟩ := List.cons_prefix_cons.mp hK0
      subst hr
      exact g.prefix hK'
  exact ⟨hp, hd, c10_restore_refines K hp, HqModel.C03.c03_restart K hp hd⟩

/-! ### The side condition cannot be dropped (each conjunct, on a concrete run of M4) -/

/-- a late start report (after the outcome): M4 emits `TaskStarted` after `TaskFinished`; the journal is not producible
(and `restore` would put the finished task back to running) -/
theorem c10_emitted_late_start_witness :
    ¬ Producible (journalOf "u" [.workerNew 1, .submit none none (.array [⟨0, 1, 1⟩] none), .started (1, 0) 0 [1] 0,
        .finished (1, 0), .started (1, 0) 1 [1] 0]) := by decide

/-- an incomplete consumer list: 1 depends on 0, 0 fails with `consumers = []` -/
theorem c10_emitted_consumers_witness :
    ¬ HqModel.C03.DepClosed (meaning (journalOf "u" [.workerNew 1, .submit none none (.graph [(0, []), (1, [0])]),
        .started (1, 0) 0 [1] 0, .failed (1, 0) []])) := by decide

/-- a repeated instance id -/
theorem c10_emitted_instance_witness :
    ¬ Producible (journalOf "u" [.workerNew 1, .submit none none (.array [⟨0, 1, 1⟩] none), .started (1, 0) 0 [1] 0,
        .workerLost 1 [(1, 0)] "hblost", .workerNew 2, .started (1, 0) 0 [2] 0]) := by decide

/-- a worker lost twice (M4 only asks that the worker is known) -/
theorem c10_emitted_lost_twice_witness :
    ¬ Producible (journalOf "u" [.workerNew 1, .workerLost 1 [] "idle", .workerLost 1 [] "idle"]) := by decide

/-- ids and entries that disagree (M4 zips them; `restore` hands the core fewer tasks than the job has) -/
theorem c10_emitted_entries_witness :
    ¬ Producible (journalOf "u" [.submit none none (.array [⟨0, 3, 1⟩] (some 2))]) := by decide

/-- Observation (about the real code, outside the models' common vocabulary): `journalOf` ends BEFORE an operation on
which the job layer panics. The real `handle_submit` sends the `Submit` event to the journal before `attach_submit`;
an array whose id ranges overlap passes `validate_submit` (it only looks at the tasks the job already has), the
event is persisted, `attach_submit` panics (first conjunct: M4), and `restore` of a journal that contains that record
panics again at the same assertion (second conjunct: M5) — replayed on the real code, see notes/job_journal.md. -/
theorem c10_emitted_poison_submit_witness :
    step {} (.submit none none (.array [⟨0, 2, 1⟩, ⟨1, 2, 1⟩] none)) = .error (.panic "attach_submit.assert_new") ∧
    restore [.serverStart "u", .submit 1 true none (.array [⟨0, 2, 1⟩, ⟨1, 2, 1⟩] none)] =
      .error (.panic .attachDuplicate) := ⟨rfl, rfl⟩

/-! ### Non-vacuity: a concrete non-trivial run satisfies the side condition -/

/-- two workers; an open job with a dependency chain `0 ← 1 ← 2` and an independent task; a worker loss with a rerun
under a larger instance id; a second (auto-id, with entries) submit into the open job; a second, closed job that is
canceled; the failure of task 0 with its two transitive dependents; close; a failure that exceeds `max_fails = 1` and
aborts the rest of the job; forget -/
def sampleOps : List Op :=
  [ .workerNew 1, .workerNew 2,
    .openJob (some 1),
    .submit (some 1) (some 1) (.graph [(0, []), (1, [0]), (2, [1]), (3, [])]),
    .started (1, 0) 0 [1] 0,
    .started (1, 3) 0 [2] 0,
    .workerLost 2 [(1, 3)] "hblost",
    .started (1, 3) 1 [1] 0,
    .finished (1, 3),
    .submit (some 1) none (.array [] (some 2)),
    .submit none none (.array [⟨0, 3, 1⟩] none),
    .failed (1, 0) [(1, 1), (1, 2)],
    .cancel 2,
    .close 1,
    .started (1, 4) 0 [1] 0,
    .failed (1, 4) [],
    .forget 2 [.canceled],
    .forget 1 [.failed] ]

example : EmitOkRun "u" sampleOps := by decide

example : (run {} sampleOps).toOption.isSome = true := by decide

example : journalOf "u" sampleOps =
    [ .serverStart "u", .workerConnected 1 none, .workerConnected 2 none, .jobOpen 1 (some 1),
      .submit 1 false (some 1) (.graph [⟨0, [], true⟩, ⟨1, [0], true⟩, ⟨2, [1], true⟩, ⟨3, [], true⟩]),
      .taskStarted 1 0 0 [1], .taskStarted 1 3 0 [2], .workerLost 2 .heartbeatLost, .taskStarted 1 3 1 [1],
      .taskFinished 1 3, .submit 1 false none (.array [⟨4, 2, 1⟩] (some 2)),
      .submit 2 true none (.array [⟨0, 3, 1⟩] none),
      .tasksAborted [(1, 1), (1, 2)], .taskFailed 1 0,
      .jobCancel 2, .tasksCanceled [(2, 0), (2, 1), (2, 2)], .jobCompleted 2,
      .jobClose 1, .taskStarted 1 4 0 [1], .taskFailed 1 4, .tasksAborted [(1, 5)], .jobCompleted 1 ] := by decide

/-- the theorems apply to it: e.g. cut between the abort of the dependents and the failure that caused it -/
example : RestoreRefines ((journalOf "u" sampleOps).take 13) :=
  (c10_emitted_restore "u" sampleOps (by decide) _ (List.take_prefix _ _)).1

/-- the general form on a history with an allocation queue, a worker of that allocation and a worker overview -/
example : OkRunI "u" [.other (.queueCreated 1), .other (.allocQueued 1 7), .op (.workerNew 1), .other (.workerOverview 1),
    .op (.submit none none (.array [⟨0, 2, 1⟩] none)), .op (.started (1, 0) 0 [1] 0), .other (.allocFinished 1 7),
    .op (.workerLost 1 [(1, 0)] "connlost"), .other (.queueRemoved 1), .other .serverStop] := by decide

example : RestoreRefines
    [.serverStart "u", .queueCreated 1, .allocQueued 1 7, .workerConnected 1 (some 7), .workerOverview 1,
     .submit 1 true none (.array [⟨0, 2, 1⟩] none), .taskStarted 1 0 0 [1], .allocFinished 1 7] :=
  (c10_emitted_interleaved "u" [.other (.queueCreated 1), .other (.allocQueued 1 7), .op (.workerNew 1),
      .other (.workerOverview 1), .op (.submit none none (.array [⟨0, 2, 1⟩] none)), .op (.started (1, 0) 0 [1] 0),
      .other (.allocFinished 1 7), .op (.workerLost 1 [(1, 0)] "connlost"), .other (.queueRemoved 1), .other .serverStop]
    (by decide)
    [.serverStart "u", .queueCreated 1, .allocQueued 1 7, .workerConnected 1 (some 7), .workerOverview 1,
     .submit 1 true none (.array [⟨0, 2, 1⟩] none), .taskStarted 1 0 0 [1], .allocFinished 1 7,
     .workerLost 1 .connectionLost, .queueRemoved 1, .serverStop]
    (by decide) _ (by decide)).2.2.1

end HqModel.C10
