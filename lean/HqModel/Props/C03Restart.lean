import HqModel.Props.C10
/-!
# C03, restart clause — no task is handed back to the core with a dependency that can never finish

`c10_restore_refines` gives every pending task "its original dependencies minus the ones with a recorded outcome".
That is the right dependency list exactly when what the journal durably records is *closed under failure
propagation* at the cut: no task without outcome depends on a task recorded as failed / canceled / aborted
(`DepClosed`). The server writes `TasksAborted` for all transitive dependents BEFORE the `TaskFailed` that caused
them (state.rs `process_task_failed`), and one `TasksCanceled` record for a whole cancel, so every prefix of a real
journal is `DepClosed`; this is an assumption about the code that emits the journal, validated on every run on
journals persisted by the REAL server in simulated cluster runs (harness kind `sim`, monitor `c03.restart`).
-/
namespace HqModel.C03
open HqModel.Journal HqModel.Job

/-- the recorded state is closed under failure propagation: a task without outcome depends only on tasks that are
still without outcome or finished -/
def DepClosed (A : AState) : Prop :=
  ∀ ja ∈ A.jobs, ∀ a ∈ ja.2.tasks, a.st = .waiting → ∀ d ∈ a.deps, ∀ b, ja.2.find d = some b →
    b.st = .waiting ∨ b.st = .finished

/-- **c03_restart.** For every producible journal whose recorded state is closed under failure propagation, restore
succeeds and every task it resubmits to the core `(job, t, deps, …)` is a task without recorded outcome whose every
ORIGINAL dependency is either still among the dependencies it is resubmitted with (so the core holds it back until
that dependency finishes, `c03_not_ready_with_deps`) or recorded as finished. -/
theorem c03_restart (J : List Record) (hp : Producible J) (hc : DepClosed (meaning J)) :
    ∃ R X, restore J = .ok (R, X) ∧
      ∀ job t deps i c, (job, t, deps, i, c) ∈ batchPending X.batches →
        ∃ ja ∈ (meaning J).jobs, ∃ a ∈ ja.2.tasks, ja.1 = job ∧ a.id = t ∧ a.st = .waiting ∧
          ∀ d ∈ a.deps, d ∈ deps ∨ ∃ b, ja.2.find d = some b ∧ b.st = .finished := by
  obtain ⟨R, X, hr, href⟩ := HqModel.C10.c10_restore_refines J hp
  refine ⟨R, X, hr, ?_⟩
  intro job t deps i c hm
  rw [href.pending] at hm
  simp only [AState.pending, List.mem_flatMap, List.mem_map] at hm
  obtain ⟨ja, hja, p, hp', heq⟩ := hm
  simp only [AJob.pending, List.mem_map, List.mem_filter] at hp'
  obtain ⟨a, ⟨ha, hw⟩, hpa⟩ := hp'
  subst hpa
  simp only [Prod.mk.injEq] at heq
  obtain ⟨h1, h2, h3, -, -⟩ := heq
  have hw' : a.st = .waiting := by simpa using hw
  refine ⟨ja, hja, a, ha, h1, h2, hw', ?_⟩
  intro d hd
  by_cases ht : ja.2.isTerminal d = true
  · right
    unfold AJob.isTerminal at ht
    split at ht
    · rename_i b hb
      refine ⟨b, hb, ?_⟩
      rcases hc ja hja a ha hw' d hd b hb with h | h
      · simp [h] at ht
      · exact h
    · cases ht
  · left
    rw [← h3]
    simp only [List.mem_filter]
    exact ⟨hd, by simpa using ht⟩

/-- executable form of `DepClosed` -/
def depClosedB (A : AState) : Bool :=
  A.jobs.all fun ja => ja.2.tasks.all fun a => a.st != .waiting || a.deps.all fun d =>
    match ja.2.find d with
    | some b => b.st == .waiting || b.st == .finished
    | none => true

theorem depClosed_iff (A : AState) : DepClosed A ↔ depClosedB A = true := by
  unfold DepClosed depClosedB
  simp only [List.all_eq_true, Bool.or_eq_true, bne_iff_ne, ne_eq]
  constructor
  · intro h ja hja a ha
    by_cases hw : a.st = .waiting
    · right
      intro d hd
      split
      · rename_i b hb
        rcases h ja hja a ha hw d hd b hb with h | h <;> simp [h]
      · rfl
    · left; exact hw
  · intro h ja hja a ha hw d hd b hb
    rcases h ja hja a ha with h | h
    · exact absurd hw h
    · have := h d hd
      rw [hb] at this
      simpa using this

instance (A : AState) : Decidable (DepClosed A) := decidable_of_iff _ (depClosed_iff A).symm

/-- the hypothesis is not vacuous and not trivial: in the journal "A → B submitted, A started, A failed" cut before the
abort of B is written, B is without outcome and depends on the failed A. The unchanged server never writes this
prefix (it writes `TasksAborted [B]` first, then `TaskFailed A`: second example); a server that does breaks C03 at
that crash point. -/
example : ¬ DepClosed (meaning
    [ .serverStart "u", .workerConnected 1 none,
      .submit 1 true none (.graph [⟨0, [], true⟩, ⟨1, [0], true⟩]),
      .taskStarted 1 0 0 [1], .taskFailed 1 0 ]) := by decide

example : DepClosed (meaning
    [ .serverStart "u", .workerConnected 1 none,
      .submit 1 true none (.graph [⟨0, [], true⟩, ⟨1, [0], true⟩]),
      .taskStarted 1 0 0 [1], .tasksAborted [(1, 1)] ]) ∧
  Producible
    [ .serverStart "u", .workerConnected 1 none,
      .submit 1 true none (.graph [⟨0, [], true⟩, ⟨1, [0], true⟩]),
      .taskStarted 1 0 0 [1], .tasksAborted [(1, 1)] ] := by decide

end HqModel.C03
