import HqModel.Props.C05
import HqModel.Props.C03
import HqModel.Lemmas.CoreQueueWitness
/-!
# C05 — the queue / dependency clause of the sanity checks is part of the inductive invariant

`c05_inv_partial`, `c05_resinv_reachable`, `c05_worker_task_wf` (and the C03/C06/C07 run theorems) assume, for every
scheduling round of the run, `Core.QueueOkD s` — a fact about the STATE the round starts from (the queue/dependency
clause of `TaskQueues::sanity_check` / `Core::sanity_check`). Here it is proved to hold in every reachable state,
as part of a stronger invariant `Core.QInv` (`Lemmas/CoreQueue*.lean`), for every run in which no task id is
submitted twice (`Core.NoIdReuse`, a decidable fact about the input; `c05_queue_reuse_witness`: it cannot be
dropped). What remains as side conditions (`Core.OpOk5`) are facts about the inputs of the operations:

* `newWorker`: a fresh record; `newRq`: every resource index once;
* `update`: the Reject protocol condition (`c05_reject_witness`) and `NoSaturation` (finding F29);
* `schedule`: `SolMnOk` — multi-node placements only for multi-node requests.

`Core.QInv U none [] s` (`U` = the ids submitted so far):
* task ids unique; every id in the map / in a consumer list / in a queue was submitted;
* consumer lists have no duplicates; no task of the map is Finished (at operation boundaries);
* **dependency count**: for every task `c` of the map, the number of tasks that list `c` as a consumer is at most
  `n` if `c` is `Waiting n` and 0 in every other state (`≤`, not `=`: a dependency named twice in a submit is
  counted twice by `on_new_tasks` and registered once);
* **queues**: every id in ready/prefill queue `i` is, if it is a task of the map, a task of request `i` that is not
  `Waiting (n+1)`, and no task of the map lists it as a consumer.
-/
namespace HqModel.C05
open HqModel.Core

/-- **The queue / dependency invariant holds in every reachable state**: for every run from the empty core whose
operations satisfy `OpOk5` and in which no task id is submitted twice, the state reached satisfies `QueueOkD` and
(a) every id in queue `i` was submitted, is (if known) a task of request `i` whose dependency counter is 0 (it is
`Waiting 0` or not Waiting at all) and is listed by nobody; (b) the
dependency count; (c) no task is Finished, consumer lists have no duplicates, only submitted ids occur. -/
theorem c05_queue_inv_reachable (ops : List Op) (s : State) (out : Out) (hok : RunOk OpOk5 {} ops)
    (hr : NoIdReuse ops) (hrun : run {} ops = .ok (s, out)) :
    QueueOkD s ∧
    (∀ (i : Nat) (q : Queue) (id : TaskId), s.queues[i]? = some q → id ∈ qIds q →
      id ∈ allNewIds ops ∧ (∀ t, s.task? id = some t → t.rq = i) ∧
      (∀ t, s.task? id = some t → ∀ n, t.state ≠ .waiting (n + 1)) ∧ ∀ dt ∈ s.tasks, id ∉ dt.consumers) ∧
    (∀ (c : TaskId) (t : Task), s.task? c = some t →
      (s.tasks.filter fun dt => decide (c ∈ dt.consumers)).length ≤ slack t.state) ∧
    (∀ t ∈ s.tasks, t.state ≠ .finished ∧ t.consumers.Nodup ∧ t.id ∈ allNewIds ops ∧
      ∀ c ∈ t.consumers, c ∈ allNewIds ops) := by
  obtain ⟨_, hq⟩ := run_queue_full hok hr hrun
  refine ⟨hq.queueOkD, ?_, ?_, ?_⟩
  · intro i q id hqi hid
    obtain ⟨g1, g2, g3, g4⟩ := hq.qg i q hqi id hid
    refine ⟨g1, g2, ?_, fun dt hdt hc => ?_⟩
    · intro t ht n hs
      have := g4 t ht
      rw [hs] at this
      simp at this
    · have := g3 dt hdt hc
      cases this
  · intro c t ht
    have := hq.cnt c t ht
    simp only [owed_nil, Nat.add_zero] at this
    have e : nL none s.tasks c = (s.tasks.filter fun dt => decide (c ∈ dt.consumers)).length := by
      unfold nL
      rw [List.countP_eq_length_filter]
      congr 1
      refine List.filter_congr fun dt _ => ?_
      simp [lst]
    rw [← e]; exact this
  · intro t ht
    refine ⟨fun e => ?_, hq.cnd t ht, hq.uT t ht, hq.uC t ht⟩
    have := hq.fin t ht e
    cases this

/-- in particular: a task that is not Waiting, or is `Waiting 0`, is listed by nobody (all its registered
dependencies have finished) -/
theorem c05_ready_unlisted (ops : List Op) (s : State) (out : Out) (hok : RunOk OpOk5 {} ops)
    (hr : NoIdReuse ops) (hrun : run {} ops = .ok (s, out)) (c : TaskId) (t : Task) (ht : s.task? c = some t)
    (hs : ∀ n, t.state ≠ .waiting (n + 1)) : ∀ dt ∈ s.tasks, c ∉ dt.consumers := by
  obtain ⟨_, hq⟩ := run_queue_full hok hr hrun
  have hs0 : slack t.state = 0 := by
    cases hst : t.state with
    | waiting n =>
      cases n with
      | zero => rfl
      | succ k => exact absurd hst (hs k)
    | _ => rfl
  intro dt hdt hc
  have := hq.nl_of_slack ht hs0 dt hdt hc
  cases this

/-- **`QueueOkD` is redundant**: a run from the empty core that satisfies the remaining side conditions `OpOk5`
and submits no id twice satisfies the side conditions `OpOk4` of `c05_resinv_reachable` … -/
theorem c05_queue_redundant (ops : List Op) (hok : RunOk OpOk5 {} ops) (hr : NoIdReuse ops) : RunOk OpOk4 {} ops :=
  runOk4_of_runOk5 hok hr

/-- … and, without any saturation condition, `OpOk2q` (= `OpOk2` without `QueueOkD`) implies `OpOk2`, the side
condition of `c05_worker_task_wf` and of the C03 / C06 / C07 run theorems -/
theorem c05_queue_redundant2 (ops : List Op) (hok : RunOk OpOk2q {} ops) (hr : NoIdReuse ops) : RunOk OpOk2 {} ops :=
  runOk2_of_runOk2q hok hr

/-- the step form: the full invariant `C05Full ∧ QInv` is preserved by EVERY operation under `StepHyp5`,
`NoSaturation` and freshness of the submitted ids (`U` = ids submitted before) -/
theorem c05_queue_step (U : List TaskId) (s s' : State) (op : Op) (out : Out) (hi : C05Full s)
    (hq : QInv U none [] s) (hstep : StepHyp5 s op) (hns : NoSaturation s op)
    (hfresh : ∀ x ∈ op.newIds, x ∉ U) (hnd : op.newIds.Nodup) (h : step s op = .ok (s', out)) :
    C05Full s' ∧ QInv (U ++ op.newIds) none [] s' :=
  ⟨c05_step_full hi (hstep.hyp4 hq.queueOkD) hns h,
   step_q hq hi.invF.inv (OpOk5.ok2q ⟨hstep, hns⟩).sol hfresh hnd h⟩

/-! ### the history theorems without the queue hypothesis -/

/-- `c05_resinv_reachable` without `QueueOkD`: **the server never overbooks**, for all operation sequences -/
theorem c05_resinv_reachable' (ops : List Op) (s : State) (out : Out)
    (hok : RunOk OpOk5 {} ops) (hr : NoIdReuse ops) (hrun : run {} ops = .ok (s, out))
    (w : Nat) (wk : Worker) (A : List TaskId) (F : List Nat) (P : List TaskId)
    (hw : s.worker? w = some wk) (ha : wk.assign = .sn A F P) (r : Nat) :
    getD F r + (A.map fun t => need wk.total (s.reserved t) r).sum = getD wk.total r :=
  c05_resinv_reachable ops s out (runOk4_of_runOk5 hok hr) hrun w wk A F P hw ha r

theorem c05_free_le_total' (ops : List Op) (s : State) (out : Out)
    (hok : RunOk OpOk5 {} ops) (hr : NoIdReuse ops) (hrun : run {} ops = .ok (s, out))
    (w : Nat) (wk : Worker) (A : List TaskId) (F : List Nat) (P : List TaskId)
    (hw : s.worker? w = some wk) (ha : wk.assign = .sn A F P) (r : Nat) : getD F r ≤ getD wk.total r :=
  c05_free_le_total ops s out (runOk4_of_runOk5 hok hr) hrun w wk A F P hw ha r

/-- `c05_worker_task_wf` without `QueueOkD`: the worker ↔ task half of the sanity checks in every reachable state -/
theorem c05_worker_task_wf' (ops : List Op) (s : State) (out : Out)
    (hok : RunOk OpOk2q {} ops) (hr : NoIdReuse ops) (hrun : run {} ops = .ok (s, out)) :
    (∀ w wk A F P t, s.worker? w = some wk → wk.assign = .sn A F P → t ∈ A →
      ∃ task, s.task? t = some task ∧ ((∃ v, task.state = .assigned w v) ∨ (∃ v, task.state = .running w v) ∨
        (∃ w0 v, task.state = .retracting w0 ∧ (t, w, v) ∈ s.redirects))) ∧
    (∀ w wk A F P t, s.worker? w = some wk → wk.assign = .sn A F P → t ∈ P →
      ∃ task, s.task? t = some task ∧ task.state = .prefilled w) ∧
    (∀ w wk t root st, s.worker? w = some wk → wk.assign = .mn t root st →
      ∃ task l, s.task? t = some task ∧ task.state = .runningMN l ∧ w ∈ l) ∧
    (∀ t task w v, s.task? t = some task → (task.state = .assigned w v ∨ task.state = .running w v) →
      ∃ wk A F P, s.worker? w = some wk ∧ wk.assign = .sn A F P ∧ t ∈ A) ∧
    (∀ t task w, s.task? t = some task → task.state = .prefilled w →
      ∃ wk A F P, s.worker? w = some wk ∧ wk.assign = .sn A F P ∧ t ∈ P) ∧
    (∀ t task l x, s.task? t = some task → task.state = .runningMN l → x ∈ l →
      ∃ wk root st, s.worker? x = some wk ∧ wk.assign = .mn t root st) ∧
    (∀ t w v, (t, w, v) ∈ s.redirects → (∃ task w0, s.task? t = some task ∧ task.state = .retracting w0) ∧
      t ∈ asgW s.workers w ∧ ∀ w' v', (t, w', v') ∈ s.redirects → w' = w ∧ v' = v) :=
  c05_worker_task_wf ops s out (runOk2_of_runOk2q hok hr) hrun

/-- `C03.c03_compute_only_ready_run` without `QueueOkD`: only ready tasks are sent, every step of every run -/
theorem c03_compute_only_ready_run' (pre post : List Op) (op : Op) (s s' : State) (out out' : Out)
    (hok : RunOk OpOk2q {} (pre ++ op :: post)) (hr : NoIdReuse (pre ++ op :: post))
    (hrun : run {} pre = .ok (s, out)) (hstep : step s op = .ok (s', out')) (w : Nat)
    (items : List (TaskId × Nat × Option Nat × List Nat)) (hm : Msg.compute w items ∈ out'.msgs)
    (it : TaskId × Nat × Option Nat × List Nat) (hit : it ∈ items) :
    (∃ task, s.task? it.1 = some task) ∧ ∀ dt ∈ s.tasks, it.1 ∉ dt.consumers :=
  C03.c03_compute_only_ready_run pre post op s s' out out' (runOk2_of_runOk2q hok hr) hrun hstep w items hm it hit

/-- `C03.c03_consumers_waiting_reachable` without `QueueOkD` -/
theorem c03_consumers_waiting_reachable' (ops : List Op) (s : State) (out : Out)
    (hok : RunOk OpOk2q {} ops) (hr : NoIdReuse ops) (hrun : run {} ops = .ok (s, out))
    (d c : TaskId) (dt ct : Task) (hd : s.task? d = some dt) (hc : c ∈ dt.consumers) (hct : s.task? c = some ct) :
    ∃ n, ct.state = .waiting n :=
  C03.c03_consumers_waiting_reachable ops s out (runOk2_of_runOk2q hok hr) hrun d c dt ct hd hc hct

/-! ### `NoIdReuse` cannot be dropped -/

/-- **`NoIdReuse` is necessary**: a run that satisfies all remaining side conditions (and `OpOk4` up to the
resubmission) but submits the id (1,1) twice — the first record left the map by a `Finished` while it was Retracting
in the ready queue, `remove_task` of a Finished task does not touch the queues, so the id stayed in queue 0 — reaches
a state in which `QueueOkD` is false (the id is in queue 0 and a task of request 1); the next scheduling round places
it with the amounts of request 0 and the resource equation of worker 1 is false afterwards. -/
theorem c05_queue_reuse_witness :
    RunOk OpOk5 {} (reuseQOps ++ [reuseQOp]) ∧ RunOk OpOk4 {} reuseQOps ∧ ¬ NoIdReuse (reuseQOps ++ [reuseQOp]) ∧
    (∃ s out, run {} reuseQOps = .ok (s, out) ∧ ¬ QueueOkD s) ∧
    (∃ s out, run {} (reuseQOps ++ [reuseQOp]) = .ok (s, out) ∧ resAtB s 1 0 = false) := by
  obtain ⟨h1, h2, h3, h4, _, _, h5⟩ := reuseQ_witness
  refine ⟨h1, h2, h3, ?_, ?_⟩
  · cases hrun : run {} reuseQOps with
    | error e => rw [hrun] at h4; simp [Except.toOption] at h4
    | ok r =>
      obtain ⟨s, out⟩ := r
      rw [hrun] at h4
      simp only [Except.toOption, Option.map_some, Option.some.injEq, decide_eq_false_iff_not] at h4
      exact ⟨s, out, rfl, h4⟩
  · cases hrun : run {} (reuseQOps ++ [reuseQOp]) with
    | error e => rw [hrun] at h5; simp [Except.toOption] at h5
    | ok r =>
      obtain ⟨s, out⟩ := r
      rw [hrun] at h5
      simp only [Except.toOption, Option.map_some, Option.some.injEq, Prod.mk.injEq] at h5
      exact ⟨s, out, rfl, h5.1⟩

/-- **The stronger clause "every queued id is a task of the map" is FALSE of the model** (so the invariant is stated
conditionally, like `QueueOkD`): a run satisfying `OpOk4` and `NoIdReuse` after which (1,1) is in ready queue 0 and
not in the map — the core accepted `Finished` for a task that was Retracting in the ready queue (`task_finished` has
an arm for it; `remove_task` of a Finished task does not touch the queues) — and the scheduling round that takes the
stale id stops with the panic `get_task`. Needs a worker that reports `Finished` for a task it never reported
`Running`; a C09-type observation, not reachable with the real worker. -/
theorem c05_queue_stale_witness :
    RunOk OpOk4 {} (reuseQOps.take 6 ++ [reuseQOp]) ∧ NoIdReuse (reuseQOps.take 6 ++ [reuseQOp]) ∧
    (∃ s out, run {} (reuseQOps.take 6) = .ok (s, out) ∧ (∃ q, s.queues[0]? = some q ∧ (1, 1) ∈ qIds q) ∧
      s.task? (1, 1) = none) ∧
    run {} (reuseQOps.take 6 ++ [reuseQOp]) = .error (.panic "get_task") := by
  obtain ⟨h1, h2, h3, h4, h5⟩ := staleQ_witness
  refine ⟨h1, h2, ?_, ?_⟩
  · cases hrun : run {} (reuseQOps.take 6) with
    | error e => rw [hrun] at h3; simp [Except.toOption] at h3
    | ok r =>
      obtain ⟨s, out⟩ := r
      rw [hrun] at h3 h4
      simp only [Except.toOption, Option.map_some, Option.some.injEq] at h3 h4
      refine ⟨s, out, rfl, ?_, ?_⟩
      · cases hq : s.queues with
        | nil => rw [hq] at h3; simp at h3
        | cons q rest =>
          rw [hq] at h3
          simp only [List.map_cons, List.cons.injEq] at h3
          refine ⟨q, by simp, ?_⟩
          simp [qIds, h3.1]
      · apply findTask_none_of_not_mem
        show (1, 1) ∉ s.tasks.map (·.id)
        rw [h4]; decide
  · cases hrun : run {} (reuseQOps.take 6 ++ [reuseQOp]) with
    | ok r => rw [hrun] at h5; simp at h5
    | error e =>
      rw [hrun] at h5
      cases e with
      | panic site => simp only at h5; rw [h5]

/-- **the dependency count is `≤`, not `=`** (`dupDep_witness`): a dependency named twice in one submit is counted
twice and registered once; after it finished the consumer is `Waiting 1`, listed by nobody, in no queue. -/
theorem c05_queue_dup_dep_witness :
    RunOk OpOk4 {} dupDepOps ∧ NoIdReuse dupDepOps ∧
    ((run {} dupDepOps).toOption.map fun r => r.1.tasks.map fun t => (t.id, t.consumers, t.state)) =
      some [((1, 1), [], .waiting 1)] ∧
    ((run {} dupDepOps).toOption.map fun r => r.1.queues.map fun q => qIds q) = some [[]] :=
  ⟨dupDep_witness.1, dupDep_witness.2.1, dupDep_witness.2.2.2.1, dupDep_witness.2.2.2.2⟩

/-! ### non-vacuity -/

/-- the dependency run `depOps` (task (1,1) depends on (1,0)) and the F29 run satisfy `OpOk5` and `NoIdReuse` -/
example : RunOk OpOk5 {} depOps ∧ NoIdReuse depOps ∧ RunOk OpOk5 {} f29Ops ∧ NoIdReuse f29Ops :=
  ⟨RunOk.mono (fun _ _ h => h.ok5) _ _ depOps_ok.1, depOps_ok.2.1, by decide, by decide⟩

/-- while (1,0) is running, (1,1) is `Waiting 1`, listed once (count 1 ≤ 1), and in no queue; after (1,0) finished it
is `Waiting 0`, listed by nobody, and in the ready queue of its request -/
example :
    ((run {} (depOps.take 5)).toOption.map fun r => r.1.tasks.map fun t => (t.id, t.consumers, t.state)) =
      some [((1, 0), [(1, 1)], .running 1 0), ((1, 1), [], .waiting 1)] ∧
    ((run {} (depOps.take 5)).toOption.map fun r => r.1.queues.map fun q => qIds q) = some [[]] ∧
    ((run {} (depOps.take 6)).toOption.map fun r => r.1.tasks.map fun t => (t.id, t.consumers, t.state)) =
      some [((1, 1), [], .waiting 0)] ∧
    ((run {} (depOps.take 6)).toOption.map fun r => r.1.queues.map fun q => qIds q) = some [[(1, 1)]] :=
  ⟨by decide, by decide, by decide, by decide⟩

/-- in the F29 run two tasks are queued / prefilled when the round starts: the clause is not vacuous there -/
example : ((run {} (f29Ops.take 4)).toOption.map fun r => decide (QueueOkD r.1)) = some true ∧
    ((run {} (f29Ops.take 4)).toOption.map fun r => r.1.queues.map fun q => qIds q) = some [[(1, 2), (1, 1)]] :=
  ⟨by decide, by decide⟩

end HqModel.C05
