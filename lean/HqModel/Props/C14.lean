import HqModel.Props.SysW
import HqModel.Lemmas.JobSteps
/-!
# C14 — max-fails: exceeding the limit aborts the rest of the job for good

`process_task_failed` (M4) is the decision point; the core feeds the returned list to `on_cancel_tasks`
(M1, modelled in `HqModel.Core.State.taskFailed`, tied by the correspondence). That aborted tasks never run
afterwards is C08/C01 (`c01_terminal_is_final`, `c01_core_forgets`).
-/
namespace HqModel.C14
open HqModel.Job

/-- **Exactly at the limit.** For every state, failing task and dependent list: `process_task_failed` hands the
core the list of ALL not yet terminal tasks of the job iff the job has a limit and the number of failed tasks
(after this failure) exceeds it; otherwise it hands back nothing (no abort for this reason). -/
theorem c14_decision (s s' : State) (t : TaskId) (cons ret : List TaskId) (evs : List Ev)
    (h : s.taskFailed t cons = .ok (s', evs, ret)) :
    ∃ job job1 ev1 job2 ev2, s.getJob t.1 = some job ∧ job.abortTasks cons = .ok (job1, ev1) ∧
      job1.setFailed t.2 = .ok (job2, ev2) ∧
      ((∃ m, job2.maxFails = some m ∧ job2.cnt.failed > m ∧
          ret = job2.nonFinishedTaskIds.map (fun x => (job2.id, x))) ∨
       ((∀ m, job2.maxFails = some m → ¬ job2.cnt.failed > m) ∧ ret = [])) :=
  taskFailed_ret h

/-- **Everything not terminal is aborted**: a successful `abort_tasks` over the job's non-terminal tasks
leaves every task of the job terminal. -/
theorem c14_abort_all (job job' : Job) (evs : List Ev)
    (h : job.abortTasks (job.nonFinishedTaskIds.map fun x => (job.id, x)) = .ok (job', evs)) :
    ∀ p ∈ job'.tasks, p.2.terminal = true := by
  unfold Job.abortTasks at h
  split at h
  · rename_i hemp
    cases h
    intro p hp
    have hnil : job.nonFinishedTaskIds = [] := by simpa [List.isEmpty_iff] using hemp
    by_cases ht : p.2.terminal = true
    · exact ht
    · have : p.1 ∈ job.nonFinishedTaskIds := by
        simp only [Job.nonFinishedTaskIds, List.mem_map, List.mem_filter]
        exact ⟨p, ⟨hp, by simpa using ht⟩, rfl⟩
      rw [hnil] at this; cases this
  · split at h
    · cases h
    · rename_i job1 hm
      cases h
      intro p hp
      rcases markAll_all (by decide) _ _ _ hm p hp with h | h
      · exact h
      · by_cases ht : p.2.terminal = true
        · exact ht
        · exfalso
          apply h.2
          simp only [List.mem_map]
          refine ⟨p.1, ?_, rfl⟩
          simp only [Job.nonFinishedTaskIds, List.mem_map, List.mem_filter]
          exact ⟨p, ⟨h.1, by simpa using ht⟩, rfl⟩

/-- non-vacuity: limit 0, task 0 fails while task 1 waits: task 1 is handed back for cancelling -/
example :
    ((State.taskFailed (⟨[(⟨1, [(0, .running), (1, .waiting)], ⟨1, 0, 0, 0, 0⟩, false, some 0⟩ : Job)],
        2, [], []⟩ : State) (1, 0) []).toOption.map (·.2.2)) = some [(1, 1)] := by
  decide

end HqModel.C14
