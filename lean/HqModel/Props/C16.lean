import HqModel.Alloc.Run
import HqModel.Lemmas.AllocExact
import HqModel.Lemmas.AllocAdmit
/-!
# C16 — allocation policies mean what the documentation says; no spurious refusals

Model: `HqModel.Alloc` (M3).
-/
namespace HqModel.C16
open HqModel.Alloc

/-- **c16_grant_agrees (agreement part).** The admission test and the grant agree: if `is_enabled rq` answers `b`
(with any allowed solver answers) and `try_allocate rq` is then executed (with any allowed solver answers, which may
be different ones), it grants iff `b`. Both are the choice-free decision `admitSpec`.

`_partial`: the second half of the design statement — "when admitted, `claim` does not stop (every `pop().unwrap()`
is guarded, the loops terminate)" — is not proved here; it is covered by the correspondence (the model predicts a
stop as `!panic`/`!hang`, none is observed for valid requests) and by `C04.c04_inv` for release. -/
theorem c16_grant_agrees_partial {s s₁ s₂ : State} {rq : Request} {ch₁ ch₂ : Choices} {h : Nat} {b : Bool}
    {r : Option Allocation} (he : isEnabled s rq ch₁ = .ok (b, s₁)) (ha : tryAllocate s₁ h rq ch₂ = .ok (r, s₂)) :
    r.isSome = b ∧ b = (admitSpec s rq).1 := by
  -- is_enabled
  unfold isEnabled at he
  split at he
  · cases he
  · rename_i b' cache hr
    simp only [Except.ok.injEq, Prod.mk.injEq] at he
    obtain ⟨rfl, rfl⟩ := he
    have hspec := hasResources_spec hr
    have hb : b' = (admitSpec s rq).1 := by rw [hspec]
    have hcache : cache = (admitSpec s rq).2 := by rw [hspec]
    refine ⟨?_, hb⟩
    -- try_allocate
    unfold tryAllocate at ha
    split at ha
    · cases ha
    · rename_i cache' hr'
      simp only [Except.ok.injEq, Prod.mk.injEq] at ha
      obtain ⟨rfl, -⟩ := ha
      have := hasResources_spec hr'
      have h2 := admitSpec_idem s rq
      rw [← hcache, this] at h2
      rw [hb, ← h2]; rfl
    · cases ha
    · rename_i cache' sols1 hr'
      have := hasResources_spec hr'
      have h2 := admitSpec_idem s rq
      rw [← hcache, this] at h2
      split at ha
      · cases ha
      · cases ha
      · split at ha
        · cases ha
        · simp only [Except.ok.injEq, Prod.mk.injEq] at ha
          obtain ⟨rfl, -⟩ := ha
          rw [hb, ← h2]; rfl
  · cases he

/-- **c16_single_fraction.** In every resource allocation of a grant at most one entry has `fractions > 0`, and it
is the last one. -/
theorem c16_single_fraction {s s' : State} {h : Nat} {rq : Request} {ch : Choices} {al : Allocation}
    (hstep : tryAllocate s h rq ch = .ok (some al, s')) :
    ∀ ra ∈ al, ∃ ws, WholeOnly ws ∧ (ra.indices = ws ∨ ∃ f, f.fractions ≠ 0 ∧ ra.indices = ws ++ [f]) := by
  intro ra hra
  obtain ⟨e, -, p, -, -, -, hcases⟩ := (tryAllocate_exact hstep).1 ra hra
  have ofShape : Shape ra.amount ra.indices →
      ∃ ws, WholeOnly ws ∧ (ra.indices = ws ∨ ∃ f, f.fractions ≠ 0 ∧ ra.indices = ws ++ [f]) := by
    rintro ⟨ws, hw, -, hres⟩
    rcases hres with ⟨-, hl⟩ | ⟨f, hf, hne, hl⟩
    · exact ⟨ws, hw, .inl hl⟩
    · exact ⟨ws, hw, .inr ⟨f, by rw [hf]; exact hne, hl⟩⟩
  rcases hcases with ⟨-, h0⟩ | ⟨-, hs⟩ | ⟨-, -, hs⟩ | ⟨-, -, hw⟩
  · exact ⟨[], WholeOnly.nil, .inl h0⟩
  · exact ofShape hs
  · exact ofShape hs
  · exact ⟨ra.indices, hw, .inl rfl⟩

end HqModel.C16
