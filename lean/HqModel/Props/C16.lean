import HqModel.Alloc.Run
import HqModel.Lemmas.AllocExact
import HqModel.Lemmas.AllocAdmit
import HqModel.Lemmas.AllocPolicy
import HqModel.Lemmas.AllocReach
import HqModel.Lemmas.AllocCompact
/-!
# C16 — allocation policies mean what the documentation says; no spurious refusals

Model: `HqModel.Alloc` (M3).
-/
namespace HqModel.C16
open HqModel.Alloc

/-- **c16_grant_agrees (agreement part).** The admission test and the grant agree: if `is_enabled rq` answers `b`
and `try_allocate rq` is executed next, it grants iff `b`.

Hypothesis `hdet` (determinism of the solver): when the request has a strict (`compact!`/`tight!`) entry on a grouped
resource — the only case in which the admission test consults the solver — the solver reports for the current free
state the same objective value in both operations (`curObj` = objective value of the first recorded answer). Both
questions are the identical MILP; HiGHS is deterministic but may stop anywhere within its relative gap, which is why
this is a hypothesis on the recorded answers and not a consequence of their validation. For requests without such an
entry there is no hypothesis.

`_partial`: the second half of the design statement — "when admitted, `claim` does not stop (every `pop().unwrap()`
is guarded, the loops terminate)" — is `c16_claim_nostop_partial` below (list / range / sum resources and `all`; not
the scatter / compact / tight loops on grouped resources) and `C04.c04_release` (release). -/
theorem c16_grant_agrees_partial {s s₁ s₂ : State} {rq : Request} {ch₁ ch₂ : Choices} {h : Nat} {b : Bool}
    {r : Option Allocation} (he : isEnabled s rq ch₁ = .ok (b, s₁)) (ha : tryAllocate s₁ h rq ch₂ = .ok (r, s₂))
    (hdet : (coupledEntries s.pools rq).all (fun e => !e.policy.forced) = false → curObj ch₂.sols = curObj ch₁.sols) :
    r.isSome = b := by
  -- is_enabled
  unfold isEnabled at he
  split at he
  · cases he
  · rename_i b' cache hr
    simp only [Except.ok.injEq, Prod.mk.injEq] at he
    obtain ⟨rfl, rfl⟩ := he
    have hspec := hasResources_with hr
    have hb : b' = (admitWith s rq (curObj ch₁.sols) (bestObj ch₁.sols)).1 := by rw [hspec]
    have hcache : cache = (admitWith s rq (curObj ch₁.sols) (bestObj ch₁.sols)).2 := by rw [hspec]
    -- the decision of try_allocate
    have key : ∀ {b₂ : Bool} {cache₂ rest₂}, hasResources { s with cache := cache } rq ch₂.sols =
        .ok (b₂, cache₂, rest₂) → b₂ = b' := by
      intro b₂ cache₂ rest₂ hr'
      have h2 := hasResources_with hr'
      have hb₂ : b₂ = (admitWith { s with cache := cache } rq (curObj ch₂.sols) (bestObj ch₂.sols)).1 := by rw [h2]
      rw [hb₂, hb, hcache]
      by_cases hf : (coupledEntries s.pools rq).all (fun e => !e.policy.forced) = true
      · rw [admitWith_nonforced { s with cache := (admitWith s rq (curObj ch₁.sols) (bestObj ch₁.sols)).2 } rq
          (curObj ch₂.sols) (curObj ch₁.sols) (bestObj ch₂.sols) (bestObj ch₂.sols) (.inr hf)]
        exact admitWith_idem s rq _ _ _
      · rw [hdet (by simpa using hf)]
        exact admitWith_idem s rq _ _ _
    unfold tryAllocate at ha
    split at ha
    · cases ha
    · rename_i cache' hr'
      simp only [Except.ok.injEq, Prod.mk.injEq] at ha
      obtain ⟨rfl, -⟩ := ha
      rw [← key hr']; rfl
    · cases ha
    · rename_i cache' sols1 hr'
      split at ha
      · cases ha
      · cases ha
      · split at ha
        · cases ha
        · simp only [Except.ok.injEq, Prod.mk.injEq] at ha
          obtain ⟨rfl, -⟩ := ha
          rw [← key hr']; rfl
  · cases he

/-- **c16_grant_agrees (no-stop part).** In every reachable state (side condition `NoSingletonGroups`) `try_allocate`
never stops — no failing `pop().unwrap()`, `group_solver(..).unwrap()`, `assert!`, `unreachable!`, index, and no
non-termination, in the claims and in `free_resources.remove` — whatever the admission test answers, for every request
with distinct resource ids (what `validate()` enforces) whose entries address resources the worker has
(`is_capable_to_run_request`) and that are
* list / range / sum resources with any policy and any amount, or
* grouped resources with `all`, `scatter` or `compact` (the default policy). This includes: termination of the
  round-robin `while` loop of `claim_scatter_from_groups` (`scatterLoop_nostop`: if the groups of the round contain the
  amount, a whole index is taken at the latest after one round); every group set the model accepts as solver answer
  contains the amount (`feasible_scatterOk`); and when the admission test passes the MILP is feasible, so the solver
  cannot report infeasibility (`admitted_feasible`, `optimum_ne_none`).
`hw`: the coupling items address existing groups (`ResourceDescriptor::validate`), otherwise `vars[r][group]` in
`group_solver` is out of bounds. (`NoStop` allows only the outcome "a recorded choice was rejected".)

`_partial`: entries with `tight` and with the strict policies `compact!`/`tight!` on GROUPED resources are excluded:
the loop of `claim_compact_from_groups` (tight) and the solver calls of the strict admission path (feasibility of the
MILP on the empty worker) are not proved; there the statement rests on the correspondence (every stop is predicted
as `!panic`/`!hang`; none is observed for valid requests in 870 000 compared steps; a looping mutant is reported by the
harness watchdog). -/
theorem c16_claim_nostop_partial {d : Descriptor} {s₀ s : State} (hinit : State.init d = some s₀)
    (hns : NoSingletonGroups s₀) (hreach : Reach s₀ s) (h : Nat) (rq : Request) (ch : Choices)
    (hvalid : (rq.map (·.rid)).Nodup)
    (hcap : ∀ e ∈ rq, s.pools[e.rid]? ≠ some .empty)
    (hpol : ∀ e ∈ rq, ∀ full gs, s.pools[e.rid]? = some (.groups full gs) →
      e.policy = .all ∨ e.policy = .scatter ∨ e.policy = .compact)
    (hw : (mkLp s.concise (coupledEntries s.pools rq) s.weights).weightOob = false) :
    NoStop (tryAllocate s h rq ch) := by
  have hinv := reach_inv2 hinit hns hreach
  obtain ⟨-, hU⟩ := init_inv2 hinit hns
  exact tryAllocate_nostop_compact hinv hU h rq ch hvalid hpol hcap hw

/-- **c16_single_fraction.** In every resource allocation of a grant at most one entry has `fractions > 0`, and it
is the last one. -/
theorem c16_single_fraction {s s' : State} {h : Nat} {rq : Request} {ch : Choices} {al : Allocation}
    (hstep : tryAllocate s h rq ch = .ok (some al, s')) :
    ∀ ra ∈ al, ∃ ws, WholeOnly ws ∧ (ra.indices = ws ∨ ∃ f, f.fractions ≠ 0 ∧ ra.indices = ws ++ [f]) := by
  intro ra hra
  obtain ⟨e, -, p, -, -, -, hcases⟩ := (tryAllocate_exact hstep).1 ra hra
  have ofShape : Shape ra.amount ra.indices →
      ∃ ws, WholeOnly ws ∧ (ra.indices = ws ∨ ∃ f, f.fractions ≠ 0 ∧ ra.indices = ws ++ [f]) := by
    rintro ⟨ws, hw, -, hres⟩
    rcases hres with ⟨-, hl⟩ | ⟨f, hf, hne, hl⟩
    · exact ⟨ws, hw, .inl hl⟩
    · exact ⟨ws, hw, .inr ⟨f, by rw [hf]; exact hne, hl⟩⟩
  rcases hcases with ⟨-, h0⟩ | ⟨-, hs⟩ | ⟨-, -, hs⟩ | ⟨-, -, hw⟩
  · exact ⟨[], WholeOnly.nil, .inl h0⟩
  · exact ofShape hs
  · exact ofShape hs
  · exact ⟨ra.indices, hw, .inl rfl⟩

/-- the admission test of one entry in closed form: enough whole indices, and for a fractional part either a spare
whole index or one index (of any group) with at least that fraction free -/
def Contains (c : CState) (amount : Nat) : Prop :=
  amount / FPU < totalUnits c ∨
    (amount / FPU = totalUnits c ∧ (amount % FPU = 0 ∨ ∃ g ∈ c, ∃ kv ∈ g.fracs, amount % FPU ≤ kv.2))

/-- **c16_admit_iff.** For a request without strict (`compact!`/`tight!`) entries, `has_resources_for_request`
answers `true` iff every entry passes its own test, and for an entry with an amount (not `all`) on an existing pool
that test is exactly `Contains`: the concise free state of the resource contains the amount (the closed form
`amount ≤ Σ units + max fraction` is equivalent to the existence statement).

`_partial`: this version holds for ANY state but has the hypothesis `hlt` (every free fraction recorded in the concise
state is below one unit); `c16_admit_iff` below discharges it for reachable states. -/
theorem c16_admit_iff_partial {s : State} {rq : Request} {sols rest : List (Option SolRec)} {b : Bool}
    {cache : List (Request × Int)} (h : hasResources s rq sols = .ok (b, cache, rest))
    (hnf : ∀ e ∈ rq, e.policy.forced = false) :
    b = rq.all (entryHasResources s.pools s.concise) ∧
      ∀ e ∈ rq, e.policy ≠ .all → ∀ (pool : Pool) (c : CState), s.pools[e.rid]? = some pool →
        s.concise[e.rid]? = some c → (∀ g ∈ c, ∀ kv ∈ g.fracs, kv.2 < FPU) →
          (entryHasResources s.pools s.concise e = true ↔ Contains c e.amount) := by
  constructor
  · have hw := hasResources_with h
    have hall : (coupledEntries s.pools rq).all (fun e => !e.policy.forced) = true := by
      rw [List.all_eq_true]
      intro e he
      have := hnf e (List.mem_filter.mp he).1
      simp [this]
    unfold admitWith at hw
    by_cases h1 : (!rq.all (entryHasResources s.pools s.concise)) = true
    · rw [if_pos h1] at hw
      simp only [Prod.mk.injEq] at hw
      rw [← hw.1]
      simpa using h1
    · rw [if_neg h1] at hw
      dsimp only at hw
      rw [if_pos hall] at hw
      simp only [Prod.mk.injEq] at hw
      rw [← hw.1]
      simpa using h1
  · intro e _ hpol pool c hp hc hlt
    have hF := maxFrac_lt c hlt
    have hentry : entryHasResources s.pools s.concise e = decide (e.amount ≤ c.maxAlloc) := by
      unfold entryHasResources
      rw [hp]
      simp only [hc, Option.getD_some]
    rw [hentry, decide_eq_true_iff, maxAlloc_eq, le_maxAlloc_iff _ _ _ hF]
    unfold Contains
    constructor
    · rintro (h1 | ⟨h1, h2⟩)
      · exact .inl h1
      · refine .inr ⟨h1, ?_⟩
        rcases Nat.eq_zero_or_pos (e.amount % FPU) with h0 | hpos
        · exact .inl h0
        · exact .inr ((le_maxFrac_iff c _ hpos).mp h2)
    · rintro (h1 | ⟨h1, h2⟩)
      · exact .inl h1
      · refine .inr ⟨h1, ?_⟩
        rcases h2 with h0 | hex
        · omega
        · rcases Nat.eq_zero_or_pos (e.amount % FPU) with h0 | hpos
          · omega
          · exact (le_maxFrac_iff c _ hpos).mpr hex

/-- **c16_admit_iff.** In every reachable state (side condition `NoSingletonGroups`), for a request without strict
entries: `has_resources_for_request` answers `true` iff every entry passes its test; for an entry with an amount on an
existing pool that test holds iff the free state contains the amount (`Contains`: enough whole indices and, for a
fractional part, a spare whole index or one index with at least that fraction free), where the concise state `c` the
test reads is the summary of the pool (`CEquiv c pool.conciseState`, from `C04.c04_concise`). No spurious refusal and
no spurious admission for non-strict policies. -/
theorem c16_admit_iff {d : Descriptor} {s₀ s : State} (hinit : State.init d = some s₀) (hns : NoSingletonGroups s₀)
    (hreach : Reach s₀ s) {rq : Request} {sols rest : List (Option SolRec)} {b : Bool}
    {cache : List (Request × Int)} (h : hasResources s rq sols = .ok (b, cache, rest))
    (hnf : ∀ e ∈ rq, e.policy.forced = false) :
    b = rq.all (entryHasResources s.pools s.concise) ∧
      ∀ e ∈ rq, e.policy ≠ .all → ∀ (pool : Pool) (c : CState), s.pools[e.rid]? = some pool →
        s.concise[e.rid]? = some c →
          (entryHasResources s.pools s.concise e = true ↔ Contains c e.amount) ∧ CEquiv c pool.conciseState := by
  have hinv := reach_inv2 hinit hns hreach
  obtain ⟨h1, h2⟩ := c16_admit_iff_partial h hnf
  refine ⟨h1, fun e he hpol pool c hp hc => ⟨?_, concise_eq_summary hinv e.rid pool c hp hc⟩⟩
  exact h2 e he hpol pool c hp hc (concise_vals_lt hinv e.rid pool c hp hc)

/-- **c16_all.** `all` on a grouped resource grants the full size of the resource, takes every free index of every
group as a whole index and leaves no free whole index behind (for list/range resources `all` is `C04.c04_exact`:
exactly `full / FPU` whole indices).

`_partial`: that *all* indices of the resource are free at that moment follows from the admission test of `all`
(`amount_max_alloc == full_size`) and `C04.c04_concise`; this last step is not formalised (same missing key
duplicate-freeness as in `c16_admit_iff_partial`). -/
theorem c16_all_partial {full : Nat} {gs : List Group} {e : Entry} {pick : Option Nat} {p' : Pool} {ra : RAlloc}
    (hpol : e.policy = .all) (h : (Pool.groups full gs).claim e pick = .ok (p', ra)) :
    ra.amount = full ∧ WholeOnly ra.indices ∧ (ra.indices.map (·.index)).Perm ((gs.map (·.free)).flatten) ∧
      ∀ g ∈ p'.groupsOf, g.free = [] := by
  simp only [Pool.claim, hpol, Except.ok.injEq, Prod.mk.injEq] at h
  obtain ⟨rfl, rfl⟩ := h
  obtain ⟨h1, h2, -⟩ := claimAllAux_spec 0 gs
  exact ⟨rfl, claimAllAux_whole 0 gs, h2, h1⟩

/-- **c16_scatter.** If every group has a free whole index and a whole number of at most `#groups` indices is
requested, `scatter` takes exactly one index from each of the groups `0 … units-1`: the number of groups used is the
number of requested indices = min(requested indices, non-empty groups).

`_partial`: the general case (some groups empty: they are skipped; more indices than non-empty groups: further
rounds) is not proved; it is checked by the harness monitor `c16.scatter` on every scatter grant. -/
theorem c16_scatter_partial {amount : Nat} {gs gs' : List Group} {pick : Option Nat} {acc : List AIdx}
    (h : claimScatter amount gs none pick = .ok (gs', acc)) (hwhole : amount % FPU = 0)
    (hle : amount / FPU ≤ gs.length) (hne : ∀ g ∈ gs, g.free ≠ []) :
    (acc.map (·.group)).Perm (List.range' 0 (amount / FPU)) := by
  unfold claimScatter at h
  split at h
  · cases h
  · rename_i gs₁ acc₁ hl
    simp only [Except.ok.injEq, Prod.mk.injEq] at h
    obtain ⟨rfl, rfl⟩ := h
    rw [hwhole] at hl
    obtain ⟨h1, -⟩ := scatterLoop_first_round hl (by simpa using hle)
      (fun j g _ hg => hne g (List.mem_of_getElem? hg))
    simp only [List.length_nil, List.drop_zero] at h1
    rw [← h1]
    exact (sortIdx_perm' acc₁).map _

/-- deviation of the objective of a group set from `-1024` per group (the tie-break / bonus terms), scaled -/
def dev (lp : EntryLp) (S : List Nat) : Int := objSel lp.coefs S + groupCost * S.length

/-- **c16_min_groups.** For a single coupled entry without coupling terms: every set `S` the model allows as solver
answer with objective at least that of a feasible set `S'` (in particular every optimal `S`, against every feasible
`S'`) has at most as many groups as `S'` — i.e. an optimal solution of `groupObjective` has minimum cardinality
among the feasible sets — provided the tie-break terms cannot outweigh one `-1024`:
whole amounts (`dev ≤ 0`, `dev = -u/32` summed): fewer than 32 768 indices in a feasible selection, i.e. `-K < dev`;
fractional amounts (`dev ≥ 0`, bonus `< 16` per group): fewer than 64 groups, i.e. `dev < K`.

`_partial`: the bound is a hypothesis on `dev` (not derived from the descriptor size), coupling terms are excluded
(weights ≥ 1024 deliberately trade groups for affinity), and solver answers inside the MIP gap but not optimal are
covered only through the explicit premise `hopt`. -/
theorem c16_min_groups_partial (lp : EntryLp) (S S' : List Nat)
    (hopt : objSel lp.coefs S' ≤ objSel lp.coefs S)
    (hdev : (-groupCost < dev lp S' ∧ dev lp S ≤ 0) ∨ (0 ≤ dev lp S' ∧ dev lp S < groupCost)) :
    S.length ≤ S'.length := by
  unfold dev groupCost at hdev
  rcases Nat.lt_or_ge S'.length S.length with hlt | hge
  · exfalso
    have : (S'.length : Int) + 1 ≤ S.length := by omega
    rcases hdev with ⟨h1, h2⟩ | ⟨h1, h2⟩ <;> omega
  · exact hge

/-- **c16_strict.** A strict request is admitted only if the solver's objective for the current free state reaches
the cached optimum of the empty worker minus 0.1 (`hadm`, see `admitWith`); for a single coupled entry without
coupling terms this implies that the granted set `S` uses no more groups than the set `B` the solver chose on the
empty worker, under the same no-outweighing bound as `c16_min_groups_partial` (with the margin 0.1 added).

`_partial`: only this direction. The converse ("refused only if more groups would be needed") is FALSE for the code:
with groups of different sizes the tie-break term `-u/32` alone can exceed the margin (known finding F30,
`corpus/alloc/strict_refusal_tiebreak.trace`); with couplings the documented stricter rule applies and is modelled
as is (`admitWith`). -/
theorem c16_strict_partial (lpCur lpEmpty : EntryLp) (S B : List Nat)
    (hadm : objSel lpEmpty.coefs B - strictMargin ≤ objSel lpCur.coefs S)
    (hdev : dev lpCur S - dev lpEmpty B + strictMargin < groupCost) :
    S.length ≤ B.length := by
  unfold dev groupCost strictMargin at *
  rcases Nat.lt_or_ge B.length S.length with hlt | hge
  · exfalso
    have : (B.length : Int) + 1 ≤ S.length := by omega
    omega
  · exact hge

/-! ### non-vacuity -/

/-- a grouped resource 3×2 with one index of group 1 half taken -/
def exC : CState := [⟨2, []⟩, ⟨1, [(3, 5000)]⟩, ⟨2, []⟩]

example : Contains exC 55000 ∧ ¬ Contains exC 57500 := by
  refine ⟨.inr ⟨by decide, .inr ⟨⟨1, [(3, 5000)]⟩, by simp [exC], (3, 5000), by simp, by decide⟩⟩, ?_⟩
  rintro (h | ⟨-, h | ⟨g, hg, kv, hkv, hle⟩⟩)
  · revert h; decide
  · revert h; decide
  · simp only [exC, List.mem_cons, List.not_mem_nil, or_false] at hg
    rcases hg with rfl | rfl | rfl
    · cases hkv
    · simp at hkv; subst hkv; revert hle; decide
    · cases hkv

def exGs : List Group := [⟨[1, 0], []⟩, ⟨[3, 2], []⟩, ⟨[5, 4], []⟩]

/-- `all`, scatter and the hypotheses of the two optimisation statements are satisfiable -/
example : (∃ p' ra, (Pool.groups 60000 exGs).claim ⟨0, .all, 0⟩ none = .ok (p', ra) ∧ ra.indices.length = 6) ∧
    (∃ gs' acc, claimScatter 30000 exGs none none = .ok (gs', acc) ∧ acc.map (·.group) = [0, 1, 2]) ∧
    ((entryLp exC 30000).feasible [0, 1] = true ∧ (entryLp exC 30000).feasible [0, 1, 2] = true ∧
      objSel (entryLp exC 30000).coefs [0, 1, 2] ≤ objSel (entryLp exC 30000).coefs [0, 1] ∧
      -groupCost < dev (entryLp exC 30000) [0, 1, 2] ∧ dev (entryLp exC 30000) [0, 1] ≤ 0) := by
  refine ⟨⟨_, _, rfl, by decide⟩, ⟨_, _, rfl, by decide⟩, by decide, by decide, by decide, by decide, by decide⟩

/-- `c16_admit_iff`, `c16_claim_nostop_partial`: their hypotheses hold for a list resource in its initial state
(which is reachable) and the request `1.5 compact` -/
example : ∃ s₀, State.init { items := [(0, .list 3)], couplings := [] } = some s₀ ∧ NoSingletonGroups s₀ ∧
    Reach s₀ s₀ ∧ hasResources s₀ [⟨0, .compact, 15000⟩] [] = .ok (true, [], []) ∧
    (([⟨0, .compact, 15000⟩] : Request).map (·.rid)).Nodup ∧
    (∀ e ∈ ([⟨0, .compact, 15000⟩] : Request), s₀.pools[e.rid]? ≠ some .empty) ∧
    (∀ e ∈ ([⟨0, .compact, 15000⟩] : Request), ∀ full gs, s₀.pools[e.rid]? = some (.groups full gs) →
      e.policy = .all ∨ e.policy = .scatter ∨ e.policy = .compact) ∧
    (mkLp s₀.concise (coupledEntries s₀.pools [⟨0, .compact, 15000⟩]) s₀.weights).weightOob = false := by
  refine ⟨_, rfl, ?_, Reach.init, rfl, by decide, ?_, ?_, by decide⟩
  rotate_left
  · intro e he
    simp only [List.mem_cons, List.not_mem_nil, or_false] at he
    subst he
    simp [State.init, placeItems, Pool.new]
  · intro e he full gs hp
    simp only [List.mem_cons, List.not_mem_nil, or_false] at he
    subst he
    simp [State.init, placeItems, Pool.new] at hp
  intro rid p hp ht
  match rid with
  | 0 =>
    simp only [State.init, placeItems, Pool.new] at hp
    simp at hp
    subst hp
    simp [Pool.tag] at ht
  | k + 1 =>
    simp only [State.init, placeItems, Pool.new] at hp
    simp at hp

/-- `c16_claim_nostop_partial` on a grouped resource (2×2) with the default policy `compact` -/
example : ∃ s₀, State.init { items := [(0, .groups [2, 2])], couplings := [] } = some s₀ ∧ NoSingletonGroups s₀ ∧
    (∀ e ∈ ([⟨0, .compact, 25000⟩] : Request), s₀.pools[e.rid]? ≠ some .empty) ∧
    (∀ e ∈ ([⟨0, .compact, 25000⟩] : Request), ∀ full gs, s₀.pools[e.rid]? = some (.groups full gs) →
      e.policy = .all ∨ e.policy = .scatter ∨ e.policy = .compact) ∧
    (mkLp s₀.concise (coupledEntries s₀.pools [⟨0, .compact, 25000⟩]) s₀.weights).weightOob = false ∧
    (∃ al s₁, tryAllocate s₀ 0 [⟨0, .compact, 25000⟩] ⟨[some ⟨-40960000, [[0, 1]]⟩], []⟩ = .ok (some al, s₁)) := by
  refine ⟨_, rfl, ?_, ?_, ?_, by decide, ⟨_, _, rfl⟩⟩
  · intro rid p hp ht
    match rid with
    | 0 =>
      simp only [State.init, placeItems, Pool.new] at hp
      simp at hp
      subst hp
      decide
    | k + 1 =>
      simp only [State.init, placeItems, Pool.new] at hp
      simp at hp
  · intro e he
    simp only [List.mem_cons, List.not_mem_nil, or_false] at he
    subst he
    simp [State.init, placeItems, Pool.new]
  · intro e he full gs _
    simp only [List.mem_cons, List.not_mem_nil, or_false] at he
    subst he
    exact .inr (.inr rfl)

/-- the two operations of `c16_grant_agrees_partial` on a strict request -/
example : ∃ s₀ b s₁ r s₂,
    State.init { items := [(0, .groups [2, 2])], couplings := [] } = some s₀ ∧
    isEnabled s₀ [⟨0, .forceCompact, 20000⟩] ⟨[some ⟨-20481250, [[0]]⟩, some ⟨-20481250, [[0]]⟩], []⟩ = .ok (b, s₁) ∧
    tryAllocate s₁ 0 [⟨0, .forceCompact, 20000⟩] ⟨[some ⟨-20481250, [[0]]⟩, some ⟨-20481250, [[0]]⟩], []⟩ =
      .ok (r, s₂) ∧ b = true ∧ r.isSome = true :=
  ⟨_, _, _, _, _, rfl, rfl, rfl, rfl, rfl⟩

end HqModel.C16
