import HqModel.Props.C09Rpc
import HqModel.Props.SysW
import HqModel.Props.WorkerSide
import HqModel.Lemmas.JobSteps
import HqModel.Props.C13
/-!
# C09 — no reachable panic

Every `panic!/unreachable!/assert!/unwrap` of the modelled paths is an explicit `Stop.panic` outcome of the
models M1 (core), M4 (job layer) and M2 (worker); the correspondence check compares panics step by step
(`out !panic`) and the harness reports every caught panic of the real code with its source function as
`mon FAIL c09.panic <file.fn>`. Proved here (M4, all states): no *client request* makes the job layer panic
in a well-formed state. The composed statement (`c09_no_panic` over all cluster runs) is not a theorem; it is
explored by the simulation on the real code, which found and led to the repair of twelve panics
(KNOWN_FINDINGS.jsonl); one remains as a recorded finding (F27).
-/
namespace HqModel.C09
open HqModel.Job

/-- **`close`, `open` never panic** in a well-formed state. -/
theorem c09_open_close_no_panic (s : State) (hs : StateWF s) (mf : Option Nat) (j : Nat) :
    (∃ r, s.openJob mf = .ok r) ∧ (∃ r, step s (.close j) = .ok r) := by
  refine ⟨?_, ⟨_, rfl⟩⟩
  simp only [State.openJob]
  have : s.getJob s.jobCtr = none := by
    apply findJob_none_of_not_mem
    intro hm
    obtain ⟨x, hx, he⟩ := List.mem_map.mp hm
    have := hs.below x hx
    omega
  simp [this]

/-- **`forget` never panics** in a reachable state (its `job_status` assert cannot fire). -/
theorem c09_forget_no_panic (ops : List Op) (s : State) (evs : List Ev) (h : run {} ops = .ok (s, evs))
    (j : Nat) (allowed : List Status) : ∃ r, s.forgetJob j allowed = .ok r := by
  simp only [State.forgetJob]
  split
  · exact ⟨_, rfl⟩
  · rename_i job hj
    split
    · exact ⟨_, rfl⟩
    · have hst := HqModel.C13.c13_status ops s evs h job (findJob_some hj).1
      rw [hst]
      simp only []
      split <;> exact ⟨_, rfl⟩

/-- **`cancel` never panics** in a well-formed state. -/
theorem c09_cancel_no_panic (s : State) (hs : StateWF s) (j : Nat) : ∃ r, s.cancelJob j = .ok r := by
  simp only [State.cancelJob]
  split
  · exact ⟨_, rfl⟩
  · rename_i job hj
    split
    · exact ⟨_, rfl⟩
    · -- markAll over the non-terminal ids succeeds: each id is present once and non-terminal
      have w := getJob_wf hs hj
      have hid := getJob_id hj
      have key : ∀ (ids : List Nat) (a : Job), a.id = j → (keys a.tasks).Nodup → ids.Nodup →
          (∀ t ∈ ids, ∃ st, lookup a.tasks t = some st ∧ st.terminal = false) →
          ∃ b, a.markAll .canceled "set_cancel_state" (ids.map fun t => (j, t)) = .ok b := by
        intro ids
        induction ids with
        | nil => intro a _ _ _ _; exact ⟨a, rfl⟩
        | cons t rest ih =>
          intro a ha hnd hn hall
          obtain ⟨st, hl, hst⟩ := hall t (by simp)
          simp only [List.nodup_cons] at hn
          have hrest : ∀ (a' : Job), a'.id = j → keys a'.tasks = keys a.tasks →
              (∀ t' ∈ rest, lookup a'.tasks t' = lookup a.tasks t') →
              ∃ b, a'.markAll .canceled "set_cancel_state" (rest.map fun t => (j, t)) = .ok b := by
            intro a' ha' hk hlk
            apply ih a' ha' (by rw [hk]; exact hnd) hn.2
            intro t' ht'
            rw [hlk t' ht']
            exact hall t' (by simp [ht'])
          have hlk : ∀ t' ∈ rest, lookup (setState a.tasks t .canceled) t' = lookup a.tasks t' := by
            intro t' ht'
            have hne : t' ≠ t := fun e => hn.1 (e ▸ ht')
            have : ∀ ts : List (Nat × TState), lookup (setState ts t .canceled) t' = lookup ts t' := by
              intro ts
              induction ts with
              | nil => rfl
              | cons p ps ihp =>
                obtain ⟨k, v⟩ := p
                by_cases hk : k = t
                · subst hk
                  have h1 : ¬ k = t' := fun e => hne e.symm
                  simp only [setState, lookup, if_true, h1, if_false]
                  exact ihp
                · by_cases hk' : k = t'
                  · subst hk'
                    simp only [setState, hk, if_false, lookup, if_true]
                  · simp only [setState, lookup, hk, if_false, hk']
                    exact ihp
            exact this _
          simp only [List.map_cons, Job.markAll, ha, bne_self_eq_false, Bool.false_eq_true, if_false, hl]
          cases st <;> simp [TState.terminal] at hst
          · exact hrest _ rfl (keys_setState _ _ _) hlk
          · exact hrest _ rfl (keys_setState _ _ _) hlk
      have hids : job.nonFinishedTaskIds.Nodup := by
        simp only [Job.nonFinishedTaskIds]
        exact ((List.filter_sublist).map _).nodup w.nodup
      have hall : ∀ t ∈ job.nonFinishedTaskIds, ∃ st, lookup job.tasks t = some st ∧ st.terminal = false := by
        intro t ht
        simp only [Job.nonFinishedTaskIds, List.mem_map, List.mem_filter] at ht
        obtain ⟨p, ⟨hp, hterm⟩, rfl⟩ := ht
        exact ⟨p.2, lookup_of_mem w.nodup hp, by simpa using hterm⟩
      obtain ⟨b, hb⟩ := key _ job hid w.nodup hids hall
      have hc : ∃ r, job.setCancel (job.nonFinishedTaskIds.map fun t => (j, t)) = .ok r := by
        simp only [Job.setCancel]
        split
        · exact ⟨_, rfl⟩
        · rw [hb]; exact ⟨_, rfl⟩
      obtain ⟨r, hr⟩ := hc
      rw [hr]
      exact ⟨_, rfl⟩

example : ∃ r, (({} : State).cancelJob 3) = .ok r := c09_cancel_no_panic {} init_wf 3

end HqModel.C09
