import HqModel.Props.C09Pipe
import HqModel.Props.C09Compose
import HqModel.Props.C09Core
import HqModel.Props.C09Rpc
import HqModel.Props.SysW
import HqModel.Props.WorkerSide
import HqModel.Lemmas.JobSteps
import HqModel.Props.C13
import HqModel.Lemmas.CoreMnReject
import HqModel.Lemmas.CoreMsgWitness
/-!
# C09 — no reachable panic

Every `panic!/unreachable!/assert!/unwrap` of the modelled paths is an explicit `Stop.panic` outcome of the
models M1 (core), M4 (job layer) and M2 (worker); the correspondence check compares panics step by step
(`out !panic`) and the harness reports every caught panic of the real code with its source function as
`mon FAIL c09.panic <file.fn>`. Proved here (M4, all states): no *client request* makes the job layer panic
in a well-formed state. The composed statement (`c09_no_panic` over all cluster runs) is not a theorem; it is
explored by the simulation on the real code, which found and led to the repair of twelve panics
(KNOWN_FINDINGS.jsonl); one remains as a recorded finding (F27).

Core (M1), finding F32 — `task_reject` ended in `unreachable!()` for a RunningMultiNode task (reachable: the root of a
freshly placed multi-node task refuses it) — is FIXED; the last section proves that the arm that replaced the panic
cannot panic itself (`c09_mn_reject_*`), the composed regression run is in `Props/SysW.lean` (`opsMnReject`).
-/
namespace HqModel.C09
open HqModel.Job

/-- **`close`, `open` never panic** in a well-formed state. -/
theorem c09_open_close_no_panic (s : State) (hs : StateWF s) (mf : Option Nat) (j : Nat) :
    (∃ r, s.openJob mf = .ok r) ∧ (∃ r, step s (.close j) = .ok r) := by
  refine ⟨?_, ⟨_, rfl⟩⟩
  simp only [State.openJob]
  have : s.getJob s.jobCtr = none := by
    apply findJob_none_of_not_mem
    intro hm
    obtain ⟨x, hx, he⟩ := List.mem_map.mp hm
    have := hs.below x hx
    omega
  simp [this]

/-- **`forget` never panics** in a reachable state (its `job_status` assert cannot fire). -/
theorem c09_forget_no_panic (ops : List Op) (s : State) (evs : List Ev) (h : run {} ops = .ok (s, evs))
    (j : Nat) (allowed : List Status) : ∃ r, s.forgetJob j allowed = .ok r := by
  simp only [State.forgetJob]
  split
  · exact ⟨_, rfl⟩
  · rename_i job hj
    split
    · exact ⟨_, rfl⟩
    · have hst := HqModel.C13.c13_status ops s evs h job (findJob_some hj).1
      rw [hst]
      simp only []
      split <;> exact ⟨_, rfl⟩

/-- **`cancel` never panics** in a well-formed state. -/
theorem c09_cancel_no_panic (s : State) (hs : StateWF s) (j : Nat) : ∃ r, s.cancelJob j = .ok r := by
  simp only [State.cancelJob]
  split
  · exact ⟨_, rfl⟩
  · rename_i job hj
    split
    · exact ⟨_, rfl⟩
    · -- markAll over the non-terminal ids succeeds: each id is present once and non-terminal
      have w := getJob_wf hs hj
      have hid := getJob_id hj
      have key : ∀ (ids : List Nat) (a : Job), a.id = j → (keys a.tasks).Nodup → ids.Nodup →
          (∀ t ∈ ids, ∃ st, lookup a.tasks t = some st ∧ st.terminal = false) →
          ∃ b, a.markAll .canceled "set_cancel_state" (ids.map fun t => (j, t)) = .ok b := by
        intro ids
        induction ids with
        | nil => intro a _ _ _ _; exact ⟨a, rfl⟩
        | cons t rest ih =>
          intro a ha hnd hn hall
          obtain ⟨st, hl, hst⟩ := hall t (by simp)
          simp only [List.nodup_cons] at hn
          have hrest : ∀ (a' : Job), a'.id = j → keys a'.tasks = keys a.tasks →
              (∀ t' ∈ rest, lookup a'.tasks t' = lookup a.tasks t') →
              ∃ b, a'.markAll .canceled "set_cancel_state" (rest.map fun t => (j, t)) = .ok b := by
            intro a' ha' hk hlk
            apply ih a' ha' (by rw [hk]; exact hnd) hn.2
            intro t' ht'
            rw [hlk t' ht']
            exact hall t' (by simp [ht'])
          have hlk : ∀ t' ∈ rest, lookup (setState a.tasks t .canceled) t' = lookup a.tasks t' := by
            intro t' ht'
            have hne : t' ≠ t := fun e => hn.1 (e ▸ ht')
            have : ∀ ts : List (Nat × TState), lookup (setState ts t .canceled) t' = lookup ts t' := by
              intro ts
              induction ts with
              | nil => rfl
              | cons p ps ihp =>
                obtain ⟨k, v⟩ := p
                by_cases hk : k = t
                · subst hk
                  have h1 : ¬ k = t' := fun e => hne e.symm
                  simp only [setState, lookup, if_true, h1, if_false]
                  exact ihp
                · by_cases hk' : k = t'
                  · subst hk'
                    simp only [setState, hk, if_false, lookup, if_true]
                  · simp only [setState, lookup, hk, if_false, hk']
                    exact ihp
            exact this _
          simp only [List.map_cons, Job.markAll, ha, bne_self_eq_false, Bool.false_eq_true, if_false, hl]
          cases st <;> simp [TState.terminal] at hst
          · exact hrest _ rfl (keys_setState _ _ _) hlk
          · exact hrest _ rfl (keys_setState _ _ _) hlk
      have hids : job.nonFinishedTaskIds.Nodup := by
        simp only [Job.nonFinishedTaskIds]
        exact ((List.filter_sublist).map _).nodup w.nodup
      have hall : ∀ t ∈ job.nonFinishedTaskIds, ∃ st, lookup job.tasks t = some st ∧ st.terminal = false := by
        intro t ht
        simp only [Job.nonFinishedTaskIds, List.mem_map, List.mem_filter] at ht
        obtain ⟨p, ⟨hp, hterm⟩, rfl⟩ := ht
        exact ⟨p.2, lookup_of_mem w.nodup hp, by simpa using hterm⟩
      obtain ⟨b, hb⟩ := key _ job hid w.nodup hids hall
      have hc : ∃ r, job.setCancel (job.nonFinishedTaskIds.map fun t => (j, t)) = .ok r := by
        simp only [Job.setCancel]
        split
        · exact ⟨_, rfl⟩
        · rw [hb]; exact ⟨_, rfl⟩
      obtain ⟨r, hr⟩ := hc
      rw [hr]
      exact ⟨_, rfl⟩

example : ∃ r, (({} : State).cancelJob 3) = .ok r := c09_cancel_no_panic {} init_wf 3

/-! ## F32 (fixed): `task_reject` of a RunningMultiNode task

Model M1, function `Core.State.taskReject` = `task_reject` of `reactor.rs` with the repair: after `block_request`,
`RunningMultiNode(ws)`: if the sender is not `ws[0]` or its multi-node assignment `is_started` → `return false`;
otherwise `reset_mn_task_workers(ws)` and the common tail (`Waiting{0}`, `add_ready_task`, `process_retracted`,
`return true`; no `increment_instance_id`, no callback).

The panic sites of the new arm are `ws[0]` on an empty list (`task_reject.ws0`), and inside `reset_mn_task_workers`
`get_worker`, `mn_assignment().unwrap()` (`reset_mn_task_workers.unwrap`) and the `assert_eq!` on the task id
(`reset_mn_task_workers.assert`). They are excluded by

* `Core.InvF` — the global invariant proved for every state of every run whose operations satisfy `OpOk2`
  (`Core.run_invF`): every worker of the list is in the map with a multi-node assignment for THIS task, and
* `Core.MnShape` — every RunningMultiNode list is non-empty and duplicate-free; NOT part of `InvF` (which speaks about
  membership only) but an invariant of every run from the empty core without any side condition
  (`c09_mn_shape_reachable`): `set_mn_task` asserts `is_free()`, `send_messages` unwraps the root, and a list only loses
  non-root workers afterwards. It is needed: `reset_mn_task_workers` visits the list in order and would find a worker
  that is named twice already reset at the second visit.

The COMMON TAIL of `task_reject` is shared with the Assigned / Prefilled / Retracting arms; its panic sites
(`task_queues.index` in `add_ready_task`; `get_task` / `unreachable!()` / `remove_prefill_task` in `process_retracted`)
are not specific to this arm and are not excluded by any invariant proved in this project (no theorem says that the
entries of a prefill queue are Prefilled tasks). `c09_mn_reject_arm_no_panic` therefore says that the result IS the
tail's result on the reset state, and `c09_mn_reject_no_panic` adds two conditions on the tail's inputs — the request
has a queue, no prefill of lower priority is disposed (then `process_retracted` has nothing to do) — under which the
whole function returns `.ok`. -/

/-- **The worker list of a RunningMultiNode task is non-empty and duplicate-free in every reachable state** — all
runs from the empty core, no side condition. -/
theorem c09_mn_shape_reachable (ops : List Core.Op) (s : Core.State) (out : Core.Out)
    (hrun : Core.run {} ops = .ok (s, out)) (t : Core.Task) (ht : t ∈ s.tasks) (ws : List Nat)
    (hs : t.state = .runningMN ws) : ws ≠ [] ∧ ws.Nodup :=
  Core.run_mnShape hrun t ht ws hs

/-- **The multi-node arm of `task_reject` has no reachable panic site**: for every core state with `InvF` and
`MnShape`, every RunningMultiNode task and EVERY registered worker `w`: either the message is ignored (`false`, empty
output; tasks and queues unchanged, only the record of `w` — its `blocked` list — may differ), or `w` is the root
`ws[0]`, every worker of `ws` is back to an empty single-node assignment with all resources free (nothing else changed:
same tasks, same queues, the other workers untouched), and the result of `task_reject` is the result of its common tail
`Core.rejectTail` (`Waiting{0}; add_ready_task; process_retracted; true`) on that state. -/
theorem c09_mn_reject_arm_no_panic (s : Core.State) (hi : Core.InvF s) (hsh : Core.MnShape s)
    (w : Nat) (id : Core.TaskId) (rv : Option Nat) (task : Core.Task) (ws : List Nat)
    (ht : s.task? id = some task) (hs : task.state = .runningMN ws) (hw : (s.worker? w).isSome = true) :
    (∃ s0, s.taskReject w id rv = .ok (s0, {}, false) ∧ s0.tasks = s.tasks ∧ s0.queues = s.queues ∧
        ∀ y, y ≠ w → s0.worker? y = s.worker? y) ∨
    (∃ s1 others, ws = w :: others ∧ s1.tasks = s.tasks ∧ s1.queues = s.queues ∧
        (∀ y, y ∉ ws → y ≠ w → s1.worker? y = s.worker? y) ∧
        (∀ x ∈ ws, ∃ wk, s1.worker? x = some wk ∧ wk.assign = .sn [] wk.total []) ∧
        s.taskReject w id rv = Core.rejectTail s1 task) :=
  Core.taskReject_mn_arm hi hsh ht hs hw

/-- **`task_reject` of a RunningMultiNode task does not panic** (F32 fixed): core state with `InvF` and `MnShape`, a
RunningMultiNode task, ANY registered worker id `w`, and the two conditions on the inputs of the common tail (`hq`: the
task's request has a queue; `hpf`: no prefill queue has a lower priority than the task, so `add_ready_task` disposes
nothing). Then `task_reject` returns `.ok`, makes no callback and sends nothing; if it returns `true` the task is
`Waiting 0` afterwards — with the SAME instance id — and every worker of its former list is back to an empty
single-node assignment with all resources free; if it returns `false` no task record changed. -/
theorem c09_mn_reject_no_panic (s : Core.State) (hi : Core.InvF s) (hsh : Core.MnShape s)
    (w : Nat) (id : Core.TaskId) (rv : Option Nat) (task : Core.Task) (ws : List Nat)
    (ht : s.task? id = some task) (hs : task.state = .runningMN ws) (hw : (s.worker? w).isSome = true)
    (hq : task.rq < s.queues.length)
    (hpf : ∀ q ∈ s.queues, ∀ pp ts, q.prefill = some (pp, ts) → ¬ pp < task.prio) :
    ∃ s' o b, s.taskReject w id rv = .ok (s', o, b) ∧ o.msgs = [] ∧ o.cbs = [] ∧
      (b = true → (∃ task', s'.task? id = some task' ∧ task'.state = .waiting 0 ∧ task'.inst = task.inst) ∧
        ∀ x ∈ ws, ∃ wk, s'.worker? x = some wk ∧ wk.assign = .sn [] wk.total []) ∧
      (b = false → s'.tasks = s.tasks) := by
  rcases Core.taskReject_mn_arm (rv := rv) hi hsh ht hs hw with ⟨s0, h, e1, _, _⟩ | ⟨s1, others, _, e1, e2, _, e4, h⟩
  · exact ⟨s0, {}, false, h, rfl, rfl, (fun e => by cases e), fun _ => e1⟩
  · have ht1 : s1.task? id = some task := by unfold Core.State.task?; rw [e1]; exact ht
    obtain ⟨s', hr, htask, hwk⟩ := Core.rejectTail_ok (told := task) ht1 (Core.findTask_some_id ht)
      (by rw [e2]; exact hq) (by rw [e2]; exact hpf)
    refine ⟨s', {}, true, h.trans hr, rfl, rfl, fun _ => ⟨⟨_, htask, rfl, rfl⟩, fun x hx => ?_⟩, (fun e => by cases e)⟩
    obtain ⟨wk, h1, h2⟩ := e4 x hx
    exact ⟨wk, by unfold Core.State.worker?; rw [hwk]; exact h1, h2⟩

/-- … for every REACHABLE state: every run from the empty core whose operations satisfy `OpOk2`. -/
theorem c09_mn_reject_no_panic_reachable (ops : List Core.Op) (s : Core.State) (out : Core.Out)
    (hok : Core.RunOk Core.OpOk2 {} ops) (hrun : Core.run {} ops = .ok (s, out))
    (w : Nat) (id : Core.TaskId) (rv : Option Nat) (task : Core.Task) (ws : List Nat)
    (ht : s.task? id = some task) (hs : task.state = .runningMN ws) (hw : (s.worker? w).isSome = true)
    (hq : task.rq < s.queues.length)
    (hpf : ∀ q ∈ s.queues, ∀ pp ts, q.prefill = some (pp, ts) → ¬ pp < task.prio) :
    ∃ s' o b, s.taskReject w id rv = .ok (s', o, b) ∧ o.msgs = [] ∧ o.cbs = [] ∧
      (b = true → (∃ task', s'.task? id = some task' ∧ task'.state = .waiting 0 ∧ task'.inst = task.inst) ∧
        ∀ x ∈ ws, ∃ wk, s'.worker? x = some wk ∧ wk.assign = .sn [] wk.total []) ∧
      (b = false → s'.tasks = s.tasks) :=
  c09_mn_reject_no_panic s (Core.run_invF hok hrun) (Core.run_mnShape hrun) w id rv task ws ht hs hw hq hpf

/-- the decidable hypotheses of `c09_mn_reject_no_panic`, for task (1,0), the list `[1]` and the workers 1 and 2 -/
private def mnChk (r : Except Core.Stop (Core.State × Core.Out)) : Bool :=
  match r with
  | .ok (s, _) =>
    (match s.task? (1, 0) with
     | some task => decide (task.state = .runningMN [1]) && decide (task.rq < s.queues.length)
     | none => false) &&
    (s.worker? 1).isSome && (s.worker? 2).isSome && s.queues.all (fun q => q.prefill.isNone) && decide (Core.MnShape s)
  | .error _ => false

/-- **the hypotheses are satisfiable** on a concrete state with two workers and a placed, not started multi-node task:
the state after the first five operations of `Core.mnRejectOps` (two workers, a one-node request, task (1,0) placed on
`[1]`): `InvF` (the run satisfies `OpOk2`), `MnShape`, the task is RunningMultiNode, both workers are registered, the
request has a queue and no queue has a prefill. The theorem applies to worker 1 (the root: requeue) and to worker 2
(not the root: ignored) — and the two results are what it says (`decide`). -/
example : ∃ s out task, Core.run {} (Core.mnRejectOps.take 5) = .ok (s, out) ∧ Core.InvF s ∧ Core.MnShape s ∧
    s.task? (1, 0) = some task ∧ task.state = .runningMN [1] ∧ (s.worker? 1).isSome = true ∧
    (s.worker? 2).isSome = true ∧ task.rq < s.queues.length ∧
    (∀ q ∈ s.queues, ∀ pp ts, q.prefill = some (pp, ts) → ¬ pp < task.prio) := by
  have hok : Core.RunOk Core.OpOk2 {} (Core.mnRejectOps.take 5) := by decide
  have hc : mnChk (Core.run {} (Core.mnRejectOps.take 5)) = true := by decide
  cases hr : Core.run {} (Core.mnRejectOps.take 5) with
  | error e => rw [hr] at hc; cases hc
  | ok r =>
    obtain ⟨s, out⟩ := r
    rw [hr] at hc
    simp only [mnChk, Bool.and_eq_true, decide_eq_true_eq, List.all_eq_true, Option.isNone_iff_eq_none] at hc
    obtain ⟨⟨⟨⟨h1, h2⟩, h3⟩, h4⟩, h5⟩ := hc
    cases ht : s.task? (1, 0) with
    | none => rw [ht] at h1; cases h1
    | some task =>
      rw [ht] at h1
      simp only [Bool.and_eq_true, decide_eq_true_eq] at h1
      exact ⟨s, out, task, rfl, Core.run_invF hok hr, h5, ht, h1.1, h2, h3, h1.2,
        fun q hq pp ts e => by rw [h4 q hq] at e; cases e⟩

private def rejRes (w : Nat) : Option (List (Core.TaskId × Core.TS × Nat)) :=
  ((Core.run {} (Core.mnRejectOps.take 5)).toOption.bind fun r =>
    (r.1.taskReject w (1, 0) (some 0)).toOption).map fun x => x.1.tasks.map fun t => (t.id, t.state, t.inst)
private def rejFlag (w : Nat) : Option Bool :=
  ((Core.run {} (Core.mnRejectOps.take 5)).toOption.bind fun r =>
    (r.1.taskReject w (1, 0) (some 0)).toOption).map fun x => x.2.2

example : rejRes 1 = some [((1, 0), .waiting 0, 0)] ∧ rejFlag 1 = some true := by decide
example : rejRes 2 = some [((1, 0), .runningMN [1], 0)] ∧ rejFlag 2 = some false := by decide

end HqModel.C09
