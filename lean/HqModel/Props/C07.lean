import HqModel.Props.C09Rpc
import HqModel.Props.C07Restart
import HqModel.Lemmas.JobSteps
import HqModel.Lemmas.CoreSteps
import HqModel.Lemmas.CoreMsgCrash
import HqModel.Lemmas.CoreMsgWitness
/-!
# C07 — worker loss: running tasks are restarted or failed per crash limit, nothing else

`on_remove_worker` (M1, `HqModel.Core.State.removeWorker`) applies the decision table `crashOutcome` to exactly
the tasks it reported as running (`crashLoop` runs over the `running` list of the `on_worker_lost` callback);
tasks that were only placed (assigned / prefilled / retracting / redirect target) are re-queued by
`lostAssigned` / `lostPrefilled` / `lostRetracting`, which never touch the crash counter. The job layer (M4)
moves exactly the reported tasks from Running to Waiting. Restart clause: component `journal` (`c07.restart`).
-/
namespace HqModel.C07
open HqModel

/-- **The crash-limit decision, stated outright** for every limit, loss reason class and previous count:
the counter grows by one exactly when the loss is a failure (connection / heartbeat lost) and the task may be
restarted at all; the task is failed exactly when it is `never-restart` (any reason) or the loss is a failure
and the new count reaches `MaxCrashes n`; `unlimited` tasks never fail for this reason. -/
theorem c07_crash_decision (l : Core.CrashLimit) (isFailure : Bool) (c : Nat) :
    (Core.crashOutcome l isFailure c).1 = (if isFailure && l ≠ .never then c + 1 else c) ∧
    ((Core.crashOutcome l isFailure c).2 = true ↔
      (l = .never ∨ (isFailure = true ∧ ∃ n, l = .max n ∧ c + 1 ≥ n))) :=
  Core.crashOutcome_spec l isFailure c

theorem c07_unlimited_never_fails (isFailure : Bool) (c : Nat) :
    (Core.crashOutcome .unlimited isFailure c).2 = false := Core.crashOutcome_unlimited isFailure c

theorem c07_stop_is_no_crash (l : Core.CrashLimit) (c : Nat) (hl : l ≠ .never) :
    Core.crashOutcome l false c = (c, false) := Core.crashOutcome_no_failure l c hl

/-- **Job layer**: `process_worker_lost` turns exactly a Running task into a Waiting one (and refuses anything
else), decrementing the running counter by one. -/
theorem c07_job_layer (job job' : Job.Job) (t : Nat) (e : job.setWaiting t = .ok job') :
    Job.lookup job.tasks t = some .running ∧ job'.tasks = Job.setState job.tasks t .waiting ∧
    job'.cnt.running = job.cnt.running - 1 :=
  Job.setWaiting_spec e

/-- non-vacuity: MaxCrashes 2, second failure loss fails the task; a stop does not -/
example : Core.crashOutcome (.max 2) true 1 = (2, true) ∧ Core.crashOutcome (.max 2) false 1 = (1, false) ∧
    Core.crashOutcome (.max 2) true 0 = (1, false) := by decide

/-! ## The crash counter over all runs (M1)

`Lemmas/CoreMsg*.lean` follow every task record through every function of the reactor and the scheduler: the crash
counter is written by `crashLoop` only. -/

/-- **The crash counter of a task in the map never decreases, and only the loss of a worker BY FAILURE changes it**:
for every reachable state `s`, every operation `op` (any of the eight, any input) and every task that is in the map
before and after (`id ∉ op.newIds`: the operation does not submit that id). -/
theorem c07_crash_counter_step (pre : List Core.Op) (op : Core.Op) (s s' : Core.State) (out out' : Core.Out)
    (hpre : Core.run {} pre = .ok (s, out)) (hstep : Core.step s op = .ok (s', out'))
    (id : Core.TaskId) (hid : id ∉ op.newIds) (t t' : Core.Task)
    (ht : s.task? id = some t) (ht' : s'.task? id = some t') :
    t.crashes ≤ t'.crashes ∧
    ((∀ w reason order rets, op ≠ .removeWorker w reason true order rets) → t'.crashes = t.crashes) := by
  obtain ⟨_, h2, h3⟩ := Core.step_crashes (Core.run_nodup hpre) hstep hid ht ht'
  refine ⟨h2, fun hop => h3 ?_⟩
  intro hf
  cases op <;> simp only [Core.Op.isFailureLoss] at hf
  subst hf
  exact hop _ _ _ _ rfl

/-- **… along every run** in which the id is not submitted again. -/
theorem c07_crash_counter_mono (pre ops : List Core.Op) (s s' : Core.State) (out out' : Core.Out)
    (hpre : Core.run {} pre = .ok (s, out)) (hrun : Core.run s ops = .ok (s', out'))
    (id : Core.TaskId) (hid : id ∉ Core.allNewIds ops) (t t' : Core.Task)
    (ht : s.task? id = some t) (ht' : s'.task? id = some t') : t.crashes ≤ t'.crashes :=
  (Core.run_task_mono (Core.run_nodup hpre) hrun hid ht ht').2

/-- **Only a task that was running on the lost worker is charged a crash**: in every reachable state (side
conditions `OpOk2` on the run that reached it), when `on_remove_worker w` changes the crash counter of a task, then
the loss is a failure, the counter grew, the task is named in the `running` list of the `workerLost` callback of
this operation, and before the operation the task was Running on `w` (or RunningMultiNode with root `w`). Tasks
that were merely Assigned / Prefilled / Retracting there, redirect targets, and tasks of other workers keep
their counter. (Not proved: that the counter grows by exactly one — it does when the `running` list has no
duplicates, which follows from `assigned_tasks` being a set.) -/
theorem c07_crash_only_running_on_lost (pre : List Core.Op) (s s' : Core.State) (out out' : Core.Out)
    (w : Nat) (reason : String) (f : Bool) (order : List Core.TaskId) (rets : List (List Core.TaskId))
    (hok : Core.RunOk Core.OpOk2 {} pre) (hpre : Core.run {} pre = .ok (s, out))
    (hstep : Core.step s (.removeWorker w reason f order rets) = .ok (s', out'))
    (id : Core.TaskId) (t t' : Core.Task) (ht : s.task? id = some t) (ht' : s'.task? id = some t')
    (hne : t'.crashes ≠ t.crashes) :
    f = true ∧ t.crashes < t'.crashes ∧
    (∃ running, Core.Cb.workerLost w running reason ∈ out'.cbs ∧ id ∈ running) ∧
    ((∃ v, t.state = .running w v) ∨ (∃ others, t.state = .runningMN (w :: others))) :=
  Core.removeWorker_crash (Core.run_inv hok hpre) hstep ht ht' hne

/-- non-vacuity: `Core.crashOps` satisfies all side conditions; task (1,0) is Running on worker 1 with counter 0,
the worker is lost by failure: counter 1, instance id 1, Waiting; stopping the idle worker 2 changes nothing -/
example : Core.RunOk Core.OpOk2 {} Core.crashOps ∧
    ((Core.run {} Core.crashOps).toOption.map fun r => r.1.tasks.map fun t => (t.id, t.state, t.inst, t.crashes)) =
      some [((1, 0), .waiting 0, 1, 1)] :=
  ⟨Core.RunOk.mono (fun _ _ h => h.1.ok2) _ _ Core.crashOps_ok.1, Core.crashOps_ok.2.1⟩

end HqModel.C07
