import HqModel.Lemmas.JobSteps
import HqModel.Lemmas.CoreSteps
/-!
# C07 — worker loss: running tasks are restarted or failed per crash limit, nothing else

`on_remove_worker` (M1, `HqModel.Core.State.removeWorker`) applies the decision table `crashOutcome` to exactly
the tasks it reported as running (`crashLoop` runs over the `running` list of the `on_worker_lost` callback);
tasks that were only placed (assigned / prefilled / retracting / redirect target) are re-queued by
`lostAssigned` / `lostPrefilled` / `lostRetracting`, which never touch the crash counter. The job layer (M4)
moves exactly the reported tasks from Running to Waiting. Restart clause: component `journal` (`c07.restart`).
-/
namespace HqModel.C07
open HqModel

/-- **The crash-limit decision, stated outright** for every limit, loss reason class and previous count:
the counter grows by one exactly when the loss is a failure (connection / heartbeat lost) and the task may be
restarted at all; the task is failed exactly when it is `never-restart` (any reason) or the loss is a failure
and the new count reaches `MaxCrashes n`; `unlimited` tasks never fail for this reason. -/
theorem c07_crash_decision (l : Core.CrashLimit) (isFailure : Bool) (c : Nat) :
    (Core.crashOutcome l isFailure c).1 = (if isFailure && l ≠ .never then c + 1 else c) ∧
    ((Core.crashOutcome l isFailure c).2 = true ↔
      (l = .never ∨ (isFailure = true ∧ ∃ n, l = .max n ∧ c + 1 ≥ n))) :=
  Core.crashOutcome_spec l isFailure c

theorem c07_unlimited_never_fails (isFailure : Bool) (c : Nat) :
    (Core.crashOutcome .unlimited isFailure c).2 = false := Core.crashOutcome_unlimited isFailure c

theorem c07_stop_is_no_crash (l : Core.CrashLimit) (c : Nat) (hl : l ≠ .never) :
    Core.crashOutcome l false c = (c, false) := Core.crashOutcome_no_failure l c hl

/-- **Job layer**: `process_worker_lost` turns exactly a Running task into a Waiting one (and refuses anything
else), decrementing the running counter by one. -/
theorem c07_job_layer (job job' : Job.Job) (t : Nat) (e : job.setWaiting t = .ok job') :
    Job.lookup job.tasks t = some .running ∧ job'.tasks = Job.setState job.tasks t .waiting ∧
    job'.cnt.running = job.cnt.running - 1 :=
  Job.setWaiting_spec e

/-- non-vacuity: MaxCrashes 2, second failure loss fails the task; a stop does not -/
example : Core.crashOutcome (.max 2) true 1 = (2, true) ∧ Core.crashOutcome (.max 2) false 1 = (1, false) ∧
    Core.crashOutcome (.max 2) true 0 = (1, false) := by decide

end HqModel.C07
