import HqModel.Lemmas.JobJournalCrash
import HqModel.Props.C10Emit
/-!
# C07, restart clause — the crash counter a task is resubmitted with = the crashes the journal records

Corollary of `C10.c10_restore_refines` (restore hands every pending task back with the crash counter recorded in
`meaning J`) and of `Emit.CrashInv.fold` (`Lemmas/JobJournalCrash.lean`: that counter equals `crashCount J job t`, an
explicit count over the records of `J`).

`Emit.crashCount J job t` (`Emit.trackStep`): walk over `J` keeping, for the task, the workers of its current run (root
first) and a counter; `TaskStarted job t _ ws` starts a run on `ws` (a later start replaces it); `TaskFinished /
TaskFailed job t` or a `TasksCanceled / TasksAborted` containing `(job, t)` ends it; `WorkerLost w reason` while the
task runs with ROOT `w` ends the run and, if `reason` is a failure (connection / heartbeat lost), adds one; the loss
of a non-root worker, of a worker the task does not run on, or a loss with another reason (stopped, idle timeout,
time limit) adds nothing. A record that creates `job` (`JobOpen`, closed `Submit`) starts the count at 0 — this only
matters for journals that create the id of a completed job again (see `C06Restart.lean`); no hypothesis beyond
`Producible` is needed.
-/
namespace HqModel.C07
open HqModel.Journal HqModel.Emit

/-- **c07_restart.** For every producible journal `J`, restore succeeds and every task `(job, t, deps, i, c)` it hands
back to the core carries exactly the crash counter `c = crashCount J job t`: the number of `WorkerLost w reason`
records of `J` with a failure reason written while the task was recorded running with root worker `w`. -/
theorem c07_restart (J : List Record) (hp : Producible J) :
    ∃ R X, restore J = .ok (R, X) ∧
      ∀ job t deps i c, (job, t, deps, i, c) ∈ batchPending X.batches → c = crashCount J job t := by
  obtain ⟨R, X, hr, href⟩ := HqModel.C10.c10_restore_refines J hp
  refine ⟨R, X, hr, ?_⟩
  intro job t deps i c hm
  rw [href.pending] at hm
  obtain ⟨aj, a, haj, ha, hid, -, -, hc⟩ := pending_task hm
  have hinv := CrashInv.fold job t J (A := {}) (tr := (none, 0)) hp (fun aj ho => by simp [alGet] at ho)
  rw [hc]
  exact ((hinv aj haj).1 a ha hid).2

/-- **c07_restart_emitted.** The same for the journal the job layer (M4) writes, cut at any record boundary `K`, under
the side condition `EmitOkRun` only (`C10.c10_emitted_producible_prefix`). -/
theorem c07_restart_emitted (uid : String) (ops : List HqModel.Job.Op) (h : EmitOkRun uid ops)
    (K : List Record) (hK : K <+: journalOf uid ops) :
    ∃ R X, restore K = .ok (R, X) ∧
      ∀ job t deps i c, (job, t, deps, i, c) ∈ batchPending X.batches → c = crashCount K job t :=
  c07_restart K (HqModel.C10.c10_emitted_producible_prefix uid ops h K hK)

/-- how one record changes the crash counter of a task in `meaning` (the step lemma behind `c07_restart`): for every
task `a` with id `t` of job `job`, before and after a record that is allowed where it is written, `a.run` / `a.crashes`
follow `trackStep` -/
theorem c07_crashes_step (A : AState) (r : Record) (hok : recordOk A r = true) (job t : Nat)
    (tr : Option (List Nat) × Nat) (h : CrashInv t (alGet A.jobs job) tr) :
    CrashInv t (alGet (meaningStep A r).jobs job) (trackStep job t tr r) :=
  h.step r hok

/-! ### Non-vacuity -/

/-- start on worker 1, heartbeat loss of 1 (a crash), restart on worker 2, worker 2 stopped (no crash): count 1 -/
def restartSample : List Record :=
  [.serverStart "u", .workerConnected 1 none, .workerConnected 2 none,
   .submit 1 true none (.array [⟨0, 2, 1⟩] none),
   .taskStarted 1 0 0 [1], .workerLost 1 .heartbeatLost, .taskStarted 1 0 1 [2], .workerLost 2 .stopped]

example : crashCount restartSample 1 0 = 1 ∧ crashCount restartSample 1 1 = 0 := by decide

example : Producible restartSample := by decide

example : ∃ R X, restore restartSample = .ok (R, X) ∧ batchPending X.batches = [(1, 0, [], 2, 1), (1, 1, [], 0, 0)] :=
  ⟨_, _, rfl, rfl⟩

/-- a multi-node task on `[2, 3]`: the loss of the non-root worker 3 is no crash (F17), the connection loss of the
root 2 is one; a loss after the run ended is none -/
example : crashCount
    [.serverStart "u", .workerConnected 1 none, .workerConnected 2 none, .workerConnected 3 none,
     .submit 1 true none (.array [⟨0, 1, 1⟩] none),
     .taskStarted 1 0 0 [2, 3], .workerLost 3 .heartbeatLost, .workerLost 2 .connectionLost,
     .taskStarted 1 0 1 [1], .taskFailed 1 0, .workerLost 1 .connectionLost] 1 0 = 1 := by decide

end HqModel.C07
