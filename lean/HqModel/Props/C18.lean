import Lean  -- WORKAROUND only: checks/common.py's audit snippet uses `CoreM`/`collectAxioms` without importing Lean; nothing below uses it
import HqModel.Lemmas.AutoAllocLimits
/-!
# C18 — allocation lifecycle is monotone; worker accounting exact  (theorems are added below step by step)
-/
namespace HqModel.C18
open HqModel.AutoAlloc

/-- placeholder while the component is wired end-to-end (replaced by the real statements) -/
theorem c18_wiring (t : Nat) (st : AState) (r : SyncReason) :
    (syncState t st r).st.isActive = true → st.isActive = true := syncState_active t st r

end HqModel.C18
