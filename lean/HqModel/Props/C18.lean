import Lean  -- WORKAROUND only: checks/common.py's audit snippet uses `CoreM`/`collectAxioms` without importing Lean; nothing below uses it
import HqModel.Lemmas.AutoAllocTrace
import HqModel.Lemmas.AutoAllocWorkers
/-!
# C18 — allocation lifecycle is monotone; worker accounting exact
Model: `HqModel.AutoAlloc` (M6). The environment (batch system, worker notifications in any order, scheduler
answer, clock, hash orders) is universally quantified in every statement.
-/
namespace HqModel.C18
open HqModel.AutoAlloc

/-- **Monotone lifecycle.** For EVERY state `s` (reachable or not), every event `e` with any environment inputs,
every queue `x` and allocation `a` of it: after the step either the queue was removed (and then `e` is exactly a
`removeQueue x`), or the allocation is still there with the same size, its rank (Queued 0 < Running 1 < Finished*
2) has not decreased, and if it was finished (normally or unexpectedly) it is literally unchanged (absorbing). -/
theorem c18_monotone (s : State) (e : Ev) (x : Nat) (q : Queue) (a : Nat) (al : Alloc)
    (hq : s.getQueue x = some q) (ha : q.findAlloc a = some al) :
    ((∃ f, e = .removeQueue x f) ∧ (step s e).st.getQueue x = none) ∨
    ∃ q' al', (step s e).st.getQueue x = some q' ∧ q'.findAlloc a = some al' ∧
      al'.target = al.target ∧ al.st.rank ≤ al'.st.rank ∧ (al.st.isFinished = true → al' = al) := by
  rcases step_queue s e x q hq with h | ⟨_, hres⟩ | ⟨q', hq', ht⟩
  · exact .inl h
  · exact .inr ⟨_, al, hres, ha, rfl, Nat.le_refl _, fun _ => rfl⟩
  · obtain ⟨al', h1, h2, h3, h4⟩ := ht.allocMono a al ha
    exact .inr ⟨q', al', hq', h1, h2, h3, h4⟩

/-- Non-vacuity of `c18_monotone`: an allocation that walks Queued → Running → Finished and then ignores a
contradictory external status and a late connect. -/
example :
    let s0 := init ⟨10, 20, 0⟩ 1
    let s1 := (step s0 (.addQueue ⟨2, 1, none⟩ (Limiter.new [0] 2 3) none)).st
    let s2 := (step s1 (.tick 0 [1] (.ok [1] []) [.ok 7])).st
    let s3 := (step s2 (.workerConnected 4 7)).st
    let s4 := (step s3 (.workerLost 4 7 false)).st
    let s5 := (step s4 (.refresh [(1, .statuses [(7, .queued)])])).st
    let s6 := (step s5 (.workerConnected 5 7)).st
    [s2, s3, s4, s5, s6].map (fun s => (s.getQueue 1).bind fun q => (q.findAlloc 7).map (·.st.rank))
      = [some 0, some 1, some 2, some 2, some 2] ∧ s6 = s4 := by
  decide

/-- **Unknown allocation.** A worker connect / loss that names an allocation which is not in the
`allocation_to_queue` index changes nothing: the state is identical and nothing but the "schedule" flag is
returned (no event, no call). -/
theorem c18_unknown (s : State) (w a : Nat) (crashed : Bool) (h : a2qLookup a s.a2q = none) :
    step s (.workerConnected w a) = ⟨s, [.sched true], none⟩ ∧
    step s (.workerLost w a crashed) = ⟨s, [.sched true], none⟩ := by
  simp [step, State.workerEvent, h]

/-- **Queue removal.** If `removeQueue x force` is accepted (the queue exists; it has no running allocation or
`force`) and does not hit the index assertion, then
* `remove_allocation` is called exactly for the active (queued or running) allocations of the queue, once per
  allocation (the list of calls IS the list of active allocations), and for nothing else;
* the queue is gone, the `AllocationQueueRemoved` event is emitted;
* every `allocation_to_queue` entry of its allocations is gone, so later worker events about them are
  `c18_unknown` (state unchanged). -/
theorem c18_remove_queue (s : State) (x : Nat) (force : Bool) (q : Queue)
    (hq : s.getQueue x = some q)
    (hacc : (q.allocs.any (·.st.isRunning) && !force) = false)
    (hnp : (step s (.removeQueue x force)).panic = none) :
    let r := step s (.removeQueue x force)
    r.outs = ((q.allocs.filter (·.st.isActive)).map fun al => Out.rm x al.id) ++ [.evQRemoved x, .resp .ok, .sched false] ∧
    r.st.getQueue x = none ∧
    (∀ al ∈ q.allocs, a2qLookup al.id r.st.a2q = none) ∧
    (∀ al ∈ q.allocs, ∀ w crashed,
      step r.st (.workerConnected w al.id) = ⟨r.st, [.sched true], none⟩ ∧
      step r.st (.workerLost w al.id crashed) = ⟨r.st, [.sched true], none⟩) := by
  have hstep : ∀ m, State.removeA2qAll (q.allocs.map (·.id)) s.a2q = some m →
      step s (.removeQueue x force) =
        ⟨{ s with queues := s.queues.filter (·.id != x), a2q := m },
         ((q.allocs.filter (·.st.isActive)).map fun al => Out.rm x al.id) ++ [.evQRemoved x, .resp .ok, .sched false],
         none⟩ := by
    intro m hm
    simp only [step, State.removeQueue, hq, hacc, hm]
    simp
  cases hm : State.removeA2qAll (q.allocs.map (·.id)) s.a2q with
  | none =>
    simp only [step, State.removeQueue, hq, hacc, hm] at hnp
    simp at hnp
  | some m =>
    have hs := hstep m hm
    have hgone : ∀ al ∈ q.allocs, a2qLookup al.id m = none := by
      intro al hal
      exact removeA2qAll_lookup _ _ _ hm al.id (.inl (List.mem_map.mpr ⟨al, hal, rfl⟩))
    simp only [hs]
    refine ⟨trivial, ?_, hgone, ?_⟩
    · rcases step_queue s (.removeQueue x force) x q hq with ⟨_, h⟩ | ⟨h, _⟩ | ⟨q', h, _⟩
      · rw [hs] at h; exact h
      · cases h
      · exfalso
        rw [hs] at h
        simp only [State.getQueue, List.find?_filter] at h
        have := List.find?_some h
        simp at this
    · intro al hal w crashed
      exact c18_unknown _ w al.id crashed (hgone al hal)

/-- A refused removal (unknown queue, or running allocations without `force`) has no effect at all. -/
theorem c18_remove_queue_refused (s : State) (x : Nat) (force : Bool)
    (h : s.getQueue x = none ∨ ∃ q, s.getQueue x = some q ∧ (q.allocs.any (·.st.isRunning) && !force) = true) :
    (step s (.removeQueue x force)).st = s ∧ (step s (.removeQueue x force)).panic = none ∧
    ∀ y a, Out.rm y a ∉ (step s (.removeQueue x force)).outs := by
  rcases h with h | ⟨q, hq, hr⟩
  · simp [step, State.removeQueue, h]
  · simp [step, State.removeQueue, hq, hr]

/-- In every reachable state the allocation ids inside a queue are pairwise distinct, so "once per active
allocation" in `c18_remove_queue` is once per allocation *id*. -/
theorem c18_ids_unique (c : Consts) (n : Nat) (s : State) (h : Reach (init c n) s) (x : Nat) (q : Queue)
    (hq : s.getQueue x = some q) : (q.allocs.map (·.id)).Nodup :=
  reach_idsNodup c n s h x q hq

/-- Non-vacuity of `c18_remove_queue`: a queue with one running, one queued and one finished allocation. -/
example :
    let s0 := init ⟨10, 20, 0⟩ 1
    let s1 := (step s0 (.addQueue ⟨3, 1, none⟩ (Limiter.new [0] 2 3) none)).st
    let s2 := (step s1 (.tick 0 [1] (.ok [3] []) [.ok 7, .ok 8, .ok 9])).st
    let s3 := (step s2 (.workerConnected 4 7)).st
    let s4 := (step s3 (.refresh [(1, .statuses [(9, .failed)])])).st
    (step s4 (.removeQueue 1 false)).outs = [.resp .hasRunning, .sched false] ∧
    (step s4 (.removeQueue 1 true)).outs = [.rm 1 7, .rm 1 8, .evQRemoved 1, .resp .ok, .sched false] ∧
    (step s4 (.removeQueue 1 true)).st.a2q = [] := by
  decide

/-! ## Announcements -/

/-- **Ledger of one step** (no assumption on ids): for EVERY state, event and environment input, and every
(queue `x`, allocation `a`): the number of `AllocationFinished(x, a)` events the step emits is exactly the change
of "allocation `a` of queue `x` is in a finished state" (0 or 1), and every `AllocationStarted(x, a)` it emits is
paid for by the allocation leaving Queued — unless the step is the accepted removal of a queue (which forgets its
allocations without announcing anything). -/
theorem c18_announce_step (s : State) (e : Ev)
    (hrm : ∀ x f, e = .removeQueue x f → (step s e).st.queues = s.queues) (x a : Nat) :
    s.fin x a + cntF x a (step s e).outs = (step s e).st.fin x a ∧
    s.past x a + cntS x a (step s e).outs ≤ (step s e).st.past x a :=
  step_SLedger s e hrm x a

/-- **Exactly-once announcement.** Along every run from the empty autoallocator (any events, any environment;
queue ids come from the id counter, i.e. the journal-restore path with explicit ids is not used), for every queue
id `x` and allocation id `a`, in the sequence `O` of all outputs of the run (the outputs of a final panicking step
included):
* `AllocationStarted(x, a)` occurs at most once, `AllocationFinished(x, a)` at most once;
* if the allocation still exists, `AllocationFinished(x, a)` has occurred exactly once iff its state is finished
  (normally or unexpectedly);
* no `AllocationStarted(x, a)` comes after an `AllocationFinished(x, a)`. -/
theorem c18_announce (c : Consts) (n : Nat) (evs : List Ev) (hne : NoExplicitIds evs) (x a : Nat) :
    cntS x a (run (init c n) evs).2.1 ≤ 1 ∧ cntF x a (run (init c n) evs).2.1 ≤ 1 ∧
    (∀ q al, (run (init c n) evs).1.getQueue x = some q → q.findAlloc a = some al →
      (cntF x a (run (init c n) evs).2.1 = 1 ↔ al.st.isFinished = true)) ∧
    (∀ O1 O2, (run (init c n) evs).2.1 = O1 ++ Out.evFinished x a :: O2 → Out.evStarted x a ∉ O2) := by
  have h := TraceInv.ofRun (init c n) [] evs (TraceInv.initial c n) hne
  simp only [List.nil_append] at h
  have bounds : cntS x a (run (init c n) evs).2.1 ≤ 1 ∧ cntF x a (run (init c n) evs).2.1 ≤ 1 := by
    cases hq : (run (init c n) evs).1.getQueue x with
    | none => have := h.gone x a hq; omega
    | some q =>
      have := h.present x a q hq
      have := State.fin_le_past (run (init c n) evs).1 x a
      omega
  refine ⟨bounds.1, bounds.2, ?_, h.order x a⟩
  intro q al hq ha
  have hp := (h.present x a q hq).1
  rw [hp]
  simp only [State.fin, hq, Queue.fin, ha]
  cases al.st.isFinished <;> simp

/-- Non-vacuity of `c18_announce`: a run in which one allocation is started and finished by its workers, one is
finished by a status-error streak, one by an external failure, and a queue is removed. -/
example :
    let evs : List Ev :=
      [.addQueue ⟨3, 1, none⟩ (Limiter.new [0] 5 5) none,
       .tick 0 [1] (.ok [3] []) [.ok 7, .ok 8, .ok 9],
       .workerConnected 4 7, .workerConnected 4 7, .workerLost 4 7 true, .workerLost 4 7 true,
       .refresh [(1, .callErr [8, 9])], .refresh [(1, .statuses [(8, .error), (9, .failed)])],
       .refresh [(1, .statuses [(8, .error), (8, .error)])],
       .workerConnected 5 9, .removeQueue 1 false, .workerConnected 6 7]
    NoExplicitIds evs ∧
    ((run (init ⟨1, 20, 0⟩ 1) evs).2.1.filter fun o => match o with | .evStarted .. => true | .evFinished .. => true | _ => false) =
      [.evStarted 1 7, .evFinished 1 7, .evFinished 1 8, .evFinished 1 9] := by
  constructor
  · intro e he p l q
    simp only [List.mem_cons, List.mem_nil_iff, or_false] at he
    rcases he with rfl | rfl | rfl | rfl | rfl | rfl | rfl | rfl | rfl | rfl | rfl | rfl <;> simp
  · decide

/-! ## Worker accounting -/

/-- **Connected workers are exact.** For one allocation of size `t`, seen as the automaton `allocRun` fed with ALL
its inputs in any order (connects / losses from any workers incl. duplicates and loss-before-connect, external
statuses incl. contradictory ones, status errors): if the input `first` makes it leave Queued and after the further
inputs `post` it is Running with connected set `cn` and disconnected set `d`, then
* `w ∈ cn` iff the last worker event for `w` since the allocation left Queued is a connect;
* `d` has no duplicates and contains exactly the workers with a loss event while Running — so its length is the
  number of DISTINCT workers lost. -/
theorem c18_workers (c : Consts) (t e0 : Nat) (first : AIn) (post : List AIn) (cn : List Nat) (d : List (Nat × Bool))
    (e : Nat) (h : allocRun c t (.queued e0) (first :: post) = .running cn d e)
    (hleft : (allocStep c t (.queued e0) first).isQueued = false) :
    (∀ w, w ∈ cn ↔ lastEv w (first :: post) = some true) ∧
    (d.map (·.1)).Nodup ∧ (∀ w, w ∈ d.map (·.1) ↔ ∃ cr, AIn.sync (.lost w cr) ∈ post) := by
  rw [allocRun_cons] at h
  rcases allocStep_queued c t e0 first with ⟨e1, h1, _⟩ | ⟨w0, hf, h1⟩ | ⟨hf, h1⟩ | ⟨f, h1⟩
  · rw [h1] at hleft; simp [AState.isQueued] at hleft
  · rw [h1] at h
    obtain ⟨hc, hd, hn⟩ := allocRun_running c t post [w0] [] 0 cn d e h
    refine ⟨?_, hn (by simp), by intro w; rw [hd w]; simp⟩
    intro w
    rw [hc w, hf]
    simp only [lastEv, AIn.workerEv]
    cases hl : lastEv w post with
    | some b => simp
    | none =>
      by_cases hw : w0 = w
      · simp [hw]
      · have : ¬ w = w0 := fun h => hw h.symm
        simp [hw, this]
  · rw [h1] at h
    obtain ⟨hc, hd, hn⟩ := allocRun_running c t post [] [] 0 cn d e h
    refine ⟨?_, hn (by simp), by intro w; rw [hd w]; simp⟩
    intro w
    rw [hc w, hf]
    simp only [lastEv, AIn.workerEv]
    cases hl : lastEv w post with
    | some b => simp
    | none => simp
  · rw [h1, allocRun_finished _ _ _ _ (by simp [AState.isFinished])] at h
    cases h

/-- **Normal finish exactly at the target.** An input turns a not-yet-finished allocation into `Finished` (the
normal end) iff the allocation is Running, the input is the loss of a worker `w`, and with `w` the number of
distinct workers lost while Running (`(insertD w cr d).length`, see `c18_workers` / `keys_insertD` /
`nodup_insertD`) equals the size `t` it was submitted with. In particular a Queued allocation never finishes
normally, and neither external statuses nor status errors produce a normal finish. -/
theorem c18_workers_finish (c : Consts) (t : Nat) (st : AState) (i : AIn) (d' : List (Nat × Bool))
    (hnf : st.isFinished = false) :
    allocStep c t st i = .finished d' ↔
      ∃ cn d e w cr, st = .running cn d e ∧ i = .sync (.lost w cr) ∧ d' = insertD w cr d ∧
        (insertD w cr d).length = t :=
  allocStep_finish_iff c t st i d' hnf

/-- the disconnected set after a loss: duplicate-free, the old workers plus the lost one -/
theorem c18_workers_lost_set (w : Nat) (cr : Bool) (d : List (Nat × Bool)) (h : (d.map (·.1)).Nodup) :
    ((insertD w cr d).map (·.1)).Nodup ∧ ∀ w', w' ∈ (insertD w cr d).map (·.1) ↔ w' = w ∨ w' ∈ d.map (·.1) :=
  ⟨nodup_insertD w cr d h, keys_insertD w cr d⟩

/-- **The model feeds the automaton.** For EVERY state, event and environment input: an allocation `a` of queue
`x` either disappears with its queue (`removeQueue x`), or its new state is the automaton run from its old state on
some inputs `ins`, each of which the event is allowed to cause for THIS allocation: a connect / loss input only if
the event is that worker's connect / loss naming `a`, an external status or status error only in a refresh. Ticks,
pause/resume, job submits and events about other allocations feed nothing. -/
theorem c18_workers_fed (s : State) (e : Ev) (x : Nat) (q : Queue) (a : Nat) (al : Alloc)
    (hq : s.getQueue x = some q) (ha : q.findAlloc a = some al) :
    ((∃ f, e = .removeQueue x f) ∧ (step s e).st.getQueue x = none) ∨
    ∃ q' al' ins, (step s e).st.getQueue x = some q' ∧ q'.findAlloc a = some al' ∧ al'.target = al.target ∧
      al'.st = allocRun s.consts al.target al.st ins ∧ ∀ i ∈ ins, Allowed e a i := by
  rcases step_queue s e x q hq with h | ⟨_, hres⟩ | ⟨q', hq', ht⟩
  · exact .inl h
  · exact .inr ⟨_, al, [], hres, ha, rfl, rfl, by intro i hi; cases hi⟩
  · obtain ⟨al', ins, h1, h2, h3, h4⟩ := ht.allocFed a al ha
    exact .inr ⟨q', al', ins, hq', h1, h2, h3, h4⟩

/-- … and a worker event naming a known allocation reaches exactly that allocation, once. -/
theorem c18_workers_event (s : State) (a x : Nat) (r : SyncReason) (q : Queue) (al : Alloc)
    (hx : a2qLookup a s.a2q = some x) (hq : s.getQueue x = some q) (ha : q.findAlloc a = some al) :
    ∃ q', (s.workerEvent a r).st.getQueue x = some q' ∧
      q'.findAlloc a = some { al with st := allocStep s.consts al.target al.st (.sync r) } := by
  have hid := State.getQueue_id' s x q hq
  refine ⟨(q.sync a r).1, ?_, ?_⟩
  · simp only [State.workerEvent, hx, hq]
    rw [State.getQueue_setQueue, Queue.sync_id, if_pos hid.symm, hq]; rfl
  · have hai := findAlloc_id q a al ha
    unfold Queue.sync
    simp only [ha]
    unfold Queue.findAlloc at ha ⊢
    simp only
    rw [findAlloc_map _ _ (by intro y; split <;> rfl), ha]
    simp [hai, allocStep]

/-- Non-vacuity of `c18_workers`: loss before connect, duplicate connect, a worker that reconnects, an extra
worker beyond the target; the allocation of size 2 finishes at the second DISTINCT loss. -/
example :
    let ins : List AIn :=
      [.sync (.lost 9 true), .sync (.conn 1), .sync (.conn 1), .sync (.conn 2), .sync (.conn 3), .sync (.lost 1 false),
       .sync (.conn 1), .sync (.lost 1 true), .sync (.ext .queued), .err]
    allocRun ⟨10, 20, 0⟩ 2 (.queued 0) ins = .running [2, 3] [(1, true)] 1 ∧
    allocRun ⟨10, 20, 0⟩ 2 (.queued 0) (ins ++ [.sync (.lost 3 false)]) = .finished [(1, true), (3, false)] := by
  decide

end HqModel.C18
