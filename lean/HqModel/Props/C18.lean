import Lean  -- WORKAROUND only: checks/common.py's audit snippet uses `CoreM`/`collectAxioms` without importing Lean; nothing below uses it
import HqModel.Lemmas.AutoAllocIndex
/-!
# C18 — allocation lifecycle is monotone; worker accounting exact
Model: `HqModel.AutoAlloc` (M6). The environment (batch system, worker notifications in any order, scheduler
answer, clock, hash orders) is universally quantified in every statement.
-/
namespace HqModel.C18
open HqModel.AutoAlloc

/-- **Monotone lifecycle.** For EVERY state `s` (reachable or not), every event `e` with any environment inputs,
every queue `x` and allocation `a` of it: after the step either the queue was removed (and then `e` is exactly a
`removeQueue x`), or the allocation is still there with the same size, its rank (Queued 0 < Running 1 < Finished*
2) has not decreased, and if it was finished (normally or unexpectedly) it is literally unchanged (absorbing). -/
theorem c18_monotone (s : State) (e : Ev) (x : Nat) (q : Queue) (a : Nat) (al : Alloc)
    (hq : s.getQueue x = some q) (ha : q.findAlloc a = some al) :
    ((∃ f, e = .removeQueue x f) ∧ (step s e).st.getQueue x = none) ∨
    ∃ q' al', (step s e).st.getQueue x = some q' ∧ q'.findAlloc a = some al' ∧
      al'.target = al.target ∧ al.st.rank ≤ al'.st.rank ∧ (al.st.isFinished = true → al' = al) := by
  rcases step_queue s e x q hq with h | ⟨_, hres⟩ | ⟨q', hq', ht⟩
  · exact .inl h
  · exact .inr ⟨_, al, hres, ha, rfl, Nat.le_refl _, fun _ => rfl⟩
  · obtain ⟨al', h1, h2, h3, h4⟩ := ht.allocMono a al ha
    exact .inr ⟨q', al', hq', h1, h2, h3, h4⟩

/-- Non-vacuity of `c18_monotone`: an allocation that walks Queued → Running → Finished and then ignores a
contradictory external status and a late connect. -/
example :
    let s0 := init ⟨10, 20, 0⟩ 1
    let s1 := (step s0 (.addQueue ⟨2, 1, none⟩ (Limiter.new [0] 2 3) none)).st
    let s2 := (step s1 (.tick 0 [1] (.ok [1] []) [.ok 7])).st
    let s3 := (step s2 (.workerConnected 4 7)).st
    let s4 := (step s3 (.workerLost 4 7 false)).st
    let s5 := (step s4 (.refresh [(1, .statuses [(7, .queued)])])).st
    let s6 := (step s5 (.workerConnected 5 7)).st
    [s2, s3, s4, s5, s6].map (fun s => (s.getQueue 1).bind fun q => (q.findAlloc 7).map (·.st.rank))
      = [some 0, some 1, some 2, some 2, some 2] ∧ s6 = s4 := by
  decide

/-- **Unknown allocation.** A worker connect / loss that names an allocation which is not in the
`allocation_to_queue` index changes nothing: the state is identical and nothing but the "schedule" flag is
returned (no event, no call). -/
theorem c18_unknown (s : State) (w a : Nat) (crashed : Bool) (h : a2qLookup a s.a2q = none) :
    step s (.workerConnected w a) = ⟨s, [.sched true], none⟩ ∧
    step s (.workerLost w a crashed) = ⟨s, [.sched true], none⟩ := by
  simp [step, State.workerEvent, h]

/-- **Queue removal.** If `removeQueue x force` is accepted (the queue exists; it has no running allocation or
`force`) and does not hit the index assertion, then
* `remove_allocation` is called exactly for the active (queued or running) allocations of the queue, once per
  allocation (the list of calls IS the list of active allocations), and for nothing else;
* the queue is gone, the `AllocationQueueRemoved` event is emitted;
* every `allocation_to_queue` entry of its allocations is gone, so later worker events about them are
  `c18_unknown` (state unchanged). -/
theorem c18_remove_queue (s : State) (x : Nat) (force : Bool) (q : Queue)
    (hq : s.getQueue x = some q)
    (hacc : (q.allocs.any (·.st.isRunning) && !force) = false)
    (hnp : (step s (.removeQueue x force)).panic = none) :
    let r := step s (.removeQueue x force)
    r.outs = ((q.allocs.filter (·.st.isActive)).map fun al => Out.rm x al.id) ++ [.evQRemoved x, .resp .ok, .sched false] ∧
    r.st.getQueue x = none ∧
    (∀ al ∈ q.allocs, a2qLookup al.id r.st.a2q = none) ∧
    (∀ al ∈ q.allocs, ∀ w crashed,
      step r.st (.workerConnected w al.id) = ⟨r.st, [.sched true], none⟩ ∧
      step r.st (.workerLost w al.id crashed) = ⟨r.st, [.sched true], none⟩) := by
  have hstep : ∀ m, State.removeA2qAll (q.allocs.map (·.id)) s.a2q = some m →
      step s (.removeQueue x force) =
        ⟨{ s with queues := s.queues.filter (·.id != x), a2q := m },
         ((q.allocs.filter (·.st.isActive)).map fun al => Out.rm x al.id) ++ [.evQRemoved x, .resp .ok, .sched false],
         none⟩ := by
    intro m hm
    simp only [step, State.removeQueue, hq, hacc, hm]
    simp
  cases hm : State.removeA2qAll (q.allocs.map (·.id)) s.a2q with
  | none =>
    simp only [step, State.removeQueue, hq, hacc, hm] at hnp
    simp at hnp
  | some m =>
    have hs := hstep m hm
    have hgone : ∀ al ∈ q.allocs, a2qLookup al.id m = none := by
      intro al hal
      exact removeA2qAll_lookup _ _ _ hm al.id (.inl (List.mem_map.mpr ⟨al, hal, rfl⟩))
    simp only [hs]
    refine ⟨trivial, ?_, hgone, ?_⟩
    · rcases step_queue s (.removeQueue x force) x q hq with ⟨_, h⟩ | ⟨h, _⟩ | ⟨q', h, _⟩
      · rw [hs] at h; exact h
      · cases h
      · exfalso
        rw [hs] at h
        simp only [State.getQueue, List.find?_filter] at h
        have := List.find?_some h
        simp at this
    · intro al hal w crashed
      exact c18_unknown _ w al.id crashed (hgone al hal)

/-- A refused removal (unknown queue, or running allocations without `force`) has no effect at all. -/
theorem c18_remove_queue_refused (s : State) (x : Nat) (force : Bool)
    (h : s.getQueue x = none ∨ ∃ q, s.getQueue x = some q ∧ (q.allocs.any (·.st.isRunning) && !force) = true) :
    (step s (.removeQueue x force)).st = s ∧ (step s (.removeQueue x force)).panic = none ∧
    ∀ y a, Out.rm y a ∉ (step s (.removeQueue x force)).outs := by
  rcases h with h | ⟨q, hq, hr⟩
  · simp [step, State.removeQueue, h]
  · simp [step, State.removeQueue, hq, hr]

/-- In every reachable state the allocation ids inside a queue are pairwise distinct, so "once per active
allocation" in `c18_remove_queue` is once per allocation *id*. -/
theorem c18_ids_unique (c : Consts) (n : Nat) (s : State) (h : Reach (init c n) s) (x : Nat) (q : Queue)
    (hq : s.getQueue x = some q) : (q.allocs.map (·.id)).Nodup :=
  reach_idsNodup c n s h x q hq

/-- Non-vacuity of `c18_remove_queue`: a queue with one running, one queued and one finished allocation. -/
example :
    let s0 := init ⟨10, 20, 0⟩ 1
    let s1 := (step s0 (.addQueue ⟨3, 1, none⟩ (Limiter.new [0] 2 3) none)).st
    let s2 := (step s1 (.tick 0 [1] (.ok [3] []) [.ok 7, .ok 8, .ok 9])).st
    let s3 := (step s2 (.workerConnected 4 7)).st
    let s4 := (step s3 (.refresh [(1, .statuses [(9, .failed)])])).st
    (step s4 (.removeQueue 1 false)).outs = [.resp .hasRunning, .sched false] ∧
    (step s4 (.removeQueue 1 true)).outs = [.rm 1 7, .rm 1 8, .evQRemoved 1, .resp .ok, .sched false] ∧
    (step s4 (.removeQueue 1 true)).st.a2q = [] := by
  decide

end HqModel.C18
