import HqModel.Props.C12
import HqModel.Lemmas.JournalPrune2Restore
import HqModel.Lemmas.JournalPrune2Wf
/-!
C12 for the FIXED pruner (`prune_journal` after notes/f12_fix.patch = `Journal.prune2`, Journal/Prune2.lean): the
pruner is stateful — it collects the worker ids of every kept `TaskStarted` (`task_worker_ids`) and keeps a
`WorkerLost w` iff `w` is live or `w ∈ task_worker_ids` (as accumulated from the records earlier in the file).

Relative to Props/C12.lean: the crash counters are now INSIDE the proved view (`SameView2`: equal job entries instead
of `SameView`: equal up to crash counters), the job tables are even equal as lists, and therefore
`restore_jobs_and_queues` returns the same jobs and the same `TaskSubmit` batches (adjust maps included). What stays
outside is `queue_to_worker_resources` only (finding F25: `WorkerConnected` of a no-longer-live allocation worker is
still dropped) — hence the main theorem is still named `_partial`.
-/
namespace HqModel.C12
open HqModel.Journal

/-- **Full-strength statement for the fixed pruner** (kept visible; FALSE in exactly one component, see
`c12_f25_witness2`): as `C12Full`, with `prune2`. -/
def C12Full2 : Prop :=
  ∀ (J : List Record) (lj lw : List Nat) (R : Restorer), restorerFold J = .ok R → LiveCovers R lj →
    ∃ R', restorerFold (prune2 lj lw J) = .ok R' ∧ R'.jobs = R.jobs ∧ R'.queues = R.queues ∧ R'.queueRes = R.queueRes ∧
      R'.uid = R.uid

/-- **c12_prune2_equiv (partial: everything but `queue_to_worker_resources`).** For EVERY journal `J` on which
`load_event_file` succeeds (in particular every producible one, C10), every set of live workers and every set of live
jobs that covers the jobs a restart would restore (`handle_prune_journal`): `load_event_file` also succeeds on
`prune2 J`, and the two restorer states have the same view INCLUDING the crash counters — `SameView2`: for every job id
the same entry (description, submits, open flag, and per task: state with started data, last instance id, crash
counter) or no entry on both sides, the same allocation queues, queue high-water mark and uid. Moreover the two job
tables are equal as lists (same iteration order).
Missing w.r.t. `C12Full2`: `queue_to_worker_resources` (F25) only. Same hypotheses as `c12_prune_equiv_partial`. -/
theorem c12_prune2_equiv_partial (J : List Record) (lj lw : List Nat) (R : Restorer) (h : restorerFold J = .ok R)
    (hl : LiveCovers R lj) :
    ∃ R', restorerFold (prune2 lj lw J) = .ok R' ∧ SameView2 R R' ∧ R'.jobs = R.jobs := by
  have h0 : PRel2 (fun j => lj.contains j) ({} : Restorer) {} := ⟨fun _ _ => rfl, fun _ _ => rfl, rfl, rfl, rfl⟩
  obtain ⟨R', h1, h2, h3⟩ := prune2_fold_full lj lw J [] {} {} R h0 rfl (fun _ hkv => by cases hkv) h
  exact ⟨R', h1, sameView2_of_prel2 h2 hl, by rw [h3]; exact alFilter_eq_self _ _ hl⟩

/-- the view of the fixed pruner refines the view the old theorem speaks about -/
theorem c12_sameView2_sameView (R R' : Restorer) (h : SameView2 R R') : SameView R R' := h.toSameView

/-- **c12_prune2_restore: what the restart hands to the server.** If restoring `J` succeeds with restorer `R` and
result `X`, then restoring `prune2 J` (live sets as above) succeeds as well and returns the SAME restored jobs (ids,
open flags, task states, counters, number of submits), the SAME `TaskSubmit` batches — tasks, remaining dependencies and
the adjust maps, i.e. next instance ids AND crash counters — and the same allocation queues (their
"worker resources known" flag excepted: F25). In particular the core holds the same tasks with the same crash counters
(`coreFeed`, `batchPending` are functions of the batches). -/
theorem c12_prune2_restore (J : List Record) (lj lw : List Nat) (R : Restorer) (X : Restored)
    (h : restore J = .ok (R, X)) (hl : LiveCovers R lj) :
    ∃ R' X', restore (prune2 lj lw J) = .ok (R', X') ∧ X'.jobs = X.jobs ∧ X'.batches = X.batches ∧
      X'.queues.map (·.1) = X.queues.map (·.1) ∧ R'.uid = R.uid ∧ R'.maxQueue = R.maxQueue := by
  unfold restore at h
  cases hf : restorerFold J with
  | error e => simp [hf] at h
  | ok R0 =>
    simp only [hf] at h
    cases hr : restoreJobs R0 with
    | error e => simp [hr] at h
    | ok X0 =>
      simp only [hr, Except.ok.injEq, Prod.mk.injEq] at h
      obtain ⟨rfl, rfl⟩ := h
      obtain ⟨R', h1, hv, hj⟩ := c12_prune2_equiv_partial J lj lw R0 hf hl
      obtain ⟨X', g1, g2, g3, g4⟩ := restoreJobs_of_jobs_eq R0 R' X0 hj hv.queues hr
      refine ⟨R', X', ?_, g2, g3, g4, hv.uid, hv.maxQueue⟩
      unfold restore
      simp only [h1, g1]

/-- **c12_append2 (the pruned journal can be appended to).** Whatever the server writes after the prune (`K`, any
records, not pruned): if the unpruned journal followed by `K` restores, so does `prune2 J` followed by `K`, with the same
view (crash counters included) and the same job table. With `K = []`: restore does not stop on the pruned journal —
in particular a kept `WorkerLost w` whose `WorkerConnected w` was dropped is harmless. -/
theorem c12_append2 (J K : List Record) (lj lw : List Nat) (R R2 : Restorer) (h : restorerFold J = .ok R)
    (hl : LiveCovers R lj) (h2 : restorerFold (J ++ K) = .ok R2) :
    ∃ R2', restorerFold (prune2 lj lw J ++ K) = .ok R2' ∧ SameView2 R2 R2' ∧ R2'.jobs = R2.jobs := by
  obtain ⟨R', h1, hv, hj⟩ := c12_prune2_equiv_partial J lj lw R h hl
  unfold restorerFold at *
  rw [restorerFoldFrom_append, h] at h2
  obtain ⟨R2', g1, g2⟩ := prel2_fold_common K R R' R2 (prel2_of_sameView2 hv) h2
  exact ⟨R2', by rw [restorerFoldFrom_append, h1]; exact g1, sameView2_of_prel2_all g2,
    fold_common_jobs K R R' R2 R2' hj h2 g1⟩

/-- **c12_wf2, part 1 (the pruner is a streaming pass).** Pruning `J ++ K` = pruning `J`, then continuing on `K` with
the `task_worker_ids` collected on `J`. -/
theorem c12_wf2_append (lj lw : List Nat) (J K : List Record) :
    prune2 lj lw (J ++ K) = prune2 lj lw J ++ prune2From lj lw (taskWorkersFrom lj [] J) K :=
  prune2_append lj lw J K

/-- **c12_wf2, part 2 (the pruned journal can be pruned again — semantic form, no side condition).** Prune `J`, let
the server append any `K`, prune the result again with live sets that cover what a restart of `J ++ K` would restore:
the twice-pruned journal restores with the same view (crash counters included) as `J ++ K`. -/
theorem c12_prune2_twice (J K : List Record) (lj lw lj2 lw2 : List Nat) (R R2 : Restorer)
    (h : restorerFold J = .ok R) (hl : LiveCovers R lj) (h2 : restorerFold (J ++ K) = .ok R2)
    (hl2 : LiveCovers R2 lj2) :
    ∃ R2', restorerFold (prune2 lj2 lw2 (prune2 lj lw J ++ K)) = .ok R2' ∧ SameView2 R2 R2' ∧ R2'.jobs = R2.jobs := by
  obtain ⟨R1, g1, gv, gj⟩ := c12_append2 J K lj lw R R2 h hl h2
  have hl1 : LiveCovers R1 lj2 := by intro j hj; rw [gj] at hj; exact hl2 j hj
  obtain ⟨R2', k1, kv, kj⟩ := c12_prune2_equiv_partial _ lj2 lw2 R1 g1 hl1
  exact ⟨R2', k1, ⟨fun j => (gv.jobs j).trans (kv.jobs j), by rw [kv.queues, gv.queues],
    by rw [kv.maxQueue, gv.maxQueue], by rw [kv.uid, gv.uid]⟩, by rw [kj, gj]⟩

/-- **c12_wf2, part 3 (syntactic form).** Pruning a pruned journal (after more records `K` were appended) is pruning
the original with the intersections of the live sets — PROVIDED no worker that ran a task of a live job before the
first prune is live at the second prune without having been live at the first one (`hmono`; true of
`handle_prune_journal` as long as worker ids are not reissued; the old stateless law needed no such condition).
`K` is pruned with the `task_worker_ids` collected on the twice-live part of `J`. -/
theorem c12_wf2 (lj lw lj2 lw2 : List Nat) (J K : List Record)
    (hmono : ∀ w, lw2.contains w = true → w ∈ taskWorkersFrom lj [] J → lw.contains w = true) :
    prune2 lj2 lw2 (prune2 lj lw J ++ K) =
      prune2 (inter lj lj2) (inter lw lw2) J ++ prune2From lj2 lw2 (taskWorkersFrom (inter lj lj2) [] J) K := by
  obtain ⟨e1, e2⟩ := prune2From_prune2From lj lw lj2 lw2 J [] [] (fun _ h => h) hmono
  unfold prune2
  rw [prune2From_append, e1, e2]

/-- pruning twice with the same live sets changes nothing (no side condition) -/
theorem c12_prune2_idem (lj lw : List Nat) (J : List Record) : prune2 lj lw (prune2 lj lw J) = prune2 lj lw J :=
  prune2_idem lj lw J

/-- the side condition of `c12_wf2` cannot be dropped: worker 1 ran a task of the live job 1, was not live at the
first prune and is "live" at the second one (a reissued id) — the composed prune keeps its `WorkerLost`, the prune with
the intersections does not. Both restore the same view (`c12_prune2_twice`). -/
theorem c12_wf2_needs_hmono :
    prune2 [] [1] (prune2 [1] [] witnessF12) ≠ prune2 (inter [1] []) (inter [] [1]) witnessF12 := by decide

/-! ### F12 is gone, F25 stays -/

/-- regression for F12: on the old witness journal the fixed pruner keeps `WorkerLost 1` (worker 1 is not live but ran
task 1.0 of the live job 1), and the crash counter handed to the core for the still pending task 1.0 is 1 as without
pruning; with the old pruner it was 0. -/
theorem c12_f12_regression :
    prune2 [1] [] witnessF12 =
      [.serverStart "abc123", .submit 1 true none (.array [⟨0, 1, 1⟩] none), .taskStarted 1 0 0 [1],
       .workerLost 1 .connectionLost] ∧
    (∃ R X, restore witnessF12 = .ok (R, X) ∧ batchPending X.batches = [(1, 0, [], 1, 1)]) ∧
    (∃ R X, restore (prune2 [1] [] witnessF12) = .ok (R, X) ∧ batchPending X.batches = [(1, 0, [], 1, 1)]) ∧
    (∃ R X, restore (prune [1] [] witnessF12) = .ok (R, X) ∧ batchPending X.batches = [(1, 0, [], 1, 0)]) :=
  ⟨by decide, ⟨_, _, rfl, rfl⟩, ⟨_, _, rfl, rfl⟩, ⟨_, _, rfl, rfl⟩⟩

/-- F25 for the fixed pruner (unchanged): the `WorkerConnected` record of a no-longer-live worker that came from an
allocation is still dropped, so the queue restored from the pruned journal has no worker resources. -/
theorem c12_f25_witness2 : Producible witnessF25 ∧
    (∃ R X, restore witnessF25 = .ok (R, X) ∧ X.queues = [(1, true)]) ∧
    (∃ R X, restore (prune2 [] [] witnessF25) = .ok (R, X) ∧ X.queues = [(1, false)]) :=
  ⟨by decide, ⟨_, _, rfl, rfl⟩, ⟨_, _, rfl, rfl⟩⟩

/-- the full-strength statement is still false of the fixed code — in the `queue_to_worker_resources` component -/
theorem c12_full2_statement_false : ¬ C12Full2 := by
  intro h
  obtain ⟨R', h1, _, _, h4, _⟩ := h witnessF25 [] []
    { maxWorker := 1, queueRes := [(1, ())], allocQueue := [(100, 1)], queues := [(1, ())], maxQueue := 1,
      uid := "abc123" } rfl (fun j hj => by simp [alGet] at hj)
  have : restorerFold (prune2 [] [] witnessF25) = .ok
      { allocQueue := [(100, 1)], queues := [(1, ())], maxQueue := 1, uid := "abc123" } := rfl
  rw [this] at h1
  cases h1
  revert h4
  decide

/-! ### non-vacuity: the hypotheses are satisfiable, the pruner really drops and really keeps `WorkerLost` records -/

/-- job 1 done, job 2 live with the multi-node task 2.0 on workers [3, 4]; workers 1 (ran only the finished job),
2 (ran nothing) and 3 (root of 2.0) are lost, 4 and 5 are live -/
def witnessMixed : List Record :=
  [.serverStart "abc123",
   .submit 1 true none (.array [⟨0, 1, 1⟩] none), .submit 2 true none (.array [⟨0, 2, 1⟩] none),
   .workerConnected 1 none, .workerConnected 2 none, .workerConnected 3 none, .workerConnected 4 none,
   .taskStarted 1 0 0 [1], .taskFinished 1 0, .jobCompleted 1,
   .workerLost 2 .heartbeatLost,
   .taskStarted 2 0 0 [3, 4], .workerLost 1 .connectionLost, .workerLost 3 .connectionLost,
   .workerConnected 5 none, .taskStarted 2 1 0 [5]]

example : Producible witnessMixed := by decide

/-- what the fixed pruner writes: the losses of workers 1 and 2 are dropped, the loss of worker 3 is kept although 3 is
not live and its `WorkerConnected` is gone -/
example : prune2 [2] [4, 5] witnessMixed =
    [.serverStart "abc123", .submit 2 true none (.array [⟨0, 2, 1⟩] none),
     .workerConnected 4 none, .taskStarted 2 0 0 [3, 4], .workerLost 3 .connectionLost,
     .workerConnected 5 none, .taskStarted 2 1 0 [5]] := by decide

/-- the hypotheses of `c12_prune2_equiv_partial` / `c12_prune2_restore` hold for it, and the crash counter of 2.0
(1, instance 1) survives the prune; the old pruner loses it -/
example : ∃ R X, restore witnessMixed = .ok (R, X) ∧ LiveCovers R [2] ∧
    batchPending X.batches = [(2, 0, [], 1, 1), (2, 1, [], 1, 0)] :=
  ⟨_, _, rfl, covers_of_keys _ _ (by decide), rfl⟩

example : (∃ R X, restore (prune2 [2] [4, 5] witnessMixed) = .ok (R, X) ∧
      batchPending X.batches = [(2, 0, [], 1, 1), (2, 1, [], 1, 0)]) ∧
    (∃ R X, restore (prune [2] [4, 5] witnessMixed) = .ok (R, X) ∧
      batchPending X.batches = [(2, 0, [], 1, 0), (2, 1, [], 1, 0)]) :=
  ⟨⟨_, _, rfl, rfl⟩, ⟨_, _, rfl, rfl⟩⟩

/-- a `WorkerLost` BEFORE the `TaskStarted` that mentions the worker is dropped (the set is the one accumulated so
far), one after it is kept -/
example : prune2 [1] [] [.workerLost 7 .connectionLost, .taskStarted 1 0 0 [7], .workerLost 7 .connectionLost] =
    [.taskStarted 1 0 0 [7], .workerLost 7 .connectionLost] := by decide

/-- the hypothesis of `c12_wf2` is satisfiable with a second prune that really removes more -/
example : (∀ w, [5].contains w = true → w ∈ taskWorkersFrom [2] [] witnessMixed → [4, 5].contains w = true) ∧
    prune2 [2] [5] (prune2 [2] [4, 5] witnessMixed) = prune2 [2] [5] witnessMixed ∧
    prune2 [2] [5] witnessMixed ≠ prune2 [2] [4, 5] witnessMixed :=
  ⟨by intro w hw _; simp at hw; subst hw; decide, by decide, by decide⟩

end HqModel.C12
