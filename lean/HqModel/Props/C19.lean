import HqModel.Lemmas.StreamCodec
/-!
# C19 — streamed output reads back complete, in order, last run only (model M8, byte level)
-/
namespace HqModel.C19
open HqModel.Stream

/-- The integer codec of the stream files (bincode varint) round-trips every `u64`. -/
theorem varint_roundtrip (n : Nat) (h : n < 2 ^ 64) (rest : Bytes) :
    decVarint (encVarint n ++ rest) = .ok n rest :=
  decVarint_encVarint (by simpa using h) rest

/-- … and is prefix free in the strong form the reader relies on: decoding a *strict prefix* of an
encoding reports end-of-input (never a value, never an error). -/
theorem varint_prefix_free (n k : Nat) (h : k < (encVarint n).length) :
    decVarint ((encVarint n).take k) = .eof :=
  decVarint_take_encVarint n k h

/-- `StreamChunkHeader` round-trips through `serialize_into` / `deserialize_from`. -/
theorem hdr_roundtrip (h : ChunkHeader) (v : h.Valid) (rest : Bytes) :
    decHdr (encHdr h ++ rest) = .ok h rest :=
  decHdr_encHdr v rest

/-- A torn chunk header (any strict prefix of its encoding) is reported as end-of-input. -/
theorem hdr_prefix_free (h : ChunkHeader) (v : h.Valid) (k : Nat) (hk : k < (encHdr h).length) :
    decHdr ((encHdr h).take k) = .eof :=
  decHdr_take_encHdr v k hk

end HqModel.C19
