import HqModel.Lemmas.StreamMain
/-!
# C19 — streamed output reads back complete, in order, last run only (model M8, byte level)

Model: `HqModel/Stream/{Codec,Header,Writer,Reader}.lean` (writer = `worker/streamer.rs`, reader =
`stream/reader/outputlog.rs`, codec = bincode 1.3.3 varint as configured by `StreamSerializationConfig`);
vocabulary of the statements: `HqModel/Stream/Spec.lean`.

A *directory* is a list of `FileSpec`s — for each `stream_writer` (one per worker and stream directory) the
server uid, the worker id and the queue of `(header, data)` chunks in queue order — listed in the order in
which the reader happens to meet the files. The theorems hold for **every** such list: any number of tasks,
instances, chunks, any chunk sizes and contents, any interleaving of the chunks of different tasks inside a
file, any number of files, any listing order. Hypotheses (`DirOK`): header fields are in the range of their
Rust types, `size = data.len()` (`send_data`), channels are 0/1, all files carry the same ASCII server uid,
and — the hypothesis that ties C19 to C06 —

* inside one file the chunks of two instances of the same task are not interleaved (`NoReturn`), and
* instance ids of one task are distinct across files (`DirOK.distinct`).

Without them the reader merges or splits instances (it pushes a new `InstanceInfo` whenever the instance id
differs from the *last* one of the task); that behaviour is modelled and compared with the real code by the
correspondence harness, but it is not what C19 claims.

Not proved here (trusted, exercised by the harness): the per-directory queue is FIFO and `BufWriter` +
`flush` write exactly `fileBytes`.
-/
namespace HqModel.C19
open HqModel.Stream

/-- The integer codec of the stream files (bincode varint) round-trips every `u64`. -/
theorem varint_roundtrip (n : Nat) (h : n < 2 ^ 64) (rest : Bytes) :
    decVarint (encVarint n ++ rest) = .ok n rest :=
  decVarint_encVarint (by simpa using h) rest

/-- … and is prefix free in the strong form the reader relies on: decoding a *strict prefix* of an
encoding reports end-of-input (never a value, never an error). -/
theorem varint_prefix_free (n k : Nat) (h : k < (encVarint n).length) :
    decVarint ((encVarint n).take k) = .eof :=
  decVarint_take_encVarint n k h

/-- `StreamChunkHeader` round-trips through `serialize_into` / `deserialize_from`. -/
theorem hdr_roundtrip (h : ChunkHeader) (v : h.Valid) (rest : Bytes) :
    decHdr (encHdr h ++ rest) = .ok h rest :=
  decHdr_encHdr v rest

/-- A torn chunk header (any strict prefix of its encoding) is reported as end-of-input. -/
theorem hdr_prefix_free (h : ChunkHeader) (v : h.Valid) (k : Nat) (hk : k < (encHdr h).length) :
    decHdr ((encHdr h).take k) = .eof :=
  decHdr_take_encHdr v k hk

/-- The chunk scanner on **any** prefix of a file body written by the writer: it sees exactly the chunks whose
header is complete, at the right positions, and ends quietly (no decode error), whatever the offset. -/
theorem scanner_any_prefix (cs : List Chunk) (hv : ∀ c ∈ cs, c.hdr.Valid) (hw : ∀ c ∈ cs, c.WF) (p k : Nat) :
    parseChunks p ((chunksBytes cs).take k) = (recsOf p (cs.take (nHdr k cs)), false) :=
  parseChunks_take cs hv hw p k

/-- **Read-back.** For every directory satisfying the hypotheses, `OutputLog::open` (with no uid filter or
the right one; also `create_index` on the explicit listing) succeeds, and for every task `t` that wrote
anything, with `m` its maximal instance id:

* `cat t stdout` / `cat t stderr` = the concatenation, in write order, of the data of all chunks that
  instance `m` of `t` sent on that channel — nothing of any other instance or task;
* `finished` ⇔ an end marker (chunk of size 0) of instance `m` was written;
* the superseded instances are exactly the other instance ids of `t`, each once, in increasing order. -/
theorem c19_readback (uid : Bytes) (dir : List FileSpec) (ok : DirOK uid dir) (hne : dir ≠ [])
    (filter : Option Bytes) (hf : filter = none ∨ filter = some uid) :
    ∃ log, openDir (dir.map fileBytes) filter = .ok log ∧ openPaths (dir.map fileBytes) = .ok log ∧
      ∀ (t : Key) (m : Nat), m ∈ instIds dir t → (∀ i ∈ instIds dir t, i ≤ m) →
        log.cat t 0 = .ok (written dir t m 0) ∧ log.cat t 1 = .ok (written dir t m 1) ∧
        log.finished t = some (endMarked dir t m) ∧
        ((log.superseded t).map (·.inst)).Nodup ∧
        (∀ i, i ∈ (log.superseded t).map (·.inst) ↔ (i ∈ instIds dir t ∧ i ≠ m)) ∧
        (log.superseded t).Pairwise (fun a b => a.inst ≤ b.inst) := by
  -- the uncut directory is the directory cut at the file lengths
  let cdir : List (FileSpec × Nat) := dir.map fun f => (f, (fileBytes f).length)
  have hfst : cdir.map (·.1) = dir := by simp [cdir, List.map_map, Function.comp_def]
  have hbytes : cdir.map cutBytes = dir.map fileBytes := by
    simp only [cdir, List.map_map]
    apply List.map_congr_left
    intro f _
    exact cutBytes_full f
  have hc : CutOK uid cdir := by
    refine ⟨by rw [hfst]; exact ok, ?_⟩
    intro fk hfk
    obtain ⟨f, _, rfl⟩ := List.mem_map.mp hfk
    simp only [fileBytes_length]; omega
  have hcne : cdir ≠ [] := by
    intro h; apply hne; rw [← hfst, h]; rfl
  refine ⟨⟨cdir.map cutBytes, (foldRecs Index.empty (viewFR 0 (viewOf cdir))).sorted⟩, ?_, ?_, ?_⟩
  · rw [← hbytes]; exact openDir_cut hc hcne filter hf
  · rw [← hbytes]; exact openPaths_cut hc
  · intro t m hm hmax
    have hview : (viewOf cdir).flatMap (fun pc => instSeq t pc.2) = instIds dir t := by
      simp only [viewOf, cdir, List.map_map, List.flatMap_map, instIds, Function.comp_def, kept_full]
    obtain ⟨h0, h1, hfin, init, hget, hnd, hmem, hpw⟩ :=
      torn_task hc t m (by rw [hfst]; exact hm) (by rw [hfst]; exact hmax)
        (by
          intro fk hfk
          obtain ⟨f, _, rfl⟩ := List.mem_map.mp hfk
          exact keeps_full f t m)
        _ rfl
    rw [hfst] at h0 h1 hfin
    rw [hview] at hmem
    have hsup : Log.superseded ⟨cdir.map cutBytes, (foldRecs Index.empty (viewFR 0 (viewOf cdir))).sorted⟩ t = init := by
      show ((foldRecs Index.empty (viewFR 0 (viewOf cdir))).sorted.get t).dropLast = init
      have hget' : (foldRecs Index.empty (viewFR 0 (viewOf cdir))).sorted.get t = init ++ [_] := hget
      rw [hget', List.dropLast_concat]
    rw [hsup]
    exact ⟨h0, h1, hfin, hnd, hmem, hpw⟩

/-- **Torn files.** Every file of the directory may have lost an arbitrary tail (`fk.2` = number of bytes that
survived; the theorem quantifies over *every* byte offset), as long as the file headers survived. If all
chunks of the maximal instance `m` of task `t` lie inside the surviving part of their file
(`FileSpec.Keeps`: the cut is at or behind the last byte of its last chunk — its end marker if it has one),
then `cat` and `finished` of `t` are exactly what they are on the undamaged directory (`written`,
`endMarked` refer to the *whole* schedule): torn tails of other executions are skipped — a torn header stops
the scan of that file quietly, a chunk with short data belongs to an execution whose end marker is missing. -/
theorem c19_torn (uid : Bytes) (dir : List (FileSpec × Nat)) (ok : DirOK uid (dir.map (·.1)))
    (hdr : ∀ fk ∈ dir, (encFileHeader fk.1.uid fk.1.worker).length ≤ fk.2) (hne : dir ≠ [])
    (filter : Option Bytes) (hf : filter = none ∨ filter = some uid)
    (t : Key) (m : Nat) (hm : m ∈ instIds (dir.map (·.1)) t) (hmax : ∀ i ∈ instIds (dir.map (·.1)) t, i ≤ m)
    (hkeep : ∀ fk ∈ dir, fk.1.Keeps t m fk.2) :
    ∃ log, openDir (dir.map fun fk => (fileBytes fk.1).take fk.2) filter = .ok log ∧
      openPaths (dir.map fun fk => (fileBytes fk.1).take fk.2) = .ok log ∧
      log.cat t 0 = .ok (written (dir.map (·.1)) t m 0) ∧ log.cat t 1 = .ok (written (dir.map (·.1)) t m 1) ∧
      log.finished t = some (endMarked (dir.map (·.1)) t m) := by
  have hc : CutOK uid dir := ⟨ok, hdr⟩
  obtain ⟨h0, h1, hfin, -⟩ := torn_task hc t m hm hmax hkeep _ rfl
  exact ⟨⟨dir.map cutBytes, (foldRecs Index.empty (viewFR 0 (viewOf dir))).sorted⟩,
    openDir_cut hc hne filter hf, openPaths_cut hc, h0, h1, hfin⟩

/-! ## the hypotheses are satisfiable; the conclusions are not vacuous -/

/-- task 1.0: run 1 on worker 2 dies after two chunks, run 2 on worker 3 completes; task 1.1 interleaved -/
def exDir : List FileSpec :=
  [ ⟨[85], 2, [⟨⟨5, 1, 0, 1, 0, 2⟩, [10, 11]⟩, ⟨⟨6, 1, 1, 7, 0, 1⟩, [99]⟩, ⟨⟨7, 1, 0, 1, 1, 1⟩, [12]⟩]⟩,
    ⟨[85], 3, [⟨⟨8, 1, 0, 2, 0, 1⟩, [20]⟩, ⟨⟨9, 1, 1, 8, 0, 0⟩, []⟩, ⟨⟨9, 1, 0, 2, 0, 2⟩, [21, 22]⟩,
               ⟨⟨9, 1, 0, 2, 0, 0⟩, []⟩] ⟩ ]

theorem exDir_ok : DirOK [85] exDir := by
  have other : ∀ t : Key, t ≠ (1, 0) → t ≠ (1, 1) → ∀ f ∈ exDir, instSeq t f.chunks = [] := by
    intro t h0 h1 f hf
    have h0' : ¬ ((1, 0) : Key) = t := fun h => h0 h.symm
    have h1' : ¬ ((1, 1) : Key) = t := fun h => h1 h.symm
    simp only [exDir, List.mem_cons, List.not_mem_nil, or_false] at hf
    rcases hf with rfl | rfl <;> simp [instSeq, Chunk.key, h0', h1']
  refine ⟨by decide, by decide, ?_, ?_⟩
  · intro f hf
    have hf' := hf
    simp only [exDir, List.mem_cons, List.not_mem_nil, or_false] at hf'
    have nr : ∀ t, NoReturn (instSeq t f.chunks) := by
      intro t
      by_cases h0 : t = (1, 0)
      · subst h0; rcases hf' with rfl | rfl <;> decide
      · by_cases h1 : t = (1, 1)
        · subst h1; rcases hf' with rfl | rfl <;> decide
        · rw [other t h0 h1 f hf]; trivial
    rcases hf' with rfl | rfl
    · exact ⟨rfl, by decide, by decide, by decide, by decide, by decide, nr⟩
    · exact ⟨rfl, by decide, by decide, by decide, by decide, by decide, nr⟩
  · intro t
    by_cases h0 : t = (1, 0)
    · subst h0; decide
    · by_cases h1 : t = (1, 1)
      · subst h1; decide
      · have e0 := other t h0 h1
        apply List.pairwise_of_forall_mem_list
        intro a ha b _ i hi
        rw [e0 a ha] at hi
        simp at hi

/-- on the example: task 1.0 reads back `20 21 22` (run 2 only), finished, run 1 superseded -/
example : ∃ log, openDir (exDir.map fileBytes) none = .ok log ∧
    log.cat (1, 0) 0 = .ok [20, 21, 22] ∧ log.cat (1, 0) 1 = .ok [] ∧ log.finished (1, 0) = some true ∧
    (log.superseded (1, 0)).map (·.inst) = [1] := by
  obtain ⟨log, ho, -, h⟩ := c19_readback [85] exDir exDir_ok (by decide) none (Or.inl rfl)
  obtain ⟨h0, h1, hf, hnd, hmem, -⟩ := h (1, 0) 2 (by decide) (by decide)
  refine ⟨log, ho, h0, h1, hf, ?_⟩
  have e : instIds exDir (1, 0) = [1, 1, 2, 2, 2] := by decide
  rw [e] at hmem
  -- a duplicate-free list whose members are exactly {1}
  generalize (log.superseded (1, 0)).map (·.inst) = l at hnd hmem
  match l, hnd, hmem with
  | [], _, hmem => exact absurd ((hmem 1).mpr (by decide)) (by simp)
  | [a], _, hmem =>
    have := (hmem a).mp (by simp)
    simp only [List.mem_cons, List.not_mem_nil, or_false] at this
    have : a = 1 := by omega
    simp [this]
  | a :: b :: r, hnd, hmem =>
    have ha := (hmem a).mp (by simp)
    have hb := (hmem b).mp (by simp)
    simp only [List.mem_cons, List.not_mem_nil, or_false] at ha hb
    have : a = b := by omega
    simp [this] at hnd

end HqModel.C19
