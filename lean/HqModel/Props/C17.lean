import Lean  -- WORKAROUND only: checks/common.py's audit snippet uses `CoreM`/`collectAxioms` without importing Lean; nothing below uses it
import HqModel.Props.C17Query
import HqModel.Lemmas.AutoAllocTick
import HqModel.Lemmas.AutoAllocPermit
/-!
# C17 — automatic allocation respects its limits and submits only on demand
Model: `HqModel.AutoAlloc` (M6). The environment (batch system, scheduler answer, clock, hash orders) is
universally quantified in every statement. `c17_no_demand` (the scheduler answers "no workers" when no waiting task
fits the queue's worker type) is a statement about M7 (`compute_new_worker_query`), not about this component: here
the answer is an arbitrary input.
-/
namespace HqModel.C17
open HqModel.AutoAlloc

/-- **Limits (inductive invariant).** In every state reachable from the empty autoallocator by ANY sequence of
events — any queue parameters, any submission results, any external statuses, any worker connects/losses, any
query answers, any clock — every queue has at most `backlog` queued allocations, its queued+running allocations
request at most `max_worker_count` workers, and every allocation requests between 1 and `max_workers_per_alloc`
workers. -/
theorem c17_limits (c : Consts) (n : Nat) (s : State) (h : Reach (init c n) s) : Inv s := by
  induction h with
  | init => intro q hq; simp [init] at hq
  | step e _ _ ih => exact step_Inv _ e ih

/-- The invariant is inductive for every single step from *any* state satisfying it (not only reachable ones),
including the state left behind by a step that panics. -/
theorem c17_limits_step (s : State) (e : Ev) (h : Inv s) : Inv (step s e).st := step_Inv s e h

/-- Non-vacuity: a concrete reachable state with a queued and a running allocation at the limits
(backlog 2, 3 workers per allocation, at most 4 workers: the second allocation is cut to 1 worker). -/
example :
    let s0 := init ⟨10, 20, 0⟩ 1
    let s1 := (step s0 (.addQueue ⟨2, 3, some 4⟩ (Limiter.new [0, 1000] 2 3) none)).st
    let s2 := (step s1 (.tick 0 [1] (.ok [9] []) [.ok 5, .ok 6])).st
    let s3 := (step s2 (.workerConnected 1 5)).st
    (s3.queues.map fun q => (q.queuedCount, q.activeWorkers, q.allocs.map (·.target))) = [(1, 4, [3, 1])] := by
  decide

/-- **Silence.** `submit_allocation(x, n)` is called only by a scheduling tick, and only if — in the state before
the tick — queue `x` exists, is Active, has not reached a failure limit, the back-off delay since its last attempt
has elapsed (`now - last ≥ delays[level]`), it has space (`has_space_for_submit`), the scheduler answered, the answer
`resp` that `perform_submits` pairs with `x` is non-empty, and `n` is one of the sizes the permit computed from the
limits allows (`Queue.permit_spec`: `1 ≤ n ≤ max_workers_per_alloc`, at most `backlog - queued` calls, total at most
`max_worker_count - active`). `order` is the iteration order of the queue map (duplicate-free). -/
theorem c17_silent (s : State) (e : Ev) (x n : Nat) (h : Out.submit x n ∈ (step s e).outs) :
    ∃ now order query results, e = .tick now order query results ∧
      (order.Nodup →
        ∃ qu sn mn responses resp p,
          s.getQueue x = some qu ∧ qu.active = true ∧ qu.lim.limitsReached = false ∧ qu.lim.elapsed now = true ∧
          qu.hasSpace = true ∧ query = .ok sn mn ∧ mergeMn mn (sn.map fun k => ⟨k, 0, 0⟩) = .ok responses ∧
          (resp, x) ∈ responses.zip (s.pauseAll.activeIn order) ∧ resp.isEmpty = false ∧
          qu.permit resp = .ok p ∧ n ∈ p) := by
  obtain ⟨now, order, query, results, rfl⟩ := submit_only_in_tick s e x n h
  exact ⟨now, order, query, results, rfl, fun hnd => State.tick_submit s now order query results x n hnd h⟩

/-- Non-vacuity of `c17_silent`: a tick that does call, and the same tick 1 ms too early that does not. -/
example :
    let s0 := init ⟨10, 20, 0⟩ 1
    let s1 := (step s0 (.addQueue ⟨1, 2, none⟩ (Limiter.new [0, 1000] 5 3) none)).st
    let s2 := (step s1 (.tick 0 [1] (.ok [2] []) [.fail])).st
    (step s2 (.tick 999 [1] (.ok [2] []) [.ok 7])).outs = [.query 1, .bad "unused-submit-results", .tickRes .ok] ∧
    (step s2 (.tick 1000 [1] (.ok [2] []) [.ok 7])).outs = [.query 1, .submit 1 2, .evQueued 1 7 2, .tickRes .ok] := by
  decide

/-- **Pause at the limits.** At the end of every tick (that does not panic) every queue whose consecutive
submission failures reached `max_submission_fails` or whose consecutive allocation failures reached
`max_allocation_fails` is Paused. -/
theorem c17_pause (s : State) (now : Nat) (order : List Nat) (query : Query) (results : List SubRes)
    (hnp : (step s (.tick now order query results)).panic = none) :
    ∀ q ∈ (step s (.tick now order query results)).st.queues, q.lim.limitsReached = true → q.active = false :=
  State.tick_paused s now order query results hnp

/-- **… and stays silent until resumed.** A paused queue stays paused under every event except `resume` of this
queue (so, by `c17_silent`, nothing is submitted for it). -/
theorem c17_paused_stays (s : State) (e : Ev) (x : Nat) (q q' : Queue)
    (hq : s.getQueue x = some q) (hp : q.active = false) (hne : e ≠ .resume x)
    (hq' : (step s e).st.getQueue x = some q') : q'.active = false := by
  rcases step_queue s e x q hq with ⟨_, h⟩ | ⟨h, _⟩ | ⟨q2, h, ht⟩
  · rw [h] at hq'; cases hq'
  · exact absurd h hne
  · rw [h] at hq'; cases hq'
    exact ht.paused hp

/-- Non-vacuity of `c17_pause` / `c17_paused_stays`: two failed submissions with `max_submission_fails = 2`. -/
example :
    let s0 := init ⟨10, 20, 0⟩ 1
    let s1 := (step s0 (.addQueue ⟨1, 1, none⟩ (Limiter.new [0] 2 3) none)).st
    let s2 := (step s1 (.tick 0 [1] (.ok [1] []) [.fail])).st
    let s3 := (step s2 (.tick 1 [1] (.ok [1] []) [.err])).st
    let s4 := (step s3 (.tick 2 [1] (.ok [1] []) [.ok 9])).st
    (s2.queues.map (·.active), s3.queues.map (·.active), s4.queues.map (·.active),
      (step s3 (.tick 2 [1] (.ok [1] []) [.ok 9])).outs) = ([true], [false], [false], [.tickRes .skipped]) := by
  decide

/-- **Resume is live** (code after the fix `cdd9fd1`: `resume()` clears both failure counters — bits 0 and 1 of
the probed `resumeMask`). After `resume x` — whether the queue was paused by the user or by the safety limits — the
next tick at which the scheduler's answer paired with `x` is non-empty (demand), the limits leave room (the permit
computed from backlog / max_worker_count / queued allocations is non-empty: `n :: rest`) and the back-off delay has
elapsed calls `submit_allocation(x, n)`, unless the autoalloc task panics in this tick.
Side conditions: both limits are positive (a limit 0 means "never submit"); `order` is duplicate-free. -/
theorem c17_resume_live (s : State) (x : Nat) (q : Queue) (now : Nat) (order : List Nat)
    (sn : List Nat) (mn : List (Nat × Nat × Nat)) (results : List SubRes) (responses : List QResp) (resp : QResp)
    (n : Nat) (rest : List Nat)
    (hmask : s.consts.resumeMask.testBit 0 = true ∧ s.consts.resumeMask.testBit 1 = true)
    (hq : s.getQueue x = some q)
    (hpos : 0 < q.lim.maf ∧ 0 < q.lim.msf)
    (hnd : order.Nodup)
    (hmerge : mergeMn mn (sn.map fun k => ⟨k, 0, 0⟩) = .ok responses)
    (hresp : (resp, x) ∈ responses.zip ((step s (.resume x)).st.pauseAll.activeIn order))
    (hdemand : resp.isEmpty = false)
    (hroom : ({ q with active := true, lim := q.lim.onResume s.consts.resumeMask } : Queue).permit resp = .ok (n :: rest))
    (hel : (q.lim.onResume s.consts.resumeMask).elapsed now = true)
    (hnp : (step (step s (.resume x)).st (.tick now order (.ok sn mn) results)).panic = none) :
    Out.submit x n ∈ (step (step s (.resume x)).st (.tick now order (.ok sn mn) results)).outs :=
  State.resume_tick_live s x q now order sn mn results responses resp n rest hmask hq hpos hnd hmerge hresp hdemand
    hroom hel hnp

/-- **The permit does not depend on the hash order of the allocations** (which is why that order is not an input
of the model): permuting the stored allocations of a queue leaves `compute_submission_permit` unchanged. -/
theorem c17_permit_order_independent (q q' : Queue) (r : QResp) (hp : q'.params = q.params)
    (h : q'.allocs.Perm q.allocs) : q'.permit r = q.permit r :=
  Queue.permit_perm q q' r hp h

/-- **F13 (the code before `cdd9fd1`, `resumeMask = 0`): resume liveness is FALSE.** The queue was paused by
`max_submission_fails`; `resume` flips the state only; the next tick (demand 1, room, back-off long elapsed)
pauses it again before anything is submitted. (Replayed on the real code:
`corpus/autoalloc/f13_resume_submission_fails.trace`.) -/
theorem c17_resume_live_false_before_fix :
    (∀ x n, Out.submit x n ∉ f13Run 0) ∧ f13Run 0 = [.tickRes .ok] := by
  have h : f13Run 0 = [.tickRes .ok] := by decide
  refine ⟨?_, h⟩
  intro x n hx
  rw [h] at hx
  simp at hx

/-- Non-vacuity of `c17_resume_live` (fixed code, mask 3): the same run submits. -/
example : f13Run 3 = [.query 1, .submit 1 1, .evQueued 1 1 1, .tickRes .ok] := by decide

end HqModel.C17
