import Lean  -- WORKAROUND only: checks/common.py's audit snippet uses `CoreM`/`collectAxioms` without importing Lean; nothing below uses it
import HqModel.Lemmas.AutoAllocLimits
/-!
# C17 — automatic allocation respects its limits and submits only on demand
Model: `HqModel.AutoAlloc` (M6). The environment (batch system, scheduler answer, clock, hash orders) is
universally quantified in every statement.
-/
namespace HqModel.C17
open HqModel.AutoAlloc

/-- **Limits (inductive invariant).** In every state reachable from the empty autoallocator by ANY sequence of
events — any queue parameters, any submission results, any external statuses, any worker connects/losses, any
query answers, any clock — every queue has at most `backlog` queued allocations, its queued+running allocations
request at most `max_worker_count` workers, and every allocation requests between 1 and `max_workers_per_alloc`
workers. -/
theorem c17_limits (c : Consts) (n : Nat) (s : State) (h : Reach (init c n) s) : Inv s := by
  induction h with
  | init => intro q hq; simp [init] at hq
  | step e _ _ ih => exact step_Inv _ e ih

/-- The invariant is inductive for every single step from *any* state satisfying it (not only reachable ones),
including the state left behind by a step that panics. -/
theorem c17_limits_step (s : State) (e : Ev) (h : Inv s) : Inv (step s e).st := step_Inv s e h

/-- Non-vacuity: a concrete reachable state with a queued and a running allocation at the limits. -/
example :
    let s0 := init ⟨10, 20, 0⟩ 1
    let s1 := (step s0 (.addQueue ⟨2, 3, some 4⟩ (Limiter.new [0, 1000] 2 3) none)).st
    let s2 := (step s1 (.tick 0 [1] (.ok [9] []) [.ok 5, .ok 6])).st
    let s3 := (step s2 (.workerConnected 1 5)).st
    (s3.queues.map fun q => (q.queuedCount, q.activeWorkers, q.allocs.map (·.target))) = [(1, 4, [3, 1])] := by
  decide

end HqModel.C17
