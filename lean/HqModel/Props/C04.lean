import HqModel.Props.C04Env
import HqModel.Props.WorkerSide
import HqModel.Alloc.Run
import HqModel.Lemmas.AllocInv
import HqModel.Lemmas.AllocExact
import HqModel.Lemmas.AllocReach
/-!
# C04 — worker resources are exclusive and conserved

Model: `HqModel.Alloc` (M3). Every theorem quantifies over all descriptors, all requests, all operation sequences
(`Reach`) and all choices the model accepts (group sets returned by the solver, hash-order dependent fraction picks).
-/
namespace HqModel.C04
open HqModel.Alloc

/-- **c04_inv.** `Conserve` (`Inv`) holds in the state `ResourceAllocator::new` builds and is preserved by every
operation (`is_enabled`, `try_allocate` with every allowed choice, `release_allocation` of a live allocation):
for every resource `rid`, group `gid` and index `i`

  free amount of `i` + Σ over live allocations of what they hold of `i`  =  one unit (if `i` belongs to the group)

and for sum pools `free + Σ live amounts = size`; free lists are duplicate free and disjoint from the partially
free indices. -/
theorem c04_inv {d : Descriptor} {s₀ s : State} (hinit : State.init d = some s₀) (hreach : Reach s₀ s) :
    Inv (univOf s₀.pools) s := by
  induction hreach with
  | init => exact init_inv hinit
  | @step s s' op _ hstep ih =>
    cases op with
    | enabled rq ch =>
      simp only [step, Option.some.injEq] at hstep
      cases hr : isEnabled s rq ch with
      | error e => simp [hr, Except.map] at hstep
      | ok v =>
        obtain ⟨b, s''⟩ := v
        simp only [hr, Except.map, Except.ok.injEq] at hstep
        subst hstep
        exact isEnabled_inv ih hr
    | alloc h rq ch =>
      simp only [step, Option.some.injEq] at hstep
      cases hr : tryAllocate s h rq ch with
      | error e => simp [hr, Except.map] at hstep
      | ok v =>
        obtain ⟨r, s''⟩ := v
        simp only [hr, Except.map, Except.ok.injEq] at hstep
        subst hstep
        exact tryAllocate_inv ih hr
    | release h =>
      simp only [step, release] at hstep
      split at hstep
      · cases hstep
      · rename_i al hg
        obtain ⟨pools', hrel, hinv'⟩ := releasePools_live ih hg
        simp only [Option.some.injEq] at hstep
        split at hstep
        · cases hstep
        · rename_i concise _
          rw [hrel] at hstep
          simp only [Except.ok.injEq] at hstep
          subst hstep
          exact hinv' concise

/-- **No index is ever held beyond 100 %, sums never exceed the size** (consequence of `c04_inv`). -/
theorem c04_exclusive {d : Descriptor} {s₀ s : State} (hinit : State.init d = some s₀) (hreach : Reach s₀ s) :
    (∀ rid gid i, heldBy (heldOf s.live rid) gid i ≤ FPU) ∧
      (∀ rid full free, s.pools[rid]? = some (.sum full free) → heldAmount s.live rid ≤ full) := by
  have hinv := c04_inv hinit hreach
  refine ⟨fun rid gid i => ?_, fun rid full free hp => ?_⟩
  · cases hp : s.pools[rid]? with
    | none =>
      -- no pool: nothing can be held (every live resource allocation addresses an existing pool)
      have hnil : heldOf s.live rid = [] := by
        unfold heldOf raEntries
        simp only [List.flatMap_eq_nil_iff]
        intro x hx ra hra
        split
        · rename_i hrid
          obtain ⟨p, hp', -⟩ := hinv.rids x hx ra hra
          rw [hrid, hp] at hp'; cases hp'
        · rfl
      simp [hnil]
    | some p =>
      have hc := (hinv.pools.pool rid p hp).conserve gid i
      have hU := count_le_one_of_nodup ((hinv.pools.pool rid p hp).univ gid) i
      have : FPU * (univOf s₀.pools rid gid).count i ≤ FPU := by
        have := Nat.mul_le_mul_left FPU hU
        simpa using this
      omega
  · have := hinv.pools.sum rid full free hp
    omega

/-- **c04_release.** In every reachable state (a) `release_allocation` of any live allocation never stops (no failing
`unwrap`, `assert!`, index), and (b) a grant followed by the release of that grant restores the free state: the same
allocations are live and, for every resource, every group and every index, the free amount (`freeAmt`: one unit if
the index is in the free list, else its free fraction) is what it was — i.e. the free lists and fraction maps are the
same as multisets per group — and sum pools have their free amount back. -/
theorem c04_release {d : Descriptor} {s₀ s : State} (hinit : State.init d = some s₀) (hns : NoSingletonGroups s₀)
    (hreach : Reach s₀ s) :
    (∀ h al, liveGet s.live h = some al → ∃ s', release s h = some (.ok s')) ∧
    (∀ h rq ch al s₁, tryAllocate s h rq ch = .ok (some al, s₁) →
      ∃ s₂, release s₁ h = some (.ok s₂) ∧ s₂.live = s.live ∧
        ∀ (rid : Nat) (p p₂ : Pool), s.pools[rid]? = some p → s₂.pools[rid]? = some p₂ →
          (∀ gid i, freeAmt p₂.groupsOf gid i = freeAmt p.groupsOf gid i) ∧ p₂.tag = p.tag ∧
            p₂.sumFree = p.sumFree) := by
  have hinv := reach_inv2 hinit hns hreach
  obtain ⟨-, hU⟩ := init_inv2 hinit hns
  refine ⟨fun h al hg => ?_, fun h rq ch al s₁ halloc => ?_⟩
  · obtain ⟨s', hr, -⟩ := release_inv2 hinv hU hg
    exact ⟨s', hr⟩
  · have hinv₁ := tryAllocate_inv2 hinv hU halloc
    obtain ⟨-, hkinds₁⟩ := tryAllocate_exact halloc
    have hlive₁ : s₁.live = (h, al) :: s.live := by
      unfold tryAllocate at halloc
      split at halloc
      · cases halloc
      · cases halloc
      · cases halloc
      · split at halloc
        · cases halloc
        · cases halloc
        · split at halloc
          · cases halloc
          · simp only [Except.ok.injEq, Prod.mk.injEq, Option.some.injEq] at halloc
            obtain ⟨rfl, rfl⟩ := halloc
            rfl
    have hg₁ : liveGet s₁.live h = some al := by rw [hlive₁]; simp [liveGet]
    obtain ⟨s₂, hr, hinv₂⟩ := release_inv2 hinv₁ hU hg₁
    obtain ⟨hlive₂, al', hg', hrp⟩ := release_live hr
    have hlive : s₂.live = s.live := by rw [hlive₂, hlive₁]; simp [liveErase]
    obtain ⟨hlen₂, hkinds₂⟩ := releasePools_kinds hrp
    refine ⟨s₂, hr, hlive, fun rid p p₂ hp hp₂ => ?_⟩
    have hr₁ : rid < s₁.pools.length := by rw [← hkinds₁.1]; exact lt_length_of_getElem? hp
    obtain ⟨p₁, hp₁⟩ := exists_get hr₁
    obtain ⟨t₁, f₁, -⟩ := hkinds₁.2 rid p p₁ hp hp₁
    obtain ⟨t₂, f₂, -, -⟩ := hkinds₂ rid p₁ p₂ hp₁ hp₂
    have c := (hinv.inv.pools.pool rid p hp).conserve
    have c₂ := (hinv₂.inv.pools.pool rid p₂ hp₂).conserve
    rw [hlive] at c₂
    refine ⟨fun gid i => by have := c gid i; have := c₂ gid i; omega, by rw [t₂, t₁], ?_⟩
    cases p with
    | sum full free =>
      have ht₂ : p₂.tag = 3 := by rw [t₂, t₁]; rfl
      cases p₂ with
      | sum full₂ free₂ =>
        have hf : full₂ = full := by
          have : (Pool.sum full₂ free₂).fullSize = (Pool.sum full free).fullSize := by rw [f₂, f₁]
          simpa [Pool.fullSize] using this
        subst hf
        have e := hinv.inv.pools.sum rid full₂ free hp
        have e₂ := hinv₂.inv.pools.sum rid full₂ free₂ hp₂
        rw [hlive] at e₂
        simp only [Pool.sumFree]
        omega
      | _ => simp [Pool.tag] at ht₂
    | empty =>
      have : p₂.tag = 0 := by rw [t₂, t₁]; rfl
      rw [sumFree_of_tag (by omega)]; rfl
    | indices _ _ =>
      have : p₂.tag = 1 := by rw [t₂, t₁]; rfl
      rw [sumFree_of_tag (by omega)]; rfl
    | groups _ _ =>
      have : p₂.tag = 2 := by rw [t₂, t₁]; rfl
      rw [sumFree_of_tag (by omega)]; rfl

/-- **c04_concise.** In every reachable state `ConciseFreeResources` equals `summary pools`
(`ResourcePool::concise_state`) for every resource: same number of groups, same units per group and the same free
fraction for every index, where an absent map entry counts as 0 (`CEquiv` = equality after `strip_zeros`, the
relation `ResourceAllocator::validate()` asserts in debug builds only). -/
theorem c04_concise {d : Descriptor} {s₀ s : State} (hinit : State.init d = some s₀) (hns : NoSingletonGroups s₀)
    (hreach : Reach s₀ s) :
    s.concise.length = s.pools.length ∧
      ∀ (rid : Nat) (p : Pool) (c : CState), s.pools[rid]? = some p → s.concise[rid]? = some c →
        CEquiv c p.conciseState := by
  have hinv := reach_inv2 hinit hns hreach
  exact ⟨hinv.concise.len, fun rid p c hp hc => concise_eq_summary hinv rid p c hp hc⟩

/-- **c04_exact.** A successful `tryAllocate rq` (any state, any allowed choices) returns only resource allocations
that answer an entry of the request exactly: same resource id, `amount` = the requested amount (`all` ⇒ the full size
of the pool), and

* sum pool: no indices;
* index pool (list / range), and grouped pool with any policy except `all`: `amount / FPU` whole indices first,
  followed — iff `amount % FPU ≠ 0` — by exactly one entry holding `amount % FPU` (`Shape`);
* grouped pool, `all`: only whole indices (that these are *all* indices of the resource is `c16_all`).

The pool kinds and sizes never change (`SameKinds`). -/
theorem c04_exact {s s' : State} {h : Nat} {rq : Request} {ch : Choices} {al : Allocation}
    (hstep : tryAllocate s h rq ch = .ok (some al, s')) :
    (∀ ra ∈ al, ∃ e ∈ rq, ∃ p, s.pools[e.rid]? = some p ∧ ExactFor p.tag p.fullSize e ra) ∧
      SameKinds s.pools s'.pools :=
  tryAllocate_exact hstep

/-! Non-vacuity: a concrete descriptor (4 cpus in 2 groups, a list resource, a fractional sum resource) and a
reachable state with two live allocations, one of them holding a fraction of an index. -/

def exDesc : Descriptor :=
  { items := [(0, .groups [2, 2]), (1, .list 3), (2, .sum 25000)], couplings := [] }

def exRq₁ : Request := [⟨1, .compact, 15000⟩, ⟨2, .compact, 5000⟩]
def exRq₂ : Request := [⟨0, .scatter, 20000⟩, ⟨1, .tight, 2500⟩]

def exS₀ : State := (State.init exDesc).get (by decide)

def exS : State :=
  (runOps exS₀ [.alloc 0 exRq₁ ⟨[], []⟩, .alloc 1 exRq₂ ⟨[], [(1, 1)]⟩]).get (by decide)

theorem exS₀_init : State.init exDesc = some exS₀ := by simp [exS₀]

theorem exS_reach : Reach exS₀ exS := reach_of_runOps Reach.init (Option.some_get _).symm

/-- the hypotheses of `c04_inv` / `c04_exclusive` are satisfied by a non-trivial reachable state -/
example : State.init exDesc = some exS₀ ∧ Reach exS₀ exS ∧ exS.live.length = 2 ∧
    heldBy (heldOf exS.live 1) 0 1 = 7500 ∧ heldAmount exS.live 2 = 5000 :=
  ⟨exS₀_init, exS_reach, by decide, by decide, by decide⟩

/-- the side condition holds for the example and its reachable state has live allocations (non-vacuity of
`c04_release`, `c04_concise`) -/
example : NoSingletonGroups exS₀ ∧ (liveGet exS.live 1).isSome := by
  refine ⟨?_, by decide⟩
  intro rid p hp ht
  have h4 : rid < 3 := by
    have := lt_length_of_getElem? hp
    simpa [exS₀, State.init, exDesc, placeItems] using this
  match rid, h4 with
  | 0, _ =>
    have : p = (exS₀.pools[0]?).get (by decide) := by simp [hp]
    subst this; decide
  | 1, _ =>
    have : p = (exS₀.pools[1]?).get (by decide) := by simp [hp]
    subst this; revert ht; decide
  | 2, _ =>
    have : p = (exS₀.pools[2]?).get (by decide) := by simp [hp]
    subst this; revert ht; decide

/-- `c04_exact` is not vacuous: the second grant of the example exists and contains a fractional entry -/
example : ∃ al s', tryAllocate
    ((runOps exS₀ [.alloc 0 exRq₁ ⟨[], []⟩]).get (by decide)) 1 exRq₂ ⟨[], [(1, 1)]⟩ = .ok (some al, s') ∧
    al.length = 2 :=
  ⟨_, _, rfl, by decide⟩

end HqModel.C04
