import HqModel.Alloc.Run
import HqModel.Lemmas.AllocInv
import HqModel.Lemmas.AllocExact
/-!
# C04 — worker resources are exclusive and conserved

Model: `HqModel.Alloc` (M3). Every theorem quantifies over all descriptors, all requests, all operation sequences
(`Reach`) and all choices the model accepts (group sets returned by the solver, hash-order dependent fraction picks).
-/
namespace HqModel.C04
open HqModel.Alloc

/-- **c04_inv.** `Conserve` (`Inv`) holds in the state `ResourceAllocator::new` builds and is preserved by every
operation (`is_enabled`, `try_allocate` with every allowed choice, `release_allocation` of a live allocation):
for every resource `rid`, group `gid` and index `i`

  free amount of `i` + Σ over live allocations of what they hold of `i`  =  one unit (if `i` belongs to the group)

and for sum pools `free + Σ live amounts = size`; free lists are duplicate free and disjoint from the partially
free indices. -/
theorem c04_inv {d : Descriptor} {s₀ s : State} (hinit : State.init d = some s₀) (hreach : Reach s₀ s) :
    Inv (univOf s₀.pools) s := by
  induction hreach with
  | init => exact init_inv hinit
  | @step s s' op _ hstep ih =>
    cases op with
    | enabled rq ch =>
      simp only [step, Option.some.injEq] at hstep
      cases hr : isEnabled s rq ch with
      | error e => simp [hr, Except.map] at hstep
      | ok v =>
        obtain ⟨b, s''⟩ := v
        simp only [hr, Except.map, Except.ok.injEq] at hstep
        subst hstep
        exact isEnabled_inv ih hr
    | alloc h rq ch =>
      simp only [step, Option.some.injEq] at hstep
      cases hr : tryAllocate s h rq ch with
      | error e => simp [hr, Except.map] at hstep
      | ok v =>
        obtain ⟨r, s''⟩ := v
        simp only [hr, Except.map, Except.ok.injEq] at hstep
        subst hstep
        exact tryAllocate_inv ih hr
    | release h =>
      simp only [step, release] at hstep
      split at hstep
      · cases hstep
      · rename_i al hg
        obtain ⟨pools', hrel, hinv'⟩ := releasePools_live ih hg
        simp only [Option.some.injEq] at hstep
        split at hstep
        · cases hstep
        · rename_i concise _
          rw [hrel] at hstep
          simp only [Except.ok.injEq] at hstep
          subst hstep
          exact hinv' concise

/-- **No index is ever held beyond 100 %, sums never exceed the size** (consequence of `c04_inv`). -/
theorem c04_exclusive {d : Descriptor} {s₀ s : State} (hinit : State.init d = some s₀) (hreach : Reach s₀ s) :
    (∀ rid gid i, heldBy (heldOf s.live rid) gid i ≤ FPU) ∧
      (∀ rid full free, s.pools[rid]? = some (.sum full free) → heldAmount s.live rid ≤ full) := by
  have hinv := c04_inv hinit hreach
  refine ⟨fun rid gid i => ?_, fun rid full free hp => ?_⟩
  · cases hp : s.pools[rid]? with
    | none =>
      -- no pool: nothing can be held (every live resource allocation addresses an existing pool)
      have hnil : heldOf s.live rid = [] := by
        unfold heldOf raEntries
        simp only [List.flatMap_eq_nil_iff]
        intro x hx ra hra
        split
        · rename_i hrid
          obtain ⟨p, hp', -⟩ := hinv.rids x hx ra hra
          rw [hrid, hp] at hp'; cases hp'
        · rfl
      simp [hnil]
    | some p =>
      have hc := (hinv.pools.pool rid p hp).conserve gid i
      have hU := count_le_one_of_nodup ((hinv.pools.pool rid p hp).univ gid) i
      have : FPU * (univOf s₀.pools rid gid).count i ≤ FPU := by
        have := Nat.mul_le_mul_left FPU hU
        simpa using this
      omega
  · have := hinv.pools.sum rid full free hp
    omega

/-- **c04_exact.** A successful `tryAllocate rq` (any state, any allowed choices) returns only resource allocations
that answer an entry of the request exactly: same resource id, `amount` = the requested amount (`all` ⇒ the full size
of the pool), and

* sum pool: no indices;
* index pool (list / range), and grouped pool with any policy except `all`: `amount / FPU` whole indices first,
  followed — iff `amount % FPU ≠ 0` — by exactly one entry holding `amount % FPU` (`Shape`);
* grouped pool, `all`: only whole indices (that these are *all* indices of the resource is `c16_all`).

The pool kinds and sizes never change (`SameKinds`). -/
theorem c04_exact {s s' : State} {h : Nat} {rq : Request} {ch : Choices} {al : Allocation}
    (hstep : tryAllocate s h rq ch = .ok (some al, s')) :
    (∀ ra ∈ al, ∃ e ∈ rq, ∃ p, s.pools[e.rid]? = some p ∧ ExactFor p.tag p.fullSize e ra) ∧
      SameKinds s.pools s'.pools :=
  tryAllocate_exact hstep

/-! Non-vacuity: a concrete descriptor (4 cpus in 2 groups, a list resource, a fractional sum resource) and a
reachable state with two live allocations, one of them holding a fraction of an index. -/

def exDesc : Descriptor :=
  { items := [(0, .groups [2, 2]), (1, .list 3), (2, .sum 25000)], couplings := [] }

def exRq₁ : Request := [⟨1, .compact, 15000⟩, ⟨2, .compact, 5000⟩]
def exRq₂ : Request := [⟨0, .scatter, 20000⟩, ⟨1, .tight, 2500⟩]

def exS₀ : State := (State.init exDesc).get (by decide)

def exS : State :=
  (runOps exS₀ [.alloc 0 exRq₁ ⟨[], []⟩, .alloc 1 exRq₂ ⟨[], [(1, 1)]⟩]).get (by decide)

theorem exS₀_init : State.init exDesc = some exS₀ := by simp [exS₀]

theorem exS_reach : Reach exS₀ exS := reach_of_runOps Reach.init (Option.some_get _).symm

/-- the hypotheses of `c04_inv` / `c04_exclusive` are satisfied by a non-trivial reachable state -/
example : State.init exDesc = some exS₀ ∧ Reach exS₀ exS ∧ exS.live.length = 2 ∧
    heldBy (heldOf exS.live 1) 0 1 = 7500 ∧ heldAmount exS.live 2 = 5000 :=
  ⟨exS₀_init, exS_reach, by decide, by decide, by decide⟩

/-- `c04_exact` is not vacuous: the second grant of the example exists and contains a fractional entry -/
example : ∃ al s', tryAllocate
    ((runOps exS₀ [.alloc 0 exRq₁ ⟨[], []⟩]).get (by decide)) 1 exRq₂ ⟨[], [(1, 1)]⟩ = .ok (some al, s') ∧
    al.length = 2 :=
  ⟨_, _, rfl, by decide⟩

end HqModel.C04
