import HqModel.Lemmas.JobJournalIds
import HqModel.Props.C10Emit
/-!
# C06, restart clause — a task handed back to the core gets an instance id above every recorded one

Corollary of `C10.c10_restore_refines` (restore hands every pending task back with instance id = highest instance id
recorded in `meaning J`, plus one) and of `Emit.InstBound.fold` (`Lemmas/JobJournalInst.lean`: the instance id recorded
in `meaning J` is an upper bound of the instance id of every `TaskStarted` record of `J` for that task).

The statement over ALL records of `J` needs one more fact about the journal than `Producible`: `Producible` allows
the id of a job that was reported completed to be created again (`recordOk` of `Submit`/`JobOpen` only asks that the
id is not in use), and then the records of the old job say nothing about the new one (`c06_restart_reuse_witness`).
`NoStartBeforeCreate J` (decidable): no record creates a job id for which an earlier record reports a task start. The
server issues job ids from a counter that restarts above every id of the journal (C11), so real journals satisfy it.
-/
namespace HqModel.C06
open HqModel.Journal HqModel.Emit

/-- **c06_restart.** For every producible journal `J` in which no job id is created again after one of its tasks
started: restore succeeds, and every task `(job, t, deps, i, c)` it hands back to the core is resubmitted with an
instance id `i` STRICTLY LARGER than the instance id `k` of EVERY record `TaskStarted job t k ws` of `J` — so no
instance id of an execution that may still be alive on a worker of the previous server life is issued again. -/
theorem c06_restart (J : List Record) (hp : Producible J) (hn : NoStartBeforeCreate J) :
    ∃ R X, restore J = .ok (R, X) ∧
      ∀ job t deps i c, (job, t, deps, i, c) ∈ batchPending X.batches →
        ∀ k ws, Record.taskStarted job t k ws ∈ J → k < i := by
  obtain ⟨R, X, hr, href⟩ := HqModel.C10.c10_restore_refines J hp
  refine ⟨R, X, hr, ?_⟩
  intro job t deps i c hm k ws hrec
  rw [href.pending] at hm
  obtain ⟨aj, a, haj, ha, hid, -, hi, -⟩ := pending_task hm
  have hb := InstBound.fold job t J (A := {}) (R := fun _ => False) (seen := []) hp hn (fun _ h => h.elim)
    (fun aj ho => by simp [alGet] at ho)
  obtain ⟨-, hb2⟩ := hb aj haj k (.inr ⟨ws, hrec⟩)
  obtain ⟨i0, hi0, hk⟩ := hb2 a ha hid
  rw [hi0] at hi
  simp only at hi
  omega

/-- **c06_restart_emitted.** For the journal the job layer (M4) writes, cut at any record boundary `K`, both hypotheses
are theorems (`C10.c10_emitted_producible_prefix` under the side condition `EmitOkRun`;
`Emit.journalOf_noStartBeforeCreate` without any: job ids come from `job_id_counter`, a started task belongs to a
stored job): the conclusion of `c06_restart` holds with no assumption on the journal. -/
theorem c06_restart_emitted (uid : String) (ops : List HqModel.Job.Op) (h : EmitOkRun uid ops)
    (K : List Record) (hK : K <+: journalOf uid ops) :
    ∃ R X, restore K = .ok (R, X) ∧
      ∀ job t deps i c, (job, t, deps, i, c) ∈ batchPending X.batches →
        ∀ k ws, Record.taskStarted job t k ws ∈ K → k < i := by
  refine c06_restart K (HqModel.C10.c10_emitted_producible_prefix uid ops h K hK) ?_
  obtain ⟨M, hM⟩ := hK
  exact nsbc_prefix K M [] (hM ▸ journalOf_noStartBeforeCreate uid ops)

/-- the hypothesis cannot be dropped: a producible journal that creates job 1 again after it was completed; task
`(1, 0)` is handed back with instance id 0 although a `TaskStarted 1 0 5` is in the journal -/
def reuseJournal : List Record :=
  [.serverStart "u", .workerConnected 1 none, .submit 1 true none (.array [⟨0, 1, 1⟩] none),
   .taskStarted 1 0 5 [1], .taskFinished 1 0, .jobCompleted 1, .submit 1 true none (.array [⟨0, 1, 1⟩] none)]

theorem c06_restart_reuse_witness :
    Producible reuseJournal ∧ ¬ NoStartBeforeCreate reuseJournal ∧
    (∃ R X, restore reuseJournal = .ok (R, X) ∧ batchPending X.batches = [(1, 0, [], 0, 0)]) ∧
    Record.taskStarted 1 0 5 [1] ∈ reuseJournal :=
  ⟨by decide, by decide, ⟨_, _, rfl, rfl⟩, by decide⟩

/-! ### Non-vacuity -/

/-- task `(1, 0)` ran as instance 0 on worker 1 (lost) and as instance 3 on worker 2 (lost): it is handed back with
instance id 4, above both; task `(1, 1)` never started: instance id 0 -/
def restartSample : List Record :=
  [.serverStart "u", .workerConnected 1 none, .workerConnected 2 none,
   .submit 1 true none (.array [⟨0, 2, 1⟩] none),
   .taskStarted 1 0 0 [1], .workerLost 1 .heartbeatLost, .taskStarted 1 0 3 [2], .workerLost 2 .stopped]

example : Producible restartSample ∧ NoStartBeforeCreate restartSample := by decide

example : ∃ R X, restore restartSample = .ok (R, X) ∧ batchPending X.batches = [(1, 0, [], 4, 1), (1, 1, [], 0, 0)] :=
  ⟨_, _, rfl, rfl⟩

end HqModel.C06
