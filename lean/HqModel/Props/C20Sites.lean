import HqModel.Auth.Sites
/-!
C20 at the real call sites: with the roles and protocol number the code configures, every endpoint refuses a peer that
merely reflects its messages, with or without a key, and accepts its honest peer. (A finite table: 3 sites x 2 key modes.)
-/
namespace HqModel.Auth

/-- **C20 (call sites, soundness against reflection)** -/
theorem c20_sites_refuse_echo (site : Site) (key : Option Nat) (hk : key = none ∨ key = some 1) : siteEcho site key = false := by
  rcases hk with rfl | rfl <;> cases site <;> decide

/-- **C20 (call sites, completeness)** -/
theorem c20_sites_accept_honest (site : Site) (key : Option Nat) (hk : key = none ∨ key = some 1) : siteHonest site key = true := by
  rcases hk with rfl | rfl <;> cases site <;> decide

/-- the asymmetry of the roles is what the refusal rests on: with equal roles the reflected handshake is accepted -/
theorem c20_equal_roles_witness :
    (runRow { protocol := 0, myRole := roleHqClient, peerRole := roleHqClient, key := some 1 }
            { protocol := 0, myRole := roleHqClient, peerRole := roleHqClient, key := none } [.reflect 2, .reflect 4]).resA = true := by
  decide

end HqModel.Auth
