import HqModel.Props.C16
import HqModel.Lemmas.Alloc2All
import HqModel.Lemmas.Alloc2Scatter
/-!
# C16 — full-strength versions of `c16_claim_nostop_partial`, `c16_all_partial`, `c16_scatter_partial`

Model: `HqModel.Alloc` (M3). Lemmas: `HqModel/Lemmas/Alloc2{Tight,Keys,Full,NoStop,All,Scatter}.lean`.
-/
namespace HqModel.C16
open HqModel.Alloc

/-! ## 1. `try_allocate` never stops — every policy -/

/-- **c16_tight_loop.** The `loop` of `claim_compact_from_groups` (the `tight` / `tight!` claim) neither panics nor
hangs: for a positive amount, groups whose stored free fractions are below one unit (`GVals`), and a set `S` of
distinct existing groups that contains the amount (`ScatterOk`: enough free whole indices in `S`, and for a fractional
part a spare whole index or a matching fraction in `S`), `claim_compact_from_groups(amount, pool, Some(S))` returns
(`NoStop` admits only "a recorded hash-order pick was rejected").

No `max_by_key(..).unwrap()` on an empty set, no `pop().unwrap()` on an empty vector, no `units -= size` underflow,
and termination by the explicit measure `nz amounts` = number of non-zero entries of the local `amounts` vector
(`tightLoop_nostop`: every iteration that does not `break` zeroes an entry that was positive, because the set still
contains the remaining amount; the model's fuel `#groups + 2` is never exhausted, i.e. `Stop.hang` is unreachable). -/
theorem c16_tight_loop {amount : Nat} {gs : List Group} {S : List Nat} {pick : Option Nat} (hpos : 0 < amount)
    (hvals : GVals gs) (hS : ∀ p ∈ S, p < gs.length) (hnd : S.Nodup)
    (hok : ScatterOk gs S (amount / FPU) (amount % FPU)) : NoStop (claimTight amount gs (some S) pick) :=
  claimTight_nostop hpos hvals hS hnd hok

/-- **c16_claim_nostop (full).** In every reachable state (side condition `NoSingletonGroups`, as for `c04_concise`)
`try_allocate` never stops — no failing `pop().unwrap()` / `max_by_key().unwrap()` / `group_solver(..).unwrap()` /
`assert!` / `unreachable!` / index / subtraction, and no non-termination, in the admission test (including the two
solver calls of the strict path), in the claims (`scatter` round robin, `compact` inside the solver's group set,
`tight` loop, `all`) and in `free_resources.remove` — for EVERY policy on EVERY kind of resource and all choices
(solver answers, hash-order picks) the model accepts. Remaining hypotheses, all enforced upstream of the allocator:

* `hvalid` — the resource ids of the request are distinct (`ResourceRequest::validate`);
* `hcap` — no entry addresses a resource the worker does not have (`is_capable_to_run_request`);
* `hpos` — a `tight` / `tight!` entry asks for a positive amount (`validate`: amounts are non-zero). Necessary: the
  example below shows the zero-amount `tight` panic of the real code;
* `hw` — the coupling items address existing groups (`ResourceDescriptor::validate`), otherwise `vars[r][g]` in
  `group_solver` is out of bounds.

What the proof adds to `c16_claim_nostop_partial`: `c16_tight_loop`; every value stored in a pool fraction map is
below one unit (new invariant `PKeys`: map keys are distinct, + `PoolInv.vals`); a solver answer the model validates
contains the amount (`feasible_scatterOk`, reused); the strict admission path: `amount_max_alloc ≤ full_size`
(`GCtx.maxAlloc_le`), so whatever passes the per-entry test is feasible for the MILP on the empty worker and
`group_solver(all_resources, ..).unwrap()` cannot fail; both MILPs have the same index ranges (`weightOob_congr`). -/
theorem c16_claim_nostop {d : Descriptor} {s₀ s : State} (hinit : State.init d = some s₀)
    (hns : NoSingletonGroups s₀) (hreach : Reach s₀ s) (h : Nat) (rq : Request) (ch : Choices)
    (hvalid : (rq.map (·.rid)).Nodup)
    (hcap : ∀ e ∈ rq, s.pools[e.rid]? ≠ some .empty)
    (hpos : ∀ e ∈ rq, (e.policy = .tight ∨ e.policy = .forceTight) → 0 < e.amount)
    (hw : (mkLp s.concise (coupledEntries s.pools rq) s.weights).weightOob = false) :
    NoStop (tryAllocate s h rq ch) := by
  have hinv := reach_inv2 hinit hns hreach
  obtain ⟨-, hU⟩ := init_inv2 hinit hns
  exact tryAllocate_nostop_full hinv hU (init_facts hinit) (reach_static hinit hreach) h rq ch hvalid hcap hpos hw

/-- **c16_enabled_nostop.** `is_enabled` (the admission test alone, strict path included) never stops in a reachable
state; only `hw` is needed. -/
theorem c16_enabled_nostop {d : Descriptor} {s₀ s : State} (hinit : State.init d = some s₀)
    (hns : NoSingletonGroups s₀) (hreach : Reach s₀ s) (rq : Request) (ch : Choices)
    (hw : (mkLp s.concise (coupledEntries s.pools rq) s.weights).weightOob = false) :
    NoStop (isEnabled s rq ch) :=
  isEnabled_nostop_full (reach_inv2 hinit hns hreach) (init_facts hinit) (reach_static hinit hreach) rq ch hw

/-! ## 2. `all` -/

/-- **c16_all (full), at the pool.** Reachable state, grouped resource, entry with policy `all` that passed its
admission test (`amount_max_alloc == full_size`): the claim returns, up to order, exactly what `all` returns on the
pool as `ResourceAllocator::new` created it (`gs₀`) — every index of every group, each as a whole index, with its
group — the amount is the full size = number of granted indices, and no free whole index is left. -/
theorem c16_all_claim {d : Descriptor} {s₀ s : State} (hinit : State.init d = some s₀) (hns : NoSingletonGroups s₀)
    (hreach : Reach s₀ s) {e : Entry} {full : Nat} {gs : List Group} (hp : s.pools[e.rid]? = some (.groups full gs))
    (hpol : e.policy = .all) (hadm : entryHasResources s.pools s.concise e = true) {pick : Option Nat} {p' : Pool}
    {ra : RAlloc} (h : (Pool.groups full gs).claim e pick = .ok (p', ra)) :
    ∃ sizes, s₀.pools[e.rid]? = some (Pool.new (.groups sizes)) ∧ full = sizes.sum * FPU ∧
      ra.rid = e.rid ∧ ra.amount = full ∧ ra.indices.length = sizes.sum ∧ WholeOnly ra.indices ∧
      ra.indices.Perm (claimAllAux 0 (groupsFrom 0 sizes)).2 ∧
      (ra.indices.map (·.index)).Perm (List.range sizes.sum) ∧
      ∀ g ∈ p'.groupsOf, g.free = [] := by
  have hinv := reach_inv2 hinit hns hreach
  obtain ⟨gs₀, c, hctx⟩ := gctx hinv (init_facts hinit) (reach_static hinit hreach) hp
  obtain ⟨sizes, hfull, hgs₀⟩ := init_groups hinit hctx.pool₀
  -- the admission test of `all`
  have heq : c.maxAlloc = full := by
    unfold entryHasResources at hadm
    rw [hp] at hadm
    simpa [hctx.conc, hpol, Pool.fullSize] using hadm
  simp only [Pool.claim, hpol, Except.ok.injEq, Prod.mk.injEq] at h
  obtain ⟨rfl, rfl⟩ := h
  obtain ⟨h1, h2, h3⟩ := claimAllAux_spec 0 gs
  have hperm : (claimAllAux 0 gs).2.Perm (claimAllAux 0 gs₀).2 :=
    claimAllAux_perm 0 gs gs₀ hctx.len.symm (fun i g g₀ hg hg₀ => hctx.all_free heq hg hg₀)
  obtain ⟨-, h2₀, h3₀⟩ := claimAllAux_spec 0 gs₀
  have hlen : (claimAllAux 0 gs).2.length = sizes.sum := by
    rw [hperm.length_eq, h3₀, hgs₀, groupsFrom_total]
  refine ⟨sizes, ?_, hfull, rfl, rfl, hlen, claimAllAux_whole 0 gs, ?_, ?_, h1⟩
  · rw [hctx.pool₀, hgs₀, hfull]; rfl
  · rw [← hgs₀]; exact hperm
  · have := (hperm.map (·.index)).trans h2₀
    rw [hgs₀] at this
    have hr := groupsFrom_flatten 0 sizes
    rw [← List.range_eq_range'] at hr
    exact this.trans hr

/-- **c16_all (full), at the operation.** A successful `try_allocate` in a reachable state, request with distinct
resource ids, entry `e` with policy `all` on a grouped resource: the allocation contains a resource allocation for
`e.rid` that holds every index `0 … n-1` of the resource (`n` = sum of the group sizes of the descriptor item), each
whole and with its group, `amount = full_size = n` units. -/
theorem c16_all {d : Descriptor} {s₀ s s' : State} (hinit : State.init d = some s₀) (hns : NoSingletonGroups s₀)
    (hreach : Reach s₀ s) {h : Nat} {rq : Request} {ch : Choices} {al : Allocation}
    (hstep : tryAllocate s h rq ch = .ok (some al, s')) (hvalid : (rq.map (·.rid)).Nodup) {e : Entry} (he : e ∈ rq)
    (hpol : e.policy = .all) {full : Nat} {gs : List Group} (hp : s.pools[e.rid]? = some (.groups full gs)) :
    ∃ sizes, s₀.pools[e.rid]? = some (Pool.new (.groups sizes)) ∧ full = sizes.sum * FPU ∧
      ∃ ra ∈ al, ra.rid = e.rid ∧ ra.amount = full ∧ ra.indices.length = sizes.sum ∧ WholeOnly ra.indices ∧
        ra.indices.Perm (claimAllAux 0 (groupsFrom 0 sizes)).2 ∧
        (ra.indices.map (·.index)).Perm (List.range sizes.sum) := by
  obtain ⟨hadm, p', ra, hc, hra⟩ := tryAllocate_plain_claim hstep hvalid he hp
    (by simp [hpol, Policy.relevantForCoupling])
  obtain ⟨sizes, h1, h2, h3, h4, h5, h6, h7, h8, -⟩ := c16_all_claim hinit hns hreach hp hpol hadm hc
  exact ⟨sizes, h1, h2, ra, hra, h3, h4, h5, h6, h7, h8⟩

/-! ## 3. `scatter`, general case -/

/-- **c16_scatter (full), at the pool.** For ANY free state of a grouped resource, `scatter` takes its whole indices
by water-filling over the groups in index order: there are a level `k` (completed rounds) and a cut position `j` such
that group `p` contributes `lvl f k j p = min(f p, k) + [p < j ∧ k < f p]` whole indices, where `f p` is the number of
free whole indices of group `p` before the claim — empty and exhausted groups are skipped, a group never gives two
indices more than a group that still has one. The contributions add up to the requested whole units. (`wcount acc p`
= number of whole entries of group `p` in the returned vector; the fractional entry, if any, is not counted.) -/
theorem c16_scatter_claim {amount : Nat} {gs gs' : List Group} {pick : Option Nat} {acc : List AIdx}
    (h : claimScatter amount gs none pick = .ok (gs', acc)) :
    ∃ k j, j ≤ gs.length ∧ (∀ p, wcount acc p = lvl (freeLen gs) k j p) ∧
      sumL (freeLen gs) k j gs.length = amount / FPU :=
  claimScatter_level h

/-- **c16_scatter_unique.** The closed form of `c16_scatter_claim` is a function of the free state and the amount:
any two (level, cut) pairs with the same total give the same contribution for every group. -/
theorem c16_scatter_unique {f : Nat → Nat} {n k j k' j' : Nat} (hf0 : ∀ p, n ≤ p → f p = 0)
    (hs : sumL f k j n = sumL f k' j' n) : ∀ p, lvl f k j p = lvl f k' j' p :=
  lvl_unique hf0 hs

/-- **c16_scatter_groups.** Consequence = the formula the harness monitor `c16.scatter` evaluates on every grant:
the number of groups a `scatter` grant takes whole indices from is `min(requested whole units, groups with a free
whole index)` — as many groups as possible. -/
theorem c16_scatter_groups {amount : Nat} {gs gs' : List Group} {pick : Option Nat} {acc : List AIdx}
    (h : claimScatter amount gs none pick = .ok (gs', acc)) :
    ((List.range gs.length).filter (fun p => decide (0 < wcount acc p))).length =
      min (amount / FPU) ((List.range gs.length).filter (fun p => decide (0 < freeLen gs p))).length :=
  claimScatter_groups_used h

/-- **c16_scatter (full), at the operation.** A successful `try_allocate` (any state), request with distinct resource
ids, entry `e` with policy `scatter` on a grouped resource: the allocation contains a resource allocation for `e.rid`
whose whole indices are distributed over the groups by the closed form above, hence over
`min(units, non-empty groups)` groups. -/
theorem c16_scatter {s s' : State} {h : Nat} {rq : Request} {ch : Choices} {al : Allocation}
    (hstep : tryAllocate s h rq ch = .ok (some al, s')) (hvalid : (rq.map (·.rid)).Nodup) {e : Entry} (he : e ∈ rq)
    (hpol : e.policy = .scatter) {full : Nat} {gs : List Group} (hp : s.pools[e.rid]? = some (.groups full gs)) :
    ∃ ra ∈ al, ra.rid = e.rid ∧ ra.amount = e.amount ∧
      (∃ k j, j ≤ gs.length ∧ (∀ p, wcount ra.indices p = lvl (freeLen gs) k j p) ∧
        sumL (freeLen gs) k j gs.length = e.amount / FPU) ∧
      ((List.range gs.length).filter (fun p => decide (0 < wcount ra.indices p))).length =
        min (e.amount / FPU) ((List.range gs.length).filter (fun p => decide (0 < freeLen gs p))).length := by
  obtain ⟨-, p', ra, hc, hra⟩ := tryAllocate_plain_claim hstep hvalid he hp
    (by simp [hpol, Policy.relevantForCoupling])
  simp only [Pool.claim, hpol] at hc
  split at hc
  · cases hc
  · rename_i gs' acc hcs
    simp only [Except.ok.injEq, Prod.mk.injEq] at hc
    obtain ⟨-, rfl⟩ := hc
    exact ⟨_, hra, rfl, rfl, claimScatter_level hcs, claimScatter_groups_used hcs⟩

/-! ## non-vacuity -/

theorem noSingleton_of_all {s : State}
    (h : s.pools.all (fun p => !(p.tag == 2 && p.ngroups == 1)) = true) : NoSingletonGroups s := by
  intro rid p hp ht hn
  have := List.all_eq_true.mp h p (List.mem_of_getElem? hp)
  simp [ht, hn] at this

/-- one grouped resource, 3 groups of 2 cpus -/
def exD : Descriptor := { items := [(0, .groups [2, 2, 2])], couplings := [] }

def exT₀ : State := (State.init exD).get (by decide)

theorem exT₀_init : State.init exD = some exT₀ := by simp [exT₀]

/-- `3.5 tight` inside the solver's set {0, 1}: the loop runs twice (group 1 is drained, then group 0 serves 1.5) -/
def exOp₁ : Op := .alloc 0 [⟨0, .tight, 35000⟩] ⟨[some ⟨-40960000, [[0, 1]]⟩], []⟩

def exT₁ : State := (runOps exT₀ [exOp₁]).get (by decide)

theorem exT₁_reach : Reach exT₀ exT₁ := reach_of_runOps Reach.init (Option.some_get _).symm

/-- the strict request `1.5 tight!` in that state: three solver calls (current state, empty worker, claim) -/
def exRq₂ : Request := [⟨0, .forceTight, 15000⟩]

def exCh₂ : Choices := ⟨[some ⟨-20480000, [[2]]⟩, some ⟨-20480000, [[0]]⟩, some ⟨-20480000, [[2]]⟩], []⟩

/-- the first grant of the example: group 1 whole, one index of group 0 whole, half of the other one (last) -/
example : exT₁.live = [(0, [⟨0, 35000, [⟨3, 1, 0⟩, ⟨2, 1, 0⟩, ⟨1, 0, 0⟩, ⟨0, 0, 5000⟩]⟩])] := by decide

/-- `c16_claim_nostop`: the hypotheses hold for the reachable state `exT₁` and the strict request, and the operation
does grant (through the strict admission path and the tight claim) -/
example : State.init exD = some exT₀ ∧ NoSingletonGroups exT₀ ∧ Reach exT₀ exT₁ ∧
    (exRq₂.map (·.rid)).Nodup ∧ (∀ e ∈ exRq₂, exT₁.pools[e.rid]? ≠ some .empty) ∧
    (∀ e ∈ exRq₂, (e.policy = .tight ∨ e.policy = .forceTight) → 0 < e.amount) ∧
    (mkLp exT₁.concise (coupledEntries exT₁.pools exRq₂) exT₁.weights).weightOob = false ∧
    (∃ s₂, tryAllocate exT₁ 1 exRq₂ exCh₂ = .ok (some [⟨0, 15000, [⟨5, 2, 0⟩, ⟨4, 2, 5000⟩]⟩], s₂)) :=
  ⟨exT₀_init, noSingleton_of_all (by decide), exT₁_reach, by decide, by decide, by decide, by decide, ⟨_, rfl⟩⟩

/-- `hpos` cannot be dropped: a zero-amount `tight` on a grouped resource passes the admission test, the solver
answers with the empty group set, and `max_by_key(..).unwrap()` panics (the model predicts the panic of the real
code; `AllocationRequest::validate` excludes the request) -/
example : tryAllocate exT₀ 0 [⟨0, .tight, 0⟩] ⟨[some ⟨0, [[]]⟩], []⟩ = .error (.panic .unwrap) := rfl

/-- `c16_tight_loop`: its hypotheses on the groups of `exT₀` and the set {0, 1}, amount 3.5 -/
example : GVals [⟨[1, 0], []⟩, ⟨[3, 2], []⟩, ⟨[5, 4], []⟩] ∧
    ScatterOk [⟨[1, 0], []⟩, ⟨[3, 2], []⟩, ⟨[5, 4], []⟩] [0, 1] (35000 / FPU) (35000 % FPU) := by
  refine ⟨?_, by decide, .inr (.inl (by decide))⟩
  intro p g hg kv hkv
  have : g.fracs = [] := by
    match p, hg with
    | 0, hg => simp at hg; subst hg; rfl
    | 1, hg => simp at hg; subst hg; rfl
    | 2, hg => simp at hg; subst hg; rfl
    | k + 3, hg => simp at hg
  rw [this] at hkv
  cases hkv

/-- `c16_all`: all six cpus are granted on the fresh worker; after `exOp₁` the admission test of `all` fails -/
example : (∃ s₁, tryAllocate exT₀ 0 [⟨0, .all, 0⟩] ⟨[], []⟩ =
      .ok (some [⟨0, 60000, [⟨0, 0, 0⟩, ⟨1, 0, 0⟩, ⟨2, 1, 0⟩, ⟨3, 1, 0⟩, ⟨4, 2, 0⟩, ⟨5, 2, 0⟩]⟩], s₁)) ∧
    entryHasResources exT₁.pools exT₁.concise ⟨0, .all, 0⟩ = false :=
  ⟨⟨_, rfl⟩, by decide⟩

/-- `c16_scatter`, general case: free whole indices per group `[0, 2, 3]` (group 0 empty: skipped), `4 scatter`
⇒ two rounds: level `k = 2`, cut `j = 0`, contributions `[0, 2, 2]`; 2 = min(4, 2) groups used -/
def exGs2 : List Group := [⟨[], []⟩, ⟨[3, 2], []⟩, ⟨[6, 5, 4], []⟩]

example : ∃ gs' acc, claimScatter 40000 exGs2 none none = .ok (gs', acc) ∧
    acc.map (·.group) = [1, 1, 2, 2] ∧
    (∀ p < 3, wcount acc p = lvl (freeLen exGs2) 2 0 p) ∧ sumL (freeLen exGs2) 2 0 3 = 4 :=
  ⟨_, _, rfl, by decide, by decide, by decide⟩

end HqModel.C16
