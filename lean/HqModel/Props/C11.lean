import HqModel.Lemmas.JournalC11
/-!
C11 — identifiers are never reused across restarts (model M5 Journal; restore.rs / bootstrap.rs / state.rs /
core.rs / autoalloc/state.rs).
-/
namespace HqModel.C11
open HqModel.Journal

/-- **c11_fresh.** For EVERY journal `J` (no well-formedness assumed) on which `load_event_file` succeeds: the first job
id `State::new_job_id` issues after the restart is greater than every job id a `Submit` of a new job or a `JobOpen` in
`J` mentions; the first worker id `Core::new_worker_id` issues is greater than every id in a `WorkerConnected`; the
first queue id `AutoAllocState::create_id` issues is greater than every id in an `AllocationQueueCreated`; and the
restored server uid is the uid of the last `ServerStart` (jobs completed, workers lost, queues removed still count).
The seeding arithmetic (`+1` in restore.rs, post- or pre-increment of the three counters) is the literal one. -/
theorem c11_fresh (J : List Record) (R : Restorer) (h : restorerFold J = .ok R) :
    (∀ j ∈ createdJobs J, j < (issueJob (counters R)).1) ∧
    (∀ w ∈ createdWorkers J, w < (issueWorker (counters R)).1) ∧
    (∀ q ∈ createdQueues J, q < (issueQueue (counters R)).1) ∧
    R.uid = lastUid J := by
  obtain ⟨_, _, _, h4, h5, h6, h7⟩ := restorerFoldFrom_marks h
  refine ⟨fun j hj => ?_, fun w hw => ?_, fun q hq => ?_, h7⟩
  · have := h4 j hj; simp [issueJob, counters]; omega
  · have := h5 w hw; simp [issueWorker, counters]; omega
  · have := h6 q hq; simp [issueQueue, counters]; omega

/-- **c11_iterate.** Across any number of restarts with a crash after any record (`History`: each life of the server
starts from the counters and uid restored from the journal written so far, writes `ServerStart` and then records whose
new ids come from `new_job_id` / `new_worker_id` / `create_id`): no job id, worker id or queue id is ever issued twice
(they strictly increase along the journal) and every `ServerStart` carries the same, non-empty uid. -/
theorem c11_iterate (J : List Record) (h : History J) :
    (createdJobs J).Nodup ∧ (createdWorkers J).Nodup ∧ (createdQueues J).Nodup ∧
    (∀ u ∈ startUids J, ∀ v ∈ startUids J, u = v) ∧ (∀ u ∈ startUids J, u ≠ "") := by
  obtain ⟨h1, h2, h3, h4, h5⟩ := history_noReuse h
  exact ⟨h1.imp (fun h => Nat.ne_of_lt h), h2.imp (fun h => Nat.ne_of_lt h), h3.imp (fun h => Nat.ne_of_lt h), h4, h5⟩

/-- `c11_iterate` in the form "the statement of `c11_fresh` is preserved by what a restarted server appends":
every id created in the appended part is greater than every id created before. -/
theorem c11_iterate_step (J : List Record) (R : Restorer) (h : restorerFold J = .ok R) (gen : String)
    (acts : List Act) (n : Nat) :
    let K := (Record.serverStart (startUid R.uid gen) :: runEpoch (counters R) acts).take n
    (∀ a ∈ createdJobs J, ∀ b ∈ createdJobs K, a < b) ∧
    (∀ a ∈ createdWorkers J, ∀ b ∈ createdWorkers K, a < b) ∧
    (∀ a ∈ createdQueues J, ∀ b ∈ createdQueues K, a < b) := by
  intro K
  obtain ⟨_, _, _, m4, m5, m6, _⟩ := restorerFoldFrom_marks h
  obtain ⟨_, h2, _, h4, _, h6, _⟩ := runEpoch_ids acts (counters R)
  refine ⟨fun a ha b hb => ?_, fun a ha b hb => ?_, fun a ha b hb => ?_⟩
  · have hb : b ∈ createdJobs _ := mem_take_filterMap hb
    rw [createdJobs_start] at hb
    have := h2 b hb; have := m4 a ha; simp [counters] at *; omega
  · have hb : b ∈ createdWorkers _ := mem_take_filterMap hb
    rw [createdWorkers_start] at hb
    have := h4 b hb; have := m5 a ha; simp [counters] at *; omega
  · have hb : b ∈ createdQueues _ := mem_take_filterMap hb
    rw [createdQueues_start] at hb
    have := h6 b hb; have := m6 a ha; simp [counters] at *; omega

/-! The hypotheses are satisfiable by non-trivial journals. -/

def sampleJournal : List Record :=
  [.serverStart "abc123", .workerConnected 1 none, .submit 1 true none (.array [⟨0, 2, 1⟩] none),
   .jobOpen 2 none, .queueCreated 1, .taskStarted 1 0 0 [1], .taskFinished 1 0, .workerLost 1 .connectionLost,
   .queueRemoved 1, .workerConnected 2 none]

example : ∃ R, restorerFold sampleJournal = .ok R ∧ counters R = ⟨3, 3, 2⟩ ∧ R.uid = "abc123" := by
  refine ⟨_, rfl, ?_, ?_⟩ <;> decide

example : History ([.serverStart "u1", .submit 1 true none (.graph []), .workerConnected 1 none] ++
    [.serverStart "u1", .jobOpen 2 none, .workerConnected 3 none]) :=
  History.restart
    (History.first "u1" (by decide) [.submitNew none (.graph []), .connectWorker none] 3)
    (R := { jobs := [(1, ⟨none, [.graph []], [], false⟩)], maxJob := 1, maxWorker := 1, uid := "u1" })
    rfl "zzz" (by decide) [.openJob none, .connectWorker none] 3

/-- Observation recorded with C11/C12 (not a violation by the letter of either): pruning removes the records of
completed jobs and lost workers and with them their high-water marks, so an id the *pruned* journal no longer mentions
is issued again after prune + restart (here: job 1 and worker 1 are gone; the next job id is 1 again, the next
worker id 2 although a worker 2 had existed). -/
theorem c11_prune_lowers_marks :
    let J : List Record := [.serverStart "u", .workerConnected 1 none, .workerConnected 2 none,
      .submit 1 true none (.array [⟨0, 1, 1⟩] none), .taskStarted 1 0 0 [1], .taskFinished 1 0, .jobCompleted 1,
      .workerLost 1 .stopped, .workerLost 2 .stopped]
    ∃ R, restorerFold (prune [] [] J) = .ok R ∧ (issueJob (counters R)).1 = 1 ∧ (issueWorker (counters R)).1 = 2 := by
  refine ⟨_, rfl, ?_, ?_⟩ <;> decide

end HqModel.C11
