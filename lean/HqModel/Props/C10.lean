import HqModel.Lemmas.JournalRestore
import HqModel.Lemmas.JournalFile
/-!
C10 — restart from the journal at every crash point (model M5 Journal: restore.rs, bootstrap.rs, journal/read.rs,
journal/write.rs, the re-run parts of client/submit.rs and job.rs).

Spec: `meaning : List Record → AState` (Journal/Spec.lean), `Producible` (same file), views `RefinesCore`,
`RefinesCounters`, full statement `RestoreRefines`.
-/
namespace HqModel.C10
open HqModel.Journal

/-- **c10_restore_refines** (full strength; holds of the code after the fixes 08d60f1 (F9), 05de231 (F10), 360a725
(F11), 40220c7 (F17)). For every producible journal `J` — every prefix of every history the server can write,
including failures before the first start, several submits into an open job, earlier restarts, worker losses of every
reason — `restore J` does not stop (no error, no panic) and yields
* exactly the jobs `meaning J` has (= not completed), in the same order, with the same open flag, `max_fails`, number
  of submits, task table (every task carrying its recorded outcome, or `waiting`) and **job counters that agree with
  the task states** (`RestoredJob.view = AJob.view`);
* `TaskSubmit` batches that contain every task without outcome exactly once, in submit order, with dependencies =
  original dependencies minus completed tasks (restart clause of C03), the instance id = highest recorded + 1 (restart
  clause of C06) and the crash counter = number of recorded failure-losses of its root worker while it ran (restart
  clause of C07), as `handle_new_tasks` applies the adjust map (`batchPending X.batches = (meaning J).pending`);
* the recorded allocation queues, the id counters `max + 1`, the uid of the last `ServerStart`. -/
theorem c10_restore_refines (J : List Record) (hp : Producible J) : RestoreRefines J := by
  obtain ⟨R, hR, hinv⟩ := fold_inv J {} {} inv_init hp
  obtain ⟨js, bs, h1, h2, h3⟩ := restoreJobsFrom_ok hinv.jobs
    { queues := R.queues.map fun q => (q.1, (alGet R.queueRes q.1).isSome) }
  have hA : List.foldl meaningStep {} J = meaning J := rfl
  rw [hA] at hinv h2 h3
  refine ⟨R, ⟨js, bs, R.queues.map fun q => (q.1, (alGet R.queueRes q.1).isSome)⟩,
    by simp only [restore, restorerFold, hR, restoreJobs, h1]; rfl, ⟨?_, ?_, ?_, ?_, hinv.uid⟩⟩
  · simpa using h2
  · simpa [AState.pending] using h3
  · simp [← hinv.queues, List.map_map, Function.comp_def]
  · simp [counters, hinv.maxJob, hinv.maxWorker, hinv.maxQueue]

/-- **c10_prefix.** The statement is closed under prefixes: every record boundary of a producible journal is a crash
point at which the theorem applies again. -/
theorem c10_prefix (J K : List Record) (h : Producible (J ++ K)) : Producible J := by
  unfold Producible at *
  generalize ({} : AState) = s at *
  induction J generalizing s with
  | nil => rfl
  | cons x xs ih =>
    simp only [List.cons_append, producibleFrom, Bool.and_eq_true] at h ⊢
    exact ⟨h.1, ih _ h.2⟩

/-- restore at every crash point of a producible journal (corollary of the two theorems above) -/
theorem c10_every_crash_point (J : List Record) (hp : Producible J) (n : Nat) : RestoreRefines (J.take n) := by
  have e : J.take n ++ J.drop n = J := List.take_append_drop n J
  exact c10_restore_refines (J.take n) (c10_prefix _ (J.drop n) (by rw [e]; exact hp))

/-- **c10_torn_tail.** For every lawful event code (the trusted bincode assumption), every header, every journal `J`
and every strict prefix `p` of one more encoded record: reading `header ++ enc J ++ p` yields exactly the records `J`,
`position` = the end of the last complete record, and `contains_partial_data()` iff `p ≠ []`. -/
theorem c10_torn_tail {ρ : Type} (c : Codec ρ) (hc : c.Lawful) (hdr : Bytes) (J : List ρ) (r : ρ) (p : Bytes)
    (hp : p <+: c.enc r) (hne : p ≠ c.enc r) :
    readAll c hdr (fileOf c hdr J ++ p) =
      some ⟨J, (fileOf c hdr J).length, if p = [] then .clean else .partialTail⟩ :=
  readAll_torn hc hdr J r p hp hne

/-- … hence `load_event_file` on the torn file = `load_event_file` on the clean prefix, plus `truncate_size`. -/
theorem c10_torn_tail_load (c : Codec Record) (hc : c.Lawful) (hdr : Bytes) (J : List Record) (r : Record) (p : Bytes)
    (hp : p <+: c.enc r) (hne : p ≠ c.enc r) :
    loadFile c hdr (fileOf c hdr J ++ p) =
      (match restorerFold J with
       | .ok R => .ok (if p = [] then R else { R with truncate := some (fileOf c hdr J).length })
       | .error e => .error e) := by
  simp only [loadFile, c10_torn_tail c hc hdr J r p hp hne]
  cases restorerFold J with
  | error e => rfl
  | ok R => by_cases h0 : p = [] <;> simp [h0]

/-- **c10_truncate_append.** Re-opening with `create_or_append(path, Some(position))` cuts the torn tail, and whatever is
appended afterwards reads back as `J ++ K` with a clean end. -/
theorem c10_truncate_append {ρ : Type} (c : Codec ρ) (hc : c.Lawful) (hdr : Bytes) (J K : List ρ) (r : ρ) (p : Bytes) :
    readAll c hdr (truncateAppend c (fileOf c hdr J ++ p) (fileOf c hdr J).length K) =
      some ⟨J ++ K, (fileOf c hdr (J ++ K)).length, .clean⟩ := by
  rw [truncateAppend_eq]
  have := readAll_torn hc hdr (J ++ K) r [] (List.nil_prefix) (fun h => hc.enc_ne r h.symm)
  simpa using this

/-! ### The hypotheses are satisfiable; the codec laws are satisfiable -/

def sample : List Record :=
  [.serverStart "abc123", .workerConnected 1 none, .jobOpen 1 (some 1),
   .submit 1 false (some 1) (.graph [⟨0, [], true⟩, ⟨1, [0], true⟩, ⟨2, [0, 1], true⟩]),
   .taskStarted 1 0 0 [1], .taskFinished 1 0, .taskStarted 1 1 0 [1], .workerLost 1 .heartbeatLost,
   .submit 2 true none (.array [⟨0, 3, 1⟩] none), .tasksCanceled [(2, 1)], .jobCancel 2]

example : Producible sample := by decide

example : (meaning sample).pending = [(1, 1, [], 1, 1), (1, 2, [1], 0, 0), (2, 0, [], 0, 0), (2, 2, [], 0, 0)] := by
  decide

example : (⟨fun _ => [0], fun b => match b with | [] => .eof | _ :: _ => .ok () 1⟩ : Codec Unit).Lawful :=
  ⟨fun _ _ => rfl, fun _ => by simp, fun _ p hp hne h0 => by
    cases p with
    | nil => exact absurd rfl h0
    | cons a as =>
      exfalso
      have := List.IsPrefix.length_le hp
      cases as with
      | nil => obtain ⟨t, ht⟩ := hp; simp at ht; exact hne (by simp [ht.1])
      | cons _ _ => simp at this⟩

/-! ### Regression witnesses of the defects fixed in /repo (each was replayed on the pre-fix code, see
/verif/notes/journal.md and /verif/corpus/journal/); on the fixed code — which the model follows — they restore fine. -/

/-- F9 (fixed by 08d60f1): a task fails before its first start (worker-side launch error: `try_start_task` →
`WorkerTaskUpdate::Failed` without `Running`). Pre-fix: `job.tasks.get_mut(..).unwrap()` on `None` → panic. -/
def witnessF9 : List Record :=
  [.serverStart "abc123", .submit 1 true none (.array [⟨0, 2, 1⟩] none), .workerConnected 1 none, .taskFailed 1 0]

theorem c10_f9_regression : Producible witnessF9 ∧
    ∃ R X, restore witnessF9 = .ok (R, X) ∧
      X.jobs.map RestoredJob.view = [(1, false, none, 1, [(0, .failed), (1, .waiting)], ⟨0, 0, 1, 0, 0⟩)] ∧
      batchPending X.batches = [(1, 1, [], 0, 0)] := by
  exact ⟨by decide, _, _, rfl, rfl, rfl⟩

/-- F10 (fixed by 05de231): an open job with two submits. Pre-fix the counters loop of `restore_job` ran over ALL
`job.tasks` once per submit: `n_finished_tasks = 2` with one finished task, `Job::is_terminated()` although task 1 had
not run. -/
def witnessF10 : List Record :=
  [.serverStart "abc123", .jobOpen 1 none, .submit 1 false none (.array [⟨0, 1, 1⟩] none), .workerConnected 1 none,
   .taskStarted 1 0 0 [1], .taskFinished 1 0, .submit 1 false none (.array [⟨1, 1, 1⟩] none), .jobClose 1]

theorem c10_f10_regression : Producible witnessF10 ∧
    ∃ R X, restore witnessF10 = .ok (R, X) ∧ (X.jobs.map (·.counters)) = [⟨0, 1, 0, 0, 0⟩] := by
  exact ⟨by decide, _, _, rfl, rfl⟩

/-- F11 + F17 (fixed by 360a725, 40220c7): task 1.0 crashes once on worker 1 and is started again on worker 2 (pre-fix:
crash counter reset to 0); the multi-node task 1.1 runs on [2, 3] and loses its non-root worker 3 (pre-fix: a crash was
charged). Now the core gets crash counters 1 and 0. -/
def witnessF11F17 : List Record :=
  [.serverStart "abc123", .submit 1 true none (.array [⟨0, 2, 1⟩] none), .workerConnected 1 none, .workerConnected 2 none,
   .workerConnected 3 none, .taskStarted 1 0 0 [1], .workerLost 1 .connectionLost, .taskStarted 1 0 1 [2],
   .taskStarted 1 1 0 [2, 3], .workerLost 3 .heartbeatLost]

theorem c10_f11_f17_regression : Producible witnessF11F17 ∧
    ∃ R X, restore witnessF11F17 = .ok (R, X) ∧ batchPending X.batches = [(1, 0, [], 2, 1), (1, 1, [], 1, 0)] := by
  exact ⟨by decide, _, _, rfl, rfl⟩

end HqModel.C10
