import HqModel.Lemmas.JournalRestore
import HqModel.Lemmas.JournalFile
/-!
C10 — restart from the journal at every crash point (model M5 Journal: restore.rs, bootstrap.rs, journal/read.rs,
journal/write.rs, the re-run parts of client/submit.rs and job.rs).

Spec: `meaning : List Record → AState` (Journal/Spec.lean), `Producible` (same file), views `RefinesCore`,
`RefinesCounters`, full statement `RestoreRefines`.
-/
namespace HqModel.C10
open HqModel.Journal

/-- **Full-strength statement** (kept visible; FALSE of the current code, see `c10_full_statement_false`):
for every producible journal — every prefix of every history the server can write — restore does not stop and the
restored jobs, open flags, task outcomes, pending tasks with remaining dependencies, queues, id counters, uid AND the
job counters of every job equal `meaning J`. -/
def C10Full : Prop := ∀ J, Producible J → RestoreRefines J

/-- **c10_restore_refines (partial).** For every producible journal `J` that contains no `TaskFailed` for a task that
never started (hypothesis excluding defect F9): `restore J` does not stop (no error, no panic) and yields
* exactly the jobs `meaning J` has (= not completed), in the same order, with the same open flag, `max_fails`, number
  of submits and task table, every task carrying its recorded outcome or `waiting`;
* `TaskSubmit` batches that contain every task without outcome exactly once, in submit order, with dependencies =
  original dependencies minus completed tasks (`batchPending X.batches = (meaning J).pending` as lists);
* the recorded allocation queues, the id counters `max+1`, the uid;
* job counters that agree with the task states **for jobs with at most one submit** (hypothesis excluding defect F10).
Missing w.r.t. `C10Full`: journals with a failure before the first start (F9) and the counters of jobs with ≥ 2
submits (F10) — both refuted below on witnesses. -/
theorem c10_restore_refines_partial (J : List Record) (hp : Producible J) (hf : NoFailBeforeStart J) :
    ∃ R X, restore J = .ok (R, X) ∧ RefinesCore R X (meaning J) ∧
      RefinesCounters (fun aj => decide (aj.nSubmits ≤ 1)) X (meaning J) := by
  obtain ⟨R, hR, hinv⟩ := fold_inv J {} {} inv_init hp hf
  obtain ⟨js, bs, h1, h2, h3, h4⟩ := restoreJobsFrom_ok hinv.jobs
    { queues := R.queues.map fun q => (q.1, (alGet R.queueRes q.1).isSome) }
  have hA : List.foldl meaningStep {} J = meaning J := rfl
  rw [hA] at hinv h2 h3 h4
  refine ⟨R, ⟨js, bs, R.queues.map fun q => (q.1, (alGet R.queueRes q.1).isSome)⟩,
    by simp only [restore, restorerFold, hR, restoreJobs, h1]; rfl, ⟨?_, ?_, ?_, ?_, hinv.uid⟩, ?_⟩
  · simpa using h2
  · simpa [AState.pending] using h3
  · simp [← hinv.queues, List.map_map, Function.comp_def]
  · simp [counters, hinv.maxJob, hinv.maxWorker, hinv.maxQueue]
  · intro j hj aj haj hle
    obtain ⟨aj', hmem, hc⟩ := h4 j hj
    have hn := meaning_keys J {} (by simp)
    rw [hA] at hn
    have := alGet_of_mem_nodup hn hmem
    rw [haj] at this
    cases this
    exact hc (by simpa using hle)

/-- **c10_prefix.** The statement is closed under prefixes: every record boundary of a producible journal is a crash
point at which the theorem applies again (same for the F9-excluding hypothesis). -/
theorem c10_prefix (J K : List Record) (h : Producible (J ++ K)) : Producible J := by
  unfold Producible at *
  generalize ({} : AState) = s at *
  induction J generalizing s with
  | nil => rfl
  | cons x xs ih =>
    simp only [List.cons_append, producibleFrom, Bool.and_eq_true] at h ⊢
    exact ⟨h.1, ih _ h.2⟩

theorem c10_prefix_noFail (J K : List Record) (h : NoFailBeforeStart (J ++ K)) : NoFailBeforeStart J := by
  unfold NoFailBeforeStart at *
  generalize ({} : AState) = s at *
  induction J generalizing s with
  | nil => rfl
  | cons x xs ih =>
    simp only [List.cons_append, noFailBeforeStartFrom, Bool.and_eq_true] at h ⊢
    exact ⟨h.1, ih _ h.2⟩

/-- restore at every crash point of a producible journal (corollary of the two theorems above) -/
theorem c10_every_crash_point (J : List Record) (hp : Producible J) (hf : NoFailBeforeStart J) (n : Nat) :
    ∃ R X, restore (J.take n) = .ok (R, X) ∧ RefinesCore R X (meaning (J.take n)) := by
  have e : J.take n ++ J.drop n = J := List.take_append_drop n J
  obtain ⟨R, X, h1, h2, _⟩ := c10_restore_refines_partial (J.take n) (c10_prefix _ (J.drop n) (by rw [e]; exact hp))
    (c10_prefix_noFail _ (J.drop n) (by rw [e]; exact hf))
  exact ⟨R, X, h1, h2⟩

/-- **c10_torn_tail.** For every lawful event code (the trusted bincode assumption), every header, every journal `J`
and every strict prefix `p` of one more encoded record: reading `header ++ enc J ++ p` yields exactly the records `J`,
`position` = the end of the last complete record, and `contains_partial_data()` iff `p ≠ []`. -/
theorem c10_torn_tail {ρ : Type} (c : Codec ρ) (hc : c.Lawful) (hdr : Bytes) (J : List ρ) (r : ρ) (p : Bytes)
    (hp : p <+: c.enc r) (hne : p ≠ c.enc r) :
    readAll c hdr (fileOf c hdr J ++ p) =
      some ⟨J, (fileOf c hdr J).length, if p = [] then .clean else .partialTail⟩ :=
  readAll_torn hc hdr J r p hp hne

/-- … hence `load_event_file` on the torn file = `load_event_file` on the clean prefix, plus `truncate_size`. -/
theorem c10_torn_tail_load (c : Codec Record) (hc : c.Lawful) (hdr : Bytes) (J : List Record) (r : Record) (p : Bytes)
    (hp : p <+: c.enc r) (hne : p ≠ c.enc r) :
    loadFile c hdr (fileOf c hdr J ++ p) =
      (match restorerFold J with
       | .ok R => .ok (if p = [] then R else { R with truncate := some (fileOf c hdr J).length })
       | .error e => .error e) := by
  simp only [loadFile, c10_torn_tail c hc hdr J r p hp hne]
  cases restorerFold J with
  | error e => rfl
  | ok R => by_cases h0 : p = [] <;> simp [h0]

/-- **c10_truncate_append.** Re-opening with `create_or_append(path, Some(position))` cuts the torn tail, and whatever is
appended afterwards reads back as `J ++ K` with a clean end. -/
theorem c10_truncate_append {ρ : Type} (c : Codec ρ) (hc : c.Lawful) (hdr : Bytes) (J K : List ρ) (r : ρ) (p : Bytes) :
    readAll c hdr (truncateAppend c (fileOf c hdr J ++ p) (fileOf c hdr J).length K) =
      some ⟨J ++ K, (fileOf c hdr (J ++ K)).length, .clean⟩ := by
  rw [truncateAppend_eq]
  have := readAll_torn hc hdr (J ++ K) r [] (List.nil_prefix) (fun h => hc.enc_ne r h.symm)
  simpa using this

/-! ### The hypotheses are satisfiable; the codec laws are satisfiable -/

def sample : List Record :=
  [.serverStart "abc123", .workerConnected 1 none, .jobOpen 1 (some 1),
   .submit 1 false (some 1) (.graph [⟨0, [], true⟩, ⟨1, [0], true⟩, ⟨2, [0, 1], true⟩]),
   .taskStarted 1 0 0 [1], .taskFinished 1 0, .taskStarted 1 1 0 [1], .workerLost 1 .heartbeatLost,
   .submit 2 true none (.array [⟨0, 3, 1⟩] none), .tasksCanceled [(2, 1)], .jobCancel 2]

example : Producible sample ∧ NoFailBeforeStart sample := by decide

example : (meaning sample).pending = [(1, 1, []), (1, 2, [1]), (2, 0, []), (2, 2, [])] := by decide

example : (⟨fun _ => [0], fun b => match b with | [] => .eof | _ :: _ => .ok () 1⟩ : Codec Unit).Lawful :=
  ⟨fun _ _ => rfl, fun _ => by simp, fun _ p hp hne h0 => by
    cases p with
    | nil => exact absurd rfl h0
    | cons a as =>
      exfalso
      have := List.IsPrefix.length_le hp
      cases as with
      | nil => obtain ⟨t, ht⟩ := hp; simp at ht; exact hne (by simp [ht.1])
      | cons _ _ => simp at this⟩

/-! ### Defect witnesses (replayed on the real code: /verif/corpus/journal/) -/

/-- F9: a task fails before its first start (worker-side launch error: `try_start_task` → `WorkerTaskUpdate::Failed`
without `Running`). `load_event_file` does `job.tasks.get_mut(..).unwrap()` on `None`. -/
def witnessF9 : List Record :=
  [.serverStart "abc123", .submit 1 true none (.array [⟨0, 2, 1⟩] none), .workerConnected 1 none, .taskFailed 1 0]

theorem c10_f9_witness : Producible witnessF9 ∧ restore witnessF9 = .error (.panic .taskFailedUnwrap) := by
  refine ⟨by decide, rfl⟩

/-- F10: an open job with two submits; the counters loop of `restore_job` runs over ALL `job.tasks` once per submit,
so the finished task of the first submit is counted twice (`n_finished_tasks = 2` with one finished task; with two
tasks `n_waiting_tasks = 0`: the job looks terminated although task 1 has not run). -/
def witnessF10 : List Record :=
  [.serverStart "abc123", .jobOpen 1 none, .submit 1 false none (.array [⟨0, 1, 1⟩] none), .workerConnected 1 none,
   .taskStarted 1 0 0 [1], .taskFinished 1 0, .submit 1 false none (.array [⟨1, 1, 1⟩] none), .jobClose 1]

theorem c10_f10_witness : Producible witnessF10 ∧ NoFailBeforeStart witnessF10 ∧
    ∃ R X, restore witnessF10 = .ok (R, X) ∧ (X.jobs.map (·.counters.finished)) = [2] ∧
      ((meaning witnessF10).jobs.map (·.2.counters.finished)) = [1] ∧
      ¬ RefinesCounters (fun _ => true) X (meaning witnessF10) := by
  refine ⟨by decide, by decide, _, _, rfl, by decide, by decide, ?_⟩
  intro h
  have := h ⟨1, false, none, [(0, .finished ⟨0, [1]⟩), (1, .waiting)], ⟨0, 2, 0, 0, 0⟩, 2⟩ (by decide)
    ⟨false, none, [⟨0, [], .finished, some 0, none, 0⟩, ⟨1, [], .waiting, none, none, 0⟩], 2⟩ (by decide) rfl
  revert this
  decide

/-- the full-strength statement is false of the code as it is (by F9; F10 refutes the counters clause separately) -/
theorem c10_full_statement_false : ¬ C10Full := by
  intro h
  obtain ⟨R, X, hr, _⟩ := h witnessF9 c10_f9_witness.1
  rw [c10_f9_witness.2] at hr
  cases hr

end HqModel.C10
