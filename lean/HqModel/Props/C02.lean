import HqModel.Props.SysW
import HqModel.Props.WorkerSide
import HqModel.Props.C13
/-!
# C02 — no task is lost or stuck; the two registries agree

Proved here (M4): for every submit shape the ids attached to the job are exactly the ids handed to the
scheduler (`c02_submit_ids`; this was false before the `fix:` commit d6e3c5a). The registry equality in every
reachable state and the quiescence clause are evaluated on every real trace: `c02.registry` after every client
request, `c02.rest` after the fault-free drain of every generated run (every non-terminal task waits for a
dependency or no connected worker can run it; with a capable worker every task is terminal and every closed job
completed). The progress clause is not a theorem (`c02_progress_partial`): scheduler optimality (HiGHS) and the
fair drain are runtime behaviour.
-/
namespace HqModel.C02
open HqModel.Job

/-- **Same ids for the job and for the scheduler**, for arrays without entries, graphs, and arrays whose
entries cover all ids (what the client produces), after the id filling of `handle_submit`. -/
theorem c02_submit_ids (d : TaskDesc)
    (h : match d with
      | .array ids (some n) => ids.iter.length ≤ n
      | _ => True) : d.jobIds = d.coreIds := by
  cases d with
  | array ids en =>
    cases en with
    | none => rfl
    | some n => simp only [TaskDesc.jobIds, TaskDesc.coreIds]; exact (List.take_of_length_le h).symm
  | graph ts => rfl

/-- the auto-id cases satisfy the hypothesis of `c02_submit_ids` -/
theorem c02_auto_ids_agree (job : Job) (n : Nat) :
    (fillIdsOpen job (.array [] (some n))).jobIds = (fillIdsOpen job (.array [] (some n))).coreIds := by
  have := HqModel.C13.c13_auto_ids job n
  simp only at this
  rw [this.1, this.2]

example : (TaskDesc.array [⟨3, 2, 1⟩] (some 2)).jobIds = [3, 4] := by decide

end HqModel.C02
