import HqModel.Lemmas.JobJournalRestartLives
import HqModel.Props.C06Restart
import HqModel.Props.C07Restart
/-!
# C10 — the emitted-journal theorems across REPEATED restarts

`Props/C10Emit.lean` covers one server life from the empty state. Here the loop is closed: the job-layer state a
restarted server starts with (`Emit.jobStateOf R X`, read off `restore J = .ok (R, X)`; field map in
`Lemmas/JobJournalRestartDefs.lean`) is well-formed and satisfies, together with the journal file, the simulation
invariant `Emit.Inv` again — so every further life writes a journal that keeps the file producible, failure-closed
at every record boundary and free of re-created started job ids, and the restart theorems `c10_restore_refines`,
`c03_restart`, `c06_restart`, `c07_restart` apply at every crash point of every life.

A history is a list of `Emit.Life`s `⟨uid, ops, cut⟩`: the uid of the life's `ServerStart`, the operations of the job
layer, and (if the life ends in a crash) how many records of the life reached the file — ANY number, also a cut
between the records of one operation or before the `ServerStart` itself. `Emit.livesJournal [] lives` is the file;
each life starts from `Emit.nextState file` = the restored state (`nextState [] = {}`: the first life of
`C10Emit.lean`, `c10_lives_first`). Side condition `Emit.livesOk [] lives`: `EmitOk` for every operation of every life,
evaluated on the restored M4 state and `A = meaning (file ++ [ServerStart uid])`. After a restart its conjuncts are
obligations on the other components, as before: `instFresh` (instance id above every recorded one) is what C06's
restart clause gives the core (`c06_restart`: resubmitted with highest recorded + 1); `A.maxWorker < w` is C11 (the
worker-id counter is restored above every recorded id); `A.workers` is empty after `ServerStart`, so only workers
connected in the new life can be lost.
-/
namespace HqModel.C10
open HqModel.Job HqModel.Journal HqModel.Emit

/-- restore never leaves a Running task: every task of every restored job is Waiting or carries an outcome
(for EVERY journal on which restore succeeds) -/
theorem c10_restart_no_running (J : List Record) (R : Restorer) (X : Restored) (e : restore J = .ok (R, X)) :
    ∀ rj ∈ X.jobs, ∀ p ∈ rj.tasks, p.2 = .waiting ∨ p.2.isCompleted = true :=
  restore_clean e

/-- **c10_restart_wf.** The M4 state of the restarted server is well-formed (`StateWF`: unique job ids below the
restored job counter, unique task ids, the five counters = the per-state task counts, nothing Running): the C13
theorems (`c13_counters`, `c13_status`, …, stated for well-formed states / runs from them) apply after a restart. -/
theorem c10_restart_wf (J : List Record) (R : Restorer) (X : Restored) (hp : Producible J)
    (e : restore J = .ok (R, X)) : StateWF (jobStateOf R X) :=
  restart_wf hp e

/-- **c10_restart_inv.** For every producible journal `J` whose recorded state is failure-closed, the restored M4 state
and the journal extended by the `ServerStart` of the new life satisfy the emit invariant: every restored job is a job
of `meaning`, with the same open flag, task ids and recorded outcomes. (`DepClosed (meaning J)` is a conjunct of
`Emit.Inv`; it is what `c10_emitted_dep_closed` / `c10_emitted_lives` provide.) -/
theorem c10_restart_inv (J : List Record) (R : Restorer) (X : Restored) (hp : Producible J)
    (hd : HqModel.C03.DepClosed (meaning J)) (e : restore J = .ok (R, X)) (uid : String) :
    Emit.Inv (jobStateOf R X) (meaning (J ++ [.serverStart uid])) :=
  restart_inv hp hd e uid

/-- **c10_emitted_across_restarts** (one restart). `J` any journal file that is producible, failure-closed at every
prefix and without re-created started job ids (e.g. itself emitted); the server restarts from it and executes ANY
operations `ops` whose inputs satisfy `EmitOk` step by step from `(nextState J, meaning (J ++ [ServerStart uid]))`.
Then the whole file has the three properties again, at every record boundary `K`. -/
theorem c10_emitted_across_restarts (J : List Record) (hp : Producible J)
    (hd : ∀ K, K <+: J → HqModel.C03.DepClosed (meaning K)) (hn : NoStartBeforeCreate J)
    (uid : String) (ops : List Op)
    (hok : emitOkFrom (nextState J) (meaning (J ++ [.serverStart uid])) ops = true)
    (K : List Record) (hK : K <+: J ++ .serverStart uid :: journalFrom (nextState J) ops) :
    Producible K ∧ HqModel.C03.DepClosed (meaning K) ∧ NoStartBeforeCreate K :=
  have g := ((GoodJ.mk hp hd hn).life uid ops hok).prefix hK
  ⟨g.prod, g.dep K (List.prefix_refl K), g.fresh⟩

/-- **c10_emitted_lives** (any number of restarts, by induction over the list of lives). For every history of server
lives whose operations satisfy the side condition, every prefix `K` of the journal file — every crash point of every
life — is producible, failure-closed, and creates no job id after one of its tasks started. -/
theorem c10_emitted_lives (lives : List Life) (h : livesOk [] lives = true)
    (K : List Record) (hK : K <+: livesJournal [] lives) :
    Producible K ∧ HqModel.C03.DepClosed (meaning K) ∧ NoStartBeforeCreate K :=
  have g := (GoodJ.lives lives GoodJ.nil h).prefix hK
  ⟨g.prod, g.dep K (List.prefix_refl K), g.fresh⟩

/-- **c10_emitted_lives_restore.** Hence at every crash point of every life, with no assumption on the journal:
restore refines `meaning` (C10), the restored job layer is well-formed, and every task handed back to the core keeps
or has finished each of its original dependencies (C03), gets an instance id above every `TaskStarted` record of the
file (C06) and the crash counter `crashCount K job t` (C07). -/
theorem c10_emitted_lives_restore (lives : List Life) (h : livesOk [] lives = true)
    (K : List Record) (hK : K <+: livesJournal [] lives) :
    RestoreRefines K ∧
    ∃ R X, restore K = .ok (R, X) ∧ StateWF (jobStateOf R X) ∧
      ∀ job t deps i c, (job, t, deps, i, c) ∈ batchPending X.batches →
        (∃ ja ∈ (meaning K).jobs, ∃ a ∈ ja.2.tasks, ja.1 = job ∧ a.id = t ∧ a.st = .waiting ∧
          ∀ d ∈ a.deps, d ∈ deps ∨ ∃ b, ja.2.find d = some b ∧ b.st = .finished) ∧
        (∀ k ws, Record.taskStarted job t k ws ∈ K → k < i) ∧
        c = crashCount K job t := by
  obtain ⟨hp, hd, hn⟩ := c10_emitted_lives lives h K hK
  obtain ⟨R, X, e, h3⟩ := HqModel.C03.c03_restart K hp hd
  obtain ⟨R6, X6, e6, h6⟩ := HqModel.C06.c06_restart K hp hn
  obtain ⟨R7, X7, e7, h7⟩ := HqModel.C07.c07_restart K hp
  rw [e] at e6 e7
  cases e6; cases e7
  exact ⟨c10_restore_refines K hp, R, X, e, restart_wf hp e,
    fun job t deps i c hm => ⟨h3 job t deps i c hm, h6 job t deps i c hm, h7 job t deps i c hm⟩⟩

/-- the first life is the run from the empty state of `C10Emit.lean` -/
theorem c10_lives_first (uid : String) (ops : List Op) :
    livesJournal [] [⟨uid, ops, none⟩] = journalOf uid ops ∧
    (livesOk [] [⟨uid, ops, none⟩] = true ↔ EmitOkRun uid ops) := by
  refine ⟨rfl, ?_⟩
  simp only [livesOk, Bool.and_true, EmitOkRun]
  rfl

/-! ### Non-vacuity: a concrete history of three lives -/

/-- life 1: worker 1, a graph job `0 ← 1`, task 0 starts and fails with its dependent 1 — the server crashes after
`TasksAborted [(1,1)]` reached the file and before `TaskFailed 1 0` did (cut = 5 records);
life 2: restored (task 0 without outcome, task 1 aborted), worker 2 (id above the recorded 1), task 0 rerun as instance
1 (above the recorded 0) and finished → job completed; a second, open job with a submit; clean stop of the operations;
life 3: the open job is restored with its waiting task; it runs, fails, the job is closed and completes -/
def sampleLives : List Life :=
  [ ⟨"a", [.workerNew 1, .submit none none (.graph [(0, []), (1, [0])]), .started (1, 0) 0 [1] 0,
           .failed (1, 0) [(1, 1)]], some 5⟩,
    ⟨"b", [.workerNew 2, .started (1, 0) 1 [2] 0, .finished (1, 0), .openJob (some 0),
           .submit (some 2) none (.array [] none)], none⟩,
    ⟨"c", [.workerNew 3, .started (2, 0) 0 [3] 0, .failed (2, 0) [], .close 2], none⟩ ]

example : livesOk [] sampleLives = true := by decide

example : livesJournal [] sampleLives =
    [ .serverStart "a", .workerConnected 1 none, .submit 1 true none (.graph [⟨0, [], true⟩, ⟨1, [0], true⟩]),
      .taskStarted 1 0 0 [1], .tasksAborted [(1, 1)],
      .serverStart "b", .workerConnected 2 none, .taskStarted 1 0 1 [2], .taskFinished 1 0, .jobCompleted 1,
      .jobOpen 2 (some 0), .submit 2 false none (.array [⟨0, 1, 1⟩] none),
      .serverStart "c", .workerConnected 3 none, .taskStarted 2 0 0 [3], .taskFailed 2 0, .jobClose 2,
      .jobCompleted 2 ] := by decide

/-- the state life 2 starts from: job 1 closed, task 0 Waiting (its run was cut off), task 1 Aborted, counters
0,0,0,0,1, job counter 2, the pending task 0 handed to the core -/
example : (nextState ((livesJournal [] sampleLives).take 5)).jobs.map
      (fun j => (j.id, j.isOpen, j.tasks, j.cnt.running, j.cnt.aborted)) =
    [(1, false, [(0, .waiting), (1, .aborted)], 0, 1)] ∧
    (nextState ((livesJournal [] sampleLives).take 5)).jobCtr = 2 ∧
    (nextState ((livesJournal [] sampleLives).take 5)).sent = [(1, 0)] := by decide

example : RestoreRefines ((livesJournal [] sampleLives).take 12) :=
  (c10_emitted_lives_restore sampleLives (by decide) _ (List.take_prefix _ _)).1

end HqModel.C10
