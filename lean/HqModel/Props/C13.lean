import HqModel.Lemmas.JobState
import HqModel.Lemmas.IntArray
import HqModel.Lemmas.JobCompleted
import HqModel.Props.C13Wait
/-!
# C13 — job bookkeeping: counters match tasks, atomic submits, status rules

Property theorems over the job-layer model `HqModel.Job` (M4). Every theorem quantifies over ALL operation
sequences (client requests open / submit / close / cancel / forget with arbitrary id arrays, entries and
task graphs, interleaved with arbitrary tako callbacks), with no bound on their length.
-/
namespace HqModel.C13
open HqModel.Job

/-- **Counters match tasks.** After every run from the empty server state that does not stop with a panic,
each of the five per-state counters of every job equals the number of the job's tasks in that state, task ids
are unique in the job, the counters never exceed the number of tasks (so the u32 subtraction in
`n_waiting_tasks` cannot underflow) and the derived number of waiting tasks is the number of waiting tasks. -/
theorem c13_counters (ops : List Op) (s : State) (evs : List Ev) (h : run {} ops = .ok (s, evs)) :
    ∀ job ∈ s.jobs,
      (keys job.tasks).Nodup ∧
      job.cnt.running = countS job.tasks .running ∧
      job.cnt.finished = countS job.tasks .finished ∧
      job.cnt.failed = countS job.tasks .failed ∧
      job.cnt.canceled = countS job.tasks .canceled ∧
      job.cnt.aborted = countS job.tasks .aborted ∧
      job.cnt.sum ≤ job.nTasks ∧
      job.nWaiting = countS job.tasks .waiting := by
  intro job hj
  have w := (run_wf ops init_wf h).jobs job hj
  have hs := countS_sum_le job.tasks
  refine ⟨w.nodup, w.running, w.finished, w.failed, w.canceled, w.aborted, ?_, ?_⟩
  · simp only [Counters.sum, Job.nTasks, w.running, w.finished, w.failed, w.canceled, w.aborted]; omega
  · simp only [Job.nWaiting, Counters.sum, Job.nTasks, w.running, w.finished, w.failed, w.canceled, w.aborted]
    omega

/-- the documented rule table for the job state, on the number of tasks per state -/
def statusRule (ts : List (Nat × TState)) (isOpen : Bool) : Status :=
  if countS ts .running > 0 then .running
  else if countS ts .waiting > 0 then .waiting
  else if countS ts .failed > 0 then .failed
  else if countS ts .aborted > 0 then .aborted
  else if countS ts .canceled > 0 then .canceled
  else if isOpen then .opened else .finished

/-- **Job state follows the documented rules** (and `job_status` never hits its final `assert_eq!`)
in every reachable state. -/
theorem c13_status (ops : List Op) (s : State) (evs : List Ev) (h : run {} ops = .ok (s, evs)) :
    ∀ job ∈ s.jobs, job.status = .ok (statusRule job.tasks job.isOpen) := by
  intro job hj
  obtain ⟨_, h1, h2, h3, h4, h5, _, h7⟩ := c13_counters ops s evs h job hj
  have hs := countS_sum_le job.tasks
  unfold Job.status statusRule
  rw [h1, h3, h4, h5, h7, h2]
  by_cases a : countS job.tasks .running > 0
  · simp [a]
  · by_cases b : countS job.tasks .waiting > 0
    · simp [a, b]
    · by_cases c : countS job.tasks .failed > 0
      · simp [a, b, c]
      · by_cases d : countS job.tasks .aborted > 0
        · simp [a, b, c, d]
        · by_cases e : countS job.tasks .canceled > 0
          · simp [a, b, c, d, e]
          · have : countS job.tasks .finished = job.nTasks := by simp only [Job.nTasks]; omega
            simp [a, b, c, d, e, this]

/-- **A rejected submit has no effect**: whenever `submit` answers anything but `Ok` (closed / unknown job,
duplicate id, non-unique id, invalid dependency), the state is unchanged, no event is emitted and nothing is
handed to the scheduler. -/
theorem c13_submit_reject_no_effect (s s' : State) (j mf : Option Nat) (d : TaskDesc) (evs : List Ev)
    (resp : SubmitResp) (core : List TaskId)
    (h : s.submit j mf d = .ok (s', evs, resp, core)) (hr : ∀ jid, resp ≠ .ok jid) :
    s' = s ∧ evs = [] ∧ core = [] := by
  simp only [State.submit] at h
  split at h
  · cases h; exact ⟨rfl, rfl, rfl⟩
  · split at h
    · split at h
      · cases h; exact ⟨rfl, rfl, rfl⟩
      · split at h
        · cases h; exact ⟨rfl, rfl, rfl⟩
        · split at h
          · cases h; exact ⟨rfl, rfl, rfl⟩
          · split at h
            · cases h
            · cases h; exact absurd rfl (hr _)
    · split at h
      · cases h
      · split at h
        · cases h
        · cases h; exact absurd rfl (hr _)

/-- **Auto-assigned ids continue directly after the largest existing id**: for a submit with entries and no
explicit ids into an open job, the ids attached to the job and the ids handed to the scheduler are both
exactly `max+1, …, max+k` for `k` = number of entries (this is the statement that was false before the
`fix:` commit d6e3c5a, see KNOWN_FINDINGS.jsonl). -/
theorem c13_auto_ids (job : Job) (n : Nat) :
    let m := match job.maxId with | some m => m + 1 | none => 0
    (fillIdsOpen job (.array [] (some n))).jobIds = List.range' m n ∧
    (fillIdsOpen job (.array [] (some n))).coreIds = List.range' m n := by
  simp only [fillIdsOpen, List.isEmpty_nil, if_true, TaskDesc.jobIds, TaskDesc.coreIds, fromRange_iter]
  refine ⟨rfl, ?_⟩
  exact List.take_of_length_le (by simp)

/-- the same for a single auto-assigned id (no entries) -/
theorem c13_auto_id_single (job : Job) :
    let m := match job.maxId with | some m => m + 1 | none => 0
    (fillIdsOpen job (.array [] none)).jobIds = [m] ∧ (fillIdsOpen job (.array [] none)).coreIds = [m] := by
  simp only [fillIdsOpen, List.isEmpty_nil, if_true, TaskDesc.jobIds, TaskDesc.coreIds, fromId_iter]
  exact ⟨rfl, rfl⟩

/-! ### non-vacuity: a concrete non-trivial run satisfies the hypotheses -/

/-- open job 1, submit tasks 0,1 into it, start and finish task 0, fail task 1, close: no panic,
and the theorems above apply to the resulting state (counters 0,1,1,0,0). -/
example :
    (run {} [.openJob none, .submit (some 1) none (.array [⟨0, 2, 1⟩] none),
             .started (1, 0) 0 [1] 0, .finished (1, 0), .failed (1, 1) [], .close 1]).toOption.map
      (fun r => r.1.jobs.map fun j => (j.cnt.running, j.cnt.finished, j.cnt.failed, j.isOpen, j.tasks.length))
    = some [(0, 1, 1, false, 2)] := by decide

example : (State.submit {} (some 7) none (.array [⟨0, 1, 1⟩] none)).toOption.map (fun r => r.2.2.1)
    = some SubmitResp.jobNotFound := by decide

/-! ### history form: `JobCompleted` is emitted exactly once, exactly when the job terminates -/

/-- **A job is reported completed exactly once, exactly when it is closed and all its tasks are terminal,
never before.** For ALL operation sequences `ops` in which no submit creates a new job without tasks
(`NoEmptySubmit`: every `.submit none _ d` has `d.nonEmpty`; submits into existing jobs are unrestricted) and
every run from the empty server state that does not stop with a panic, with `evs` = all events of the run:

* no job id — also of jobs forgotten meanwhile — has more than one `jobCompleted` event;
* for every job still stored, `jobCompleted` occurs once if the job is closed and has no active task and not
  at all otherwise; and "no active task" (the counters) says that every task of the job is terminal;
* *never before*: the same holds at every earlier moment — after every prefix `ops1` of the run, with `e1` the
  events emitted so far (a prefix of `evs`), a stored job that is still open or still has a waiting / running
  task has no `jobCompleted` event in `e1`, a terminated one has exactly one.

The hypothesis cannot be dropped: see the `example` below (`submit` of an array with `entries = Some(0)`
creates a closed job without tasks that is terminated from the start and never reported). -/
theorem c13_completed_once (ops : List Op) (hne : NoEmptySubmit ops = true) (s : State) (evs : List Ev)
    (h : run {} ops = .ok (s, evs)) :
    (∀ j, evs.count (Ev.jobCompleted j) ≤ 1) ∧
    (∀ job ∈ s.jobs,
      evs.count (Ev.jobCompleted job.id) = (if !job.isOpen && job.hasNoActiveTasks then 1 else 0) ∧
      (job.hasNoActiveTasks = true ↔ ∀ p ∈ job.tasks, p.2.terminal = true)) ∧
    (∀ ops1 ops2, ops = ops1 ++ ops2 → ∃ s1 e1 e2, run {} ops1 = .ok (s1, e1) ∧ evs = e1 ++ e2 ∧
      ∀ job ∈ s1.jobs,
        e1.count (Ev.jobCompleted job.id) = (if !job.isOpen && job.hasNoActiveTasks then 1 else 0)) := by
  have hc := run_completed hne h
  have wf := run_wf ops init_wf h
  refine ⟨hc.1, fun job hj => ⟨hc.2 job hj, hasNoActive_iff (wf.jobs job hj)⟩, ?_⟩
  intro ops1 ops2 hsplit
  subst hsplit
  obtain ⟨s1, e1, e2, h1, _, he⟩ := run_append ops1 ops2 h
  exact ⟨s1, e1, e2, h1, he, (run_completed (NoEmptySubmit_append hne) h1).2⟩

/-- non-vacuity of `c13_completed_once`: open job 1, submit tasks 0,1, close (no completion yet: both tasks
are active), start and finish task 0, fail task 1: the run satisfies the hypotheses, `jobCompleted 1` occurs
exactly once and it is the last event. -/
example :
    let ops : List Op := [.openJob none, .submit (some 1) none (.array [⟨0, 2, 1⟩] none), .close 1,
      .started (1, 0) 0 [1] 0, .finished (1, 0), .failed (1, 1) []]
    NoEmptySubmit ops = true ∧
    (run {} ops).toOption.map (fun r => (r.2.count (Ev.jobCompleted 1), r.2.getLast?, r.1.jobs.map (·.isTerminated)))
      = some (1, some (Ev.jobCompleted 1), [true]) := by decide

/-- the hypothesis of `c13_completed_once` is needed: a submit with `entries = Some(0)` and no ids creates
a closed job without tasks; it is terminated but `JobCompleted` is never emitted for it. -/
example :
    (run {} [.submit none none (.array [] (some 0))]).toOption.map
      (fun r => (r.2.count (Ev.jobCompleted 1), r.1.jobs.map (·.isTerminated)))
    = some (0, [true]) := by decide

end HqModel.C13
