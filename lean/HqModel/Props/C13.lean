import HqModel.Lemmas.JobState
import HqModel.Lemmas.IntArray
/-!
# C13 — job bookkeeping: counters match tasks, atomic submits, status rules

Property theorems over the job-layer model `HqModel.Job` (M4). Every theorem quantifies over ALL operation
sequences (client requests open / submit / close / cancel / forget with arbitrary id arrays, entries and
task graphs, interleaved with arbitrary tako callbacks), with no bound on their length.
-/
namespace HqModel.C13
open HqModel.Job

/-- **Counters match tasks.** After every run from the empty server state that does not stop with a panic,
each of the five per-state counters of every job equals the number of the job's tasks in that state, task ids
are unique in the job, the counters never exceed the number of tasks (so the u32 subtraction in
`n_waiting_tasks` cannot underflow) and the derived number of waiting tasks is the number of waiting tasks. -/
theorem c13_counters (ops : List Op) (s : State) (evs : List Ev) (h : run {} ops = .ok (s, evs)) :
    ∀ job ∈ s.jobs,
      (keys job.tasks).Nodup ∧
      job.cnt.running = countS job.tasks .running ∧
      job.cnt.finished = countS job.tasks .finished ∧
      job.cnt.failed = countS job.tasks .failed ∧
      job.cnt.canceled = countS job.tasks .canceled ∧
      job.cnt.aborted = countS job.tasks .aborted ∧
      job.cnt.sum ≤ job.nTasks ∧
      job.nWaiting = countS job.tasks .waiting := by
  intro job hj
  have w := (run_wf ops init_wf h).jobs job hj
  have hs := countS_sum_le job.tasks
  refine ⟨w.nodup, w.running, w.finished, w.failed, w.canceled, w.aborted, ?_, ?_⟩
  · simp only [Counters.sum, Job.nTasks, w.running, w.finished, w.failed, w.canceled, w.aborted]; omega
  · simp only [Job.nWaiting, Counters.sum, Job.nTasks, w.running, w.finished, w.failed, w.canceled, w.aborted]
    omega

/-- the documented rule table for the job state, on the number of tasks per state -/
def statusRule (ts : List (Nat × TState)) (isOpen : Bool) : Status :=
  if countS ts .running > 0 then .running
  else if countS ts .waiting > 0 then .waiting
  else if countS ts .failed > 0 then .failed
  else if countS ts .aborted > 0 then .aborted
  else if countS ts .canceled > 0 then .canceled
  else if isOpen then .opened else .finished

/-- **Job state follows the documented rules** (and `job_status` never hits its final `assert_eq!`)
in every reachable state. -/
theorem c13_status (ops : List Op) (s : State) (evs : List Ev) (h : run {} ops = .ok (s, evs)) :
    ∀ job ∈ s.jobs, job.status = .ok (statusRule job.tasks job.isOpen) := by
  intro job hj
  obtain ⟨_, h1, h2, h3, h4, h5, _, h7⟩ := c13_counters ops s evs h job hj
  have hs := countS_sum_le job.tasks
  unfold Job.status statusRule
  rw [h1, h3, h4, h5, h7, h2]
  by_cases a : countS job.tasks .running > 0
  · simp [a]
  · by_cases b : countS job.tasks .waiting > 0
    · simp [a, b]
    · by_cases c : countS job.tasks .failed > 0
      · simp [a, b, c]
      · by_cases d : countS job.tasks .aborted > 0
        · simp [a, b, c, d]
        · by_cases e : countS job.tasks .canceled > 0
          · simp [a, b, c, d, e]
          · have : countS job.tasks .finished = job.nTasks := by simp only [Job.nTasks]; omega
            simp [a, b, c, d, e, this]

/-- **A rejected submit has no effect**: whenever `submit` answers anything but `Ok` (closed / unknown job,
duplicate id, non-unique id, invalid dependency), the state is unchanged, no event is emitted and nothing is
handed to the scheduler. -/
theorem c13_submit_reject_no_effect (s s' : State) (j mf : Option Nat) (d : TaskDesc) (evs : List Ev)
    (resp : SubmitResp) (core : List TaskId)
    (h : s.submit j mf d = .ok (s', evs, resp, core)) (hr : ∀ jid, resp ≠ .ok jid) :
    s' = s ∧ evs = [] ∧ core = [] := by
  simp only [State.submit] at h
  split at h
  · cases h; exact ⟨rfl, rfl, rfl⟩
  · split at h
    · split at h
      · cases h; exact ⟨rfl, rfl, rfl⟩
      · split at h
        · cases h; exact ⟨rfl, rfl, rfl⟩
        · split at h
          · cases h; exact ⟨rfl, rfl, rfl⟩
          · split at h
            · cases h
            · cases h; exact absurd rfl (hr _)
    · split at h
      · cases h
      · split at h
        · cases h
        · cases h; exact absurd rfl (hr _)

/-- **Auto-assigned ids continue directly after the largest existing id**: for a submit with entries and no
explicit ids into an open job, the ids attached to the job and the ids handed to the scheduler are both
exactly `max+1, …, max+k` for `k` = number of entries (this is the statement that was false before the
`fix:` commit d6e3c5a, see KNOWN_FINDINGS.jsonl). -/
theorem c13_auto_ids (job : Job) (n : Nat) :
    let m := match job.maxId with | some m => m + 1 | none => 0
    (fillIdsOpen job (.array [] (some n))).jobIds = List.range' m n ∧
    (fillIdsOpen job (.array [] (some n))).coreIds = List.range' m n := by
  simp only [fillIdsOpen, List.isEmpty_nil, if_true, TaskDesc.jobIds, TaskDesc.coreIds, fromRange_iter]
  refine ⟨rfl, ?_⟩
  exact List.take_of_length_le (by simp)

/-- the same for a single auto-assigned id (no entries) -/
theorem c13_auto_id_single (job : Job) :
    let m := match job.maxId with | some m => m + 1 | none => 0
    (fillIdsOpen job (.array [] none)).jobIds = [m] ∧ (fillIdsOpen job (.array [] none)).coreIds = [m] := by
  simp only [fillIdsOpen, List.isEmpty_nil, if_true, TaskDesc.jobIds, TaskDesc.coreIds, fromId_iter]
  exact ⟨rfl, rfl⟩

/-! ### non-vacuity: a concrete non-trivial run satisfies the hypotheses -/

/-- open job 1, submit tasks 0,1 into it, start and finish task 0, fail task 1, close: no panic,
and the theorems above apply to the resulting state (counters 0,1,1,0,0). -/
example :
    (run {} [.openJob none, .submit (some 1) none (.array [⟨0, 2, 1⟩] none),
             .started (1, 0) 0 [1] 0, .finished (1, 0), .failed (1, 1) [], .close 1]).toOption.map
      (fun r => r.1.jobs.map fun j => (j.cnt.running, j.cnt.finished, j.cnt.failed, j.isOpen, j.tasks.length))
    = some [(0, 1, 1, false, 2)] := by decide

example : (State.submit {} (some 7) none (.array [⟨0, 1, 1⟩] none)).toOption.map (fun r => r.2.2.1)
    = some SubmitResp.jobNotFound := by decide

end HqModel.C13
