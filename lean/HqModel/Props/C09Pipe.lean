import HqModel.Lemmas.CoreNoPanicPipeRun
import HqModel.Props.C09Compose
/-!
# C09 — no reachable panic, COMPOSED, **Stage 4b**: the worker protocol `UpdNP` is a THEOREM of the composition

Stage 4 (`Props/C09Compose.lean`, `sysw_never_stops_partial`) proves that a run of `SysW` (job layer M4 × core M1 × one
worker model M2 per worker + FIFO queues) never stops with a panic of the job layer or of the core UNDER the lifted
hypothesis `OpNPc`; for the delivery of a `TaskUpdate` batch that hypothesis contains the worker protocol
`Core.UpdatesOk Core.UpdNP` — what the `assert!` / `unreachable!` of the core's update handlers demand of a message of
worker `w`, judged in the state in which the reactor processes it. This file removes it, up to `RunIdx`:

`Core.UpdNP c w u ↔ Core.UpdNPw c w u ∧ Core.UpdRunIdx c w u` (`Core.updNP_iff`), and

* **`sysw_upd_npw`** — for every run `run (initState r m) ops = .ok (s, outs)` with `RunOk (initState r m) ops` (NO
  other hypothesis: neither `RunNPc` nor anything about what workers send) and every worker record `x` whose queue
  starts with `.updates us`: `Core.UpdatesOk Core.UpdNPw s.sys.core x.id us rets` — every update of the batch, in the
  state in which the reactor processes it: the worker record exists in the core; `Running t rv`: `t` unknown /
  Assigned to `x.id` WITH VARIANT `rv` / Prefilled on / Retracting from `x.id` / multi-node root `x.id` — never Waiting /
  Running / Finished (`task_running.unreachable`, `.assert_worker`, `.assert_variant`, `.assert_root`); `Finished t`:
  unknown / Running on `x.id` / multi-node root `x.id`; `Failed t`: unknown / held by `x.id`; `Reject t`: unknown /
  Assigned / Prefilled on `x.id` / Retracting / multi-node — never Waiting / Running / Finished
  (`task_reject.unreachable`).
* `UpdRunIdx` (a `Running` about a Prefilled / Retracting task names a variant that exists and uses only resource
  slots the worker has) is NOT derivable — M2 does not model resource vectors — and stays a hypothesis.
* **`sysw_never_stops_pipe`**, **`sysw_run_never_stops_pipe`** — `sysw_never_stops_partial` /
  `sysw_run_never_stops_partial` with the hypothesis weakened to `OpNPc2` / `RunNPc2`: for `deliverW2S` of a batch only
  `UpdatesOk UpdRunIdx`, `RetsOk rets` and the F27 exclusion `UpdatesOk NoF27` remain; all other actions unchanged.

How: `PipeOk` of the pipeline invariant `WInv` allows ANYTHING in a `hot` view, and `hot` lumps "the core forgot the
task" (every message is ignored) together with "Running on this worker" (a second `run`, or a `rej`, panics). The
strengthened invariant `NPP.WInv2 = WInv ∧ NPP.XInv` (`Lemmas/CoreNoPanicPipeStep.lean`) adds, per worker record `x`
and task `t` (`NPP.PX`, exposed by `sysw_pipeline2`):
* `known` — the core knows every worker that has a record;
* `run` — if the core has `t` Running on `x.id`: no `ComputeTasks` item for `t` is in `x.s2w`, the pending events
  `pend t x.w2s` contain no `run` and no `rej` (`Calm`), and `t` is in no backlog of `x.w` (`NB` — so M2 emits neither a
  `Running` nor a reject about it again: those come only from `try_start_task` of a compute item or of a backlog
  entry, and from the backlog rejects of the retract check);
* `head` — if the pending events start with `run rv'` while the view is `asg rv` / `pre` (the `run` is still in the
  queue): the rest is `Calm`, `t` is in no backlog, and `rv' = rv` in an `asg rv` view.
It is inductive for all seven world actions (`NPP.step_inv2`): worker steps by four new M2 lemmas
(`Lemmas/CoreNoPanicPipeM2.lean`: `step_nb`, `step_asg_run`, `step_pre_run`, `step_back_run`), server actions by
`Foreign` / `Own` (existing) plus `RunKeep` / `RunOwn` (`Lemmas/CoreNoPanicPipeSrv.lean`: a task Running on `w`
afterwards was Running on `w` before and nothing was sent to `w` for it — from the frame `Fr` of
`Lemmas/SysCoreFrame*.lean` and the forward specifications of the four places that send `ComputeTasks`; only
`task_running` creates a Running state, from Assigned / Prefilled / Retracting AT THE REPORTER), the worker records by
`WKeys` (`Lemmas/CoreNoPanicPipeWk*.lean`: no core function except `on_remove_worker` drops a worker record).

No clause of `UpdNPw` is FALSE of the composed model: M2 sends `Running` once per launch, with the variant of the
item (assigned) or of the triggering task (prefill loop), and rejects only tasks it has not started — no witness, no
finding about M2 here.

**Status: everything stated in this file is proved** (axioms ⊆ {propext, Classical.choice, Quot.sound}).
-/
namespace HqModel.SysW
open HqModel

/-- **the strengthened pipeline invariant holds in every reachable state** (only `RunOk`) -/
theorem sysw_inv2 (reserve max : Nat) (ops : List Op) (s : State) (outs : List Out)
    (hok : RunOk (initState reserve max) ops) (h : run (initState reserve max) ops = .ok (s, outs)) : NPP.WInv2 s :=
  NPP.run_winv2 ops (NPP.winv2_init reserve max) hok h

/-- the core knows every worker that has a record (its messages are never delivered for an unknown worker:
`get_worker` cannot fail in `task_reject` / `request_enabled`) -/
theorem sysw_worker_known (reserve max : Nat) (ops : List Op) (s : State) (outs : List Out)
    (hok : RunOk (initState reserve max) ops) (h : run (initState reserve max) ops = .ok (s, outs))
    (x : WState) (hx : x ∈ s.workers) : (s.sys.core.worker? x.id).isSome = true :=
  (sysw_inv2 reserve max ops s outs hok h).xinv.known x hx

/-- **the extra pipeline invariant, exposed**: for a worker record `x` and a task `t`,
(1) if the core has `t` Running on `x.id`: no `ComputeTasks` item for `t` is on its way to the worker, the pending
events about `t` contain neither a `run` nor a `rej`, and `t` is in no backlog of the worker;
(2) if the pending events start with `run rv'` and the core has not processed it yet (view `asg rv` / `pre`): the rest
is calm, `t` is in no backlog, and `rv' = rv` when the task is Assigned with `rv`. -/
theorem sysw_pipeline2 (reserve max : Nat) (ops : List Op) (s : State) (outs : List Out)
    (hok : RunOk (initState reserve max) ops) (h : run (initState reserve max) ops = .ok (s, outs))
    (x : WState) (hx : x ∈ s.workers) (t : TaskId) :
    ((∃ rv, Core.stOf s.sys.core.tasks t = some (.running x.id rv)) →
      comps t x.s2w = [] ∧ NPP.Calm (pend t x.w2s) ∧ NPP.NB x.w (enc t)) ∧
    (∀ rv' rest, pend t x.w2s = .run rv' :: rest →
      (view s.sys.core x.id t = .pre ∨ ∃ rv, view s.sys.core x.id t = .asg rv) →
      NPP.Calm rest ∧ NPP.NB x.w (enc t) ∧ ∀ rv, view s.sys.core x.id t = .asg rv → rv' = rv) :=
  let p := (sysw_inv2 reserve max ops s outs hok h).xinv.pipe x hx t
  ⟨p.run, p.head⟩

/-- **`sysw_upd_npw`** (C09, worker protocol from the composition) — for every run of `SysW` from the empty state
whose actions satisfy the input-only side conditions `RunOk`, every `TaskUpdate` batch `us` at the head of the queue of
a worker `w` satisfies `Core.UpdatesOk Core.UpdNPw` when it is delivered: every update, in the state in which the
reactor processes it, satisfies `UpdNP` up to its `RunIdx` conjuncts. -/
theorem sysw_upd_npw (reserve max : Nat) (ops : List Op) (s : State) (outs : List Out)
    (hok : RunOk (initState reserve max) ops) (h : run (initState reserve max) ops = .ok (s, outs))
    (w : Nat) (x : WState) (us : List Core.Update) (rest : List W2S) (rets : List (List TaskId))
    (hf : findW s.workers w = some x) (hq : x.w2s = .updates us :: rest) :
    Core.UpdatesOk Core.UpdNPw s.sys.core w us rets :=
  let hi := sysw_inv2 reserve max ops s outs hok h
  NPP.deliver_updNPw hi.winv hi.xinv hf hq rets

/-- the same for a worker RECORD -/
theorem sysw_upd_npw_rec (reserve max : Nat) (ops : List Op) (s : State) (outs : List Out)
    (hok : RunOk (initState reserve max) ops) (h : run (initState reserve max) ops = .ok (s, outs))
    (x : WState) (hx : x ∈ s.workers) (us : List Core.Update) (rest : List W2S) (rets : List (List TaskId))
    (hq : x.w2s = .updates us :: rest) : Core.UpdatesOk Core.UpdNPw s.sys.core x.id us rets :=
  sysw_upd_npw reserve max ops s outs hok h x.id x us rest rets
    (NPP.findW_of_mem (sysw_inv2 reserve max ops s outs hok h).winv.nodup hx) hq

/-- the first update of the batch, spelled out -/
theorem sysw_upd_npw_head (reserve max : Nat) (ops : List Op) (s : State) (outs : List Out)
    (hok : RunOk (initState reserve max) ops) (h : run (initState reserve max) ops = .ok (s, outs))
    (w : Nat) (x : WState) (u : Core.Update) (us : List Core.Update) (rest : List W2S)
    (hf : findW s.workers w = some x) (hq : x.w2s = .updates (u :: us) :: rest) : Core.UpdNPw s.sys.core w u :=
  (sysw_upd_npw reserve max ops s outs hok h w x (u :: us) rest [] hf hq).1

/-- **the full worker protocol `UpdNP`** of a delivered batch, from its `RunIdx` part alone -/
theorem sysw_upd_np (reserve max : Nat) (ops : List Op) (s : State) (outs : List Out)
    (hok : RunOk (initState reserve max) ops) (h : run (initState reserve max) ops = .ok (s, outs))
    (w : Nat) (x : WState) (us : List Core.Update) (rest : List W2S) (rets : List (List TaskId))
    (hf : findW s.workers w = some x) (hq : x.w2s = .updates us :: rest)
    (hidx : Core.UpdatesOk Core.UpdRunIdx s.sys.core w us rets) : Core.UpdatesOk Core.UpdNP s.sys.core w us rets :=
  (Core.updatesOk_updNP_iff _ _ _ _).mpr ⟨sysw_upd_npw reserve max ops s outs hok h w x us rest rets hf hq, hidx⟩

/-- the weakened hypothesis implies the hypothesis of Stage 4 along every run (and is implied by it) -/
theorem sysw_runNPc_of_runNPc2 (reserve max : Nat) (ops : List Op) (hok : RunOk (initState reserve max) ops)
    (hnp : RunNPc2 (initState reserve max) ops) : RunNPc (initState reserve max) ops :=
  NPP.runNPc_of_runNPc2 ops (NPP.winv2_init reserve max) hok hnp

/-- **the progress invariant of the core holds in every reachable state of `SysW`** under the weakened hypothesis -/
theorem sysw_core_good_pipe (reserve max : Nat) (ops : List Op) (s : State) (outs : List Out)
    (hok : RunOk (initState reserve max) ops) (hnp : RunNPc2 (initState reserve max) ops)
    (h : run (initState reserve max) ops = .ok (s, outs)) :
    ∃ U, Core.CoreGood U s.sys.core ∧ Job.StateWF s.sys.job ∧ ∀ x ∈ U, Sys.NPX.Known s.sys.job x :=
  sysw_core_good reserve max ops s outs hok (sysw_runNPc_of_runNPc2 reserve max ops hok hnp) h

/-- **`sysw_never_stops_pipe`** (C09, composed with the workers, Stage 4b), per step — `sysw_never_stops_partial` with
the hypothesis WEAKENED to `OpNPc2` / `RunNPc2`: in every reachable state of `SysW` (a run from `initState reserve max`
whose actions satisfy `RunOk` and `RunNPc2`), a world action satisfying `OpOk s op ∧ OpNPc2 s op` never stops with
`.sys (.job _)`, and never with `.sys (.core site)` for a site of the code.

For the delivery of the `TaskUpdate` batch `us` at the head of worker `w`'s queue, `OpNPc2` is
`UpdatesOk UpdRunIdx c w us rets ∧ RetsOk rets ∧ UpdatesOk NoF27 c w us rets` — the worker protocol
`UpdatesOk UpdNP` of Stage 4 is reduced to its `RunIdx` part (the rest, `UpdNPw`, is `sysw_upd_npw`). For every other
action `OpNPc2 = OpNPc`: fresh / known worker id, `RetsOk`, `NewTasksOk`, duplicate-free cancel list, `SolOk`.
Still PARTIAL in that sense only (those are input conditions of the composition, F27 is a known finding). -/
theorem sysw_never_stops_pipe (reserve max : Nat) (ops : List Op) (s : State) (outs : List Out)
    (hok : RunOk (initState reserve max) ops) (hnp : RunNPc2 (initState reserve max) ops)
    (h : run (initState reserve max) ops = .ok (s, outs)) (op : Op) (hop : OpOk s op) (hopnp : OpNPc2 s op) :
    (∀ site, step s op ≠ .error (.sys (.job site))) ∧
    ∀ site, step s op = .error (.sys (.core site)) → site.startsWith "!" = true :=
  sysw_never_stops_partial reserve max ops s outs hok (sysw_runNPc_of_runNPc2 reserve max ops hok hnp) h op hop
    (NPP.opNPc_of_opNPc2 (sysw_inv2 reserve max ops s outs hok h) hopnp)

/-- **`sysw_run_never_stops_pipe`**, run form — a run of `SysW` from `initState reserve max` whose actions satisfy
`RunOk ∧ RunNPc2` never stops with `.sys (.job _)` and never with `.sys (.core site)` for a non-`!` site. -/
theorem sysw_run_never_stops_pipe (reserve max : Nat) (ops : List Op)
    (hok : RunOk (initState reserve max) ops) (hnp : RunNPc2 (initState reserve max) ops) :
    (∀ site, run (initState reserve max) ops ≠ .error (.sys (.job site))) ∧
    ∀ site, run (initState reserve max) ops = .error (.sys (.core site)) → site.startsWith "!" = true :=
  sysw_run_never_stops_partial reserve max ops hok (sysw_runNPc_of_runNPc2 reserve max ops hok hnp)

/-! ### non-vacuity (all `decide`) -/

section examples

private def stopOf {α : Type} : Except Stop α → Bool
  | .error _ => true
  | .ok _ => false

private def rq1 : Core.Rqv := [{ entries := [⟨0, .amount 5000⟩] }]
private def wkr (id : Nat) : Core.Worker := { id := id, assign := .sn [] [10000] [], total := [10000] }
private def ntk (j : Nat) : Core.NewTask := { id := (1, j), rq := 0, prio := 0, crashLimit := .max 5, deps := [] }

/-- the witnesses of `Props/C09Compose.lean`: the life of one task through the queues -/
private def opsLife : List Op := [
  .srv (.newRq rq1), .addWorker (wkr 1) [[0]] none,
  .srv (.submit none none (.array [⟨0, 1, 1⟩] none) [ntk 0]),
  .srv (.schedule { now := 10, sn := [{ rq := 0, v := 0, counts := [(1, 1)], taken := [(1, 0)] }] }),
  .deliverS2W 1 [{ rq := 0, alloc := some 7 }],
  .deliverW2S 1 [],
  .wlocal 1 (.taskEnd (enc (1, 0)) .finished []),
  .deliverW2S 1 []]

/-- cancel overtakes the worker: `Running`, `Finished` delivered to a core that forgot the task -/
private def opsCancelRace : List Op := [
  .srv (.newRq rq1), .addWorker (wkr 1) [[0]] none,
  .srv (.submit none none (.array [⟨0, 1, 1⟩] none) [ntk 0]),
  .srv (.schedule { now := 10, sn := [{ rq := 0, v := 0, counts := [(1, 1)], taken := [(1, 0)] }] }),
  .deliverS2W 1 [{ rq := 0, alloc := some 7 }],
  .srv (.cancel 1 [(1, 0)]),
  .wlocal 1 (.taskEnd (enc (1, 0)) .finished []),
  .deliverW2S 1 [], .deliverW2S 1 [], .deliverS2W 1 []]

/-- the retract comes too late: `RunningPrefilled` for a Retracting task (the `RunIdx` hypothesis is used here) -/
private def opsRetractRace : List Op := [
  .srv (.newRq rq1), .addWorker (wkr 1) [[0]] none, .addWorker (wkr 2) [[0]] none,
  .srv (.submit none none (.array [⟨0, 3, 1⟩] none) [ntk 0, ntk 1, ntk 2]),
  .srv (.schedule { sn := [{ rq := 0, v := 0, counts := [(1, 1)], taken := [(1, 0)] }], prefillOrders := [(0, [1])] }),
  .srv (.schedule { sn := [{ rq := 0, v := 0, counts := [(2, 2)], taken := [(1, 2), (1, 1)] }] }),
  .deliverS2W 1 [{ rq := 0 }, { rq := 0, alloc := some 1 }],
  .wlocal 1 (.taskEnd (enc (1, 0)) .finished []),
  .deliverS2W 1 [],
  .deliverW2S 1 [], .deliverW2S 1 [], .deliverW2S 1 []]

/-- the worker is lost with three messages in flight -/
private def opsLost : List Op :=
  opsRetractRace.take 8 ++ [.loseWorker 1 "lost" true [(1, 0)] [], .srv (.schedule { sn := [] })]

example : RunOk {} opsLife ∧ RunNPc2 {} opsLife ∧ stopOf (run {} opsLife) = false := by decide
example : RunOk {} opsCancelRace ∧ RunNPc2 {} opsCancelRace ∧ stopOf (run {} opsCancelRace) = false := by decide
example : RunOk {} opsRetractRace ∧ RunNPc2 {} opsRetractRace ∧ stopOf (run {} opsRetractRace) = false := by decide
example : RunOk {} opsLost ∧ RunNPc2 {} opsLost ∧ stopOf (run {} opsLost) = false := by decide

/-- `UpdNPw` is decidable by kernel reduction, and true of the batch `[Finished, RunningPrefilled]` at the head of
worker 1's queue in the retract race (state after 10 actions) — as `sysw_upd_npw` says -/
example :
    (match run {} (opsRetractRace.take 10) with
     | .ok (s, _) =>
       (match findW s.workers 1 with
        | some x =>
          (match x.w2s with
           | .updates us :: _ => decide (us.length = 2 ∧ Core.UpdatesOk Core.UpdNPw s.sys.core 1 us [])
           | _ => false)
        | none => false)
     | .error _ => false) = true := by decide

/-- `UpdNPw` is not vacuous: a `Running` about a task that is already Running on the reporter violates it (this is
what the composition excludes) -/
example :
    (match run {} (opsLife.take 6) with
     | .ok (s, _) => decide (¬ Core.UpdNPw s.sys.core 1 (.running (1, 0) 0) ∧ ¬ Core.UpdNPw s.sys.core 1 (.reject (1, 0) none)
         ∧ Core.UpdNPw s.sys.core 1 (.finished (1, 0)) ∧ ¬ Core.UpdNPw s.sys.core 2 (.finished (1, 0)))
     | .error _ => false) = true := by decide

end examples

end HqModel.SysW
