import HqModel.Lemmas.CoreNoPanicSysW
/-!
# C09 — no reachable panic, COMPOSED (stage 4): in the composed systems a run never stops with a panic of EITHER layer

`Props/Sys.lean` / `Props/SysW.lean` prove that the composed systems `Sys` (job layer M4 on the core M1) and `SysW`
(+ one worker model M2 per worker, FIFO queues) never stop in the JOB layer (`Stop.job`); they explicitly do not
exclude `Stop.core` (a panic site of the core). `Props/C09Core.lean` proves that the core alone never panics, under
side conditions on its operations. This file composes the two: in every reachable state of `Sys` / `SysW`, a step
whose action satisfies the side conditions stops neither with `Stop.job _` nor with `Stop.core site` for a site of the
CODE (a `site` starting with `!` is the core's refusal of an invalid RECORDED input — solver answer, hash-order pick
—, `!bad-choice …`; it is not a panic of the server).

**Status: PARTIAL by design (`_partial`); everything stated below is proved, nothing is left open in this file.**

| | statement | status |
|---|---|---|
| `Sys.sys_core_good` | in every reachable state of `Sys`: `Core.CoreGood U s.core` for a ghost `U`, `U` ⊆ ids known to M4 | proved |
| `Sys.sys_no_core_panic_partial` | per step: `Sys.step s op = .error (.core site)` ⇒ `site` starts with `!` | proved |
| `Sys.sys_never_panics_partial` | per step: neither `Stop.job _` nor a non-`!` `Stop.core` | proved |
| `Sys.sys_run_never_panics_partial` | run form | proved |
| `SysW.sysw_core_good` | the same invariant in every reachable state of `SysW` | proved |
| `SysW.sysw_never_stops_partial` | per step: neither `.sys (.job _)` nor a non-`!` `.sys (.core site)` | proved |
| `SysW.sysw_run_never_stops_partial` | run form | proved |
| non-vacuity | `RunOk ∧ RunNPc` by `decide` on witness runs of both systems, all ending without a stop | proved |

**What is derived from the composition** (not a hypothesis any more):
* `Core.OpOk2q` — from `Sys.OpOk` (`opOk2_of_opOk`); in `SysW` its worker-protocol part (`UpdProto` / `RejectOk`, and
  `FinProto` for the job layer) is itself a theorem (`sysw_fin_proto`);
* **`NoIdReuse`** ("no task id is submitted twice", a hypothesis of `c09_core_run_no_panic`): in `Sys` it is a THEOREM
  about M4 — `Lemmas/CoreNoPanicSysJob.lean`: every id handed to the core stays `Known` to the job layer (its job id
  is below the job counter and, while the job is stored, the task id is a key of its table; `JGrow`: preserved by
  every M4 operation), and an accepted submit hands out only unknown, pairwise distinct ids (`submit_fresh`:
  `attach_submit` succeeded; a new job gets the counter value). So the ghost list `U` of `Core.CoreGood` is threaded
  through the composed run with freshness proved at every submit (`GoodU`). (The `submitted` clause of `SysW.OpOk` is
  still used by the `SysW` pipeline invariant `WInv`, not by this part.)
* the initial state `initState reserve max` satisfies `CoreGood []` for all parameters.

**What is a HYPOTHESIS here** (`OpNPc`, decidable, evaluated per step on the pre-state like `OpOk`; `RunNPc` = on the
pre-state of every action): for the core operation `cop` the step actually hands to `Core.step s.core`
(`Sys.coreOpOf s op`, mirroring `Sys.step`: none for `openJob` / `close` / `forget`, a refused or empty `submit`, a
`cancel` naming no task, and for the `badSubmit` / `badCancel` inputs), `Core.OpNP s.core cop ∧ Core.OpExcl s.core cop`:
* `newWorker`: the worker id is new to the core; `removeWorker`: the worker is known, `RetsOk rets`;
* `submit`: `NewTasksOk` (request ids in range, no dependency named twice; non-emptiness is automatic);
* `cancel`: `ids.Nodup`;
* `update w us rets`: the WORKER PROTOCOL `UpdatesOk UpdNP` (per update, in the state in which the reactor processes
  it) and `RetsOk rets`, and the EXCLUSION of the known finding F27 (`UpdatesOk NoF27`);
* `schedule sol`: `SolOk` (what solver + `take_tasks` guarantee about the recorded solution).
In `SysW` the `update` of a `deliverW2S` is the batch at the head of the worker's queue, so `UpdNP` / `NoF27` there are
statements about what the worker model M2 sent. `sysw_fin_proto` proves the analogous facts for `Finished` (`FinProto`)
and `Reject` (`RejectOk`) from the pipeline invariant; the `Running` / `Failed` clauses of `UpdNP` (reporting worker =
holder, variant hostable) are NOT yet derived from it — they are the worker-protocol hypothesis of this file.
`RetsOk`, `ids.Nodup` and `NewTasksOk.deps.Nodup` would follow from `route` / `ntsOk` only up to `sameSet` (the real
lists are hash-ordered SETS; `sameSet` does not exclude a repetition in the recorded list), so they stay input
conditions of the world action.

**Which `Stop`s remain possible** (none is a panic of the server code):
* `Sys`: `Stop.core "!…"` (refusal of an invalid recorded choice), `badRets`, `badSubmit`, `badCancel` (the world
  action's `rets` / `NewTask` list / cancel list is not what the job layer computed: a wrong INPUT of the composition);
* `SysW`: `.sys` of those four; `worker w e` (a stop of the worker model M2: its own panic sites / `badChoice` —
  M2's C09 is a separate property); `notAllowed` (a `Sys` / M2 operation issued through the wrong world action),
  `noWorker`, `emptyQueue` (delivery for an unknown worker / from an empty queue), `badInput` (a worker id added
  twice, wrong number of `Extra`s): wrong inputs of the composition.
-/
namespace HqModel.Sys
open HqModel

/-- **the progress invariant of the core holds in every reachable state of `Sys`**: for a ghost list `U` (the ids
handed to the core so far, `NPX.runIds`), `Core.CoreGood U s.core`; the job layer is well-formed and still knows every
id of `U` (which is why no id can be handed out twice). -/
theorem sys_core_good (reserve max : Nat) (ops : List Op) (s : State) (outs : List Out)
    (hok : RunOk (initState reserve max) ops) (hnp : RunNPc (initState reserve max) ops)
    (h : run (initState reserve max) ops = .ok (s, outs)) :
    ∃ U, Core.CoreGood U s.core ∧ Job.StateWF s.job ∧ ∀ x ∈ U, NPX.Known s.job x := by
  have := NPX.run_good ops (NPX.goodU_initState reserve max) hok hnp h
  exact ⟨_, this.core, this.wf, this.known⟩

/-- **`sys_no_core_panic_partial`** (C09, composed, core layer) — in every reachable state of `Sys` (a run from
`initState reserve max` whose actions satisfy `RunOk` and the lifted input conditions `RunNPc`), for every world
action `op` with `OpOk s op` and `OpNPc s op`: if `Sys.step s op` stops in the core, the site is a `!…` refusal of an
invalid recorded input — never a panic site of the code. PARTIAL: `OpNPc` (the core's new input conditions incl. the
worker protocol `UpdNP`, and the exclusion of F27) is a hypothesis, not derived from the composition. -/
theorem sys_no_core_panic_partial (reserve max : Nat) (ops : List Op) (s : State) (outs : List Out)
    (hok : RunOk (initState reserve max) ops) (hnp : RunNPc (initState reserve max) ops)
    (h : run (initState reserve max) ops = .ok (s, outs)) (op : Op) (hop : OpOk s op) (hopnp : OpNPc s op)
    (site : String) : step s op = .error (.core site) → site.startsWith "!" = true :=
  NPX.good_no_core_panic (NPX.run_good ops (NPX.goodU_initState reserve max) hok hnp h) hop hopnp site

/-- **no step of `Sys` panics in either layer** (`sys_no_job_panic` + `sys_no_core_panic_partial`): in every reachable
state, a world action satisfying `OpOk ∧ OpNPc` stops neither with `Stop.job _` nor with `Stop.core site` for a site of
the code. Remaining stops: `Stop.core "!…"`, `badRets`, `badSubmit`, `badCancel` (wrong inputs of the composition). -/
theorem sys_never_panics_partial (reserve max : Nat) (ops : List Op) (s : State) (outs : List Out)
    (hok : RunOk (initState reserve max) ops) (hnp : RunNPc (initState reserve max) ops)
    (h : run (initState reserve max) ops = .ok (s, outs)) (op : Op) (hop : OpOk s op) (hopnp : OpNPc s op) :
    (∀ site, step s op ≠ .error (.job site)) ∧
    ∀ site, step s op = .error (.core site) → site.startsWith "!" = true :=
  ⟨sys_no_job_panic reserve max ops s outs hok h op hop,
   sys_no_core_panic_partial reserve max ops s outs hok hnp h op hop hopnp⟩

/-- **`sys_run_never_panics_partial`** — a run of `Sys` from `initState reserve max` whose actions satisfy
`RunOk ∧ RunNPc` never stops with a panic of EITHER layer: not with `Stop.job _`, and with `Stop.core site` only for a
`!…` refusal. -/
theorem sys_run_never_panics_partial (reserve max : Nat) (ops : List Op)
    (hok : RunOk (initState reserve max) ops) (hnp : RunNPc (initState reserve max) ops) :
    (∀ site, run (initState reserve max) ops ≠ .error (.job site)) ∧
    ∀ site, run (initState reserve max) ops = .error (.core site) → site.startsWith "!" = true :=
  ⟨sys_run_no_job_panic reserve max ops hok,
   NPX.run_no_core_panic ops (NPX.goodU_initState reserve max) hok hnp⟩

end HqModel.Sys

namespace HqModel.SysW
open HqModel

/-- **the progress invariant of the core holds in every reachable state of `SysW`** -/
theorem sysw_core_good (reserve max : Nat) (ops : List Op) (s : State) (outs : List Out)
    (hok : RunOk (initState reserve max) ops) (hnp : RunNPc (initState reserve max) ops)
    (h : run (initState reserve max) ops = .ok (s, outs)) :
    ∃ U, Core.CoreGood U s.sys.core ∧ Job.StateWF s.sys.job ∧ ∀ x ∈ U, Sys.NPX.Known s.sys.job x := by
  obtain ⟨U, hg⟩ := (NPX.run_wgood ops (NPX.wgood_init reserve max) hok hnp h).good
  exact ⟨U, hg.core, hg.wf, hg.known⟩

/-- **`sysw_never_stops_partial`** (C09, composed with the workers), per step — in every reachable state of `SysW` (a
run from `initState reserve max` whose actions satisfy `RunOk` and `RunNPc`), a world action satisfying
`OpOk s op ∧ OpNPc s op` — in particular the delivery of the message at the head of a worker's queue — never stops
with `.sys (.job _)`, and never with `.sys (.core site)` for a site of the code (`site` starts with `!` otherwise: a
refusal of an invalid recorded choice).

Other `Stop`s remain possible and are not panics of the server: `.sys (.core "!…")`, `.sys badRets / badSubmit /
badCancel`, `worker w e` (the worker model's own stops), `notAllowed`, `noWorker`, `emptyQueue`, `badInput` (wrong
inputs of the composition).

PARTIAL: `OpNPc` is a hypothesis. Its `update` part for a `deliverW2S` (the worker protocol `UpdatesOk UpdNP`, the F27
exclusion `UpdatesOk NoF27`) speaks about the batch the worker model sent; `sysw_fin_proto` proves the corresponding
facts for `Finished` / `Reject` from the pipeline invariant, the `Running` / `Failed` clauses of `UpdNP` are not yet
derived from it. `OpOk` contains NO worker-protocol condition (`FinProto`, `UpdProto` are theorems in `SysW`). -/
theorem sysw_never_stops_partial (reserve max : Nat) (ops : List Op) (s : State) (outs : List Out)
    (hok : RunOk (initState reserve max) ops) (hnp : RunNPc (initState reserve max) ops)
    (h : run (initState reserve max) ops = .ok (s, outs)) (op : Op) (hop : OpOk s op) (hopnp : OpNPc s op) :
    (∀ site, step s op ≠ .error (.sys (.job site))) ∧
    ∀ site, step s op = .error (.sys (.core site)) → site.startsWith "!" = true :=
  ⟨sysw_no_job_panic reserve max ops s outs hok h op hop,
   NPX.wgood_no_core_panic (NPX.run_wgood ops (NPX.wgood_init reserve max) hok hnp h) hop hopnp⟩

/-- **`sysw_run_never_stops_partial`**, run form — a run of `SysW` from `initState reserve max` whose actions satisfy
`RunOk ∧ RunNPc` never stops with `.sys (.job _)` and never with `.sys (.core site)` for a non-`!` site: no panic of
the server in either layer. (Remaining stops and the partiality: see `sysw_never_stops_partial`.) -/
theorem sysw_run_never_stops_partial (reserve max : Nat) (ops : List Op)
    (hok : RunOk (initState reserve max) ops) (hnp : RunNPc (initState reserve max) ops) :
    (∀ site, run (initState reserve max) ops ≠ .error (.sys (.job site))) ∧
    ∀ site, run (initState reserve max) ops = .error (.sys (.core site)) → site.startsWith "!" = true :=
  ⟨sysw_run_no_job_panic reserve max ops hok,
   NPX.run_no_core_panic ops (NPX.wgood_init reserve max) hok hnp⟩

end HqModel.SysW

/-! ### non-vacuity: the hypotheses are satisfiable on non-trivial runs (all `decide`) -/

namespace HqModel.Sys
section examples

private def stopOf {α : Type} : Except Stop α → Option Stop
  | .error e => some e
  | .ok _ => none

private def rq1 : Core.Rqv := [{ nNodes := 0, entries := [{ res := 0, pol := .amount 10000 }] }]
private def wk1 : Core.Worker := { id := 1, assign := .sn [] [40000] [], total := [40000] }
private def nt (j t : Nat) (deps : List TaskId := []) (cl : Core.CrashLimit := .max 5) : Core.NewTask :=
  { id := (j, t), rq := 0, prio := 0, crashLimit := cl, deps := deps }

/-- the witnesses of `Props/Sys.lean`: a failing task with `max_fails = 0` (consumer reported, remaining task
returned by the job layer and cancelled by the core) -/
private def opsFail : List Op := [
  .newRq rq1, .newWorker wk1,
  .submit none (some 0) (.graph [(0, []), (1, [0]), (2, [])]) [nt 1 0, nt 1 1 [(1, 0)], nt 1 2],
  .schedule { now := 10, sn := [{ rq := 0, v := 0, counts := [(1, 2)], taken := [(1, 0), (1, 2)] }] },
  .update 1 [.running (1, 0) 0] [],
  .update 1 [.failed (1, 0)] [[(1, 2)]]]

/-- a worker lost under two running tasks (crash loop with a never-restart task) -/
private def opsLost : List Op := [
  .newRq rq1, .newWorker wk1,
  .submit none none (.graph [(0, []), (1, [0]), (2, [])]) [nt 1 0 [] .never, nt 1 1 [(1, 0)], nt 1 2],
  .schedule { now := 10, sn := [{ rq := 0, v := 0, counts := [(1, 2)], taken := [(1, 0), (1, 2)] }] },
  .update 1 [.running (1, 0) 0, .running (1, 2) 0] [],
  .removeWorker 1 "lost" true [(1, 0), (1, 2)] [[]]]

/-- a cancel after a finish -/
private def opsCancel : List Op := [
  .newRq rq1, .newWorker wk1,
  .submit none none (.array [⟨0, 3, 1⟩] none) [nt 1 0, nt 1 1, nt 1 2],
  .schedule { now := 10, sn := [{ rq := 0, v := 0, counts := [(1, 2)], taken := [(1, 0), (1, 1)] }] },
  .update 1 [.running (1, 0) 0, .finished (1, 0)] [],
  .cancel 1 [(1, 2), (1, 1)]]

example : RunOk {} opsFail ∧ RunNPc {} opsFail ∧ stopOf (run {} opsFail) = none := by decide
example : RunOk {} opsLost ∧ RunNPc {} opsLost ∧ stopOf (run {} opsLost) = none := by decide
example : RunOk {} opsCancel ∧ RunNPc {} opsCancel ∧ stopOf (run {} opsCancel) = none := by decide

/-- the lifted condition is not vacuous: a second worker with the id of the first violates `OpNPc` (`Core.OpNP`:
the worker id is new to the core) -/
example : ¬ RunNPc {} [.newWorker wk1, .newWorker wk1] := by decide

/-- `coreOpOf` follows `Sys.step`: a refused submit (unknown job) reaches the core with nothing — `OpNPc` is `True`
although the `NewTask` list names a request that does not exist -/
example : coreOpOf {} (.submit (some 7) none (.array [⟨0, 1, 1⟩] none) [nt 7 0]) = none ∧
    OpNPc {} (.submit (some 7) none (.array [⟨0, 1, 1⟩] none) [nt 7 0]) := by decide

/-- … while an accepted one must satisfy `NewTasksOk` (here: request 0 does not exist yet) -/
example : ¬ OpNPc {} (.submit none none (.array [⟨0, 1, 1⟩] none) [nt 1 0]) := by decide

end examples
end HqModel.Sys

namespace HqModel.SysW
section examples

private def stopOf {α : Type} : Except Stop α → Bool
  | .error _ => true
  | .ok _ => false

private def rq1 : Core.Rqv := [{ entries := [⟨0, .amount 5000⟩] }]
private def wkr (id : Nat) : Core.Worker := { id := id, assign := .sn [] [10000] [], total := [10000] }
private def ntk (j : Nat) : Core.NewTask := { id := (1, j), rq := 0, prio := 0, crashLimit := .max 5, deps := [] }

/-- the witnesses of `Props/SysW.lean`: the life of one task through the queues -/
private def opsLife : List Op := [
  .srv (.newRq rq1), .addWorker (wkr 1) [[0]] none,
  .srv (.submit none none (.array [⟨0, 1, 1⟩] none) [ntk 0]),
  .srv (.schedule { now := 10, sn := [{ rq := 0, v := 0, counts := [(1, 1)], taken := [(1, 0)] }] }),
  .deliverS2W 1 [{ rq := 0, alloc := some 7 }],
  .deliverW2S 1 [],
  .wlocal 1 (.taskEnd (enc (1, 0)) .finished []),
  .deliverW2S 1 []]

/-- cancel overtakes the worker: `Running`, `Finished` delivered to a core that forgot the task -/
private def opsCancelRace : List Op := [
  .srv (.newRq rq1), .addWorker (wkr 1) [[0]] none,
  .srv (.submit none none (.array [⟨0, 1, 1⟩] none) [ntk 0]),
  .srv (.schedule { now := 10, sn := [{ rq := 0, v := 0, counts := [(1, 1)], taken := [(1, 0)] }] }),
  .deliverS2W 1 [{ rq := 0, alloc := some 7 }],
  .srv (.cancel 1 [(1, 0)]),
  .wlocal 1 (.taskEnd (enc (1, 0)) .finished []),
  .deliverW2S 1 [], .deliverW2S 1 [], .deliverS2W 1 []]

/-- the retract comes too late: `RunningPrefilled` for a Retracting task (the core takes it back to Running) -/
private def opsRetractRace : List Op := [
  .srv (.newRq rq1), .addWorker (wkr 1) [[0]] none, .addWorker (wkr 2) [[0]] none,
  .srv (.submit none none (.array [⟨0, 3, 1⟩] none) [ntk 0, ntk 1, ntk 2]),
  .srv (.schedule { sn := [{ rq := 0, v := 0, counts := [(1, 1)], taken := [(1, 0)] }], prefillOrders := [(0, [1])] }),
  .srv (.schedule { sn := [{ rq := 0, v := 0, counts := [(2, 2)], taken := [(1, 2), (1, 1)] }] }),
  .deliverS2W 1 [{ rq := 0 }, { rq := 0, alloc := some 1 }],
  .wlocal 1 (.taskEnd (enc (1, 0)) .finished []),
  .deliverS2W 1 [],
  .deliverW2S 1 [], .deliverW2S 1 [], .deliverW2S 1 []]

/-- the worker is lost with three messages in flight -/
private def opsLost : List Op :=
  opsRetractRace.take 8 ++ [.loseWorker 1 "lost" true [(1, 0)] [], .srv (.schedule { sn := [] })]

example : RunOk {} opsLife ∧ RunNPc {} opsLife ∧ stopOf (run {} opsLife) = false := by decide
example : RunOk {} opsCancelRace ∧ RunNPc {} opsCancelRace ∧ stopOf (run {} opsCancelRace) = false := by decide
example : RunOk {} opsRetractRace ∧ RunNPc {} opsRetractRace ∧ stopOf (run {} opsRetractRace) = false := by decide
example : RunOk {} opsLost ∧ RunNPc {} opsLost ∧ stopOf (run {} opsLost) = false := by decide

/-- `{}` is `initState 1 1` -/
example : (initState 1 1 : State) = {} := rfl

end examples
end HqModel.SysW
