import HqModel.Lemmas.JournalPruneEq
/-!
C12 — pruning the journal does not change what a restart restores (model M5 Journal: journal/prune.rs, restore.rs).

`SameView R R'` (Lemmas/JournalPruneEq.lean) = what C12 compares at the level of the `StateRestorer`: every job entry
(job description, submits, open flag, per-task state with started data, last instance id) **up to crash counters**,
the allocation queues, the queue high-water mark and the uid. `restore_jobs_and_queues` is a function of exactly these
fields plus the crash counters (read only by the adjust map) and `queue_to_worker_resources`.
-/
namespace HqModel.C12
open HqModel.Journal

/-- the live sets cover every job the restart would restore (`handle_prune_journal`: jobs of the State that are not
terminated; by C10 these are the jobs `meaning J` still has) -/
def LiveCovers (R : Restorer) (lj : List Nat) : Prop := ∀ j, (alGet R.jobs j).isSome = true → lj.contains j = true

/-- **Full-strength statement** (kept visible; FALSE of the current code in exactly two components, see
`c12_f12_witness` and `c12_f25_witness`, both registered as known findings — prune semantics is a maintainer-level
design decision): restoring the pruned journal gives the same restorer state as restoring the journal, *including*
crash counters and the worker resources learnt for allocation queues. -/
def C12Full : Prop :=
  ∀ (J : List Record) (lj lw : List Nat) (R : Restorer), restorerFold J = .ok R → LiveCovers R lj →
    ∃ R', restorerFold (prune lj lw J) = .ok R' ∧ R'.jobs = R.jobs ∧ R'.queues = R.queues ∧ R'.queueRes = R.queueRes ∧
      R'.uid = R.uid

/-- **c12_prune_equiv (partial).** For EVERY journal `J` on which `load_event_file` succeeds (in particular every
producible one, C10), every set of live workers and every set of live jobs that covers the jobs a restart would
restore: `load_event_file` also succeeds on `prune J`, and the two restorer states have the same view — the same
unfinished jobs with the same submits, open flags, task outcomes, started data and last instance ids, no entry for
any other job, the same allocation queues and uid. Batched `TasksCanceled`/`TasksAborted` records spanning live and
completed jobs are covered (element-wise filtering).
Missing w.r.t. `C12Full`: crash counters (F12) and `queue_to_worker_resources` (F25). -/
theorem c12_prune_equiv_partial (J : List Record) (lj lw : List Nat) (R : Restorer) (h : restorerFold J = .ok R)
    (hl : LiveCovers R lj) : ∃ R', restorerFold (prune lj lw J) = .ok R' ∧ SameView R R' := by
  have h0 : PRel (fun j => lj.contains j) ({} : Restorer) {} :=
    ⟨fun _ _ => optEq_refl _, fun _ _ => rfl, rfl, rfl, rfl⟩
  obtain ⟨R', h1, h2⟩ := prel_fold_prune lj lw J {} {} R h0 h
  exact ⟨R', h1, sameView_of_prel h2 hl⟩

/-- **c12_wf, part 1 (the pruned journal can be appended to).** Whatever the server writes after the prune (`K`, any
records): if the unpruned journal followed by `K` restores, so does the pruned journal followed by `K`, with the same
view again. With `K = []` this is "restore does not stop on the pruned journal". -/
theorem c12_append (J K : List Record) (lj lw : List Nat) (R R2 : Restorer) (h : restorerFold J = .ok R)
    (hl : LiveCovers R lj) (h2 : restorerFold (J ++ K) = .ok R2) :
    ∃ R2', restorerFold (prune lj lw J ++ K) = .ok R2' ∧ SameView R2 R2' := by
  obtain ⟨R', h1, hv⟩ := c12_prune_equiv_partial J lj lw R h hl
  unfold restorerFold at *
  rw [restorerFoldFrom_append, h] at h2
  obtain ⟨R2', g1, g2⟩ := prel_fold_common K R R' R2 (prel_of_sameView hv) h2
  exact ⟨R2', by rw [restorerFoldFrom_append, h1]; exact g1, sameView_of_prel_all g2⟩

/-- **c12_wf, part 2 (the pruned journal can be pruned again).** Pruning a pruned journal (after more records `K` were
appended) is pruning the original with the intersections of the live sets; in particular pruning twice with the same
live sets changes nothing. -/
theorem c12_wf (lj lw lj2 lw2 : List Nat) (J K : List Record) :
    prune lj2 lw2 (prune lj lw J ++ K) = prune (inter lj lj2) (inter lw lw2) J ++ prune lj2 lw2 K := by
  rw [prune_append, prune_prune]

/-! ### The two components in which the full statement fails (known findings F12, F25) -/

/-- F12: `prune_journal` drops the `WorkerLost` record of a worker that is no longer live, but
`RestorerJob::increase_crash_counters` needs it: the crash counter handed to the core for the still pending task 1.0 is
1 when restoring the journal and 0 when restoring the pruned journal. -/
def witnessF12 : List Record :=
  [.serverStart "abc123", .submit 1 true none (.array [⟨0, 1, 1⟩] none), .workerConnected 1 none,
   .taskStarted 1 0 0 [1], .workerLost 1 .connectionLost]

theorem c12_f12_witness : Producible witnessF12 ∧
    (∃ R X, restore witnessF12 = .ok (R, X) ∧ batchPending X.batches = [(1, 0, [], 1, 1)]) ∧
    (∃ R X, restore (prune [1] [] witnessF12) = .ok (R, X) ∧ batchPending X.batches = [(1, 0, [], 1, 0)]) :=
  ⟨by decide, ⟨_, _, rfl, rfl⟩, ⟨_, _, rfl, rfl⟩⟩

/-- F25: `prune_journal` drops the `WorkerConnected` record of a no-longer-live worker that came from an allocation;
`load_event_file` learns `queue_to_worker_resources` only from such records, so the queue restored from the pruned
journal has no worker resources. -/
def witnessF25 : List Record :=
  [.serverStart "abc123", .queueCreated 1, .allocQueued 1 100, .workerConnected 1 (some 100), .workerLost 1 .stopped]

theorem c12_f25_witness : Producible witnessF25 ∧
    (∃ R X, restore witnessF25 = .ok (R, X) ∧ X.queues = [(1, true)]) ∧
    (∃ R X, restore (prune [] [] witnessF25) = .ok (R, X) ∧ X.queues = [(1, false)]) :=
  ⟨by decide, ⟨_, _, rfl, rfl⟩, ⟨_, _, rfl, rfl⟩⟩

theorem liveCovers_single (v : RJob) : ∀ j, (alGet [(1, v)] j).isSome = true → [1].contains j = true := by
  intro j hj
  by_cases e : 1 = j
  · subst e; decide
  · simp [alGet, e] at hj

/-- the full-strength statement is false of the code as it is -/
theorem c12_full_statement_false : ¬ C12Full := by
  intro h
  obtain ⟨R', h1, h2, _⟩ := h witnessF12 [1] []
    { jobs := [(1, ⟨none, [.array [⟨0, 1, 1⟩] none], [(0, ⟨.running ⟨0, [1]⟩, some 0, 1⟩)], false⟩)]
      maxJob := 1, maxWorker := 1, uid := "abc123" } rfl (liveCovers_single _)
  have : restorerFold (prune [1] [] witnessF12) = .ok
      { jobs := [(1, ⟨none, [.array [⟨0, 1, 1⟩] none], [(0, ⟨.running ⟨0, [1]⟩, some 0, 0⟩)], false⟩)]
        maxJob := 1, uid := "abc123" } := rfl
  rw [this] at h1
  cases h1
  revert h2
  decide

/-! the hypotheses of the partial theorem are satisfiable by a non-trivial journal -/
example : ∃ R, restorerFold witnessF12 = .ok R ∧ LiveCovers R [1] :=
  ⟨_, rfl, liveCovers_single _⟩

end HqModel.C12
