import HqModel.Lemmas.JournalPrune
/-!
C12 — pruning the journal does not change what a restart restores (model M5 Journal: journal/prune.rs, restore.rs).
-/
namespace HqModel.C12
open HqModel.Journal

/-- **c12_wf (prunable again).** Pruning a pruned journal is pruning the original with the intersections of the live
sets; in particular pruning twice with the same live sets changes nothing, and prune distributes over what is appended
later. -/
theorem c12_wf (lj lw lj2 lw2 : List Nat) (J K : List Record) :
    prune lj2 lw2 (prune lj lw J ++ K) = prune (inter lj lj2) (inter lw lw2) J ++ prune lj2 lw2 K := by
  rw [prune_append, prune_prune]

/-- F12: `prune_journal` drops the `WorkerLost` record of a worker that is no longer live, but
`RestorerJob::increase_crash_counters` needs it: the crash counter handed to the core for the still pending task 1.0 is
1 when restoring the journal and 0 when restoring the pruned journal. -/
def witnessF12 : List Record :=
  [.serverStart "abc123", .submit 1 true none (.array [⟨0, 1, 1⟩] none), .workerConnected 1 none,
   .taskStarted 1 0 0 [1], .workerLost 1 .connectionLost]

theorem c12_f12_witness : Producible witnessF12 ∧
    (∃ R X, restore witnessF12 = .ok (R, X) ∧ X.batches.map (·.adjust) = [[(0, (1, 1))]]) ∧
    (∃ R X, restore (prune [1] [] witnessF12) = .ok (R, X) ∧ X.batches.map (·.adjust) = [[(0, (1, 0))]]) := by
  refine ⟨by decide, ⟨_, _, rfl, by decide⟩, ⟨_, _, rfl, by decide⟩⟩

end HqModel.C12
