import HqModel.Env.Model
/-!
C04, clause "the resource values it is told about are the ones it holds" — theorems about model M8
(`HqModel/Env/Model.lean`, the resource part of `build_program_task` in `worker/start/program.rs`).

* `c04_told_only_held`   — every resource-value variable of the started process (`HQ_RESOURCE_VALUES_*`, `HQ_CPUS`,
                           `CUDA_VISIBLE_DEVICES`, `ROCR_VISIBLE_DEVICES`) carries the comma-joined labels of the indices of
                           ONE resource allocation the task holds (no phantom values), unconditionally;
* `c04_told_values`      — conversely every held resource with indices is told, under its own (normalised) name, exactly
                           its labels, when normalised names are distinct (`NamesOk`; necessary: `c04_told_collision_witness`);
* `c04_told_taskset`     — the CPU list handed to `taskset` / `OMP_PLACES` is the told string of the CPU allocation; without
                           CPU indices pinning fails the launch;
* `c04_labels_roundtrip` — the told string splits back into exactly the held labels (no label contains a comma).
-/
namespace HqModel.Env

/-! ### association-list facts -/

theorem get_set_same (e : Env) (k : Key) (v : Str) : (e.set k v).get? k = some v := by
  simp [Env.set, Env.get?]

theorem find_filter_other {k k' : Key} (h : k' ≠ k) : ∀ (e : Env),
    (e.filter (·.1 ≠ k)).find? (·.1 = k') = e.find? (·.1 = k')
  | [] => rfl
  | x :: xs => by
    have ih := find_filter_other h xs
    by_cases hx : x.1 = k
    · have hne : ¬ x.1 = k' := fun e' => h (e'.symm.trans hx)
      rw [List.filter_cons_of_neg (by simpa using hx), List.find?_cons_of_neg (by simpa using hne)]
      exact ih
    · rw [List.filter_cons_of_pos (by simpa using hx)]
      by_cases hx' : x.1 = k'
      · rw [List.find?_cons_of_pos (by simpa using hx'), List.find?_cons_of_pos (by simpa using hx')]
      · rw [List.find?_cons_of_neg (by simpa using hx'), List.find?_cons_of_neg (by simpa using hx')]
        exact ih

theorem get_set_other (e : Env) {k k' : Key} (v : Str) (h : k' ≠ k) : (e.set k v).get? k' = e.get? k' := by
  unfold Env.set Env.get?
  rw [List.find?_cons_of_neg (by simpa using fun e' : k = k' => h e'.symm)]
  rw [find_filter_other h]

/-- the values a task may be told: the told strings of its allocations -/
def ToldBy (held : List Held) (v : Str) : Prop := ∃ h ∈ held, h.told = some v

/-- keys whose value is a list of resource values -/
def Key.isValues : Key → Bool
  | .hqCpus | .values _ | .cuda | .rocr => true
  | _ => false

/-- every value-list variable of `e` is the told string of a held allocation -/
def OnlyHeld (held : List Held) (e : Env) : Prop :=
  ∀ k v, k.isValues = true → e.get? k = some v → ToldBy held v

theorem OnlyHeld.set_values {held : List Held} {e : Env} (ho : OnlyHeld held e) (k : Key) {v : Str}
    (hv : ToldBy held v) : OnlyHeld held (e.set k v) := by
  intro k' v' hk hg
  by_cases hkk : k' = k
  · subst hkk; rw [get_set_same] at hg; cases hg; exact hv
  · rw [get_set_other _ _ hkk] at hg; exact ho k' v' hk hg

theorem OnlyHeld.set_other {held : List Held} {e : Env} (ho : OnlyHeld held e) {k : Key} (v : Str)
    (hk : k.isValues = false) : OnlyHeld held (e.set k v) := by
  intro k' v' hk' hg
  have hkk : k' ≠ k := fun e' => by subst e'; rw [hk] at hk'; cases hk'
  rw [get_set_other _ _ hkk] at hg; exact ho k' v' hk' hg

theorem stepCpus_onlyHeld {held : List Held} {e : Env} {h : Held} {l : Str} (hv : ToldBy held l)
    (ho : OnlyHeld held e) : OnlyHeld held (stepCpus h l e) := by
  unfold stepCpus
  split
  · simp only
    split
    · exact (ho.set_values _ hv).set_other _ rfl
    · exact ho.set_values _ hv
  · exact ho

theorem stepCuda_onlyHeld {held : List Held} {e : Env} {h : Held} {l : Str} (hv : ToldBy held l)
    (ho : OnlyHeld held e) : OnlyHeld held (stepCuda h l e) := by
  unfold stepCuda
  split
  · exact (ho.set_values _ hv).set_other _ rfl
  · exact ho

theorem stepRocr_onlyHeld {held : List Held} {e : Env} {h : Held} {l : Str} (hv : ToldBy held l)
    (ho : OnlyHeld held e) : OnlyHeld held (stepRocr h l e) := by
  unfold stepRocr
  split
  · exact ho.set_values _ hv
  · exact ho

theorem insertOne_onlyHeld {held : List Held} {e : Env} {h : Held} (hm : h ∈ held) (ho : OnlyHeld held e) :
    OnlyHeld held (insertOne e h) := by
  unfold insertOne
  cases ht : h.told with
  | none => exact ho
  | some l =>
    have hv : ToldBy held l := ⟨h, hm, ht⟩
    exact (stepRocr_onlyHeld hv (stepCuda_onlyHeld hv (stepCpus_onlyHeld hv ho))).set_values _ hv

theorem foldl_onlyHeld {held : List Held} : ∀ (l : List Held) (e : Env), (∀ h ∈ l, h ∈ held) → OnlyHeld held e →
    OnlyHeld held (l.foldl insertOne e)
  | [], _, _, ho => ho
  | h :: rest, e, hs, ho =>
    foldl_onlyHeld rest _ (fun x hx => hs x (List.mem_cons_of_mem _ hx))
      (insertOne_onlyHeld (hs h List.mem_cons_self) ho)

/-- the program definition of the user sets no resource-value variable (the harness presets only OpenMP variables; a
user who sets `HQ_CPUS` himself is told what he wrote until the launcher overwrites it) -/
def PresetOk (i : Input) : Prop := ∀ k ∈ i.preset, k.isValues = false

instance (i : Input) : Decidable (PresetOk i) := by unfold PresetOk; infer_instance

theorem presetEnv_onlyHeld {i : Input} (hp : PresetOk i) : OnlyHeld i.held (presetEnv i) := by
  intro k v hk hg
  unfold Env.get? presetEnv at hg
  cases hf : List.find? (fun x => decide (x.1 = k)) (List.map (fun k => (k, ['P'])) i.preset) with
  | none => rw [hf] at hg; cases hg
  | some x =>
    have hm := List.mem_of_find?_eq_some hf
    have hx := List.find?_some hf
    simp only [List.mem_map] at hm
    obtain ⟨k0, hk0, rfl⟩ := hm
    simp only [decide_eq_true_eq] at hx
    subst hx
    have := hp k0 hk0
    rw [this] at hk; cases hk

theorem pinProgram_onlyHeld {i : Input} {e e' : Env} {ts : Option Str} (ho : OnlyHeld i.held e)
    (h : pinProgram i e = .ok (e', ts)) : OnlyHeld i.held e' := by
  unfold pinProgram at h
  split at h
  · cases h; exact ho
  · split at h
    · cases h; exact ho.set_other _ rfl
    · cases h
  · split at h
    · cases h
      apply OnlyHeld.set_other _ _ rfl
      split
      · split
        · exact ho
        · exact ho.set_other _ rfl
      · split
        · exact ho.set_other _ rfl
        · exact (ho.set_other _ rfl).set_other _ rfl
    · cases h

/-- **C04 (told ⊆ held), unconditional**: every resource-value variable of the started process (`HQ_RESOURCE_VALUES_*`,
`HQ_CPUS`, `CUDA_VISIBLE_DEVICES`, `ROCR_VISIBLE_DEVICES`) carries the comma-joined labels of the indices of one resource
allocation the task holds. -/
theorem c04_told_only_held (i : Input) (hp : PresetOk i) {e : Env} {ts : Option Str} (h : launch i = .ok (e, ts)) :
    ∀ k v, k.isValues = true → e.get? k = some v → ∃ a ∈ i.held, a.labels ≠ [] ∧ v = joinLabels a.labels := by
  unfold launch at h
  split at h
  · cases h
  · rename_i e0 ts0 hpin
    cases h
    have ho := pinProgram_onlyHeld (presetEnv_onlyHeld hp) hpin
    have ho2 : OnlyHeld i.held (insertResources i e0) := by
      unfold insertResources
      apply foldl_onlyHeld _ _ (fun _ hx => hx)
      split
      · exact ho.set_other _ rfl
      · exact ho
    intro k v hk hg
    obtain ⟨a, ha, hta⟩ := ho2 k v hk hg
    refine ⟨a, ha, ?_⟩
    unfold Held.told at hta
    split at hta
    · cases hta
    · rename_i hne
      cases hta
      exact ⟨by intro hnil; rw [hnil] at hne; exact hne rfl, rfl⟩

/-! ### held ⊆ told -/

/-- resources that hold indices have pairwise different normalised names -/
def NamesOk (held : List Held) : Prop :=
  held.Pairwise fun a b => a.labels = [] ∨ b.labels = [] ∨ norm a.name ≠ norm b.name

instance (held : List Held) : Decidable (NamesOk held) := by unfold NamesOk; infer_instance

theorem stepCpus_get_values (h : Held) (l : Str) (e : Env) (n : Str) :
    (stepCpus h l e).get? (.values n) = e.get? (.values n) := by
  unfold stepCpus
  split
  · simp only
    split
    · rw [get_set_other _ _ (by simp), get_set_other _ _ (by simp)]
    · rw [get_set_other _ _ (by simp)]
  · rfl

theorem stepCuda_get_values (h : Held) (l : Str) (e : Env) (n : Str) :
    (stepCuda h l e).get? (.values n) = e.get? (.values n) := by
  unfold stepCuda
  split
  · rw [get_set_other _ _ (by simp), get_set_other _ _ (by simp)]
  · rfl

theorem stepRocr_get_values (h : Held) (l : Str) (e : Env) (n : Str) :
    (stepRocr h l e).get? (.values n) = e.get? (.values n) := by
  unfold stepRocr
  split
  · rw [get_set_other _ _ (by simp)]
  · rfl

theorem insertOne_get_other {e : Env} {h : Held} {n : Str} (hn : h.labels = [] ∨ norm h.name ≠ n) :
    (insertOne e h).get? (.values n) = e.get? (.values n) := by
  unfold insertOne
  cases ht : h.told with
  | none => rfl
  | some l =>
    have hne : norm h.name ≠ n := by
      rcases hn with h0 | h0
      · unfold Held.told at ht; rw [h0] at ht; simp at ht
      · exact h0
    simp only
    rw [get_set_other _ _ (by simpa using fun e' => hne e'.symm), stepRocr_get_values, stepCuda_get_values,
      stepCpus_get_values]

theorem insertOne_get_same {e : Env} {h : Held} {l : Str} (ht : h.told = some l) :
    (insertOne e h).get? (.values (norm h.name)) = some l := by
  unfold insertOne
  rw [ht]
  exact get_set_same _ _ _

theorem foldl_get_other {n : Str} : ∀ (l : List Held) (e : Env), (∀ h ∈ l, h.labels = [] ∨ norm h.name ≠ n) →
    (l.foldl insertOne e).get? (.values n) = e.get? (.values n)
  | [], _, _ => rfl
  | h :: rest, e, hs => by
    rw [List.foldl_cons, foldl_get_other rest _ (fun x hx => hs x (List.mem_cons_of_mem _ hx)),
      insertOne_get_other (hs h List.mem_cons_self)]

theorem foldl_get_held : ∀ (l : List Held) (e : Env), NamesOk l → ∀ a ∈ l, a.labels ≠ [] →
    (l.foldl insertOne e).get? (.values (norm a.name)) = some (joinLabels a.labels)
  | [], _, _, a, ha, _ => by cases ha
  | h :: rest, e, hok, a, ha, hne => by
    rw [List.foldl_cons]
    unfold NamesOk at hok
    rw [List.pairwise_cons] at hok
    rcases List.mem_cons.1 ha with rfl | hin
    · rw [foldl_get_other rest _ (fun x hx => by
        rcases hok.1 x hx with h0 | h0 | h0
        · exact absurd h0 hne
        · exact Or.inl h0
        · exact Or.inr fun e' => h0 e'.symm)]
      exact insertOne_get_same (by unfold Held.told; simp [hne])
    · exact foldl_get_held rest _ hok.2 a hin hne

/-- **C04 (held ⊆ told)**: every resource allocation with indices is told to the task under its own normalised name as
exactly the comma-joined labels of the held indices, when the normalised names are distinct. -/
theorem c04_told_values (i : Input) (hn : NamesOk i.held) {e : Env} {ts : Option Str} (h : launch i = .ok (e, ts)) :
    ∀ a ∈ i.held, a.labels ≠ [] → e.get? (.values (norm a.name)) = some (joinLabels a.labels) := by
  unfold launch at h
  split at h
  · cases h
  · cases h
    intro a ha hne
    unfold insertResources
    exact foldl_get_held _ _ hn a ha hne

/-- `NamesOk` cannot be dropped: two resources whose names differ only in a special character share one variable, the later
allocation overwrites the earlier one (the real `Map::insert` does the same). -/
private def collInput : Input :=
  { held := [⟨0, ['c', 'p', 'u', 's'], [['0']], 1, 0⟩, ⟨1, ['a', '.', 'b'], [['7']], 1, 0⟩, ⟨2, ['a', '-', 'b'], [['9']], 1, 0⟩],
    pin := .none, nVariants := 1, variant := 0, preset := [] }

theorem c04_told_collision_witness :
    ¬ NamesOk collInput.held ∧ getOk? (launch collInput) (.values (norm ['a', '.', 'b'])) = some ['9'] := by
  decide

/-! ### pinning -/

/-- **C04 (pinning)**: the CPU list handed to `taskset` is the told string of the CPU allocation (resource id 0), i.e. the
labels of the CPU indices the task holds; a task that holds no CPU index cannot be pinned — the launch fails. -/
theorem c04_told_taskset (i : Input) (hp : i.pin = .taskset) :
    (∀ e ts, launch i = .ok (e, ts) → ∃ c ∈ i.held, c.rid = 0 ∧ c.labels ≠ [] ∧ ts = some (joinLabels c.labels)) ∧
    (cpuList i.held = none → ∃ m, launch i = .error m) := by
  constructor
  · intro e ts h
    unfold launch pinProgram at h
    rw [hp] at h
    simp only at h
    cases hc : cpuList i.held with
    | none => rw [hc] at h; cases h
    | some l =>
      rw [hc] at h
      cases h
      unfold cpuList at hc
      cases hf : i.held.find? (·.rid = 0) with
      | none => rw [hf] at hc; cases hc
      | some c =>
        rw [hf] at hc
        simp only [Option.bind] at hc
        have hm := List.mem_of_find?_eq_some hf
        have hr := List.find?_some hf
        refine ⟨c, hm, by simpa using hr, ?_⟩
        unfold Held.told at hc
        split at hc
        · cases hc
        · rename_i hne
          cases hc
          exact ⟨by intro hnil; rw [hnil] at hne; exact hne rfl, rfl⟩
  · intro hc
    unfold launch pinProgram
    rw [hp, hc]
    exact ⟨_, rfl⟩

/-! ### the told string determines the labels -/

/-- split at commas -/
def splitC : List Char → List (List Char)
  | [] => [[]]
  | c :: cs =>
    if c = ',' then [] :: splitC cs
    else match splitC cs with
      | [] => [[c]]
      | l :: ls => (c :: l) :: ls

theorem splitC_single : ∀ (l : List Char), ',' ∉ l → splitC l = [l]
  | [], _ => rfl
  | c :: cs, h => by
    have hc : c ≠ ',' := fun e => h (e ▸ List.mem_cons_self)
    have ih := splitC_single cs (fun hm => h (List.mem_cons_of_mem _ hm))
    simp [splitC, hc, ih]

theorem splitC_append : ∀ (l rest : List Char), ',' ∉ l → splitC (l ++ ',' :: rest) = l :: splitC rest
  | [], rest, _ => by simp [splitC]
  | c :: cs, rest, h => by
    have hc : c ≠ ',' := fun e => h (e ▸ List.mem_cons_self)
    have ih := splitC_append cs rest (fun hm => h (List.mem_cons_of_mem _ hm))
    simp [splitC, hc, ih]

theorem splitC_joinC : ∀ (ls : List (List Char)), ls ≠ [] → (∀ l ∈ ls, ',' ∉ l) → splitC (joinC ls) = ls
  | [], h, _ => absurd rfl h
  | [l], _, hc => by simpa [joinC] using splitC_single l (hc l List.mem_cons_self)
  | l :: l2 :: rest, _, hc => by
    have ih := splitC_joinC (l2 :: rest) (List.cons_ne_nil _ _) (fun x hx => hc x (List.mem_cons_of_mem _ hx))
    have hj : joinC (l :: l2 :: rest) = l ++ ',' :: joinC (l2 :: rest) := rfl
    rw [hj, splitC_append _ _ (hc l List.mem_cons_self), ih]

/-- **C04 (the told string is unambiguous)**: splitting the told string at commas gives back exactly the labels of the held
indices, in order, when no label contains a comma. -/
theorem c04_labels_roundtrip (a : Held) (hne : a.labels ≠ []) (hc : ∀ l ∈ a.labels, ',' ∉ l) :
    splitC (joinLabels a.labels) = a.labels :=
  splitC_joinC _ hne hc

/-! ### the hypotheses are satisfiable on a non-trivial launch -/

private def exInput : Input :=
  { held := [⟨0, ['c', 'p', 'u', 's'], [['0'], ['3']], 2, 0⟩,
             ⟨1, ['g', 'p', 'u', 's', '/', 'n', 'v', 'i', 'd', 'i', 'a'], [['G', '-', 'a']], 0, 5000⟩,
             ⟨2, ['m', 'e', 'm'], [], 100, 0⟩],
    pin := .taskset, nVariants := 2, variant := 1, preset := [.ompPlaces] }

example : PresetOk exInput ∧ NamesOk exInput.held := by decide

example : tsOk? (launch exInput) = some ['0', ',', '3'] ∧ getOk? (launch exInput) .hqCpus = some ['0', ',', '3'] ∧
    getOk? (launch exInput) .cuda = some ['G', '-', 'a'] ∧
    getOk? (launch exInput) (.values ['g', 'p', 'u', 's', '_', 'n', 'v', 'i', 'd', 'i', 'a']) = some ['G', '-', 'a'] ∧
    getOk? (launch exInput) (.values ['m', 'e', 'm']) = none ∧ getOk? (launch exInput) .ompNum = some ['2'] ∧
    getOk? (launch exInput) .variant = some ['1'] ∧ getOk? (launch exInput) .ompPlaces = some ['P'] := by decide

/-- a task that holds no CPU index cannot be pinned -/
example : failed (launch { exInput with held := exInput.held.drop 1 }) = true := by decide

example : splitC (joinLabels [['0'], ['3'], ['x', '1']]) = [['0'], ['3'], ['x', '1']] := by decide

end HqModel.Env
