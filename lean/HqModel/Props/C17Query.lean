import HqModel.Query.Model
/-!
C17, "allocations are submitted on demand": the demand of a waiting multi-node request class reaches an allocation queue
that can host it — theorems about model M10 (`HqModel/Query/Model.lean`).
-/
namespace HqModel.Query

theorem firstFit_fits {types : List WType} {q : MnQueue} {i : Nat} (h : firstFit types q = some i) :
    ∃ t, types[i]? = some t ∧ fits t q = true := by
  unfold firstFit at h
  have h' := List.findIdx?_eq_some_iff_getElem.1 h
  obtain ⟨hi, hf, _⟩ := h'
  exact ⟨types[i], by simp [hi], hf⟩

theorem firstFit_some_of_fits {types : List WType} {q : MnQueue} {t : WType} (ht : t ∈ types) (hf : fits t q = true) :
    ∃ i, firstFit types q = some i := by
  unfold firstFit
  cases h : types.findIdx? (fits · q) with
  | some i => exact ⟨i, rfl⟩
  | none =>
    have := List.findIdx?_eq_none_iff.1 h t ht
    simp [hf] at this

/-- **C17 (demand is offered), completeness**: if SOME active allocation queue can host a waiting multi-node request class
(time limit covers the time request, allocations are big enough), the query answers with demand for that class — as many
allocations as there are ready tasks, each of exactly `n_nodes` workers — on a queue that can host it. -/
theorem c17_mn_demand_offered (types : List WType) (queues : List MnQueue) (q : MnQueue) (hq : q ∈ queues)
    (t : WType) (ht : t ∈ types) (hf : fits t q = true) :
    ∃ a ∈ mnAnswers types queues, a.perAlloc = q.nNodes ∧ a.maxAllocs = q.size ∧
      ∃ t', types[a.wtype]? = some t' ∧ fits t' q = true := by
  obtain ⟨i, hi⟩ := firstFit_some_of_fits ht hf
  obtain ⟨t', ht', hf'⟩ := firstFit_fits hi
  refine ⟨{ wtype := i, perAlloc := q.nNodes, maxAllocs := q.size }, ?_, rfl, rfl, t', ht', hf'⟩
  unfold mnAnswers
  exact List.mem_filterMap.2 ⟨q, hq, by simp [answerOf, hi]⟩

/-- **C17 (demand is offered), soundness**: every answer names a queue that can host the class it stands for, asks for
allocations of exactly the requested number of nodes, and no more allocations than there are ready tasks. -/
theorem c17_mn_answers_sound (types : List WType) (queues : List MnQueue) (a : MnAnswer) (ha : a ∈ mnAnswers types queues) :
    ∃ q ∈ queues, a.perAlloc = q.nNodes ∧ a.maxAllocs = q.size ∧ ∃ t, types[a.wtype]? = some t ∧ fits t q = true := by
  unfold mnAnswers at ha
  obtain ⟨q, hq, hqa⟩ := List.mem_filterMap.1 ha
  unfold answerOf at hqa
  cases hi : firstFit types q with
  | none => rw [hi] at hqa; cases hqa
  | some i =>
    rw [hi] at hqa
    simp only [Option.map_some, Option.some.injEq] at hqa
    subst hqa
    obtain ⟨t, ht, hf⟩ := firstFit_fits hi
    exact ⟨q, hq, rfl, rfl, t, ht, hf⟩

/-- a later queue is used when an earlier one is big enough but too short-lived (the premises are satisfiable) -/
example : mnAnswers [⟨some 600, 4⟩, ⟨some 3600, 2⟩] [⟨2, 1800, 3⟩] = [⟨1, 2, 3⟩] := by decide

end HqModel.Query
