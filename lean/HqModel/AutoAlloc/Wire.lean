import HqModel.Base.Proto
import HqModel.AutoAlloc.Model
/-!
Text protocol of the `autoalloc` component (see /verif/FRAMEWORK.md): parsing of `case`/`op` lines into model
events, printing of outputs and of the canonical snapshot, and the validity checks of the *choice* inputs
(hash orders) the harness resolved on the real code.
-/
namespace HqModel.AutoAlloc.Wire
open HqModel.Proto HqModel.AutoAlloc

/-- value of `key=value` among the tokens -/
def arg (toks : List String) (key : String) : Option String :=
  toks.findSome? fun t =>
    match t.splitOn "=" with
    | [k, v] => if k = key then some v else none
    | _ => none

def argNat (toks : List String) (key : String) : Option Nat := (arg toks key).bind String.toNat?
def argOptNat (toks : List String) (key : String) : Option (Option Nat) :=
  (arg toks key).bind fun v => if v = "-" then some none else v.toNat?.map some
def argList (toks : List String) (key : String) : Option (List Nat) := (arg toks key).bind parseNatList
def argBool (toks : List String) (key : String) : Option Bool :=
  (arg toks key).bind fun v => if v = "1" then some true else if v = "0" then some false else none

def parseItems (s : String) (sep : String) : List String := if s = "-" then [] else s.splitOn sep

def parseSubRes (s : String) : Option SubRes :=
  match s.splitOn "/" with
  | ["ok", a] => a.toNat?.map SubRes.ok
  | ["fail"] => some .fail
  | ["err"] => some .err
  | _ => none

def parseMn (s : String) : Option (Nat × Nat × Nat) :=
  match s.splitOn "/" with
  | [a, b, c] => do some ((← a.toNat?), (← b.toNat?), (← c.toNat?))
  | _ => none

def parseQuery (s : String) : Option Query :=
  match s.splitOn ":" with
  | ["none"] => some .none
  | ["err"] => some .err
  | ["ok", sn, mn] => do
    let sn ← parseNatList sn
    let mn ← (parseItems mn ",").mapM parseMn
    some (.ok sn mn)
  | _ => none

def parseSt (s : String) : Option St :=
  match s with
  | "Q" => some .queued | "R" => some .running | "F" => some .finished
  | "X" => some .failed | "E" => some .error | "M" => some .missing
  | _ => none

def parseReport (s : String) : Option (Nat × Report) :=
  match s.splitOn "@" with
  | [q, body] => do
    let q ← q.toNat?
    if body.startsWith "!" then
      let ids ← parseNatList (body.drop 1).toString
      some (q, .callErr ids)
    else
      let items ← (parseItems body ",").mapM fun it =>
        match it.splitOn ":" with
        | [a, st] => do some ((← a.toNat?), (← parseSt st))
        | _ => none
      some (q, .statuses items)
  | _ => none

/-- `r=` token of `wlost`: is the reason one of `ConnectionLost | HeartbeatLost`? -/
def parseReason (s : String) : Option Bool :=
  match s with
  | "connlost" => some true | "hblost" => some true
  | "stopped" => some false | "idle" => some false | "timelimit" => some false
  | _ => none

def parseEv (toks : List String) : Option Ev :=
  match toks with
  | "addq" :: rest => do
    let p : Params := { backlog := ← argNat rest "bl", wpa := ← argNat rest "wpa", mwc := ← argOptNat rest "mwc" }
    let lim := Limiter.new (← argList rest "delays") (← argNat rest "msf") (← argNat rest "maf")
    some (.addQueue p lim (← argOptNat rest "qid"))
  | "wconn" :: rest => do some (.workerConnected (← argNat rest "w") (← argNat rest "a"))
  | "wlost" :: rest => do
    let crashed := isCrash (← (arg rest "r").bind parseReason) (← argNat rest "life")
    some (.workerLost (← argNat rest "w") (← argNat rest "a") crashed)
  | ["job"] => some .jobSubmitted
  | "rmq" :: rest => do some (.removeQueue (← argNat rest "q") (← argBool rest "force"))
  | "pause" :: rest => do some (.pause (← argNat rest "q"))
  | "resume" :: rest => do some (.resume (← argNat rest "q"))
  | "tick" :: rest => do
    let res ← (parseItems (← arg rest "res") ",").mapM parseSubRes
    some (.tick (← argNat rest "now") (← argList rest "order") (← (arg rest "resp").bind parseQuery) res)
  | "refresh" :: rest => do
    let reps ← (parseItems (← arg rest "rep") ";").mapM parseReport
    some (.refresh reps)
  | _ => none

/-! ### choice validity -/

def isPermOf (a b : List Nat) : Bool :=
  a.length == b.length && a.all (fun x => b.contains x) && b.all (fun x => a.contains x) &&
    a.eraseDups.length == a.length

/-- The choices of an op must be ones the model allows: `order` is a permutation of the queue ids; the reports
of a refresh name exactly the queues that have active allocations (each once) and, per queue, a permutation of its
active allocation ids. -/
def choiceError (s : State) : Ev → Option String
  | .tick _ order _ _ =>
    if isPermOf order (s.queues.map (·.id)) then none else some "order-not-a-permutation-of-queue-ids"
  | .refresh reports =>
    if !s.hasActiveQueues then (if reports.isEmpty then none else some "reports-but-no-active-queue")
    else
      let expected := (s.queues.filter fun q => q.allocs.any (·.st.isActive)).map (·.id)
      if !isPermOf (reports.map (·.1)) expected then some "reports-not-for-the-queues-with-active-allocations"
      else if reports.all (fun (qid, rep) =>
          match s.getQueue qid with
          | none => false
          | some q =>
            let act := (q.allocs.filter (·.st.isActive)).map (·.id)
            match rep with
            | .callErr ids => isPermOf ids act
            | .statuses l => isPermOf (l.map (·.1)) act) then none
      else some "report-ids-not-the-active-allocations"
  | _ => none

/-! ### printing -/

def showOpt (o : Option Nat) : String := match o with | some n => toString n | none => "-"
def showBool (b : Bool) : String := if b then "1" else "0"
def sortNat (l : List Nat) : List Nat := sortBy (fun a b => decide (a < b)) l

def showPanic : Panic → String
  | .queryIndex => "query-index" | .permitAssert => "permit-assert" | .remZero => "rem-zero"
  | .dupAlloc => "dup-alloc" | .a2qMissing => "a2q-missing" | .dupQueue => "dup-queue"

def showOut : Out → String
  | .submit q n => s!"out submit {q} {n}"
  | .rm q a => s!"out rm {q} {a}"
  | .query n => s!"out query {n}"
  | .evQueued q a n => s!"out ev queued {q} {a} {n}"
  | .evStarted q a => s!"out ev started {q} {a}"
  | .evFinished q a => s!"out ev finished {q} {a}"
  | .evQCreated q => s!"out ev qcreated {q}"
  | .evQRemoved q => s!"out ev qremoved {q}"
  | .resp .ok => "out resp ok"
  | .resp (.okId q) => s!"out resp ok {q}"
  | .resp .notFound => "out resp notfound"
  | .resp .hasRunning => "out resp running"
  | .sched b => s!"out sched {showBool b}"
  | .tickRes .skipped => "out tickres skipped"
  | .tickRes .ok => "out tickres ok"
  | .tickRes .err => "out tickres err"
  | .ran b => s!"out ran {showBool b}"
  | .bad msg => s!"out !bad-op {msg}"

/-- `remove_allocation` calls are made in hash order: canonical order = sorted by allocation id. -/
def canonOuts (outs : List Out) : List Out :=
  let rms := outs.filterMap fun o => match o with | .rm q a => some (q, a) | _ => none
  let rms := sortBy (fun (a b : Nat × Nat) => decide (a.2 < b.2)) rms
  let rest := outs.filter fun o => match o with | .rm .. => false | _ => true
  rms.map (fun (q, a) => Out.rm q a) ++ rest

def showAlloc (qid : Nat) (a : Alloc) : String :=
  let pre := s!"out alloc {qid} {a.id} t={a.target} "
  let ws (l : List Nat) := showNatList (sortNat l)
  let ds (d : List (Nat × Bool)) := showNatList (sortNat (d.map (·.1)))
  match a.st with
  | .queued e => pre ++ s!"Q e={e}"
  | .running c d e => pre ++ s!"R e={e} c={ws c} d={ds d}"
  | .finished d => pre ++ s!"F d={ds d}"
  | .finishedUnexp c d f => pre ++ s!"U f={showBool f} c={ws c} d={ds d}"

def showQueue (q : Queue) : List String :=
  [s!"out queue {q.id} {if q.active then "A" else "P"} bl={q.params.backlog} wpa={q.params.wpa} mwc={showOpt q.params.mwc}",
   s!"out lim {q.id} cur={q.lim.cur} last={showOpt q.lim.last} af={q.lim.af} sf={q.lim.sf}"] ++
  (sortBy (fun (a b : Alloc) => decide (a.id < b.id)) q.allocs).map (showAlloc q.id)

def showSnapshot (s : State) : List String :=
  ((sortBy (fun (a b : Queue) => decide (a.id < b.id)) s.queues).map showQueue).flatten ++
  [s!"out a2q {showList (fun (p : Nat × Nat) => s!"{p.1}:{p.2}") (sortBy (fun (a b : Nat × Nat) => decide (a.1 < b.1)) s.a2q)}"]

/-! ### driver state -/

structure DState where
  st : State
  /-- the case is over (panic or protocol error) -/
  dead : Bool := false

def reset (toks : List String) : DState :=
  -- case <idx> <subseed> qerr= rerr= rmask= nextq= …
  let c : Consts :=
    { maxQueuedErr := (argNat toks "qerr").getD 10
      maxRunningErr := (argNat toks "rerr").getD 20
      resumeMask := (argNat toks "rmask").getD 0 }
  { st := init c ((argNat toks "nextq").getD 1) }

def stepLine (d : DState) (toks : List String) : DState × List String :=
  if d.dead then (d, ["out !dead"]) else
  match parseEv toks with
  | none => ({ d with dead := true }, ["out !bad-op unparsable"])
  | some ev =>
    match choiceError d.st ev with
    | some msg => ({ d with dead := true }, [s!"out !bad-choice {msg}"])
    | none =>
      let r := step d.st ev
      let outs := (canonOuts r.outs).map showOut
      match r.panic with
      | some p => ({ st := r.st, dead := true }, outs ++ [s!"out !panic {showPanic p}"])
      | none => ({ st := r.st }, outs ++ showSnapshot r.st)

def driver : Driver DState := { reset := reset, step := stepLine }

end HqModel.AutoAlloc.Wire
