import HqModel.AutoAlloc.Model
/-!
Specification-level definitions used by the statements of C17 / C18 (no proofs here).
-/
namespace HqModel.AutoAlloc

/-- States reachable from `s0` by any sequence of events with a fully adversarial environment
(a step that panics ends the run: the autoalloc task is dead). -/
inductive Reach (s0 : State) : State → Prop
  | init : Reach s0 s0
  | step {s : State} (e : Ev) : Reach s0 s → (step s e).panic = none → Reach s0 (step s e).st

/-- The limits of one queue: queued allocations ≤ backlog; workers requested by active (queued or running)
allocations ≤ `max_worker_count`; every allocation asks for between 1 and `max_workers_per_alloc` workers. -/
def QInv (q : Queue) : Prop :=
  q.queuedCount ≤ q.params.backlog ∧
  (∀ m, q.params.mwc = some m → q.activeWorkers ≤ m) ∧
  (∀ a ∈ q.allocs, 1 ≤ a.target ∧ a.target ≤ q.params.wpa)

def Inv (s : State) : Prop := ∀ q ∈ s.queues, QInv q

/-! ### the life of ONE allocation as an automaton -/

/-- inputs of the per-allocation automaton: a `sync_allocation_status` call, or a status error -/
inductive AIn
  | sync (r : SyncReason)
  | err
  deriving Repr, DecidableEq

def allocStep (c : Consts) (t : Nat) (st : AState) : AIn → AState
  | .sync r => (syncState t st r).st
  | .err => (errState c st).1

/-- state of an allocation of size `t` after the inputs `ins` (oldest first) -/
def allocRun (c : Consts) (t : Nat) (st : AState) (ins : List AIn) : AState := ins.foldl (allocStep c t) st

/-- the worker event an input carries for worker `w`: `some true` = connect, `some false` = loss -/
def AIn.workerEv (w : Nat) : AIn → Option Bool
  | .sync (.conn w') => if w' = w then some true else none
  | .sync (.lost w' _) => if w' = w then some false else none
  | _ => none

/-- the LAST worker event for worker `w` among the inputs `ins` (oldest first) -/
def lastEv (w : Nat) : List AIn → Option Bool
  | [] => none
  | i :: rest =>
    match lastEv w rest with
    | some b => some b
    | none => i.workerEv w

/-- which automaton inputs an event `e` may feed to allocation `a` -/
def Allowed (e : Ev) (a : Nat) : AIn → Prop
  | .sync (.conn w) => e = .workerConnected w a
  | .sync (.lost w cr) => e = .workerLost w a cr
  | .sync (.ext _) => ∃ reps, e = .refresh reps
  | .err => ∃ reps, e = .refresh reps

/-- The short F13 witness as a model run: `mask` is what `resume()` resets. -/
def f13Run (mask : Nat) : List Out :=
  let s0 := init ⟨10, 20, mask⟩ 1
  let s1 := (step s0 (.addQueue ⟨1, 1, none⟩ (Limiter.new [0, 1000] 2 3) none)).st
  let s2 := (step s1 (.tick 0 [1] (.ok [1] []) [.fail])).st
  let s3 := (step s2 (.tick 1000 [1] (.ok [1] []) [.fail])).st     -- second failure: paused by the limit
  let s4 := (step s3 (.resume 1)).st
  (step s4 (.tick 5000 [1] (.ok [1] []) [.ok 1])).outs

end HqModel.AutoAlloc
