import HqModel.AutoAlloc.Model
/-!
Specification-level definitions used by the statements of C17 / C18 (no proofs here).
-/
namespace HqModel.AutoAlloc

/-- States reachable from `s0` by any sequence of events with a fully adversarial environment
(a step that panics ends the run: the autoalloc task is dead). -/
inductive Reach (s0 : State) : State → Prop
  | init : Reach s0 s0
  | step {s : State} (e : Ev) : Reach s0 s → (step s e).panic = none → Reach s0 (step s e).st

/-- The limits of one queue: queued allocations ≤ backlog; workers requested by active (queued or running)
allocations ≤ `max_worker_count`; every allocation asks for between 1 and `max_workers_per_alloc` workers. -/
def QInv (q : Queue) : Prop :=
  q.queuedCount ≤ q.params.backlog ∧
  (∀ m, q.params.mwc = some m → q.activeWorkers ≤ m) ∧
  (∀ a ∈ q.allocs, 1 ≤ a.target ∧ a.target ≤ q.params.wpa)

def Inv (s : State) : Prop := ∀ q ∈ s.queues, QInv q

end HqModel.AutoAlloc
