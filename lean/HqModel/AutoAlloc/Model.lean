/-!
# M6 AutoAlloc — executable model of `crates/hyperqueue/src/server/autoalloc/{process,state}.rs`

Written from the code as it is. The environment is adversarial and enters as *inputs* of the steps:
  * the batch system (`QueueHandler`): results of `submit_allocation` (`SubRes`), statuses returned by
    `get_status_of_allocations` (`Report`), incl. errors / missing ids; `remove_allocation` results are ignored
    by the code (only logged) and therefore by the model;
  * the scheduler's answer to `ServerRef::new_worker_query` (`Query`);
  * the monotonic clock (`now`, milliseconds);
  * hash-map iteration orders the behaviour depends on (`order` of the queues in `perform_submits`, the order of
    the allocation ids handed to the batch system in a refresh).
Conventions: ids are `Nat`; `u32`/`u64` counters are `Nat` (no property here is about overflow); `Set<WorkerId>` /
`Map<WorkerId, _>` are duplicate-free lists (insert = append if absent / replace); every `panic!`/`assert!` on the
modelled paths is an explicit `Panic` outcome.
-/
namespace HqModel.AutoAlloc

/-! ## Parameters, rate limiter (`state.rs: RateLimiter`) -/

/-- `QueueParameters` (the fields the allocation logic reads). -/
structure Params where
  backlog : Nat
  /-- `max_workers_per_alloc` -/
  wpa : Nat
  /-- `max_worker_count` -/
  mwc : Option Nat
  deriving Repr, DecidableEq

structure Limiter where
  /-- `submission_delays` (ms) -/
  delays : List Nat
  /-- `current_delay` (index into `delays`) -/
  cur : Nat
  /-- `last_submission` (ms on the mocked clock) -/
  last : Option Nat
  /-- `allocation_fails` -/
  af : Nat
  maf : Nat
  /-- `submission_fails` -/
  sf : Nat
  msf : Nat
  deriving Repr, DecidableEq

inductive LStatus | ok | wait | tooManySub | tooManyAlloc
  deriving Repr, DecidableEq

namespace Limiter

def new (delays : List Nat) (msf maf : Nat) : Limiter :=
  { delays, cur := 0, last := none, af := 0, maf, sf := 0, msf }

/-- one of the two safety limits is reached -/
def limitsReached (l : Limiter) : Bool := decide (l.maf ≤ l.af) || decide (l.msf ≤ l.sf)

/-- the back-off delay since the last attempt has elapsed (`!(duration < delay)`) -/
def elapsed (l : Limiter) (now : Nat) : Bool :=
  match l.last with
  | none => true
  | some t => decide (l.delays.getD l.cur 0 ≤ now - t)

/-- `RateLimiter::submission_status` -/
def status (l : Limiter) (now : Nat) : LStatus :=
  if l.maf ≤ l.af then .tooManyAlloc
  else if l.msf ≤ l.sf then .tooManySub
  else if l.elapsed now then .ok else .wait

def increaseDelay (l : Limiter) : Limiter :=
  if l.cur < l.delays.length - 1 then { l with cur := l.cur + 1 } else l

def onSubmissionSuccess (l : Limiter) : Limiter :=
  { l with sf := 0, cur := if l.af = 0 then 0 else l.cur }

def onSubmissionFail (l : Limiter) : Limiter := increaseDelay { l with sf := l.sf + 1 }

def onAllocSuccess (l : Limiter) : Limiter := { l with af := 0, cur := 0 }

def onAllocFail (l : Limiter) : Limiter := increaseDelay { l with af := l.af + 1 }

def onAttempt (l : Limiter) (now : Nat) : Limiter := { l with last := some now }

/-- What `AllocationQueue::resume` does to the limiter. In the pinned code: nothing (`mask = 0`).
`mask` is probed from the running implementation (bit 0: `allocation_fails := 0`, bit 1:
`submission_fails := 0`, bit 2: `current_delay := 0`, bit 3: `last_submission := None`). -/
def onResume (mask : Nat) (l : Limiter) : Limiter :=
  { l with
    af := if mask.testBit 0 then 0 else l.af
    sf := if mask.testBit 1 then 0 else l.sf
    cur := if mask.testBit 2 then 0 else l.cur
    last := if mask.testBit 3 then none else l.last }

end Limiter

/-! ## Allocations (`state.rs: Allocation`, `AllocationState`) -/

inductive AState
  | queued (errs : Nat)
  | running (conn : List Nat) (disc : List (Nat × Bool)) (errs : Nat)
  | finished (disc : List (Nat × Bool))
  | finishedUnexp (conn : List Nat) (disc : List (Nat × Bool)) (failed : Bool)
  deriving Repr, DecidableEq

namespace AState
def isQueued : AState → Bool | queued _ => true | _ => false
def isRunning : AState → Bool | running .. => true | _ => false
def isActive : AState → Bool | queued _ => true | running .. => true | _ => false
def isFinished : AState → Bool | finished _ => true | finishedUnexp .. => true | _ => false
def rank : AState → Nat | queued _ => 0 | running .. => 1 | _ => 2
end AState

structure Alloc where
  id : Nat
  /-- `target_worker_count` -/
  target : Nat
  st : AState
  deriving Repr, DecidableEq

/-- `Set::insert` -/
def insertW (w : Nat) (l : List Nat) : List Nat := if w ∈ l then l else l ++ [w]
/-- `Set::remove` -/
def removeW (w : Nat) (l : List Nat) : List Nat := l.filter (· != w)
/-- `DisconnectedWorkers::add_lost_worker` (`Map::insert`: the details of a worker are overwritten) -/
def insertD (w : Nat) (crashed : Bool) (d : List (Nat × Bool)) : List (Nat × Bool) :=
  d.filter (·.1 != w) ++ [(w, crashed)]

/-- `AllocationExternalStatus` without timestamps -/
inductive Ext | queued | running | finished | failed
  deriving Repr, DecidableEq

/-- `AllocationSyncReason`; `crashed` = the `all_crashed` predicate on the `LostWorkerDetails` of this worker. -/
inductive SyncReason
  | conn (w : Nat)
  | lost (w : Nat) (crashed : Bool)
  | ext (s : Ext)
  deriving Repr, DecidableEq

structure SyncOut where
  st : AState
  /-- `on_allocation_started` emitted -/
  started : Bool
  /-- `some failed`: the allocation finished in this call (limiter told success/failure, `on_allocation_finished`) -/
  fin : Option Bool
  deriving Repr, DecidableEq

/-- The transition table of `sync_allocation_status`. -/
def syncState (target : Nat) : AState → SyncReason → SyncOut
  | .queued _, .conn w => ⟨.running [w] [] 0, true, none⟩
  | .running c d e, .conn w => ⟨.running (insertW w c) d e, false, none⟩
  | st, .conn _ => ⟨st, false, none⟩
  | .running c d e, .lost w crashed =>
    let d' := insertD w crashed d
    if d'.length = target then ⟨.finished d', false, some (d'.all (·.2))⟩
    else ⟨.running (removeW w c) d' e, false, none⟩
  | st, .lost _ _ => ⟨st, false, none⟩
  | .queued _, .ext .running => ⟨.running [] [] 0, false, none⟩
  | .queued _, .ext .finished => ⟨.finishedUnexp [] [] false, false, some false⟩
  | .queued _, .ext .failed => ⟨.finishedUnexp [] [] true, false, some true⟩
  | .running c d _, .ext .finished => ⟨.finishedUnexp c d false, false, some false⟩
  | .running c d _, .ext .failed => ⟨.finishedUnexp c d true, false, some true⟩
  | st, .ext _ => ⟨st, false, none⟩

/-- Thresholds of `increase_status_error_counter` and the probed behaviour of `resume`. -/
structure Consts where
  /-- `MAX_QUEUED_STATUS_ERROR_COUNT` -/
  maxQueuedErr : Nat
  /-- `MAX_RUNNING_STATUS_ERROR_COUNT` -/
  maxRunningErr : Nat
  /-- see `Limiter.onResume` -/
  resumeMask : Nat
  deriving Repr, DecidableEq

/-- `increase_status_error_counter`; the flag says that `on_allocation_finished` is emitted. -/
def errState (c : Consts) : AState → AState × Bool
  | .queued e => if c.maxQueuedErr < e + 1 then (.finishedUnexp [] [] true, true) else (.queued (e + 1), false)
  | .running cn d e =>
    if c.maxRunningErr < e + 1 then (.finishedUnexp cn d false, true) else (.running cn d (e + 1), false)
  | st => (st, false)

/-! ## Outputs -/

inductive Resp | ok | okId (q : Nat) | notFound | hasRunning
  deriving Repr, DecidableEq

inductive TickRes | skipped | ok | err
  deriving Repr, DecidableEq

inductive Panic
  /-- `compute_query_responses`: "Invalid queue index returned from worker query" -/
  | queryIndex
  /-- `compute_submission_permit`: `assert!(target_worker_count <= info.max_workers_per_alloc())` -/
  | permitAssert
  /-- `compute_submission_permit`: `sn_worker_count % info.max_workers_per_alloc()` with divisor 0 -/
  | remZero
  /-- `AllocationQueue::add_allocation`: `assert!(insert(..).is_none())` -/
  | dupAlloc
  /-- `AutoAllocState::remove_queue`: `assert!(allocation_to_queue.remove(..).is_some())` -/
  | a2qMissing
  /-- `AutoAllocState::add_queue`: `assert!(queues.insert(..).is_none())` -/
  | dupQueue
  deriving Repr, DecidableEq

inductive Out
  /-- `QueueHandler::submit_allocation(queue, worker_count)` was called -/
  | submit (q n : Nat)
  /-- `QueueHandler::remove_allocation` was called -/
  | rm (q a : Nat)
  /-- `new_worker_query` was called with `n` queries -/
  | query (n : Nat)
  | evQueued (q a n : Nat)
  | evStarted (q a : Nat)
  | evFinished (q a : Nat)
  | evQCreated (q : Nat)
  | evQRemoved (q : Nat)
  | resp (r : Resp)
  /-- return value of `handle_message` -/
  | sched (b : Bool)
  | tickRes (r : TickRes)
  /-- the periodic update ran (some queue is active) -/
  | ran (b : Bool)
  /-- protocol error between harness and model (more/fewer scripted inputs than calls) -/
  | bad (msg : String)
  deriving Repr, DecidableEq

/-! ## Queues (`state.rs: AllocationQueue`) -/

structure Queue where
  id : Nat
  params : Params
  /-- `AllocationQueueState::Active` -/
  active : Bool
  /-- in insertion order; the code keeps a hash map keyed by the allocation id -/
  allocs : List Alloc
  lim : Limiter
  deriving Repr, DecidableEq

namespace Queue

def queuedTargets (q : Queue) : List Nat := (q.allocs.filter (·.st.isQueued)).map (·.target)
def queuedCount (q : Queue) : Nat := (q.allocs.filter (·.st.isQueued)).length
/-- `active_worker_count` -/
def activeWorkers (q : Queue) : Nat := ((q.allocs.filter (·.st.isActive)).map (·.target)).sum

/-- `has_space_for_submit` -/
def hasSpace (q : Queue) : Bool :=
  if q.params.backlog ≤ q.queuedCount then false
  else match q.params.mwc with
    | some m => !decide (m ≤ q.activeWorkers)
    | none => true

def findAlloc (q : Queue) (a : Nat) : Option Alloc := q.allocs.find? (·.id == a)

/-- `try_pause_queue` -/
def tryPause (q : Queue) : Queue :=
  if q.active && q.lim.limitsReached then { q with active := false } else q

def limAfter (l : Limiter) : Option Bool → Limiter
  | none => l
  | some false => l.onAllocSuccess
  | some true => l.onAllocFail

def syncEvents (qid a : Nat) (o : SyncOut) : List Out :=
  (if o.started then [Out.evStarted qid a] else []) ++ (if o.fin.isSome then [Out.evFinished qid a] else [])

/-- `sync_allocation_status` -/
def sync (q : Queue) (a : Nat) (r : SyncReason) : Queue × List Out :=
  match q.findAlloc a with
  | none => (q, [])
  | some x =>
    let o := syncState x.target x.st r
    ({ q with
        allocs := q.allocs.map fun y => if y.id = a then { y with st := (syncState y.target y.st r).st } else y
        lim := limAfter q.lim o.fin },
     syncEvents q.id a o)

/-- `increase_status_error_counter` on allocation `a` of the queue -/
def bumpErr (c : Consts) (q : Queue) (a : Nat) : Queue × List Out :=
  match q.findAlloc a with
  | none => (q, [])
  | some x =>
    ({ q with allocs := q.allocs.map fun y => if y.id = a then { y with st := (errState c y.st).1 } else y },
     if (errState c x.st).2 then [Out.evFinished q.id a] else [])

end Queue

/-- one entry of the status map returned by the batch system -/
inductive St | queued | running | finished | failed | error | missing
  deriving Repr, DecidableEq

/-- answer of `get_status_of_allocations` for one queue, with the (hash) order of the ids it was asked for -/
inductive Report
  | callErr (ids : List Nat)
  | statuses (l : List (Nat × St))
  deriving Repr, DecidableEq

namespace Queue

def applyStatus (c : Consts) (q : Queue) (a : Nat) : St → Queue × List Out
  | .queued => q.sync a (.ext .queued)
  | .running => q.sync a (.ext .running)
  | .finished => q.sync a (.ext .finished)
  | .failed => q.sync a (.ext .failed)
  -- absent from the status map: `unwrap_or_else(|| Ok(Failed{..}))`
  | .missing => q.sync a (.ext .failed)
  | .error => q.bumpErr c a

def refreshStatuses (c : Consts) : List (Nat × St) → Queue × List Out → Queue × List Out
  | [], acc => acc
  | (a, st) :: rest, (q, outs) =>
    let r := q.applyStatus c a st
    refreshStatuses c rest (r.1, outs ++ r.2)

def refreshErr (c : Consts) : List Nat → Queue × List Out → Queue × List Out
  | [], acc => acc
  | a :: rest, (q, outs) =>
    let r := q.bumpErr c a
    refreshErr c rest (r.1, outs ++ r.2)

/-- `refresh_queue_allocations` after the status call returned -/
def refresh (c : Consts) (q : Queue) : Report → Queue × List Out
  | .statuses l => refreshStatuses c l (q, [])
  | .callErr ids => refreshErr c ids (q, [])

end Queue

/-! ## Submission (`compute_submission_permit`, `queue_try_submit`) -/

/-- aggregated worker query response for one queue (`QueryResponse`) -/
structure QResp where
  sn : Nat
  mnAllocs : Nat
  mnWpa : Nat
  deriving Repr, DecidableEq

def QResp.isEmpty (r : QResp) : Bool := r.sn == 0 && r.mnAllocs == 0

/-- step 1 of `compute_submission_permit`: discount what the queued allocations already cover -/
def discount (mnWpa : Nat) : List Nat → Nat × Nat → Nat × Nat
  | [], acc => acc
  | t :: rest, (mn, sn) =>
    if 0 < mn ∧ mnWpa ≤ t then discount mnWpa rest (mn - 1, sn - (t - mnWpa))
    else discount mnWpa rest (mn, sn - t)

/-- final loop of `compute_submission_permit`; `rem = none` is "no `max_worker_count`" (`u32::MAX`) -/
def grant (wpa : Nat) : List Nat → Option Nat → Except Panic (List Nat)
  | [], _ => .ok []
  | t :: rest, rem =>
    if wpa < t then .error .permitAssert
    else
      let toSpawn := match rem with | some r => min t r | none => t
      if toSpawn = 0 then .ok []
      else match grant wpa rest (rem.map (· - toSpawn)) with
        | .error p => .error p
        | .ok l => .ok (toSpawn :: l)

/-- `compute_submission_permit` -/
def Queue.permit (q : Queue) (r : QResp) : Except Panic (List Nat) :=
  let rem : Option Nat := q.params.mwc.map (· - q.activeWorkers)
  if rem = some 0 then .ok []
  else
    let d := discount r.mnWpa q.queuedTargets (r.mnAllocs, r.sn)
    if q.params.wpa = 0 then .error .remZero
    else
      let full := d.2 / q.params.wpa
      let remainder := d.2 % q.params.wpa
      let snAllocs := List.replicate full q.params.wpa ++ (if remainder ≠ 0 then [remainder] else [])
      let maxAllocs := q.params.backlog - q.queuedCount
      grant q.params.wpa ((List.replicate d.1 r.mnWpa ++ snAllocs).take maxAllocs) rem

/-- result of one `submit_allocation` call -/
inductive SubRes
  | ok (id : Nat)
  /-- the batch system rejected the submission -/
  | fail
  /-- the allocation directory could not be created -/
  | err
  deriving Repr, DecidableEq

structure SubAcc where
  q : Queue
  outs : List Out
  /-- scripted results not yet consumed -/
  results : List SubRes
  /-- ids of the allocations added (for `allocation_to_queue`) -/
  newIds : List Nat
  panic : Option Panic
  deriving Repr

/-- the `for workers_to_spawn in permit.allocs_to_submit` loop of `queue_try_submit` -/
def Queue.submitLoop : List Nat → SubAcc → SubAcc
  | [], acc => acc
  | n :: rest, acc =>
    let outs := acc.outs ++ [Out.submit acc.q.id n]
    match acc.results with
    | [] =>
      -- no scripted result left: protocol error, treated as a failed submission
      { acc with q := { acc.q with lim := acc.q.lim.onSubmissionFail }, outs := outs ++ [Out.bad "no-submit-result"] }
    | .ok a :: rs =>
      let outs := outs ++ [Out.evQueued acc.q.id a n]
      if acc.q.allocs.any (·.id == a) then
        { acc with outs := outs, results := rs, newIds := acc.newIds ++ [a], panic := some .dupAlloc }
      else
        Queue.submitLoop rest
          { q := { acc.q with allocs := acc.q.allocs ++ [⟨a, n, .queued 0⟩], lim := acc.q.lim.onSubmissionSuccess }
            outs := outs, results := rs, newIds := acc.newIds ++ [a], panic := none }
    | _ :: rs =>
      { acc with q := { acc.q with lim := acc.q.lim.onSubmissionFail }, outs := outs, results := rs }

/-- `queue_try_submit` for one queue -/
def Queue.trySubmit (q : Queue) (r : QResp) (now : Nat) (results : List SubRes) : SubAcc :=
  let nothing : SubAcc := ⟨q, [], results, [], none⟩
  if r.isEmpty then nothing
  else if !q.active then nothing
  else match q.permit r with
    | .error p => { nothing with panic := some p }
    | .ok [] => nothing
    | .ok (n :: rest) =>
      if q.lim.status now = .ok then
        Queue.submitLoop (n :: rest) ⟨{ q with lim := q.lim.onAttempt now }, [], results, [], none⟩
      else nothing

/-! ## The whole state (`state.rs: AutoAllocState`) -/

structure State where
  consts : Consts
  queues : List Queue
  /-- `allocation_to_queue` -/
  a2q : List (Nat × Nat)
  /-- `queue_id_counter` -/
  nextId : Nat
  deriving Repr, DecidableEq

def init (c : Consts) (nextId : Nat) : State := { consts := c, queues := [], a2q := [], nextId }

def a2qInsert (a q : Nat) (m : List (Nat × Nat)) : List (Nat × Nat) := (a, q) :: m.filter (·.1 != a)
def a2qRemove (a : Nat) (m : List (Nat × Nat)) : List (Nat × Nat) := m.filter (·.1 != a)
def a2qLookup (a : Nat) (m : List (Nat × Nat)) : Option Nat := (m.find? (·.1 == a)).map (·.2)

namespace State

def getQueue (s : State) (id : Nat) : Option Queue := s.queues.find? (·.id == id)
def setQueue (s : State) (q : Queue) : State :=
  { s with queues := s.queues.map fun x => if x.id = q.id then q else x }
def hasActiveQueues (s : State) : Bool := s.queues.any (·.active)
def addA2q (s : State) (ids : List Nat) (q : Nat) : State :=
  { s with a2q := ids.foldl (fun m a => a2qInsert a q m) s.a2q }

end State

/-- result of one step; `panic ≠ none`: the autoalloc task died in this step (then `st` is irrelevant) -/
structure Res where
  st : State
  outs : List Out
  panic : Option Panic := none
  deriving Repr

/-- answer of `new_worker_query` -/
inductive Query
  /-- the harness saw no query in this tick -/
  | none
  | err
  /-- `single_node_workers_per_query`, `multi_node_allocations` as (worker_type, max_allocations, worker_per_allocation) -/
  | ok (sn : List Nat) (mn : List (Nat × Nat × Nat))
  deriving Repr, DecidableEq

/-- the merge loop of `compute_query_responses` -/
def mergeMn : List (Nat × Nat × Nat) → List QResp → Except Panic (List QResp)
  | [], rs => .ok rs
  | (wt, allocs, wpa) :: rest, rs =>
    if wt < rs.length then
      mergeMn rest (rs.set wt { (rs.getD wt ⟨0, 0, 0⟩) with mnAllocs := allocs, mnWpa := wpa })
    else .error .queryIndex

structure TickAcc where
  st : State
  outs : List Out
  results : List SubRes
  panic : Option Panic
  deriving Repr

/-- `for (response, &queue_id) in responses.into_iter().zip(&queue_ids) { queue_try_submit(..) }` -/
def submitAll (now : Nat) : List (QResp × Nat) → TickAcc → TickAcc
  | [], acc => acc
  | (r, qid) :: rest, acc =>
    match acc.st.getQueue qid with
    | none => submitAll now rest acc
    | some q =>
      let a := q.trySubmit r now acc.results
      let st' := (acc.st.setQueue a.q).addA2q a.newIds qid
      match a.panic with
      | some p => { st := st', outs := acc.outs ++ a.outs, results := a.results, panic := some p }
      | none => submitAll now rest { st := st', outs := acc.outs ++ a.outs, results := a.results, panic := none }

namespace State

def pauseAll (s : State) : State := { s with queues := s.queues.map Queue.tryPause }

/-- ids of the active queues in the iteration order `order` of the queue map -/
def activeIn (s : State) (order : List Nat) : List Nat :=
  order.filter fun id => match s.getQueue id with | some q => q.active | none => false

/-- The `scheduling_interval` arm of `autoalloc_process`: `if has_active_queues { perform_submits }`. -/
def tick (s : State) (now : Nat) (order : List Nat) (query : Query) (results : List SubRes) : Res :=
  if !s.hasActiveQueues then ⟨s, [.tickRes .skipped], none⟩
  else
    let s1 := s.pauseAll
    let active := s1.activeIn order
    if active.isEmpty then ⟨s1, [.tickRes .ok], none⟩
    else if active.all (fun id => match s1.getQueue id with | some q => !q.hasSpace | none => true) then
      ⟨s1, [.tickRes .ok], none⟩
    else
      let qout := Out.query active.length
      match query with
      | .none => ⟨s1, [qout, .bad "no-query-response", .tickRes .err], none⟩
      | .err => ⟨s1, [qout, .tickRes .err], none⟩
      | .ok sn mn =>
        match mergeMn mn (sn.map fun n => ⟨n, 0, 0⟩) with
        | .error p => ⟨s1, [qout], some p⟩
        | .ok responses =>
          let acc := submitAll now (responses.zip active) ⟨s1, [qout], results, none⟩
          match acc.panic with
          | some p => ⟨acc.st, acc.outs, some p⟩
          | none =>
            ⟨acc.st.pauseAll,
             acc.outs ++ (if acc.results.isEmpty then [] else [.bad "unused-submit-results"]) ++ [.tickRes .ok], none⟩

def refreshAll : List (Nat × Report) → State × List Out → State × List Out
  | [], acc => acc
  | (qid, rep) :: rest, (s, outs) =>
    match s.getQueue qid with
    | none => refreshAll rest (s, outs)
    | some q =>
      let r := q.refresh s.consts rep
      refreshAll rest (s.setQueue r.1, outs ++ r.2)

/-- The `periodic_update_interval` arm: `if has_active_queues { do_periodic_update }`.
`reports`: one entry per queue whose handler was asked, in processing order. -/
def refresh (s : State) (reports : List (Nat × Report)) : Res :=
  if !s.hasActiveQueues then ⟨s, [.ran false], none⟩
  else
    let r := refreshAll reports (s, [])
    ⟨r.1, r.2 ++ [.ran true], none⟩

/-- `get_data_from_worker` + `sync_allocation_status` -/
def workerEvent (s : State) (a : Nat) (r : SyncReason) : Res :=
  match a2qLookup a s.a2q with
  | none => ⟨s, [.sched true], none⟩
  | some qid =>
    match s.getQueue qid with
    | none => ⟨s, [.sched true], none⟩
    | some q =>
      let x := q.sync a r
      ⟨s.setQueue x.1, x.2 ++ [.sched true], none⟩

/-- `create_queue` -/
def addQueue (s : State) (p : Params) (lim : Limiter) (qid : Option Nat) : Res :=
  let id := qid.getD s.nextId
  let next := if qid.isSome then s.nextId else s.nextId + 1
  if s.queues.any (·.id == id) then ⟨{ s with nextId := next }, [], some .dupQueue⟩
  else
    ⟨{ s with queues := s.queues ++ [⟨id, p, true, [], lim⟩], nextId := next },
     (if qid.isSome then [] else [.evQCreated id]) ++ [.resp (.okId id), .sched true], none⟩

def removeA2qAll : List Nat → List (Nat × Nat) → Option (List (Nat × Nat))
  | [], m => some m
  | a :: rest, m => if (a2qLookup a m).isSome then removeA2qAll rest (a2qRemove a m) else none

/-- `remove_queue` -/
def removeQueue (s : State) (qid : Nat) (force : Bool) : Res :=
  match s.getQueue qid with
  | none => ⟨s, [.resp .notFound, .sched false], none⟩
  | some q =>
    if q.allocs.any (·.st.isRunning) && !force then ⟨s, [.resp .hasRunning, .sched false], none⟩
    else
      let s1 := { s with queues := s.queues.filter (·.id != qid) }
      match removeA2qAll (q.allocs.map (·.id)) s.a2q with
      | none => ⟨s1, [], some .a2qMissing⟩
      | some m =>
        ⟨{ s1 with a2q := m },
         ((q.allocs.filter (·.st.isActive)).map fun a => Out.rm qid a.id) ++ [.evQRemoved qid, .resp .ok, .sched false],
         none⟩

def pause (s : State) (qid : Nat) : Res :=
  match s.getQueue qid with
  | none => ⟨s, [.resp .notFound, .sched false], none⟩
  | some q => ⟨s.setQueue { q with active := false }, [.resp .ok, .sched false], none⟩

def resume (s : State) (qid : Nat) : Res :=
  match s.getQueue qid with
  | none => ⟨s, [.resp .notFound, .sched true], none⟩
  | some q =>
    ⟨s.setQueue { q with active := true, lim := q.lim.onResume s.consts.resumeMask }, [.resp .ok, .sched true], none⟩

end State

/-! ## Events and the step function -/

inductive Ev
  | workerConnected (w a : Nat)
  | workerLost (w a : Nat) (crashed : Bool)
  | jobSubmitted
  | addQueue (p : Params) (lim : Limiter) (qid : Option Nat)
  | removeQueue (q : Nat) (force : Bool)
  | pause (q : Nat)
  | resume (q : Nat)
  | tick (now : Nat) (order : List Nat) (query : Query) (results : List SubRes)
  | refresh (reports : List (Nat × Report))
  deriving Repr

def step (s : State) : Ev → Res
  | .workerConnected w a => s.workerEvent a (.conn w)
  | .workerLost w a crashed => s.workerEvent a (.lost w crashed)
  | .jobSubmitted => ⟨s, [.sched true], none⟩
  | .addQueue p lim qid => s.addQueue p lim qid
  | .removeQueue q force => s.removeQueue q force
  | .pause q => s.pause q
  | .resume q => s.resume q
  | .tick now order query results => s.tick now order query results
  | .refresh reports => s.refresh reports

/-- Run a list of events; stops at the first panic. Returns the final state, all outputs, and the panic (if any). -/
def run : State → List Ev → State × List Out × Option Panic
  | s, [] => (s, [], none)
  | s, e :: es =>
    let r := step s e
    match r.panic with
    | some p => (r.st, r.outs, some p)
    | none =>
      let (s', outs, p) := run r.st es
      (s', r.outs ++ outs, p)

/-- `all_crashed` for one worker: lost connection / heartbeat within 60 s of connecting. -/
def isCrash (reasonIsFailure : Bool) (lifetimeMs : Nat) : Bool := reasonIsFailure && decide (lifetimeMs ≤ 60000)

end HqModel.AutoAlloc
