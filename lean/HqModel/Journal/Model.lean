import HqModel.Job.IntArray
/-!
M5 Journal — executable model of

* `crates/hyperqueue/src/server/restore.rs`  (`StateRestorer::load_event_file`, `restore_jobs_and_queues`,
  `RestorerJob::restore_job`, the counters),
* the parts of `server/client/submit.rs` (`validate_submit`, `submit_job_desc`, `build_tasks_array/graph`) and
  `server/job.rs` (`Job::new`, `attach_submit`) that restore re-runs,
* `server/bootstrap.rs` (seeding of the job / worker / queue counters and of the server uid),
* `server/event/journal/prune.rs` (`prune_journal`),
* `tako/src/internal/server/client.rs` (`handle_new_tasks`: how `adjust_instance_id_and_crash_counters` is applied).

Written from the code *as it is*: every `unwrap`/`panic!`/`assert!` on these paths is a `Stop.panic site`.
Hash maps are association lists with "replace in place or append" insertion; every observable that comes out of
a hash-map iteration is sorted by the driver before printing. u32 counters are `Nat`.
-/
namespace HqModel.Journal
open HqModel.Job

/-! ### association lists keyed by `Nat` -/

/-- `Map::get` -/
def alGet : List (Nat × β) → Nat → Option β
  | [], _ => none
  | (k, v) :: r, i => if k = i then some v else alGet r i

/-- `Map::insert` (replace in place, else append) -/
def alSet : List (Nat × β) → Nat → β → List (Nat × β)
  | [], i, v => [(i, v)]
  | (k, w) :: r, i, v => if k = i then (k, v) :: r else (k, w) :: alSet r i v

/-- `Map::remove` -/
def alDel : List (Nat × β) → Nat → List (Nat × β)
  | [], _ => []
  | (k, w) :: r, i => if k = i then alDel r i else (k, w) :: alDel r i

/-- `values_mut().for_each` -/
def alMap (f : β → γ) (l : List (Nat × β)) : List (Nat × γ) := l.map fun kv => (kv.1, f kv.2)

/-! ### records -/

/-- `tako::gateway::LostWorkerReason` -/
inductive LostReason
  | stopped | connectionLost | heartbeatLost | idleTimeout | timeLimitReached
  deriving DecidableEq, Repr

def LostReason.isFailure : LostReason → Bool
  | .connectionLost | .heartbeatLost => true
  | _ => false

/-- `TaskWithDependencies` without the task body; `rqOk` = `resource_rq_id.as_usize() < resource_rqs.len()`. -/
structure GraphTask where
  id : Nat
  deps : List Nat
  rqOk : Bool
  deriving DecidableEq, Repr

/-- `JobTaskDescription` without bodies; `entries` = `entries.map(|e| e.len())`. -/
inductive TaskDesc
  | array (ids : IntArray) (entries : Option Nat)
  | graph (tasks : List GraphTask)
  deriving DecidableEq, Repr

/-- The journal-relevant `EventPayload`s without blobs. Task ids are `(job, task)`. `uid` is the server uid
(`""` never occurs in a real `ServerStart`, but the code tests for it). Allocation ids are numbered. -/
inductive Record
  | serverStart (uid : String)
  | serverStop
  | workerConnected (w : Nat) (alloc : Option Nat)
  | workerLost (w : Nat) (reason : LostReason)
  | workerOverview (w : Nat)
  | submit (job : Nat) (closed : Bool) (maxFails : Option Nat) (desc : TaskDesc)
  | jobOpen (job : Nat) (maxFails : Option Nat)
  | jobClose (job : Nat)
  | jobCancel (job : Nat)
  | jobCompleted (job : Nat)
  | taskStarted (job task inst : Nat) (workers : List Nat)
  | taskFinished (job task : Nat)
  | taskFailed (job task : Nat)
  | tasksCanceled (ids : List (Nat × Nat))
  | tasksAborted (ids : List (Nat × Nat))
  | queueCreated (q : Nat)
  | queueRemoved (q : Nat)
  | allocQueued (q alloc : Nat)
  | allocStarted (q alloc : Nat)
  | allocFinished (q alloc : Nat)
  deriving DecidableEq, Repr

/-! ### restorer state -/

/-- `StartedTaskData` (instance id of the context, worker ids). -/
structure Started where
  inst : Nat
  workers : List Nat
  deriving DecidableEq, Repr

/-- `JobTaskState` -/
inductive TState
  | waiting
  | running (sd : Started)
  | finished (sd : Started)
  | failed (sd : Option Started)
  | canceled (sd : Option Started)
  | aborted (sd : Option Started)
  deriving DecidableEq, Repr

/-- terminal outcome kinds (what C10 calls "recorded outcome") -/
inductive Outcome
  | waiting | finished | failed | canceled | aborted
  deriving DecidableEq, Repr

def TState.outcome : TState → Outcome
  | .waiting | .running _ => .waiting
  | .finished _ => .finished
  | .failed _ => .failed
  | .canceled _ => .canceled
  | .aborted _ => .aborted

/-- `RestorerTaskInfo::is_completed` -/
def TState.isCompleted : TState → Bool
  | .waiting | .running _ => false
  | _ => true

/-- `RestorerTaskInfo` -/
structure RTask where
  state : TState
  inst : Option Nat
  crash : Nat
  deriving DecidableEq, Repr

/-- `RestorerJob` (the `cancel_reason` field is written by `JobCancel` and never read: not modelled) -/
structure RJob where
  maxFails : Option Nat
  submits : List TaskDesc
  tasks : List (Nat × RTask)
  isOpen : Bool
  deriving DecidableEq, Repr

/-- `StateRestorer` -/
structure Restorer where
  jobs : List (Nat × RJob) := []
  maxJob : Nat := 0
  maxWorker : Nat := 0
  /-- `queue_to_worker_resources` (only the key set is observable here) -/
  queueRes : List (Nat × Unit) := []
  allocQueue : List (Nat × Nat) := []
  truncate : Option Nat := none
  queues : List (Nat × Unit) := []
  maxQueue : Nat := 0
  uid : String := ""
  deriving DecidableEq, Repr

inductive PanicSite
  | taskFinishedUnwrap | taskFinishedState | taskFailedState
  | jobCloseUnwrap | jobCancelUnwrap | queueCreatedAssert
  | validateRqAssert | attachDuplicate
  deriving DecidableEq, Repr

inductive ErrKind
  | validation   -- `Job validation failed` in `restore_job`
  | corrupt      -- a record that does not decode (not a torn tail)
  | header       -- `JournalReader::open` fails
  | coreDuplicate -- `handle_new_tasks`: task id already taken
  deriving DecidableEq, Repr

inductive Stop
  | panic (site : PanicSite)
  | error (kind : ErrKind)
  deriving DecidableEq, Repr

/-! ### `load_event_file`: one record -/

/-- `RestorerJob::increase_crash_counters` -/
def RJob.increaseCrash (j : RJob) (w : Nat) : RJob :=
  { j with tasks := alMap (fun t => match t.state with
      | .running sd => if sd.workers.head? == some w then { t with crash := t.crash + 1 } else t   -- root only
      | _ => t) j.tasks }

/-- the `TasksCanceled` arm for one id inside an existing job -/
def cancelTask (ts : List (Nat × RTask)) (t : Nat) : List (Nat × RTask) :=
  match alGet ts t with
  | some ti =>
    alSet ts t { ti with state := match ti.state with
      | .running sd => .canceled (some sd)
      | _ => .canceled none }
  | none => alSet ts t { state := .canceled none, inst := none, crash := 0 }

/-- the `TasksAborted` arm for one id inside an existing job -/
def abortTask (ts : List (Nat × RTask)) (t : Nat) : List (Nat × RTask) :=
  match alGet ts t with
  | some ti =>
    alSet ts t { ti with state := match ti.state with
      | .running sd => .aborted (some sd)
      | _ => .aborted none }
  | none => alSet ts t { state := .aborted none, inst := none, crash := 0 }

def batchStep (f : List (Nat × RTask) → Nat → List (Nat × RTask)) (jobs : List (Nat × RJob))
    (id : Nat × Nat) : List (Nat × RJob) :=
  match alGet jobs id.1 with
  | some j => alSet jobs id.1 { j with tasks := f j.tasks id.2 }
  | none => jobs

/-- `StateRestorer::add_job` -/
def Restorer.addJob (r : Restorer) (id : Nat) (j : RJob) : Restorer :=
  { r with jobs := alSet r.jobs id j, maxJob := max r.maxJob id }

/-- one iteration of the loop in `load_event_file` -/
def restorerStep (r : Restorer) : Record → Except Stop Restorer
  | .workerConnected w alloc =>
    let r := { r with maxWorker := max r.maxWorker w }
    match alloc with
    | some a =>
      match alGet r.allocQueue a with
      | some q => .ok { r with queueRes := alSet r.queueRes q () }
      | none => .ok r
    | none => .ok r
  | .workerLost w reason =>
    if reason.isFailure then .ok { r with jobs := alMap (·.increaseCrash w) r.jobs } else .ok r
  | .workerOverview _ => .ok r
  | .submit job closed mf desc =>
    if closed then
      .ok (r.addJob job { maxFails := mf, submits := [desc], tasks := [], isOpen := false })
    else match alGet r.jobs job with
      | some j => .ok { r with jobs := alSet r.jobs job { j with submits := j.submits ++ [desc] } }
      | none => .ok r   -- "Ignoring submit attachment to an non-existing job"
  | .jobCompleted job => .ok { r with jobs := alDel r.jobs job }
  | .taskStarted job task inst workers =>
    match alGet r.jobs job with
    | some j =>
      -- crashes of the previous executions of the task are kept
      let ti : RTask := ⟨.running ⟨inst, workers⟩, some inst, ((alGet j.tasks task).map (·.crash)).getD 0⟩
      .ok { r with jobs := alSet r.jobs job { j with tasks := alSet j.tasks task ti } }
    | none => .ok r
  | .taskFinished job task =>
    match alGet r.jobs job with
    | some j =>
      match alGet j.tasks task with
      | none => .error (.panic .taskFinishedUnwrap)
      | some ti =>
        match ti.state with
        | .running sd =>
          .ok { r with jobs := alSet r.jobs job { j with tasks := alSet j.tasks task { ti with state := .finished sd } } }
        | _ => .error (.panic .taskFinishedState)
    | none => .ok r
  | .taskFailed job task =>
    match alGet r.jobs job with
    | some j =>
      match alGet j.tasks task with
      | none =>   -- `entry(..).or_insert_with(Waiting)`: a task may fail without ever being started
        .ok { r with jobs := alSet r.jobs job { j with tasks := alSet j.tasks task ⟨.failed none, none, 0⟩ } }
      | some ti =>
        match ti.state with
        | .waiting =>
          .ok { r with jobs := alSet r.jobs job { j with tasks := alSet j.tasks task { ti with state := .failed none } } }
        | .running sd =>
          .ok { r with jobs := alSet r.jobs job { j with tasks := alSet j.tasks task { ti with state := .failed (some sd) } } }
        | _ => .error (.panic .taskFailedState)
    | none => .ok r
  | .tasksCanceled ids => .ok { r with jobs := ids.foldl (batchStep cancelTask) r.jobs }
  | .tasksAborted ids => .ok { r with jobs := ids.foldl (batchStep abortTask) r.jobs }
  | .queueCreated q =>
    match alGet r.queues q with
    | some _ => .error (.panic .queueCreatedAssert)
    | none => .ok { r with queues := alSet r.queues q (), maxQueue := max r.maxQueue q }
  | .queueRemoved q => .ok { r with queues := alDel r.queues q }
  | .allocQueued q a => .ok { r with allocQueue := alSet r.allocQueue a q }
  | .allocStarted _ _ => .ok r
  | .allocFinished _ _ => .ok r
  | .serverStart uid => .ok { r with uid := uid }
  | .serverStop => .ok r
  | .jobOpen job mf => .ok (r.addJob job { maxFails := mf, submits := [], tasks := [], isOpen := true })
  | .jobClose job =>
    match alGet r.jobs job with
    | some j => .ok { r with jobs := alSet r.jobs job { j with isOpen := false } }
    | none => .error (.panic .jobCloseUnwrap)
  | .jobCancel job =>
    match alGet r.jobs job with
    | some _ => .ok r
    | none => .error (.panic .jobCancelUnwrap)

/-- the loop of `load_event_file` over the decoded records -/
def restorerFoldFrom (r : Restorer) : List Record → Except Stop Restorer
  | [] => .ok r
  | x :: xs =>
    match restorerStep r x with
    | .ok r' => restorerFoldFrom r' xs
    | .error e => .error e

def restorerFold (J : List Record) : Except Stop Restorer := restorerFoldFrom {} J

/-! ### counters (restore.rs) and how bootstrap.rs / State / Core / AutoAllocState issue the first ids -/

/-- `job_id_counter()`, `worker_id_counter()`, `queue_id_counter()` -/
structure Counters where
  job : Nat
  worker : Nat
  queue : Nat
  deriving DecidableEq, Repr

def counters (r : Restorer) : Counters := ⟨r.maxJob + 1, r.maxWorker + 1, r.maxQueue + 1⟩

/-- `State::new_job_id` (post-increment) -/
def issueJob (c : Counters) : Nat × Counters := (c.job, { c with job := c.job + 1 })
/-- `Core::new_worker_id` (pre-increment) -/
def issueWorker (c : Counters) : Nat × Counters := (c.worker + 1, { c with worker := c.worker + 1 })
/-- `IdCounter::increment` (post-increment) -/
def issueQueue (c : Counters) : Nat × Counters := (c.queue, { c with queue := c.queue + 1 })

/-- counters of a server started without a journal file (`State::new`: 1, `WorkerId::new(0)`, queue 1) -/
def freshCounters : Counters := ⟨1, 0, 1⟩

/-- `start_server`: `if !server_uid.is_empty() { server_cfg.server_uid = Some(server_uid) }`, else the generated one -/
def startUid (restored generated : String) : String := if restored = "" then generated else restored

/-! ### `restore_job` -/

/-- job task counters `JobTaskCounters` -/
structure JCounters where
  running : Nat := 0
  finished : Nat := 0
  failed : Nat := 0
  canceled : Nat := 0
  aborted : Nat := 0
  deriving DecidableEq, Repr

/-- a `TaskSubmit` as far as restore determines it: tasks with dependencies, and the adjust map -/
structure Batch where
  job : Nat
  tasks : List (Nat × List Nat)
  adjust : List (Nat × (Nat × Nat))
  deriving DecidableEq, Repr

/-- the restored `Job` -/
structure RestoredJob where
  id : Nat
  isOpen : Bool
  maxFails : Option Nat
  tasks : List (Nat × TState)
  counters : JCounters
  nSubmits : Nat
  deriving DecidableEq, Repr

inductive SubmitError
  | taskIdAlreadyExists (t : Nat) | nonUniqueTaskId (t : Nat) | invalidDependencies (t : Nat)
  deriving DecidableEq, Repr

/-- graph part of `validate_submit`, second loop (`task_ids` is the set built so far) -/
def validateGraphDeps (jobHas : Nat → Bool) : List Nat → List GraphTask → Option SubmitError
  | _, [] => none
  | seen, t :: ts =>
    if seen.contains t.id then some (.nonUniqueTaskId t.id)
    else
      let seen' := t.id :: seen
      match t.deps.find? (fun d => d == t.id || (!seen'.contains d && !jobHas d)) with
      | some d => some (.invalidDependencies d)
      | none => validateGraphDeps jobHas seen' ts

/-- graph part of `validate_submit`, first loop (job is always `Some` during restore) -/
def validateGraphExisting (jobHas : Nat → Bool) : List GraphTask → Except Stop (Option SubmitError)
  | [] => .ok none
  | t :: ts =>
    if jobHas t.id then .ok (some (.taskIdAlreadyExists t.id))
    else if !t.rqOk then .error (.panic .validateRqAssert)
    else validateGraphExisting jobHas ts

/-- `validate_submit(Some(job), desc)` -/
def validateSubmit (jobTasks : List (Nat × TState)) : TaskDesc → Except Stop (Option SubmitError)
  | .array ids _ =>
    match ids.iter.find? (fun i => (alGet jobTasks i).isSome) with
    | some i => .ok (some (.taskIdAlreadyExists i))
    | none => .ok none
  | .graph tasks =>
    match validateGraphExisting (fun i => (alGet jobTasks i).isSome) tasks with
    | .error e => .error e
    | .ok (some e) => .ok (some e)
    | .ok none => .ok (validateGraphDeps (fun i => (alGet jobTasks i).isSome) [] tasks)

/-- ids a submit attaches to the job (`attach_submit`) -/
def TaskDesc.ids : TaskDesc → List Nat
  | .array ids _ => ids.iter
  | .graph tasks => tasks.map (·.id)

/-- `build_tasks_array` / `build_tasks_graph`: the `TaskConfiguration`s (id, deps); graph deps go through a `Set`
(deduplicated; order canonicalised by the printer). With `entries = Some(v)` the array is `ids.zip(v)`. -/
def TaskDesc.tasks : TaskDesc → List (Nat × List Nat)
  | .array ids none => ids.iter.map (·, [])
  | .array ids (some n) => (ids.iter.take n).map (·, [])
  | .graph tasks => tasks.map fun t => (t.id, t.deps.eraseDups)

/-- `attach_submit`: insert every id as `Waiting`, `assert!(… .is_none())` -/
def attachIds : List (Nat × TState) → List Nat → Except Stop (List (Nat × TState))
  | ts, [] => .ok ts
  | ts, i :: is =>
    match alGet ts i with
    | some _ => .error (.panic .attachDuplicate)
    | none => attachIds (alSet ts i .waiting) is

/-- `is_task_completed` -/
def isTaskCompleted (rt : List (Nat × RTask)) (t : Nat) : Bool :=
  match alGet rt t with
  | some ti => ti.state.isCompleted
  | none => false

/-- `new_tasks.tasks.retain_mut(…)` -/
def retainTasks (rt : List (Nat × RTask)) (ts : List (Nat × List Nat)) : List (Nat × List Nat) :=
  (ts.filter fun t => !isTaskCompleted rt t.1).map fun t => (t.1, t.2.filter fun d => !isTaskCompleted rt d)

/-- `matches!(job_task.state, JobTaskState::Waiting)` -/
def TState.isWaiting : TState → Bool
  | .waiting => true
  | _ => false

/-- the job tasks the loop over `job.tasks` does not skip: those not yet restored by an earlier submit -/
def stillWaiting (jobTasks : List (Nat × TState)) : List (Nat × TState) := jobTasks.filter (·.2.isWaiting)

/-- the adjust entries the loop over `job.tasks` inserts -/
def adjustOf (rt : List (Nat × RTask)) (jobTasks : List (Nat × TState)) : List (Nat × (Nat × Nat)) :=
  jobTasks.filterMap fun jt =>
    match alGet rt jt.1 with
    | some ti =>
      if ti.crash > 0 || ti.inst.isSome then
        some (jt.1, ((match ti.inst with | some x => x + 1 | none => 0), ti.crash))
      else none
    | none => none

/-- `job_task.state = task.state.clone()` for completed restorer tasks -/
def applyStates (rt : List (Nat × RTask)) (jobTasks : List (Nat × TState)) : List (Nat × TState) :=
  jobTasks.map fun jt =>
    if jt.2.isWaiting then
      match alGet rt jt.1 with
      | some ti => if ti.state.isCompleted then (jt.1, ti.state) else jt
      | none => jt
    else jt

def countOutcome (rt : List (Nat × RTask)) (jobTasks : List (Nat × TState)) (o : Outcome) : Nat :=
  (jobTasks.filter fun jt =>
    match alGet rt jt.1 with
    | some ti => ti.state.outcome == o
    | none => false).length

/-- the counter increments of one pass of the loop over the `job.tasks` handed to it -/
def bumpCounters (rt : List (Nat × RTask)) (jobTasks : List (Nat × TState)) (c : JCounters) : JCounters :=
  { c with
    finished := c.finished + countOutcome rt jobTasks .finished
    failed := c.failed + countOutcome rt jobTasks .failed
    canceled := c.canceled + countOutcome rt jobTasks .canceled
    aborted := c.aborted + countOutcome rt jobTasks .aborted }

structure JobAcc where
  tasks : List (Nat × TState) := []
  counters : JCounters := {}
  batches : List Batch := []
  nSubmits : Nat := 0
  deriving DecidableEq, Repr

/-- one iteration of `for submit in self.submit_descs` -/
def restoreSubmit (job : Nat) (rt : List (Nat × RTask)) (acc : JobAcc) (desc : TaskDesc) : Except Stop JobAcc :=
  match validateSubmit acc.tasks desc with
  | .error e => .error e
  | .ok (some _) => .error (.error .validation)
  | .ok none =>
    match attachIds acc.tasks desc.ids with
    | .error e => .error e
    | .ok tasks =>
      let newTasks := retainTasks rt desc.tasks
      let batch : Batch := ⟨job, newTasks, adjustOf rt (stillWaiting tasks)⟩
      .ok { tasks := applyStates rt tasks
            counters := bumpCounters rt (stillWaiting tasks) acc.counters
            batches := if newTasks.isEmpty then acc.batches else acc.batches ++ [batch]
            nSubmits := acc.nSubmits + 1 }

def restoreSubmits (job : Nat) (rt : List (Nat × RTask)) : JobAcc → List TaskDesc → Except Stop JobAcc
  | acc, [] => .ok acc
  | acc, d :: ds =>
    match restoreSubmit job rt acc d with
    | .ok acc' => restoreSubmits job rt acc' ds
    | .error e => .error e

/-- `RestorerJob::restore_job` -/
def restoreJob (id : Nat) (j : RJob) : Except Stop (RestoredJob × List Batch) :=
  match restoreSubmits id j.tasks {} j.submits with
  | .ok acc => .ok (⟨id, j.isOpen, j.maxFails, acc.tasks, acc.counters, acc.nSubmits⟩, acc.batches)
  | .error e => .error e

/-- what a restart hands to the rest of the server -/
structure Restored where
  jobs : List RestoredJob := []
  batches : List Batch := []
  /-- restored allocation queues, with "worker resources known" -/
  queues : List (Nat × Bool) := []
  deriving DecidableEq, Repr

def restoreJobsFrom : List (Nat × RJob) → Restored → Except Stop Restored
  | [], acc => .ok acc
  | (id, j) :: rest, acc =>
    match restoreJob id j with
    | .ok (rj, bs) => restoreJobsFrom rest { acc with jobs := acc.jobs ++ [rj], batches := acc.batches ++ bs }
    | .error e => .error e

/-- `StateRestorer::restore_jobs_and_queues` -/
def restoreJobs (r : Restorer) : Except Stop Restored :=
  restoreJobsFrom r.jobs { queues := r.queues.map fun q => (q.1, (alGet r.queueRes q.1).isSome) }

/-- journal (already decoded) → what the restarted server starts from -/
def restore (J : List Record) : Except Stop (Restorer × Restored) :=
  match restorerFold J with
  | .error e => .error e
  | .ok r =>
    match restoreJobs r with
    | .error e => .error e
    | .ok x => .ok (r, x)

/-! ### `handle_new_tasks` + `on_new_tasks`: what the core holds after the restored batches were added -/

structure CoreTask where
  job : Nat
  task : Nat
  inst : Nat
  crash : Nat
  deps : List Nat
  deriving DecidableEq, Repr

def coreHas (core : List CoreTask) (job task : Nat) : Bool := core.any fun c => c.job == job && c.task == task

def coreAddBatch (core : List CoreTask) (b : Batch) : Except Stop (List CoreTask) :=
  -- first loop of `handle_new_tasks`: any id already taken → Err (bootstrap `.unwrap()`s it)
  if b.tasks.any (fun t => coreHas core b.job t.1) then .error (.error .coreDuplicate)
  else
    .ok (b.tasks.foldl (fun core t =>
      let (inst, crash) := match alGet b.adjust t.1 with
        | some ic => ic
        | none => (0, 0)
      core ++ [⟨b.job, t.1, inst, crash, t.2.filter fun d => coreHas core b.job d⟩]) core)

def coreFeed : List CoreTask → List Batch → Except Stop (List CoreTask)
  | core, [] => .ok core
  | core, b :: bs =>
    match coreAddBatch core b with
    | .ok core' => coreFeed core' bs
    | .error e => .error e

/-! ### `prune_journal` -/

def pruneRecord (liveJobs liveWorkers : List Nat) : Record → Option Record
  | r@(.workerConnected w _) => if liveWorkers.contains w then some r else none
  | r@(.workerLost w _) => if liveWorkers.contains w then some r else none
  | r@(.workerOverview w) => if liveWorkers.contains w then some r else none
  | r@(.submit j _ _ _) => if liveJobs.contains j then some r else none
  | r@(.jobCompleted j) => if liveJobs.contains j then some r else none
  | r@(.jobOpen j _) => if liveJobs.contains j then some r else none
  | r@(.jobClose j) => if liveJobs.contains j then some r else none
  | r@(.jobCancel j) => if liveJobs.contains j then some r else none
  | r@(.taskStarted j _ _ _) => if liveJobs.contains j then some r else none
  | r@(.taskFinished j _) => if liveJobs.contains j then some r else none
  | r@(.taskFailed j _) => if liveJobs.contains j then some r else none
  | .tasksAborted ids =>
    let ids' := ids.filter fun i => liveJobs.contains i.1
    if ids'.isEmpty then none else some (.tasksAborted ids')
  | .tasksCanceled ids =>
    let ids' := ids.filter fun i => liveJobs.contains i.1
    if ids'.isEmpty then none else some (.tasksCanceled ids')
  | r => some r

def prune (liveJobs liveWorkers : List Nat) (J : List Record) : List Record :=
  J.filterMap (pruneRecord liveJobs liveWorkers)

end HqModel.Journal
