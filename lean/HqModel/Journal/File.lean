import HqModel.Journal.Model
/-!
File layer of the journal (`event/journal/write.rs`, `read.rs`).

The real framing has **no length prefix**: the file is `header ++ enc r₁ ++ enc r₂ ++ …` where `enc` is the
bincode serialisation of `Event` (`serialize_into` directly after the previous one) and the reader calls
`deserialize_from` on the rest of the file. `JournalReader::next`:

* `position = stream_position(); if position >= size { return None }`
* `Ok(event)`                          → yield it
* `Err(Io(UnexpectedEof))`             → `partial_data_error = true; None`   (torn tail; `position` stays at the
                                          start of the torn record)
* any other error                      → `Some(Err(..))` → `load_event_file` fails ("journal file is corrupted")

The serialisation of one `Event` is abstract here: a `Codec` with a decoder result `ok r len | eof | bad`.
What the theorems need from bincode is stated as `Codec.Lawful` (deterministic round trip independent of what
follows, non-empty, a strict prefix of an encoding runs into end-of-file). That is part of the trusted base and is
swept at every byte offset by the correspondence harness.
-/
namespace HqModel.Journal

abbrev Bytes := List UInt8

inductive Dec (ρ : Type)
  | ok (r : ρ) (len : Nat)
  | eof
  | bad
  deriving Repr

structure Codec (ρ : Type) where
  enc : ρ → Bytes
  dec : Bytes → Dec ρ

inductive ReadStatus
  | clean     -- reached the end of the file exactly
  | partialTail   -- `contains_partial_data()`
  | corrupt   -- a decode error that is not an unexpected end of file
  deriving DecidableEq, Repr

structure ReadResult (ρ : Type) where
  records : List ρ
  /-- `JournalReader::position()` after the loop -/
  position : Nat
  status : ReadStatus
  deriving Repr

/-- the iterator loop of `JournalReader` from `position` with `rest` = the bytes from there to the end -/
def readLoop (c : Codec ρ) : (fuel : Nat) → (rest : Bytes) → (pos : Nat) → (acc : List ρ) → ReadResult ρ
  | 0, _, pos, acc => ⟨acc, pos, .corrupt⟩
  | fuel + 1, rest, pos, acc =>
    if rest.isEmpty then ⟨acc, pos, .clean⟩   -- position >= size
    else match c.dec rest with
      | .ok r len =>
        if len = 0 then ⟨acc, pos, .corrupt⟩ else readLoop c fuel (rest.drop len) (pos + len) (acc ++ [r])
      | .eof => ⟨acc, pos, .partialTail⟩
      | .bad => ⟨acc, pos, .corrupt⟩

/-- `JournalReader::open` + iteration: `none` = the header does not check (open fails). -/
def readAll (c : Codec ρ) (hdr : Bytes) (file : Bytes) : Option (ReadResult ρ) :=
  if hdr.isPrefixOf file then
    some (readLoop c (file.length + 1) (file.drop hdr.length) hdr.length [])
  else none

/-- `JournalWriter::create_or_append(path, Some(size))`: `set_len(size)`, then appends -/
def truncateAppend (c : Codec ρ) (file : Bytes) (size : Nat) (new : List ρ) : Bytes :=
  file.take size ++ new.flatMap c.enc

/-- the writer: header once, then every stored event -/
def fileOf (c : Codec ρ) (hdr : Bytes) (J : List ρ) : Bytes := hdr ++ J.flatMap c.enc

/-- `load_event_file` on a file: decode (streaming) and fold; a fold stop on an earlier record wins over a later
decode error exactly as in the streaming loop; `truncate_size` is set iff the tail is torn. -/
def loadFile (c : Codec Record) (hdr file : Bytes) : Except Stop Restorer :=
  match readAll c hdr file with
  | none => .error (.error .header)
  | some rr =>
    match restorerFold rr.records with
    | .error e => .error e
    | .ok r =>
      match rr.status with
      | .corrupt => .error (.error .corrupt)
      | .partialTail => .ok { r with truncate := some rr.position }
      | .clean => .ok r

/-! A concrete length-determined code used by the driver to run `readAll` on the real record sizes: a record of
size `n ≥ 1` is `n-1` bytes `1` followed by one byte `0`. -/
def sizeEnc (n : Nat) : Bytes := List.replicate (n - 1) 1 ++ [0]

def sizeDecAux : Bytes → Nat → Dec Nat
  | [], _ => .eof
  | b :: rest, n => if b = 0 then .ok (n + 1) (n + 1) else if b = 1 then sizeDecAux rest (n + 1) else .bad

def sizeCodec : Codec Nat := ⟨sizeEnc, fun b => sizeDecAux b 0⟩

end HqModel.Journal
