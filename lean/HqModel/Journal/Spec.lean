import HqModel.Journal.Model
/-!
The *specification* side of C10/C11/C12: what a journal **means**, independent of how restore.rs computes it.

`meaning J` is a plain fold: the jobs that are not completed yet, whether they are open, and for each of their
tasks the recorded outcome (or `waiting`), the original dependencies, the highest instance id recorded, the number
of failure-losses of the worker it was running on; plus the id high-water marks, the live allocation queues and
the server uid.

`Producible J` is the explicit well-formedness predicate of journals the server can write (every prefix of one is
again producible). It lists exactly the facts the refinement proof uses.
-/
namespace HqModel.Journal
open HqModel.Job

structure ATask where
  id : Nat
  /-- original dependencies (as a set: duplicates removed) -/
  deps : List Nat
  /-- recorded outcome, `waiting` if none -/
  st : Outcome := .waiting
  /-- highest instance id recorded by a `TaskStarted` -/
  inst : Option Nat := none
  /-- workers it runs on according to the journal (root first), `none` if not running -/
  run : Option (List Nat) := none
  /-- number of failure-losses of the root worker while the task was running (what tako counts) -/
  crashes : Nat := 0
  deriving DecidableEq, Repr

structure AJob where
  isOpen : Bool
  maxFails : Option Nat
  tasks : List ATask
  nSubmits : Nat
  deriving DecidableEq, Repr

structure AState where
  jobs : List (Nat × AJob) := []
  queues : List (Nat × Unit) := []
  /-- workers connected to the current server life -/
  workers : List Nat := []
  maxJob : Nat := 0
  maxWorker : Nat := 0
  maxQueue : Nat := 0
  uid : String := ""
  deriving DecidableEq, Repr

/-- the tasks a submit adds -/
def TaskDesc.specTasks : TaskDesc → List ATask
  | .array ids _ => ids.iter.map fun i => { id := i, deps := [] }
  | .graph tasks => tasks.map fun t => { id := t.id, deps := t.deps.eraseDups }

def updTask (s : AState) (job task : Nat) (f : ATask → ATask) : AState :=
  match alGet s.jobs job with
  | some j => { s with jobs := alSet s.jobs job { j with tasks := j.tasks.map fun a => if a.id = task then f a else a } }
  | none => s

def setOutcome (o : Outcome) (s : AState) (id : Nat × Nat) : AState :=
  updTask s id.1 id.2 fun a => { a with st := o, run := none }

/-- loss of worker `w`: every task running with root `w` goes back to waiting; a failure-loss counts as a crash -/
def ATask.lose (w : Nat) (failure : Bool) (a : ATask) : ATask :=
  match a.run with
  | some (root :: _) => if root = w then { a with run := none, crashes := if failure then a.crashes + 1 else a.crashes } else a
  | _ => a

def meaningStep (s : AState) : Record → AState
  | .serverStart uid => { s with uid := uid, workers := [] }   -- a new server life starts without workers
  | .workerConnected w _ => { s with maxWorker := max s.maxWorker w, workers := w :: s.workers }
  | .workerLost w reason =>
    { s with jobs := alMap (fun j => { j with tasks := j.tasks.map (ATask.lose w reason.isFailure) }) s.jobs
             workers := s.workers.filter (· != w) }
  | .submit job closed mf desc =>
    if closed then
      { s with jobs := alSet s.jobs job ⟨false, mf, desc.specTasks, 1⟩, maxJob := max s.maxJob job }
    else match alGet s.jobs job with
      | some j => { s with jobs := alSet s.jobs job { j with tasks := j.tasks ++ desc.specTasks, nSubmits := j.nSubmits + 1 } }
      | none => s
  | .jobOpen job mf => { s with jobs := alSet s.jobs job ⟨true, mf, [], 0⟩, maxJob := max s.maxJob job }
  | .jobClose job =>
    match alGet s.jobs job with
    | some j => { s with jobs := alSet s.jobs job { j with isOpen := false } }
    | none => s
  | .jobCompleted job => { s with jobs := alDel s.jobs job }
  | .taskStarted job task inst ws =>
    updTask s job task fun a => { a with inst := some (max inst (a.inst.getD 0)), run := some ws }
  | .taskFinished job task => setOutcome .finished s (job, task)
  | .taskFailed job task => setOutcome .failed s (job, task)
  | .tasksCanceled ids => ids.foldl (setOutcome .canceled) s
  | .tasksAborted ids => ids.foldl (setOutcome .aborted) s
  | .queueCreated q => { s with queues := alSet s.queues q (), maxQueue := max s.maxQueue q }
  | .queueRemoved q => { s with queues := alDel s.queues q }
  | _ => s

/-- **the spec**: what the journal `J` durably recorded -/
def meaning (J : List Record) : AState := J.foldl meaningStep {}

/-! ### derived views of the abstract state -/

def AJob.find (j : AJob) (t : Nat) : Option ATask := j.tasks.find? (·.id == t)

def AJob.isTerminal (j : AJob) (t : Nat) : Bool :=
  match j.find t with
  | some a => a.st != .waiting
  | none => false

/-- a task the restarted server must run (again): id, remaining dependencies, next instance id, crash count -/
structure Pending where
  task : Nat
  deps : List Nat
  inst : Nat
  crashes : Nat
  deriving DecidableEq, Repr

def AJob.pending (j : AJob) : List Pending :=
  (j.tasks.filter (·.st == .waiting)).map fun a =>
    ⟨a.id, a.deps.filter (fun d => !j.isTerminal d), (match a.inst with | some i => i + 1 | none => 0), a.crashes⟩

def AJob.count (j : AJob) (o : Outcome) : Nat := (j.tasks.filter (·.st == o)).length

/-! ### producible journals -/

/-- every dependency is an earlier task of this submit or a task of the job, never the task itself -/
def graphDepsOk (have_ : List Nat) : (earlier : List Nat) → List GraphTask → Bool
  | _, [] => true
  | earlier, t :: ts =>
    t.deps.all (fun d => d != t.id && (earlier.contains d || have_.contains d)) &&
    graphDepsOk have_ (t.id :: earlier) ts

/-- `desc` is a submit the server accepts into a job whose current task ids are `have`: what `validate_submit`
checks, plus pairwise distinct ids (`attach_submit` asserts it), valid resource indices and (arrays) a positive
step and either no entries or one entry per id. -/
def submitOk (have_ : List Nat) : TaskDesc → Bool
  | .array ids entries =>
    ids.all (fun r => decide (1 ≤ r.step)) &&
    ids.iter.all (fun i => !have_.contains i) && decide ids.iter.Nodup &&
    (match entries with | none => true | some n => n == ids.iter.length)
  | .graph tasks =>
    tasks.all (fun t => !have_.contains t.id && t.rqOk) && decide (tasks.map (·.id)).Nodup &&
    graphDepsOk have_ [] tasks

def taskIs (s : AState) (id : Nat × Nat) (p : ATask → Bool) : Bool :=
  match alGet s.jobs id.1 with
  | some j => match j.find id.2 with
    | some a => p a
    | none => false
  | none => false

/-- may the server write `r` in abstract state `s`? -/
def recordOk (s : AState) : Record → Bool
  | .submit job closed _ desc =>
    if closed then (alGet s.jobs job).isNone && submitOk [] desc   -- a new job id
    else match alGet s.jobs job with
      | some j => j.isOpen && submitOk (j.tasks.map (·.id)) desc   -- only into an open job
      | none => false
  | .jobOpen job _ => (alGet s.jobs job).isNone
  | .jobClose job => match alGet s.jobs job with | some j => j.isOpen | none => false
  | .jobCancel job => (alGet s.jobs job).isSome
  | .jobCompleted job =>            -- Close before Completed; all tasks have an outcome
    match alGet s.jobs job with
    | some j => !j.isOpen && j.tasks.all (·.st != .waiting)
    | none => false
  | .taskStarted job task inst ws => -- task exists, has no outcome yet, instance ids increase, workers have connected
    (taskIs s (job, task) fun a => a.st == .waiting && (match a.inst with | some i => i < inst | none => true)) &&
    ws.all (fun w => decide (w ≤ s.maxWorker))
  | .taskFinished job task =>       -- Started before Finished, one outcome per task
    taskIs s (job, task) fun a => a.st == .waiting && a.inst.isSome
  | .taskFailed job task =>         -- one outcome per task (a failure *before* the first start is allowed)
    taskIs s (job, task) fun a => a.st == .waiting
  | .tasksCanceled ids => ids.all (fun id => taskIs s id fun a => a.st == .waiting) && decide ids.Nodup
  | .tasksAborted ids => ids.all (fun id => taskIs s id fun a => a.st == .waiting) && decide ids.Nodup
  | .queueCreated q => (alGet s.queues q).isNone
  | .workerConnected w _ => decide (s.maxWorker < w)   -- worker ids are fresh (C11)
  | .workerLost w _ => s.workers.contains w            -- only a connected worker is lost, once
  | _ => true

def producibleFrom (s : AState) : List Record → Bool
  | [] => true
  | r :: rs => recordOk s r && producibleFrom (meaningStep s r) rs

/-- journals the server can write (decidable; closed under prefixes, see `c10_prefix`) -/
def Producible (J : List Record) : Prop := producibleFrom {} J = true

instance : Decidable (Producible J) := inferInstanceAs (Decidable (_ = true))

/-- the extra hypothesis that excludes defect F9: no `TaskFailed` for a task that was never started -/
def failOk (s : AState) : Record → Bool
  | .taskFailed job task => taskIs s (job, task) fun a => a.inst.isSome
  | _ => true

def noFailBeforeStartFrom (s : AState) : List Record → Bool
  | [] => true
  | r :: rs => failOk s r && noFailBeforeStartFrom (meaningStep s r) rs

def NoFailBeforeStart (J : List Record) : Prop := noFailBeforeStartFrom {} J = true

instance : Decidable (NoFailBeforeStart J) := inferInstanceAs (Decidable (_ = true))


/-! ### what C10 compares: the restored server state against `meaning` -/

/-- the job counters that agree with the task states (nothing is running right after a restart) -/
def AJob.counters (j : AJob) : JCounters :=
  ⟨0, j.count .finished, j.count .failed, j.count .canceled, j.count .aborted⟩

/-- a restored job as C10 reads it: id, open flag, max_fails, number of submits, task table with outcomes, counters -/
def RestoredJob.view (j : RestoredJob) : Nat × Bool × Option Nat × Nat × List (Nat × Outcome) × JCounters :=
  (j.id, j.isOpen, j.maxFails, j.nSubmits, j.tasks.map (fun t => (t.1, t.2.outcome)), j.counters)

/-- … and what the journal recorded about it (counters = the counts of the recorded outcomes) -/
def AJob.view (id : Nat) (j : AJob) : Nat × Bool × Option Nat × Nat × List (Nat × Outcome) × JCounters :=
  (id, j.isOpen, j.maxFails, j.nSubmits, j.tasks.map (fun a => (a.id, a.st)), j.counters)

/-- `(instance id, crash counter)` the core gives a task of batch `b` (`handle_new_tasks`: the adjust entry, else 0, 0) -/
def Batch.adjusted (b : Batch) (t : Nat) : Nat × Nat :=
  match alGet b.adjust t with
  | some ic => ic
  | none => (0, 0)

/-- every task the restored `TaskSubmit` batches hand to the core:
(job, task, dependencies, instance id, crash counter), in order -/
def batchPending (bs : List Batch) : List (Nat × Nat × List Nat × Nat × Nat) :=
  bs.flatMap fun b => b.tasks.map fun t => (b.job, t.1, t.2, (b.adjusted t.1).1, (b.adjusted t.1).2)

/-- every task without recorded outcome, with its original dependencies minus the completed ones, the next instance
id (highest recorded + 1) and the recorded number of crashes -/
def AState.pending (A : AState) : List (Nat × Nat × List Nat × Nat × Nat) :=
  A.jobs.flatMap fun ja => ja.2.pending.map fun p => (ja.1, p.task, p.deps, p.inst, p.crashes)

/-- jobs, open flags, outcomes, pending tasks with remaining deps / next instance / crash count, queues, id counters,
uid -/
structure RefinesCore (R : Restorer) (X : Restored) (A : AState) : Prop where
  jobs : X.jobs.map RestoredJob.view = A.jobs.map fun ja => ja.2.view ja.1
  pending : batchPending X.batches = A.pending
  queues : X.queues.map (·.1) = A.queues.map (·.1)
  ids : counters R = ⟨A.maxJob + 1, A.maxWorker + 1, A.maxQueue + 1⟩
  uid : R.uid = A.uid

/-- the full-strength C10 refinement statement for one journal -/
def RestoreRefines (J : List Record) : Prop :=
  ∃ R X, restore J = .ok (R, X) ∧ RefinesCore R X (meaning J)

end HqModel.Journal
