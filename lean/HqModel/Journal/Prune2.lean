import HqModel.Journal.Model
/-!
`prune_journal` after the fix of finding F12 (notes/f12_fix.patch): the pruner is STATEFUL. While streaming the
records it collects the worker ids of every KEPT `TaskStarted` (tasks of live jobs) in `task_worker_ids`; a
`WorkerLost w` record is kept iff `w ∈ live_worker_ids ∨ w ∈ task_worker_ids` (the set as accumulated from the
records EARLIER in the file). Every other record is treated as before (`pruneRecord`), in particular
`WorkerConnected` is still kept for live workers only.

The Rust `Set<WorkerId>` is a list here: only membership is ever read.
-/
namespace HqModel.Journal

/-- `task_worker_ids` after one iteration of the patched loop -/
def taskWorkersStep (liveJobs acc : List Nat) : Record → List Nat
  | .taskStarted j _ _ ws => if liveJobs.contains j then acc ++ ws else acc   -- `task_worker_ids.extend(worker_ids)`
  | _ => acc

/-- what one iteration of the patched loop writes for the record (`acc` = `task_worker_ids` before it) -/
def prune2Record (liveJobs liveWorkers acc : List Nat) : Record → Option Record
  | r@(.workerLost w _) => if liveWorkers.contains w || acc.contains w then some r else none
  | r => pruneRecord liveJobs liveWorkers r

/-- the patched loop started with `task_worker_ids = acc` -/
def prune2From (liveJobs liveWorkers : List Nat) : List Nat → List Record → List Record
  | _, [] => []
  | acc, x :: xs =>
    match prune2Record liveJobs liveWorkers acc x with
    | some y => y :: prune2From liveJobs liveWorkers (taskWorkersStep liveJobs acc x) xs
    | none => prune2From liveJobs liveWorkers (taskWorkersStep liveJobs acc x) xs

/-- `task_worker_ids` after the loop ran over `J` (started from `acc`) -/
def taskWorkersFrom (liveJobs : List Nat) : List Nat → List Record → List Nat
  | acc, [] => acc
  | acc, x :: xs => taskWorkersFrom liveJobs (taskWorkersStep liveJobs acc x) xs

/-- `prune_journal` (patched) -/
def prune2 (liveJobs liveWorkers : List Nat) (J : List Record) : List Record :=
  prune2From liveJobs liveWorkers [] J

end HqModel.Journal
