import HqModel.Job.Model
/-!
Operations of the job layer as one `step` function and runs over arbitrary operation lists.
`Op` covers every client request and every tako callback of `HqModel.Job.Model`.
-/
namespace HqModel.Job

inductive Op where
  | openJob (mf : Option Nat)
  | submit (job : Option Nat) (mf : Option Nat) (desc : TaskDesc)
  | close (j : Nat)
  | cancel (j : Nat)
  | forget (j : Nat) (allowed : List Status)
  | started (t : TaskId) (inst : Nat) (ws : List Nat) (rv : Nat)
  | finished (t : TaskId)
  | failed (t : TaskId) (consumers : List TaskId)
  | workerNew (w : Nat)
  | workerLost (w : Nat) (running : List TaskId) (reason : String)

/-- one operation: new state and the events it emits (responses are dropped here) -/
def step (s : State) : Op → Except Stop (State × List Ev)
  | .openJob mf => (s.openJob mf).map fun r => (r.1, r.2.1)
  | .submit j mf d => (s.submit j mf d).map fun r => (r.1, r.2.1)
  | .close j => let r := s.closeJob j; .ok (r.1, r.2.1)
  | .cancel j => (s.cancelJob j).map fun r => (r.1, r.2.1)
  | .forget j allowed => (s.forgetJob j allowed).map fun r => (r.1, [])
  | .started t i ws rv => s.taskStarted t i ws rv
  | .finished t => s.taskFinished t
  | .failed t cons => (s.taskFailed t cons).map fun r => (r.1, r.2.1)
  | .workerNew w => s.workerNew w
  | .workerLost w running reason => s.workerLost w running reason

/-- run a list of operations from `s`, collecting all events; stops at the first panic -/
def run (s : State) : List Op → Except Stop (State × List Ev)
  | [] => .ok (s, [])
  | op :: ops =>
    match step s op with
    | .error e => .error e
    | .ok (s1, ev1) =>
      match run s1 ops with
      | .error e => .error e
      | .ok (s2, ev2) => .ok (s2, ev1 ++ ev2)

end HqModel.Job
