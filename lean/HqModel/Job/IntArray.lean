/-!
Model of `crates/hyperqueue/src/common/arraydef.rs` (`IntRange`, `IntArray`).
u32 arithmetic is modelled on `Nat` (no property here is about overflow); `step_by(0)` panics in Rust and is
modelled as `none`.
-/
namespace HqModel.Job

structure IntRange where
  start : Nat
  count : Nat
  step : Nat
  deriving Repr, DecidableEq

/-- `(start..start+count).step_by(step)`: `start, start+step, …` below `start+count`. -/
def IntRange.iterAux (step : Nat) : (fuel cur remaining : Nat) → List Nat
  | 0, _, _ => []
  | fuel + 1, cur, remaining =>
    if remaining = 0 then [] else cur :: iterAux step fuel (cur + step) (remaining - step)

def IntRange.iter (r : IntRange) : List Nat :=
  IntRange.iterAux r.step r.count r.start r.count

/-- `IntRange::contains` -/
def IntRange.contains (r : IntRange) (v : Nat) : Bool :=
  r.start ≤ v && v < r.start + r.count && (v - r.start) % r.step == 0

abbrev IntArray := List IntRange

def IntArray.iter (a : IntArray) : List Nat := a.flatMap IntRange.iter
def IntArray.idCount (a : IntArray) : Nat := (a.map (·.count)).sum
def IntArray.contains (a : IntArray) (v : Nat) : Bool := a.any (·.contains v)
def IntArray.fromRange (start count : Nat) : IntArray := [⟨start, count, 1⟩]
def IntArray.fromId (id : Nat) : IntArray := [⟨id, 1, 1⟩]

end HqModel.Job
