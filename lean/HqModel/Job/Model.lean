import HqModel.Job.IntArray
/-!
M4 — the HyperQueue job layer as it is coded in
`crates/hyperqueue/src/server/{job.rs,state.rs,tako_events.rs}`, `server/client/{submit.rs,mod.rs}`
(handle_submit / validate_submit / submit_job_desc / handle_open_job / handle_job_close / cancel_job /
handle_job_forget) and `client/status.rs`.

Conventions: ids are `Nat`; a task id is `(job, task)`; hash maps are association lists whose keys are
unique (a proved invariant, `JobWF`), everything printed is sorted by the driver. Every Rust
`panic!/assert!/unwrap` on these paths is an explicit `Stop.panic site`. u32 counters are `Nat`; the one
subtraction that could underflow (`n_waiting_tasks`) is shown never to underflow (`c13_counters`).
-/
namespace HqModel.Job

inductive TState where
  | waiting | running | finished | failed | canceled | aborted
  deriving DecidableEq, Repr, Inhabited

def TState.terminal : TState → Bool
  | .waiting | .running => false
  | _ => true

def TState.letter : TState → String
  | .waiting => "W" | .running => "R" | .finished => "F"
  | .failed => "X" | .canceled => "C" | .aborted => "A"

structure Counters where
  running : Nat := 0
  finished : Nat := 0
  failed : Nat := 0
  canceled : Nat := 0
  aborted : Nat := 0
  deriving DecidableEq, Repr, Inhabited

abbrev TaskId := Nat × Nat

structure Job where
  id : Nat
  tasks : List (Nat × TState) := []
  cnt : Counters := {}
  isOpen : Bool
  maxFails : Option Nat
  deriving Repr, Inhabited

/-- Events pushed into the `EventStreamer` (payload blobs dropped). -/
inductive Ev where
  | jobOpen (j : Nat)
  | submit (j : Nat) (closed : Bool)
  | jobClose (j : Nat)
  | jobCompleted (j : Nat)
  | jobIdle (j : Nat)
  | jobCancel (j : Nat)
  | started (t : TaskId) (inst : Nat) (workers : List Nat) (rv : Nat)
  | finished (t : TaskId)
  | failed (t : TaskId)
  | canceled (ts : List TaskId)
  | aborted (ts : List TaskId)
  | workerNew (w : Nat)
  | workerLost (w : Nat) (reason : String)
  deriving DecidableEq, Repr

inductive Stop where
  | panic (site : String)
  deriving Repr, DecidableEq

structure State where
  jobs : List Job := []
  /-- `job_id_counter` (next id handed out by `new_job_id`) -/
  jobCtr : Nat := 1
  /-- known workers (`State::workers`, online or offline) -/
  workers : List Nat := []
  /-- ids handed to the core (`add_new_tasks`) and not yet terminal in the job layer -/
  sent : List TaskId := []
  deriving Repr, Inhabited

/-! ### association-list helpers -/

def lookup : List (Nat × TState) → Nat → Option TState
  | [], _ => none
  | (k, v) :: rest, t => if k = t then some v else lookup rest t

def setState : List (Nat × TState) → Nat → TState → List (Nat × TState)
  | [], _, _ => []
  | (k, v) :: rest, t, s => if k = t then (k, s) :: setState rest t s else (k, v) :: setState rest t s

def findJob : List Job → Nat → Option Job
  | [], _ => none
  | job :: rest, j => if job.id = j then some job else findJob rest j

def replaceJob : List Job → Job → List Job
  | [], _ => []
  | x :: rest, job => if x.id = job.id then job :: replaceJob rest job else x :: replaceJob rest job

def State.getJob (s : State) (j : Nat) : Option Job := findJob s.jobs j

def State.putJob (s : State) (job : Job) : State := { s with jobs := replaceJob s.jobs job }

/-! ### `Job` -/

def Job.nTasks (job : Job) : Nat := job.tasks.length

def Counters.sum (c : Counters) : Nat := c.running + c.finished + c.failed + c.canceled + c.aborted

/-- `JobTaskCounters::n_waiting_tasks` (u32 subtraction; `Nat` subtraction here, see `c13_counters`). -/
def Job.nWaiting (job : Job) : Nat := job.nTasks - job.cnt.sum

def Job.hasNoActiveTasks (job : Job) : Bool := job.cnt.running == 0 && job.nWaiting == 0
def Job.isTerminated (job : Job) : Bool := !job.isOpen && job.hasNoActiveTasks

def Job.maxId (job : Job) : Option Nat :=
  job.tasks.foldl (fun acc p => match acc with | none => some p.1 | some m => some (max m p.1)) none

def Job.nonFinishedTaskIds (job : Job) : List Nat :=
  (job.tasks.filter fun p => !p.2.terminal).map (·.1)

/-- `job_status` of `client/status.rs`. The final `assert_eq!` is a panic site. -/
inductive Status where
  | waiting | running | finished | failed | canceled | aborted | opened
  deriving DecidableEq, Repr

def Status.name : Status → String
  | .waiting => "waiting" | .running => "running" | .finished => "finished" | .failed => "failed"
  | .canceled => "canceled" | .aborted => "aborted" | .opened => "opened"

def Job.status (job : Job) : Except Stop Status :=
  if job.cnt.running > 0 then .ok .running
  else if job.nWaiting > 0 then .ok .waiting
  else if job.cnt.failed > 0 then .ok .failed
  else if job.cnt.aborted > 0 then .ok .aborted
  else if job.cnt.canceled > 0 then .ok .canceled
  else if job.cnt.finished != job.nTasks then .error (.panic "job_status.assert_eq")
  else .ok (if job.isOpen then .opened else .finished)

/-- `Job::check_termination` -/
def Job.checkTermination (job : Job) : List Ev :=
  if job.hasNoActiveTasks then
    if job.isOpen then [.jobIdle job.id] else [.jobCompleted job.id]
  else []

/-- `Job::set_running_state` (no event here; the caller emits `started` unconditionally). -/
def Job.setRunning (job : Job) (t : Nat) : Except Stop Job :=
  match lookup job.tasks t with
  | none => .error (.panic "set_running_state.unwrap")
  | some .waiting =>
    .ok { job with tasks := setState job.tasks t .running, cnt := { job.cnt with running := job.cnt.running + 1 } }
  | some _ => .ok job

/-- `Job::set_finished_state` -/
def Job.setFinished (job : Job) (t : Nat) : Except Stop (Job × List Ev) :=
  match lookup job.tasks t with
  | none => .error (.panic "set_finished_state.unwrap")
  | some .running =>
    let job' := { job with tasks := setState job.tasks t .finished,
                           cnt := { job.cnt with running := job.cnt.running - 1, finished := job.cnt.finished + 1 } }
    .ok (job', [.finished (job.id, t)] ++ job'.checkTermination)
  | some _ => .error (.panic "set_finished_state.invalid_state")

/-- `Job::set_waiting_state` -/
def Job.setWaiting (job : Job) (t : Nat) : Except Stop Job :=
  match lookup job.tasks t with
  | none => .error (.panic "set_waiting_state.unwrap")
  | some .running =>
    .ok { job with tasks := setState job.tasks t .waiting, cnt := { job.cnt with running := job.cnt.running - 1 } }
  | some _ => .error (.panic "set_waiting_state.assert_running")

/-- `Job::set_failed_state` -/
def Job.setFailed (job : Job) (t : Nat) : Except Stop (Job × List Ev) :=
  match lookup job.tasks t with
  | none => .error (.panic "set_failed_state.unwrap")
  | some .running =>
    let job' := { job with tasks := setState job.tasks t .failed,
                           cnt := { job.cnt with running := job.cnt.running - 1, failed := job.cnt.failed + 1 } }
    .ok (job', [.failed (job.id, t)] ++ job'.checkTermination)
  | some .waiting =>
    let job' := { job with tasks := setState job.tasks t .failed,
                           cnt := { job.cnt with failed := job.cnt.failed + 1 } }
    .ok (job', [.failed (job.id, t)] ++ job'.checkTermination)
  | some _ => .error (.panic "set_failed_state.invalid_state")

/-- the per-task loop shared by `set_cancel_state` and `abort_tasks` -/
def Job.markAll (job : Job) (target : TState) (site : String) : List TaskId → Except Stop Job
  | [] => .ok job
  | (j, t) :: rest =>
    if j != job.id then .error (.panic (site ++ ".assert_job_id")) else
    match lookup job.tasks t with
    | none => .error (.panic (site ++ ".unwrap"))
    | some .running =>
      Job.markAll { job with tasks := setState job.tasks t target,
                             cnt := { job.cnt with running := job.cnt.running - 1 } } target site rest
    | some .waiting =>
      Job.markAll { job with tasks := setState job.tasks t target } target site rest
    | some _ => .error (.panic (site ++ ".invalid_state"))

/-- `Job::set_cancel_state` -/
def Job.setCancel (job : Job) (ids : List TaskId) : Except Stop (Job × List Ev) :=
  if ids.isEmpty then .ok (job, []) else
  match job.markAll .canceled "set_cancel_state" ids with
  | .error e => .error e
  | .ok job1 =>
    let job' := { job1 with cnt := { job1.cnt with canceled := job1.cnt.canceled + ids.length } }
    .ok (job', [.jobCancel job.id, .canceled ids] ++ job'.checkTermination)

/-- `Job::abort_tasks` -/
def Job.abortTasks (job : Job) (ids : List TaskId) : Except Stop (Job × List Ev) :=
  if ids.isEmpty then .ok (job, []) else
  match job.markAll .aborted "abort_tasks" ids with
  | .error e => .error e
  | .ok job1 =>
    let job' := { job1 with cnt := { job1.cnt with aborted := job1.cnt.aborted + ids.length } }
    .ok (job', [.aborted ids] ++ job'.checkTermination)

/-- `Job::attach_submit`: every id must be new (`assert!(insert(..).is_none())`). -/
def Job.attach (job : Job) : List Nat → Except Stop Job
  | [] => .ok job
  | t :: rest =>
    match lookup job.tasks t with
    | some _ => .error (.panic "attach_submit.assert_new")
    | none => Job.attach { job with tasks := job.tasks ++ [(t, .waiting)] } rest

/-! ### tako callbacks (`State::process_*`) -/

def removeAll (l : List TaskId) (ids : List TaskId) : List TaskId := l.filter fun x => !ids.contains x

/-- `process_task_started` -/
def State.taskStarted (s : State) (t : TaskId) (inst : Nat) (workers : List Nat) (rv : Nat) :
    Except Stop (State × List Ev) :=
  match s.getJob t.1 with
  | none => .error (.panic "process_task_started.unwrap_job")
  | some job =>
    match job.setRunning t.2 with
    | .error e => .error e
    | .ok job' => .ok (s.putJob job', [.started t inst workers rv])

/-- `process_task_finished` -/
def State.taskFinished (s : State) (t : TaskId) : Except Stop (State × List Ev) :=
  match s.getJob t.1 with
  | none => .error (.panic "process_task_finished.unwrap_job")
  | some job =>
    match job.setFinished t.2 with
    | .error e => .error e
    | .ok (job', evs) => .ok ({ s.putJob job' with sent := removeAll s.sent [t] }, evs)

/-- `process_task_failed`; returns the list handed back to the core (`on_task_error`'s result). -/
def State.taskFailed (s : State) (t : TaskId) (consumers : List TaskId) :
    Except Stop (State × List Ev × List TaskId) :=
  match s.getJob t.1 with
  | none => .error (.panic "process_task_failed.unwrap_job")
  | some job =>
    match job.abortTasks consumers with
    | .error e => .error e
    | .ok (job1, ev1) =>
      match job1.setFailed t.2 with
      | .error e => .error e
      | .ok (job2, ev2) =>
        let s2 := { s.putJob job2 with sent := removeAll s.sent (t :: consumers) }
        match job2.maxFails with
        | some m =>
          if job2.cnt.failed > m then
            let ids : List TaskId := job2.nonFinishedTaskIds.map fun x => (job2.id, x)
            match job2.abortTasks ids with
            | .error e => .error e
            | .ok (job3, ev3) =>
              .ok ({ s2.putJob job3 with sent := removeAll s2.sent ids }, ev1 ++ ev2 ++ ev3, ids)
          else .ok (s2, ev1 ++ ev2, [])
        | none => .ok (s2, ev1 ++ ev2, [])

/-- `process_worker_new` -/
def State.workerNew (s : State) (w : Nat) : Except Stop (State × List Ev) :=
  if s.workers.contains w then .error (.panic "add_worker.assert_new")
  else .ok ({ s with workers := s.workers ++ [w] }, [.workerNew w])

def State.setWaitingAll (s : State) : List TaskId → Except Stop State
  | [] => .ok s
  | t :: rest =>
    match s.getJob t.1 with
    | none => .error (.panic "process_worker_lost.unwrap_job")
    | some job =>
      match job.setWaiting t.2 with
      | .error e => .error e
      | .ok job' => State.setWaitingAll (s.putJob job') rest

/-- `process_worker_lost` -/
def State.workerLost (s : State) (w : Nat) (running : List TaskId) (reason : String) :
    Except Stop (State × List Ev) :=
  match s.setWaitingAll running with
  | .error e => .error e
  | .ok s' =>
    if !s'.workers.contains w then .error (.panic "process_worker_lost.unwrap_worker")
    else .ok (s', [.workerLost w reason])

/-! ### client requests -/

/-- task description of a submit, blobs dropped -/
inductive TaskDesc where
  /-- `Array { ids, entries }`: `entries` = number of entries if present -/
  | array (ids : IntArray) (entries : Option Nat)
  /-- `Graph { tasks }`: (id, deps) in submission order -/
  | graph (tasks : List (Nat × List Nat))
  deriving Repr

inductive SubmitResp where
  | ok (job : Nat)
  | jobNotOpened | jobNotFound
  | taskIdAlreadyExists (t : Nat)
  | nonUniqueTaskId (t : Nat)
  | invalidDependencies (t : Nat)
  deriving Repr, DecidableEq

def firstSome (f : α → Option β) : List α → Option β
  | [] => none
  | x :: xs => match f x with | some y => some y | none => firstSome f xs

/-- graph part of `validate_submit`: uniqueness and dependency check, in task order -/
def validateGraph (job : Option Job) : List (Nat × List Nat) → List Nat → Option SubmitResp
  | [], _ => none
  | (t, deps) :: rest, seen =>
    if seen.contains t then some (.nonUniqueTaskId t) else
    let seen' := t :: seen
    match firstSome (fun d =>
        if d == t || (!seen'.contains d && !(match job with
          | some j => (lookup j.tasks d).isSome | none => false))
        then some d else none) deps with
    | some d => some (.invalidDependencies d)
    | none => validateGraph job rest seen'

/-- `validate_submit` -/
def validateSubmit (job : Option Job) : TaskDesc → Option SubmitResp
  | .array ids _ =>
    match job with
    | some j => (firstSome (fun t => if (lookup j.tasks t).isSome then some t else none) ids.iter).map .taskIdAlreadyExists
    | none => none
  | .graph tasks =>
    match (match job with
      | some j => firstSome (fun (p : Nat × List Nat) => if (lookup j.tasks p.1).isSome then some p.1 else none) tasks
      | none => none) with
    | some t => some (.taskIdAlreadyExists t)
    | none => validateGraph job tasks []

/-- ids of the job tasks created by `attach_submit` and of the tasks handed to the core
(`build_tasks_array` zips ids with the entries, `build_tasks_graph` keeps the deps as a set). -/
def TaskDesc.jobIds : TaskDesc → List Nat
  | .array ids _ => ids.iter
  | .graph tasks => tasks.map (·.1)

def TaskDesc.coreIds : TaskDesc → List Nat
  | .array ids none => ids.iter
  | .array ids (some n) => ids.iter.take n
  | .graph tasks => tasks.map (·.1)

/-- the id filling of `handle_submit` for a submit into an existing open job -/
def fillIdsOpen (job : Job) : TaskDesc → TaskDesc
  | .array ids entries =>
    if ids.isEmpty then
      let newId := match job.maxId with | some m => m + 1 | none => 0
      match entries with
      | some n => .array (IntArray.fromRange newId n) entries
      | none => .array (IntArray.fromId newId) entries
    else .array ids entries
  | d => d

def fillIdsNew : TaskDesc → TaskDesc
  | .array ids entries =>
    if ids.isEmpty then
      match entries with
      | some n => .array (IntArray.fromRange 0 n) entries
      | none => .array (IntArray.fromId 0) entries
    else .array ids entries
  | d => d

/-- the dependency check of `handle_submit` for a graph submitted into an existing job (fix 2a18501):
the first dependency on a task of the job that already failed / was canceled / aborted -/
def badDep (job : Job) : TaskDesc → Option Nat
  | .graph tasks =>
    firstSome (fun (p : Nat × List Nat) => firstSome (fun d =>
      match lookup job.tasks d with
      | some .failed | some .canceled | some .aborted => some d
      | _ => none) p.2) tasks
  | .array _ _ => none

/-- `handle_submit` (+ `submit_job_desc`); also returns the ids handed to the core -/
def State.submit (s : State) (jobId : Option Nat) (maxFails : Option Nat) (desc : TaskDesc) :
    Except Stop (State × List Ev × SubmitResp × List TaskId) :=
  match validateSubmit (jobId.bind s.getJob) desc with
  | some err => .ok (s, [], err, [])
  | none =>
    match jobId with
    | some j =>
      match s.getJob j with
      | none => .ok (s, [], .jobNotFound, [])
      | some job =>
        if !job.isOpen then .ok (s, [], .jobNotOpened, []) else
        match badDep job desc with
        | some d => .ok (s, [], .invalidDependencies d, [])
        | none =>
        let desc' := fillIdsOpen job desc
        match job.attach desc'.jobIds with
        | .error e => .error e
        | .ok job' =>
          let core := desc'.coreIds.map fun t => (j, t)
          .ok ({ s.putJob job' with sent := s.sent ++ core }, [.submit j false], .ok j, core)
    | none =>
      let desc' := fillIdsNew desc
      let j := s.jobCtr
      if (s.getJob j).isSome then .error (.panic "add_job.assert_new") else
      let job : Job := { id := j, isOpen := false, maxFails := maxFails }
      match job.attach desc'.jobIds with
      | .error e => .error e
      | .ok job' =>
        let core := desc'.coreIds.map fun t => (j, t)
        .ok ({ s with jobs := s.jobs ++ [job'], jobCtr := j + 1, sent := s.sent ++ core },
             [.submit j true], .ok j, core)

/-- `handle_open_job` -/
def State.openJob (s : State) (maxFails : Option Nat) : Except Stop (State × List Ev × Nat) :=
  let j := s.jobCtr
  if (s.getJob j).isSome then .error (.panic "add_job.assert_new") else
  .ok ({ s with jobs := s.jobs ++ [{ id := j, isOpen := true, maxFails := maxFails }], jobCtr := j + 1 },
       [.jobOpen j], j)

inductive CloseResp where | closed | alreadyClosed | invalidJob
  deriving Repr, DecidableEq

/-- one job of `handle_job_close` -/
def State.closeJob (s : State) (j : Nat) : State × List Ev × CloseResp :=
  match s.getJob j with
  | none => (s, [], .invalidJob)
  | some job =>
    if job.isOpen then
      let job' := { job with isOpen := false }
      (s.putJob job', [.jobClose j] ++ job'.checkTermination, .closed)
    else (s, [], .alreadyClosed)

inductive CancelResp where
  | invalidJob
  | canceled (ids : List Nat) (alreadyFinished : Nat)
  deriving Repr, DecidableEq

/-- `cancel_job` (the core's `cancel_tasks` has no effect on the job layer) -/
def State.cancelJob (s : State) (j : Nat) : Except Stop (State × List Ev × CancelResp) :=
  match s.getJob j with
  | none => .ok (s, [], .invalidJob)
  | some job =>
    let ts := job.nonFinishedTaskIds
    if ts.isEmpty then .ok (s, [], .canceled [] job.nTasks) else
    let ids : List TaskId := ts.map fun t => (j, t)
    match job.setCancel ids with
    | .error e => .error e
    | .ok (job', evs) =>
      .ok ({ s.putJob job' with sent := removeAll s.sent ids }, evs, .canceled ts (job.nTasks - ts.length))

/-- one job of `handle_job_forget`; `allowed` = the status filter -/
def State.forgetJob (s : State) (j : Nat) (allowed : List Status) : Except Stop (State × Bool) :=
  match s.getJob j with
  | none => .ok (s, false)
  | some job =>
    if !job.isTerminated then .ok (s, false) else
    match job.status with
    | .error e => .error e
    | .ok st =>
      if allowed.contains st then .ok ({ s with jobs := s.jobs.filter (·.id != j) }, true)
      else .ok (s, false)

/-- `State::last_n_ids` -/
def State.lastNIds (s : State) (n : Nat) : List Nat :=
  let n := min n (s.jobCtr - 1)
  List.range' (s.jobCtr - n) n

end HqModel.Job
