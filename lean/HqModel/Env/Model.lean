/-!
Model M8: what a task is TOLD about the resources it holds (`crates/hyperqueue/src/worker/start/program.rs`:
`pin_program`, `insert_resources_into_env`, `allocation_to_labels`, `resource_env_var_name`).

Input of one launch: the allocation the worker's allocator granted (per resource: name, labels of the held indices
in allocation order — empty for a sum resource —, amount), the pin mode, the number of variants of the request and
the chosen one, and which of the three OpenMP variables the user's program definition already sets. Output: the
resource-related environment variables of the started process (an association list, later inserts overwrite), the
CPU list handed to `taskset`, or a launch failure ("Pinning failed").

No Mathlib import (the driver `hqm-env` links as an executable).
-/
namespace HqModel.Env

/-- text as a character list (kernel-computable; the driver converts at the line protocol) -/
abbrev Str := List Char

/-- one `ResourceAllocation` of the granted `Allocation` -/
structure Held where
  rid : Nat
  name : Str
  /-- labels of the held indices, whole and fractional, in the order of `allocation.indices` -/
  labels : List Str
  units : Nat
  fractions : Nat
  deriving Repr, DecidableEq

inductive Pin where
  | none | taskset | omp
  deriving Repr, DecidableEq

/-- the resource-related variables; `values n` is `HQ_RESOURCE_VALUES_<n>` with `n` the normalised resource name
(the rendering to text is in the driver) -/
inductive Key where
  | hqCpus | hqPin | variant | values (norm : Str) | cuda | cudaOrder | rocr | ompNum | ompPlaces | ompBind
  deriving Repr, DecidableEq

structure Input where
  held : List Held
  pin : Pin
  nVariants : Nat
  variant : Nat
  /-- keys the program definition of the user already sets (value `P`) -/
  preset : List Key
  deriving Repr

abbrev Env := List (Key × Str)

/-- `Map::insert`: a later insert of the same key replaces the value -/
def Env.set (e : Env) (k : Key) (v : Str) : Env := (k, v) :: e.filter (·.1 ≠ k)

def Env.get? (e : Env) (k : Key) : Option Str := (e.find? (·.1 = k)).map (·.2)

def Env.has (e : Env) (k : Key) : Bool := e.any (·.1 = k)

/-- `resource_env_var_name`: every character that is not an ASCII letter or digit becomes `_` -/
def normChar (c : Char) : Char := if c.isAlphanum then c else '_'

def norm (name : Str) : Str := name.map normChar

/-- `format_comma_delimited` on character lists -/
def joinC : List (List Char) → List Char
  | [] => []
  | [l] => l
  | l :: rest => l ++ ',' :: joinC rest

/-- `format_comma_delimited` -/
def joinLabels (l : List Str) : Str := joinC l

/-- `allocation_to_labels`: `None` when the allocation holds no index (sum resources) -/
def Held.told (h : Held) : Option Str := if h.labels.isEmpty then none else some (joinLabels h.labels)

/-- the CPU list of `pin_program`: the allocation of resource id 0 -/
def cpuList (held : List Held) : Option Str := (held.find? (·.rid = 0)).bind Held.told

/-- `ResourceAmount::to_string` for an amount without fractions -/
def showUnits (h : Held) : Str := Nat.toDigits 10 h.units

/-- `pin_program` -/
def pinProgram (i : Input) (e : Env) : Except String (Env × Option Str) :=
  match i.pin with
  | .none => .ok (e, none)
  | .taskset =>
    match cpuList i.held with
    | some l => .ok (e.set .hqPin ['t', 'a', 's', 'k', 's', 'e', 't'], some l)
    | none => .error "Pinning failed, no CPU ids allocated for task"
  | .omp =>
    match cpuList i.held with
    | some l =>
      let e1 := if e.has .ompBind then e else e.set .ompBind ['c', 'l', 'o', 's', 'e']
      let e2 := if e1.has .ompPlaces then e1 else e1.set .ompPlaces ('{' :: l ++ ['}'])
      .ok (e2.set .hqPin ['o', 'm', 'p'], none)
    | none => .error "Pinning failed, no CPU ids allocated for task"

/-- extra variables for the CPU resource -/
def stepCpus (h : Held) (l : Str) (e : Env) : Env :=
  if h.name = ['c', 'p', 'u', 's'] then
    let e' := e.set .hqCpus l
    if !e'.has .ompNum && h.fractions == 0 then e'.set .ompNum (showUnits h) else e'
  else e

/-- extra variables for Nvidia GPUs -/
def stepCuda (h : Held) (l : Str) (e : Env) : Env :=
  if h.name = ['g', 'p', 'u', 's', '/', 'n', 'v', 'i', 'd', 'i', 'a'] then (e.set .cuda l).set .cudaOrder ['P', 'C', 'I', '_', 'B', 'U', 'S', '_', 'I', 'D'] else e

/-- extra variable for AMD GPUs -/
def stepRocr (h : Held) (l : Str) (e : Env) : Env :=
  if h.name = ['g', 'p', 'u', 's', '/', 'a', 'm', 'd'] then e.set .rocr l else e

/-- the loop body of `insert_resources_into_env` for one resource allocation -/
def insertOne (e : Env) (h : Held) : Env :=
  match h.told with
  | none => e
  | some l => (stepRocr h l (stepCuda h l (stepCpus h l e))).set (.values (norm h.name)) l

/-- `insert_resources_into_env` (without the `HQ_RESOURCE_REQUEST_*` echo of the request text) -/
def insertResources (i : Input) (e : Env) : Env :=
  let e0 := if i.nVariants > 1 then e.set .variant (Nat.toDigits 10 i.variant) else e
  i.held.foldl insertOne e0

/-- the environment the user's program definition brings -/
def presetEnv (i : Input) : Env := i.preset.map fun k => (k, ['P'])

/-- projections for statements: a variable of a successful launch; the `taskset` list -/
def getOk? (r : Except String (Env × Option Str)) (k : Key) : Option Str :=
  match r with
  | .ok (e, _) => e.get? k
  | .error _ => none

def tsOk? (r : Except String (Env × Option Str)) : Option Str :=
  match r with
  | .ok (_, ts) => ts
  | .error _ => none

def failed (r : Except String (Env × Option Str)) : Bool :=
  match r with
  | .ok _ => false
  | .error _ => true

/-- the resource part of `build_program_task` for a single-node task: pinning first, then the resource variables -/
def launch (i : Input) : Except String (Env × Option Str) :=
  match pinProgram i (presetEnv i) with
  | .error e => .error e
  | .ok (e, ts) => .ok (insertResources i e, ts)

end HqModel.Env
