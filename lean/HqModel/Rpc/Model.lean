/-!
Model M9: the end of a worker connection (`crates/tako/src/internal/server/rpc.rs`: `worker_rpc_loop`, the `select!` over
`worker_receive_loop` / the send loop / the periodic heartbeat check, followed — on EVERY exit — by `remove_worker` and
`on_remove_worker`), as a decision table over the ways a connection can end, and `LostWorkerReason::is_failure`
(`crates/tako/src/gateway.rs`).

No Mathlib import (the driver `hqm-rpc` links as an executable).
-/
namespace HqModel.Rpc

/-- how the connection of a registered worker ends -/
inductive EndKind where
  | eof        -- clean close
  | trunc      -- close in the middle of a frame (read error)
  | garbage    -- a complete frame that does not decode (receive loop returns an error)
  | stopIdle   -- `FromWorkerMessage::Stop(IdleTimeout)`
  | stopTime   -- `Stop(TimeLimitReached)`
  | stopInt    -- `Stop(Interrupted)`
  | silent     -- the socket stays open, no heartbeat arrives
  deriving Repr, DecidableEq

/-- `LostWorkerReason` -/
inductive Reason where
  | stopped | connectionLost | heartbeatLost | idleTimeout | timeLimitReached
  deriving Repr, DecidableEq

/-- the reason announced to the client -/
def reasonOf : EndKind → Reason
  | .eof | .trunc | .garbage | .stopInt => .connectionLost
  | .stopIdle => .idleTimeout
  | .stopTime => .timeLimitReached
  | .silent => .heartbeatLost

/-- `LostWorkerReason::is_failure`: only these losses charge a crash to the tasks that were running -/
def Reason.isFailure : Reason → Bool
  | .connectionLost | .heartbeatLost => true
  | .stopped | .idleTimeout | .timeLimitReached => false

structure Outcome where
  /-- the loss announced for the worker (`on_worker_lost`) -/
  lost : Option Reason
  /-- the server no longer knows the worker -/
  removed : Bool
  /-- a task that was assigned to the worker is sent to another connected worker that can run it (`none`: no such task / worker) -/
  resent : Option Bool
  /-- the server survives a later submit and scheduling round -/
  alive : Bool
  deriving Repr, DecidableEq

/-- one connection end; `pre`: a task was assigned to the worker, `other`: another capable worker is connected -/
def connEnd (k : EndKind) (pre other : Bool) : Outcome :=
  { lost := some (reasonOf k), removed := true, resent := if pre && other then some true else none, alive := true }

end HqModel.Rpc
