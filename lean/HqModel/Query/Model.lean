/-!
Model M10: the multi-node part of `compute_new_worker_query` (`crates/tako/src/internal/scheduler/query.rs`) — which
allocation queue ("worker type") the demand of a waiting multi-node request class is offered to.

For every ready queue of a multi-node request: the FIRST worker type whose time limit (if any) covers the request's time
request and whose allocations are big enough (`max_workers_per_allocation >= n_nodes`); the answers sorted by
(worker type, nodes). The single-node part of the query runs the real MILP solver on fake workers and is not modelled.

No Mathlib import (the driver `hqm-query` links as an executable).
-/
namespace HqModel.Query

/-- a ready queue of a multi-node request class -/
structure MnQueue where
  nNodes : Nat
  minTime : Nat      -- time request (s)
  size : Nat         -- ready tasks
  deriving Repr, DecidableEq

/-- one `WorkerTypeQuery` (an active allocation queue) -/
structure WType where
  timeLimit : Option Nat
  maxPerAlloc : Nat
  deriving Repr, DecidableEq

structure MnAnswer where
  wtype : Nat
  perAlloc : Nat
  maxAllocs : Nat
  deriving Repr, DecidableEq

/-- the worker type can host the request: it lives long enough and its allocations are big enough -/
def fits (t : WType) (q : MnQueue) : Bool :=
  (match t.timeLimit with | some l => q.minTime ≤ l | none => true) && q.nNodes ≤ t.maxPerAlloc

/-- index of the first fitting worker type (`find_map` over `queries.iter().enumerate()`) -/
def firstFit (types : List WType) (q : MnQueue) : Option Nat :=
  types.findIdx? (fits · q)

def answerOf (types : List WType) (q : MnQueue) : Option MnAnswer :=
  (firstFit types q).map fun i => { wtype := i, perAlloc := q.nNodes, maxAllocs := q.size }

/-- the answers in queue order (before `sort_unstable_by_key`) -/
def mnAnswers (types : List WType) (queues : List MnQueue) : List MnAnswer :=
  queues.filterMap (answerOf types)

end HqModel.Query
