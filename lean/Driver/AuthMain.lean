import HqModel.Base.Proto
import HqModel.Auth.Scenario
import HqModel.Auth.Sites
/-!
Driver `hqm-auth`: one case = one row of the C20 table.
  `op base <keyA> <keyB> <myA> <peerA> <myB> <peerB> <protoA> <protoB>`
      the earlier, undisturbed session between the two configurations (keys: `none`, `k1`, `k2`)
  `op adv <action…> [+ <action…>]*`   the main session under the adversary action(s) (several actions,
      on pairwise different messages, only in the thorough-tier pairs table); an action is:
      `none` | `drop i` | `reflect i` | `earlier i` | `parallel i` |
      `mod i proto|role <name>|chalflip|chaltrunc|chalext|modeswap`  (i ∈ {1,2}) |
      `mod i ctflip|nonceflip|cttrunc|noncetrunc|noauth|error`  (i ∈ {3,4}) | `double-proto`
Output after each op:
  `out res <accept|refuse> <accept|refuse>`     result of A, of B
  `out sent <kind> <kind>`                      kind of the response A sent (m3) and B sent (m4):
                                                `noauth` | `enc` | `error` | `none` (nothing sent)
-/
open HqModel.Proto HqModel.Auth

def bytesOf (s : String) : Bytes := s.toUTF8.toList

def parseKey : String → Option (Option Nat)
  | "none" => some none
  | "k1" => some (some 1)
  | "k2" => some (some 2)
  | _ => none

def roleNames : List String := ["server", "worker", "hq-server", "hq-client"]

def parseRole (s : String) : Option Bytes :=
  if roleNames.contains s then some (bytesOf s) else none

def parseMsgIdx (s : String) : Option Nat :=
  match s.toNat? with
  | some i => if 1 ≤ i ∧ i ≤ 4 then some i else none
  | none => none

def parseAdv : List String → Option Adv
  | ["none"] => some .none
  | ["double-proto"] => some .doubleProto
  | ["drop", i] => (parseMsgIdx i).map .drop
  | ["reflect", i] => (parseMsgIdx i).map .reflect
  | ["earlier", i] => (parseMsgIdx i).map .earlier
  | ["parallel", i] => (parseMsgIdx i).map .parallel
  | ["mod", i, "role", r] =>
    match parseMsgIdx i, parseRole r with
    | some i, some r => if i ≤ 2 then some (.modReq i (.role r)) else none
    | _, _ => none
  | ["mod", i, what] =>
    match parseMsgIdx i with
    | some i =>
      if i ≤ 2 then
        match what with
        | "proto" => some (.modReq i .proto)
        | "chalflip" => some (.modReq i .chalFlip)
        | "chaltrunc" => some (.modReq i .chalTrunc)
        | "chalext" => some (.modReq i .chalExt)
        | "modeswap" => some (.modReq i .modeSwap)
        | _ => none
      else
        match what with
        | "ctflip" => some (.modResp i .ctFlip)
        | "nonceflip" => some (.modResp i .nonceFlip)
        | "cttrunc" => some (.modResp i .ctTrunc)
        | "noncetrunc" => some (.modResp i .nonceTrunc)
        | "noauth" => some (.modResp i .noAuth)
        | "error" => some (.modResp i .error)
        | _ => none
    | none => none
  | _ => none

/-- `a1 + a2 + …` (1 to 4 single-message actions on pairwise different messages) -/
def splitPlus (toks : List String) : List (List String) :=
  toks.foldr (fun t acc =>
    match acc with
    | cur :: rest => if t = "+" then [] :: cur :: rest else (t :: cur) :: rest
    | [] => [[t]]) [[]]

def distinctIdx : List Adv → Bool
  | [] => true
  | a :: rest => a.idx ≠ 0 && rest.all (fun b => b.idx ≠ a.idx) && distinctIdx rest

def parseAdvs (toks : List String) : Option (List Adv) :=
  match (splitPlus toks).mapM parseAdv with
  | some [a] => some [a]
  | some l => if 2 ≤ l.length ∧ l.length ≤ 4 ∧ distinctIdx l then some l else none
  | none => none

def parseBase : List String → Option (Config × Config)
  | [kA, kB, myA, peerA, myB, peerB, pA, pB] =>
    match parseKey kA, parseKey kB, parseRole myA, parseRole peerA, parseRole myB, parseRole peerB,
          pA.toNat?, pB.toNat? with
    | some kA, some kB, some myA, some peerA, some myB, some peerB, some pA, some pB =>
      some ({ protocol := pA, myRole := myA, peerRole := peerA, key := kA },
            { protocol := pB, myRole := myB, peerRole := peerB, key := kB })
    | _, _, _, _, _, _, _, _ => none
  | _ => none

def showRes (b : Bool) : String := if b then "accept" else "refuse"

def showKind : Option Response → String
  | none => "none"
  | some .noAuth => "noauth"
  | some (.encryption _ _) => "enc"
  | some .error => "error"

def showOutcome (o : Outcome) : List String :=
  [s!"out res {showRes o.resA} {showRes o.resB}", s!"out sent {showKind o.m3} {showKind o.m4}"]

abbrev St := Option (Config × Config)

def parseSite : String → Option Site
  | "hq-client" => some .hqClient | "hq-server" => some .hqServer | "tako-worker" => some .takoWorker | _ => none

/-- component `authhq`: the row of `HqModel/Auth/Sites.lean` -/
def siteRow (site peer key : String) : Option String :=
  let k : Option Nat := if key = "key=1" then some 1 else none
  match parseSite site, peer with
  | some st, "honest" => some s!"out res {showRes (siteHonest st k)}"
  | some st, "echo" => some s!"out res {showRes (siteEcho st k)}"
  | _, _ => none

def step (s : St) : List String → St × List String
  | ["site", site, peer, key] =>
    match siteRow site peer key with
    | some l => (s, [l])
    | none => (s, ["out !bad-op"])
  | "base" :: rest =>
    match parseBase rest with
    | some (cA, cB) => (some (cA, cB), showOutcome (earlierSession cA cB))
    | none => (s, ["out !bad-op"])
  | "adv" :: rest =>
    match s, parseAdvs rest with
    | some (cA, cB), some advs => (s, showOutcome (runRow cA cB advs))
    | _, _ => (s, ["out !bad-op"])
  | _ => (s, ["out !bad-op"])

def main : IO Unit :=
  Driver.main { reset := fun _ => (none : St), step := step } none
