import HqModel.Base.Proto
import HqModel.Journal.Model
import HqModel.Journal.Prune2
import HqModel.Journal.File
import HqModel.Journal.Spec
/-!
Model driver of the `journal` component (`hqm-journal`). Trace protocol: /verif/FRAMEWORK.md; ops:

  case <idx> <subseed> hdr=<H> …            H = byte length of the journal header
  op rec <size> <RECORD…>                   the real writer appended this record (`size` bytes) to journal J
  op restore <k> <extra>                    restore from J cut after k records + `extra` bytes of the next one
  op resume <k> <extra> <size> <rec>        restore from that cut, reopen (truncate), append <rec> of <size> bytes, restore again
  op prune <k> <liveJobs> <liveWorkers>     P := prune(J cut after k records)
  op papp <RECORD…>                         append a record to P
  op pprune <liveJobs> <liveWorkers>        P := prune(P)
  op sprune <k> <jobs> <workers> <k2>       journal thread: k events, prune request, events k..k2; records of the file
  op prestore                               restore from P
-/
open HqModel HqModel.Proto HqModel.Journal HqModel.Job

namespace JournalDriver

def parseOptNat (s : String) : Option (Option Nat) :=
  if s = "-" then some none else s.toNat?.map some

def parseBool (s : String) : Option Bool :=
  if s = "1" then some true else if s = "0" then some false else none

def parseSepList (sep : String) (f : String → Option α) (s : String) : Option (List α) :=
  if s = "-" then some [] else (s.splitOn sep).mapM f

def parseRange (s : String) : Option IntRange :=
  match s.splitOn ":" with
  | [a, b, c] => do pure ⟨← a.toNat?, ← b.toNat?, ← c.toNat?⟩
  | _ => none

def parseGraphTask (s : String) : Option GraphTask :=
  match s.splitOn "/" with
  | [a, b, c] => do pure ⟨← a.toNat?, ← parseSepList "+" String.toNat? b, ← parseBool c⟩
  | _ => none

def parsePair (s : String) : Option (Nat × Nat) :=
  match s.splitOn "." with
  | [a, b] => do pure (← a.toNat?, ← b.toNat?)
  | _ => none

def parseReason : String → Option LostReason
  | "stopped" => some .stopped
  | "conn" => some .connectionLost
  | "hb" => some .heartbeatLost
  | "idle" => some .idleTimeout
  | "time" => some .timeLimitReached
  | _ => none

def parseRecord : List String → Option Record
  | ["start", uid] => some (.serverStart (if uid = "-" then "" else uid))
  | ["stop"] => some .serverStop
  | ["wconn", w, a] => do pure (.workerConnected (← w.toNat?) (← parseOptNat a))
  | ["wlost", w, r] => do pure (.workerLost (← w.toNat?) (← parseReason r))
  | ["wover", w] => do pure (.workerOverview (← w.toNat?))
  | ["submit", j, c, mf, "array", ids, e] => do
    pure (.submit (← j.toNat?) (← parseBool c) (← parseOptNat mf)
      (.array (← parseSepList ";" parseRange ids) (← parseOptNat e)))
  | ["submit", j, c, mf, "graph", ts] => do
    pure (.submit (← j.toNat?) (← parseBool c) (← parseOptNat mf) (.graph (← parseSepList ";" parseGraphTask ts)))
  | ["jopen", j, mf] => do pure (.jobOpen (← j.toNat?) (← parseOptNat mf))
  | ["jclose", j] => do pure (.jobClose (← j.toNat?))
  | ["jcancel", j] => do pure (.jobCancel (← j.toNat?))
  | ["jdone", j] => do pure (.jobCompleted (← j.toNat?))
  | ["tstart", j, t, i, ws] => do pure (.taskStarted (← j.toNat?) (← t.toNat?) (← i.toNat?) (← parseNatList ws))
  | ["tfin", j, t] => do pure (.taskFinished (← j.toNat?) (← t.toNat?))
  | ["tfail", j, t] => do pure (.taskFailed (← j.toNat?) (← t.toNat?))
  | ["tcancel", ids] => do pure (.tasksCanceled (← parseSepList "," parsePair ids))
  | ["tabort", ids] => do pure (.tasksAborted (← parseSepList "," parsePair ids))
  | ["qnew", q] => do pure (.queueCreated (← q.toNat?))
  | ["qdel", q] => do pure (.queueRemoved (← q.toNat?))
  | ["aqueued", q, a] => do pure (.allocQueued (← q.toNat?) (← a.toNat?))
  | ["astart", q, a] => do pure (.allocStarted (← q.toNat?) (← a.toNat?))
  | ["afin", q, a] => do pure (.allocFinished (← q.toNat?) (← a.toNat?))
  | _ => none

def showOptNat : Option Nat → String
  | some n => toString n
  | none => "-"

def showBool (b : Bool) : String := if b then "1" else "0"

def showReason : LostReason → String
  | .stopped => "stopped" | .connectionLost => "conn" | .heartbeatLost => "hb"
  | .idleTimeout => "idle" | .timeLimitReached => "time"

def showDesc : TaskDesc → String
  | .array ids e =>
    s!"array {showList (fun (r : IntRange) => s!"{r.start}:{r.count}:{r.step}") ids ";"} {showOptNat e}"
  | .graph ts =>
    "graph " ++ showList (fun (t : GraphTask) => s!"{t.id}/{showList toString t.deps "+"}/{showBool t.rqOk}") ts ";"

def showPairs (ids : List (Nat × Nat)) : String := showList (fun (p : Nat × Nat) => s!"{p.1}.{p.2}") ids

def showRecord : Record → String
  | .serverStart uid => s!"start {if uid = "" then "-" else uid}"
  | .serverStop => "stop"
  | .workerConnected w a => s!"wconn {w} {showOptNat a}"
  | .workerLost w r => s!"wlost {w} {showReason r}"
  | .workerOverview w => s!"wover {w}"
  | .submit j c mf d => s!"submit {j} {showBool c} {showOptNat mf} {showDesc d}"
  | .jobOpen j mf => s!"jopen {j} {showOptNat mf}"
  | .jobClose j => s!"jclose {j}"
  | .jobCancel j => s!"jcancel {j}"
  | .jobCompleted j => s!"jdone {j}"
  | .taskStarted j t i ws => s!"tstart {j} {t} {i} {showNatList ws}"
  | .taskFinished j t => s!"tfin {j} {t}"
  | .taskFailed j t => s!"tfail {j} {t}"
  | .tasksCanceled ids => s!"tcancel {showPairs ids}"
  | .tasksAborted ids => s!"tabort {showPairs ids}"
  | .queueCreated q => s!"qnew {q}"
  | .queueRemoved q => s!"qdel {q}"
  | .allocQueued q a => s!"aqueued {q} {a}"
  | .allocStarted q a => s!"astart {q} {a}"
  | .allocFinished q a => s!"afin {q} {a}"

def showSite : PanicSite → String
  | .taskFinishedUnwrap | .jobCloseUnwrap | .jobCancelUnwrap => "unwrap-none"
  | .taskFinishedState | .taskFailedState => "invalid-task-state"
  | .queueCreatedAssert => "assert-queue"
  | .validateRqAssert => "assert-rq"
  | .attachDuplicate => "assert-attach"

def showErr : ErrKind → String
  | .validation => "validation" | .corrupt => "corrupt" | .header => "open" | .coreDuplicate => "core-duplicate"

def showStop : Stop → String
  | .panic s => s!"out !panic {showSite s}"
  | .error k => s!"out res err {showErr k}"

def sortNat (l : List Nat) : List Nat := sortBy (· < ·) l

def showState : TState → String
  | .waiting => "waiting - -"
  | .running sd => s!"running {sd.inst} {showNatList sd.workers}"
  | .finished sd => s!"finished {sd.inst} {showNatList sd.workers}"
  | .failed (some sd) => s!"failed {sd.inst} {showNatList sd.workers}"
  | .failed none => "failed - -"
  | .canceled (some sd) => s!"canceled {sd.inst} {showNatList sd.workers}"
  | .canceled none => "canceled - -"
  | .aborted (some sd) => s!"aborted {sd.inst} {showNatList sd.workers}"
  | .aborted none => "aborted - -"

/-- index the batches of each job (0,1,… in order), sorted by job (stable) -/
def indexBatches (bs : List Batch) : List (Nat × Batch) :=
  let step := fun (acc : List (Nat × Batch)) (b : Batch) =>
    acc ++ [((acc.filter fun x => x.2.job == b.job).length, b)]
  sortBy (fun a b => a.2.job < b.2.job || (a.2.job == b.2.job && a.1 < b.1)) (bs.foldl step [])

def restoreOut (r : Restorer) (x : Restored) : List String :=
  let c := counters r
  let jobs := sortBy (fun (a b : RestoredJob) => a.id < b.id) x.jobs
  let ib := indexBatches x.batches
  let core := match coreFeed [] x.batches with
    | .ok core =>
      (sortBy (fun (a b : CoreTask) => a.job < b.job || (a.job == b.job && a.task < b.task)) core).map fun t =>
        s!"out core {t.job} {t.task} {t.inst} {t.crash} {showNatList (sortNat t.deps)}"
    | .error _ => ["out core !dup"]
  ["out res ok",
   s!"out trunc {showOptNat r.truncate}",
   s!"out uid {if r.uid = "" then "-" else r.uid}",
   s!"out ctr {c.job} {c.worker} {c.queue}",
   s!"out next {(issueJob c).1} {(issueWorker c).1} {(issueQueue c).1}"]
  ++ (sortBy (fun (a b : Nat × Bool) => a.1 < b.1) x.queues).map (fun q => s!"out queue {q.1} {showBool q.2}")
  ++ jobs.map (fun j => s!"out job {j.id} {showBool j.isOpen} {showOptNat j.maxFails} {j.tasks.length} {j.nSubmits}")
  ++ jobs.map (fun j => s!"out cnt {j.id} {j.counters.running} {j.counters.finished} {j.counters.failed} {j.counters.canceled} {j.counters.aborted}")
  ++ jobs.flatMap (fun j =>
      (sortBy (fun (a b : Nat × TState) => a.1 < b.1) j.tasks).map fun t => s!"out task {j.id} {t.1} {showState t.2}")
  ++ ib.flatMap (fun (i, b) => b.tasks.map fun t => s!"out sub {b.job} {i} {t.1} {showNatList (sortNat t.2)}")
  ++ ib.flatMap (fun (i, b) =>
      (sortBy (fun (a b : Nat × (Nat × Nat)) => a.1 < b.1) b.adjust).map fun a => s!"out adj {b.job} {i} {a.1} {a.2.1} {a.2.2}")
  ++ core

structure DState where
  hdr : Nat := 0
  J : Array (Record × Nat) := #[]
  P : List Record := []

def hdrBytes (n : Nat) : Bytes := List.replicate n 7

/-- restore from the file `header ++ enc(J[0..k)) ++ (first `extra` bytes of enc(J[k]))`, through the model's
file layer instantiated with the length-determined code on the real record sizes -/
def doRestore (s : DState) (k extra : Nat) : List String :=
  let sizes := (s.J.toList.map (·.2))
  let full := (sizes.take k).flatMap sizeEnc
  let tail := match sizes[k]? with
    | some n => (sizeEnc n).take extra
    | none => []
  let file := hdrBytes s.hdr ++ full ++ tail
  let prod := fun (recs : List Record) => s!"out prod {showBool (producibleFrom {} recs)}"
  match readAll sizeCodec (hdrBytes s.hdr) file with
  | none => [prod ((s.J.toList.take k).map (·.1)), "out res err open"]
  | some rr =>
    let recs := (s.J.toList.take rr.records.length).map (·.1)
    prod ((s.J.toList.take k).map (·.1)) ::
    match restorerFold recs with
    | .error e => [showStop e]
    | .ok r =>
      match rr.status with
      | .corrupt => ["out res err corrupt"]
      | st =>
        let r := if st == .partialTail then { r with truncate := some rr.position } else r
        match restoreJobs r with
        | .error e => [showStop e]
        | .ok x => restoreOut r x

/-- `resume k extra size rec`: restore from the cut file, reopen it with `truncateAppend` at the position the reader
reported (`create_or_append(path, truncate_size)`; no truncation after a clean end), append one record of `size`
bytes, and restore from the resulting file -/
def doResume (s : DState) (k extra size : Nat) (rec : Record) : List String :=
  let sizes := (s.J.toList.map (·.2))
  let full := (sizes.take k).flatMap sizeEnc
  let tail := match sizes[k]? with
    | some n => (sizeEnc n).take extra
    | none => []
  let file := hdrBytes s.hdr ++ full ++ tail
  match readAll sizeCodec (hdrBytes s.hdr) file with
  | none => ["out res err open"]
  | some rr =>
    let recs := (s.J.toList.take rr.records.length).map (·.1)
    -- first restart
    match restorerFold recs with
    | .error e => [showStop e]
    | .ok r =>
      match rr.status with
      | .corrupt => ["out res err corrupt"]
      | st =>
        match restoreJobs r with
        | .error e => [showStop e]
        | .ok _ =>
          let file2 := truncateAppend sizeCodec file (if st == .partialTail then rr.position else file.length) [size]
          -- second restart
          match readAll sizeCodec (hdrBytes s.hdr) file2 with
          | none => ["out res err open"]
          | some rr2 =>
            let all := recs ++ [rec]
            let recs2 := all.take rr2.records.length
            match restorerFold recs2 with
            | .error e => [showStop e]
            | .ok r2 =>
              match rr2.status with
              | .corrupt => ["out res err corrupt"]
              | st2 =>
                let r2 := if st2 == .partialTail then { r2 with truncate := some rr2.position } else r2
                match restoreJobs r2 with
                | .error e => [showStop e]
                | .ok x => restoreOut r2 x

def doRestoreList (recs : List Record) : List String :=
  match restore recs with
  | .error e => [showStop e]
  | .ok (r, x) => restoreOut r x

def showPruned (p : List Record) : List String :=
  s!"out pn {p.length}" :: p.map fun r => s!"out prec {showRecord r}"

def step (s : DState) : List String → DState × List String
  | "rec" :: size :: rest =>
    match size.toNat?, parseRecord rest with
    | some n, some r => ({ s with J := s.J.push (r, n) }, [])
    | _, _ => (s, ["out !bad-op"])
  | ["restore", k, extra] =>
    match k.toNat?, extra.toNat? with
    | some k, some e => (s, doRestore s k e)
    | _, _ => (s, ["out !bad-op"])
  | "resume" :: k :: extra :: size :: rest =>
    match k.toNat?, extra.toNat?, size.toNat?, parseRecord rest with
    | some k, some e, some n, some r => (s, doResume s k e n r)
    | _, _, _, _ => (s, ["out !bad-op"])
  | ["boot", k, _extra, uid] =>
    -- a REAL server session on the journal cut after k records (+ a torn tail that must be ignored and truncated): the
    -- session appends its ServerStart (uid recorded from the real file) and, at the clean stop, ServerStop
    match k.toNat?, parseRecord ["start", uid], parseRecord ["stop"] with
    | some k, some r1, some r2 =>
      (s, "out boot ok" :: doRestoreList ((s.J.toList.take k).map (·.1) ++ [r1, r2]))
    | _, _, _ => (s, ["out !bad-op"])
  | ["prune", k, lj, lw] =>
    match k.toNat?, parseNatList lj, parseNatList lw with
    | some k, some lj, some lw =>
      let p := prune2 lj lw ((s.J.toList.take k).map (·.1))
      ({ s with P := p }, showPruned p)
    | _, _, _ => (s, ["out !bad-op"])
  | ["sprune", k, lj, lw, k2] =>
    -- the journal thread: k events, prune with the live sets, the events k..k2
    match k.toNat?, parseNatList lj, parseNatList lw, k2.toNat? with
    | some k, some lj, some lw, some k2 =>
      let all := s.J.toList.map (·.1)
      (s, showPruned (prune2 lj lw (all.take k) ++ (all.drop k).take (k2 - k)))
    | _, _, _, _ => (s, ["out !bad-op"])
  | "papp" :: rest =>
    match parseRecord rest with
    | some r => ({ s with P := s.P ++ [r] }, [])
    | none => (s, ["out !bad-op"])
  | ["pprune", lj, lw] =>
    match parseNatList lj, parseNatList lw with
    | some lj, some lw =>
      let p := prune2 lj lw s.P
      ({ s with P := p }, showPruned p)
    | _, _ => (s, ["out !bad-op"])
  | ["prestore"] => (s, doRestoreList s.P)
  | ["hdrcut", e] =>
    -- a file shorter than the header: `JournalReader::open` fails
    match e.toNat? with
    | some e => (s, [match readAll sizeCodec (hdrBytes s.hdr) ((hdrBytes s.hdr).take e) with
        | none => "out res err open"
        | some _ => "out res ok"])
    | none => (s, ["out !bad-op"])
  | _ => (s, ["out !bad-op"])

def reset (params : List String) : DState :=
  let hdr := params.findSome? fun p => if p.startsWith "hdr=" then (p.drop 4).toNat? else none
  { hdr := hdr.getD 0 }

end JournalDriver

def main : IO Unit :=
  (⟨JournalDriver.reset, JournalDriver.step, fun _ => []⟩ : HqModel.Proto.Driver JournalDriver.DState).main {}
