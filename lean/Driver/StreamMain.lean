import HqModel.Base.Proto
import HqModel.Stream.Reader
/-!
Model driver of component `stream` (exe `hqm-stream`). Trace ops (see harness/src/stream.rs):

  op file <fidx> <uid> <worker> <chunks> <keep|->   chunks = `-` | `time:job:task:inst:ch:len:dseed,...`
  op raw <fidx> <hex|->                    a file with explicit content
  op cut <fidx> <offset>                   the file now holds only its first <offset> bytes (≥ length: all)
  op open <filter|-> <order>               OutputLog::open; <order> = accepted files as `paths` listed them
  op openp <order>                         create_index on an explicit path order (all listed files)

Outputs: `file`, `open`, `paths`, `idx`, `cat`, `fin`, `sup`, `sum` lines, `!panic channel-index`.
-/
open HqModel HqModel.Proto HqModel.Stream

structure DFile where
  fidx : Nat
  full : Bytes
  cut : Nat

structure DState where
  files : List DFile := []
  dead : Bool := false

def fnv (bs : Bytes) : UInt64 :=
  bs.foldl (fun h b => (h ^^^ b.toUInt64) * 0x100000001b3) 0xcbf29ce484222325

/-- the deterministic data generator shared with the harness -/
def dataGen (seed len : Nat) : Bytes :=
  let rec go : Nat → Nat → Bytes → Bytes
    | 0, _, acc => acc.reverse
    | n + 1, x, acc =>
      let x' := (x * 1103515245 + 12345) % 2147483648
      go n x' (UInt8.ofNat ((x' / 65536) % 256) :: acc)
  go len (seed % 2147483648) []

def parseChunk (s : String) : Option Chunk :=
  match s.splitOn ":" with
  | [t, j, k, i, c, l, d] => do
    let t ← t.toInt?
    let j ← j.toNat?
    let k ← k.toNat?
    let i ← i.toNat?
    let c ← c.toNat?
    let l ← l.toNat?
    let d ← d.toNat?
    some ⟨⟨t, j, k, i, c, l⟩, dataGen d l⟩
  | _ => none

def parseChunks? (s : String) : Option (List Chunk) :=
  if s = "-" then some [] else (s.splitOn ",").mapM parseChunk

def hexVal (c : Char) : Option Nat :=
  if '0' ≤ c ∧ c ≤ '9' then some (c.toNat - '0'.toNat)
  else if 'a' ≤ c ∧ c ≤ 'f' then some (c.toNat - 'a'.toNat + 10)
  else none

def parseHex (s : String) : Option Bytes :=
  if s = "-" then some [] else
  let rec go : List Char → Option Bytes
    | [] => some []
    | [_] => none
    | a :: b :: r => do
      let x ← hexVal a
      let y ← hexVal b
      let rest ← go r
      some (UInt8.ofNat (x * 16 + y) :: rest)
  go s.toList

def strBytes (s : String) : Bytes := s.toUTF8.toList

def DFile.cur (f : DFile) : Bytes := f.full.take f.cut

def showFile (f : DFile) : String :=
  let b := f.cur
  s!"out file {f.fidx} {b.length} {fnv b}"

def setFile (st : DState) (f : DFile) : DState :=
  { st with files := (st.files.filter (·.fidx ≠ f.fidx)) ++ [f] }

def keyLt (a b : Key) : Bool := a.1 < b.1 || (a.1 == b.1 && a.2 < b.2)

def b01 (b : Bool) : String := if b then "1" else "0"

/-- the per-task and summary lines after a successful open; `order` maps `file_idx` to fidx -/
def dumpLog (log : Log) (order : List Nat) : List String :=
  let ks := sortBy keyLt log.index.keys
  let fx (i : Nat) : Nat := order.getD i 999999
  let perTask := ks.flatMap fun k =>
    let insts := log.index.get k
    let idxLine := s!"out idx {k.1} {k.2} " ++ showList (fun (i : InstanceInfo) =>
      s!"{i.inst}:{fx i.fileIdx}:{b01 i.finished}:{i.ch0.length}:{i.ch1.length}") insts
    let cats := [0, 1].map fun ch =>
      match log.cat k ch with
      | .ok d => s!"out cat {k.1} {k.2} {ch} ok {d.length} {fnv d}"
      | .notFound => s!"out cat {k.1} {k.2} {ch} notfound"
      | .readErr => s!"out cat {k.1} {k.2} {ch} err"
    let fin := s!"out fin {k.1} {k.2} " ++ (match log.finished k with | some b => b01 b | none => "-")
    let sup := s!"out sup {k.1} {k.2} " ++ showNatList ((log.superseded k).map (·.inst))
    [idxLine] ++ cats ++ [fin, sup]
  let s := log.summary
  perTask ++ [s!"out sum {s.nFiles} {s.nJobs} {s.nTasks} {s.nStreams} {s.nOpened} {s.stdoutSize} {s.stderrSize} {s.nSuperseded} {s.supStdoutSize} {s.supStderrSize}"]

def showOpen (st : DState) (r : Except OpenErr Log) (order : List Nat) : DState × List String :=
  match r with
  | .ok log => (st, ["out open ok"] ++ dumpLog log order)
  | .error .noFiles => (st, ["out open nofiles"])
  | .error .multiUid => (st, ["out open multiuid"])
  | .error (.stop .invalid) => (st, ["out open invalid"])
  | .error (.stop .panicChannel) => ({ st with dead := true }, ["out !panic channel-index"])

def lookupFiles (st : DState) (order : List Nat) : Option (List Bytes) :=
  order.mapM fun i => (st.files.find? (·.fidx = i)).map (·.cur)

def step (st : DState) (toks : List String) : DState × List String :=
  if st.dead then (st, ["out !bad-op"]) else
  match toks with
  | ["file", fidx, uid, worker, chunks, keep] =>
    match fidx.toNat?, worker.toNat?, parseChunks? chunks, (if keep = "-" then some none else keep.toNat?.map some) with
    | some fi, some w, some cs, some kp =>
      let b0 := fileBytes ⟨strBytes uid, w, cs⟩
      -- an unflushed writer: the observed length decides how much of the queue reached the file
      let b := match kp with | some n => b0.take n | none => b0
      let f : DFile := ⟨fi, b, b.length⟩
      (setFile st f, [showFile f])
    | _, _, _, _ => (st, ["out !bad-op"])
  | ["raw", fidx, hex] =>
    match fidx.toNat?, parseHex hex with
    | some fi, some b =>
      let f : DFile := ⟨fi, b, b.length⟩
      (setFile st f, [showFile f])
    | _, _ => (st, ["out !bad-op"])
  | ["cut", fidx, off] =>
    match fidx.toNat?, off.toNat? with
    | some fi, some o =>
      match st.files.find? (·.fidx = fi) with
      | some f =>
        let f' := { f with cut := o }
        ({ st with files := st.files.map fun g => if g.fidx = fi then f' else g }, [showFile f'])
      | none => (st, ["out !bad-op"])
    | _, _ => (st, ["out !bad-op"])
  | ["open", filter, order] =>
    match parseNatList order with
    | some ord =>
      -- the model decides itself which files are accepted; the op only resolves their order
      let all := sortBy (fun a b => a.fidx < b.fidx) st.files
      let flt := if filter = "-" then none else some (strBytes filter)
      let accIdx := (all.filter fun f => !(accepted flt [f.cur]).isEmpty).map (·.fidx)
      if sortBy (· < ·) ord ≠ accIdx then (st, [s!"out open !paths-differ {showNatList accIdx}"])
      else
        -- listing = accepted files in the observed order, then the skipped ones (their place is irrelevant)
        let skipped := (all.filter fun f => !(ord.contains f.fidx)).map (·.cur)
        match lookupFiles st ord with
        | some accFiles => showOpen st (openDir (accFiles ++ skipped) flt) ord
        | none => (st, ["out !bad-op"])
    | none => (st, ["out !bad-op"])
  | ["openp", order] =>
    match parseNatList order with
    | some ord =>
      match lookupFiles st ord with
      | some fs => showOpen st (openPaths fs) ord
      | none => (st, ["out !bad-op"])
    | none => (st, ["out !bad-op"])
  | _ => (st, ["out !bad-op"])

def main : IO Unit :=
  Driver.main { reset := fun _ => ({} : DState), step := step } ({} : DState)
