import HqModel.Base.Proto
import HqModel.Worker.Contract
/-! Driver of the worker-side task state machine (component `worker`), see /verif/FRAMEWORK.md and
harness/src/worker.rs (op / out formats are documented there). -/
open HqModel HqModel.Proto HqModel.Worker

namespace WorkerDriver

structure DState where
  /-- `none` after a panic / invalid input: the rest of the case is not interpreted -/
  st : Option State := none
  cancelled : List Nat := []
  retracted : List Nat := []
  contractOk : Bool := true

def parseOptNat (s : String) : Option (Option Nat) :=
  if s = "-" then some none else s.toNat?.map some

/-- `kind@mt+kind@mt` -> min times -/
def parseClass (s : String) : Option (List Nat) :=
  (s.splitOn "+").mapM fun v =>
    match v.splitOn "@" with
    | [_, mt] => mt.toNat?
    | _ => none

def parseClasses (s : String) : Option (List (List Nat)) :=
  if s = "-" then some [] else (s.splitOn "/").mapM parseClass

def reset (toks : List String) : DState :=
  let kv (k : String) : Option String :=
    toks.findSome? fun t => if t.startsWith (k ++ "=") then some (t.drop (k.length + 1)).toString else none
  let lim := (kv "lim").bind parseOptNat
  let rqs := (kv "rqs").bind parseClasses
  match lim, rqs with
  | some lim, some rqs => { st := some (init rqs lim) }
  | _, _ => { st := none }

def parseEntry (s : String) : Option Entry :=
  match s.splitOn ":" with
  | [t, i, rq, rv, tl, f, ans] => do
    let t ← t.toNat?
    let i ← i.toNat?
    let rq ← rq.toNat?
    let rv ← if rv = "p" then some none else rv.toNat?.map some
    let tl ← parseOptNat tl
    let f ← if f = "f0" then some false else if f = "f1" then some true else none
    let alloc ← if ans = "n" || ans = "-" then some none
                else if ans.startsWith "k" then (ans.drop 1).toString.toNat?.map some else none
    -- an assigned entry needs an answer, a prefill entry has none
    if (rv.isSome && ans = "-") || (rv.isNone && ans ≠ "-") then none
    else pure { task := { id := t, inst := i, rq := rq, timeLimit := tl, launchFails := f }, rv := rv, alloc := alloc }
  | _ => none

def parseEn (s : String) : Option (List ((Nat × Nat) × Bool)) :=
  if s = "-" then some [] else (s.splitOn ",").mapM fun e =>
    match e.splitOn ":" with
    | [rq, rv, b] => do
      let rq ← rq.toNat?
      let rv ← rv.toNat?
      let b ← if b = "1" then some true else if b = "0" then some false else none
      pure ((rq, rv), b)
    | _ => none

def parseRes : String → Option TaskResult
  | "fin" => some .finished
  | "err" => some .error
  | "can" => some .canceled
  | "tmo" => some .timeouted
  | _ => none

def parseOp : List String → Option Op
  | "compute" :: es => (es.mapM parseEntry).map .compute
  | ["retract", ids] => (parseNatList ids).map .retract
  | ["cancel", ids] => (parseNatList ids).map .cancel
  | ["end", t, r, en] => do pure (.taskEnd (← t.toNat?) (← parseRes r) (← parseEn en))
  | ["fire", t] => t.toNat?.map .timeoutFire
  | ["rcheck", order] => (parseNatList order).map .retractCheck
  | ["newrq", id, c] => do pure (.newRq (← id.toNat?) (← parseClass c))
  | ["stop"] => some .stop
  | _ => none

def showFail : FailKind → String
  | .launch => "launch" | .error => "error" | .timeout => "timeout"

def showUpdate : Update → String
  | .finished t => s!"fin:{t}"
  | .failed t k => s!"fail:{t}:{showFail k}"
  | .running t rv => s!"run:{t}:{rv}"
  | .runningPrefilled t rv => s!"runp:{t}:{rv}"
  | .reject t (some rv) => s!"rej:{t}:{rv}"
  | .reject t none => s!"rej:{t}:n"
  | .enable rq rv => s!"en:{rq}:{rv}"

def showSite : PanicSite → String
  | .rqUnknown => "rq-unknown"
  | .rvUnknown => "rv-unknown"
  | .runningDup => "running-dup"
  | .rqIdMismatch => "rq-id-mismatch"

def natLt (a b : Nat) : Bool := a < b

def dedup (l : List Nat) : List Nat := l.foldr (fun x acc => if acc.contains x then acc else x :: acc) []

def showOuts (outs : List Out) : List String :=
  let launches := outs.filterMap fun
    | .launch t i rv h ok => some s!"out launch {t} {i} {rv} {h} {if ok then "ok" else "fail"}"
    | _ => none
  let rel := sortBy natLt (outs.filterMap fun | .release h => some h | _ => none)
  let stops := sortBy (fun (a b : Nat × StopKind) => a.1 < b.1) (outs.filterMap fun | .stop t k => some (t, k) | _ => none)
  let msgs := outs.filterMap fun
    | .updates us => some s!"out upd {showList showUpdate us}"
    | .retractResponse ids => some s!"out retr {showNatList (sortBy natLt ids)}"
    | _ => none
  let stopped := outs.filterMap fun | .stopped => some "out stopped" | _ => none
  launches ++ (if rel.isEmpty then [] else [s!"out rel {showNatList rel}"])
    ++ stops.map (fun (t, k) => s!"out stop {t} {match k with | .cancel => "cancel" | .timeout => "timeout"}")
    ++ msgs ++ stopped

def showSnapshot (s : State) : List String :=
  let run := sortBy (fun (a b : Running) => a.task.id < b.task.id) s.running
  let runL := if run.isEmpty then [] else
    [s!"out run {showList (fun (r : Running) => s!"{r.task.id}:{r.task.inst}:{r.task.rq}:{r.rv}:{r.h}") run}"]
  let keys := sortBy natLt (dedup s.bkeys)
  let bl := keys.filterMap fun rq =>
    let l := (s.backlog rq).reverse
    if l.isEmpty then none
    else some s!"out backlog {rq} {showList (fun (t : Task) => s!"{t.id}.{t.inst}") l}"
  let blocked := sortBy (fun (a b : Nat × Nat) => a.1 < b.1 || (a.1 == b.1 && a.2 < b.2)) s.blocked
  let blockedL := if blocked.isEmpty then [] else
    [s!"out blocked {showList (fun (k : Nat × Nat) => s!"{k.1}:{k.2}") blocked}"]
  runL ++ bl ++ blockedL

def stepD (d : DState) (toks : List String) : DState × List String :=
  match d.st with
  | none => (d, ["out !no-state"])
  | some s =>
    match parseOp toks with
    | none => ({ d with st := none }, ["out !bad-op"])
    | some op =>
      let cOk := d.contractOk && contract s op
      -- a ComputeTasks naming a task lifts the earlier cancel / retract of that id
      let mentioned : List Nat := match op with | .compute es => es.map (·.task.id) | _ => []
      let cancelled := d.cancelled.filter (fun t => !mentioned.contains t)
      let retracted := d.retracted.filter (fun t => !mentioned.contains t)
      match step s op with
      | .error (.panic site) =>
        ({ d with st := none, contractOk := cOk },
         [s!"out !panic {showSite site}"] ++
          (if cOk then [s!"mon FAIL c09.panic {showSite site} the worker model panics on a message sequence that satisfies the server contract"] else []))
      | .error .notEnabled => ({ d with st := none }, ["out !bad-op"])
      | .error .badChoice => ({ d with st := none }, ["out !bad-choice"])
      | .ok (s', outs) =>
        let launched := outs.filterMap fun | .launch t _ _ _ _ => some t | _ => none
        let mon08 := (launched.filter (fun t => cOk && cancelled.contains t)).map fun t =>
          s!"mon FAIL c08.worker launch-after-cancel model: task {t} launched after CancelTasks named it"
        let mon06 := (launched.filter (fun t => retracted.contains t)).map fun t =>
          s!"mon FAIL c06.given_back launch-after-retract model: task {t} launched after it was returned in a RetractResponse"
        let cancelled := match op with | .cancel ids => ids ++ cancelled | _ => cancelled
        let retracted := (outs.filterMap fun | .retractResponse ids => some ids | _ => none).flatten ++ retracted
        ({ st := some s', cancelled := cancelled, retracted := retracted, contractOk := cOk },
         showOuts outs ++ showSnapshot s' ++ mon08 ++ mon06)

def driver : Driver DState := { reset := reset, step := stepD }

end WorkerDriver

def main : IO Unit := WorkerDriver.driver.main {}
