import HqModel.Base.Proto
import HqModel.Core.Run
import HqModel.Lemmas.CoreInvResStep
import Driver.CoreNpLib
/-! Driver of the tako core model (component `core`), see /verif/FRAMEWORK.md and harness/src/coreview.rs. -/
open HqModel HqModel.Proto HqModel.Core

namespace CoreDriver

def showTid (t : TaskId) : String := s!"{t.1}.{t.2}"
def sortTids (ts : List TaskId) : List TaskId := sortBy tidLt ts
def showTids (ts : List TaskId) : String := showList showTid ts

def parseTid (s : String) : Option TaskId :=
  match s.splitOn "." with
  | [a, b] => do let x ← a.toNat?; let y ← b.toNat?; pure (x, y)
  | _ => none

def parseTidsSep (sep : String) (s : String) : Option (List TaskId) :=
  if s = "-" || s = "" then some [] else (s.splitOn sep).mapM parseTid

def parseNatsSep (sep : String) (s : String) : Option (List Nat) :=
  if s = "-" || s = "" then some [] else (s.splitOn sep).mapM String.toNat?

def dropPrefix (pre s : String) : Option String :=
  if s.startsWith pre then some (s.drop pre.length).toString else none

def parseRqEntry (e : String) : Option RqEntry :=
  match e.splitOn ":" with
  | [r, a] => do
    let r ← r.toNat?
    let pol ← if a = "all" then some Policy.all else a.toNat?.map Policy.amount
    pure ({ res := r, pol := pol } : RqEntry)
  | _ => none

def parseRq (s : String) : Option Rq := do
  -- n<nodes>t<ms>e<entries>
  let s ← dropPrefix "n" s
  match s.splitOn "t" with
  | [n, rest] =>
    match rest.splitOn "e" with
    | [t, es] =>
      let nodes ← n.toNat?
      let mt ← t.toNat?
      let entries ← (if es = "-" then some [] else (es.splitOn "+").mapM parseRqEntry)
      pure { nNodes := nodes, entries := entries, minTime := mt }
    | _ => none
  | _ => none

def parseCrash (s : String) : Option CrashLimit :=
  if s = "N" then some .never else if s = "U" then some .unlimited else s.toNat?.map .max

def parseNewTask (s : String) : Option NewTask :=
  match s.splitOn ":" with
  | [t, r, p, c, i, k, d] => do
    let id ← parseTid t
    let rq ← dropPrefix "r" r >>= String.toNat?
    let prio ← dropPrefix "p" p >>= String.toInt?
    let cl ← dropPrefix "c" c >>= parseCrash
    let inst ← dropPrefix "i" i >>= String.toNat?
    let cr ← dropPrefix "k" k >>= String.toNat?
    let deps ← dropPrefix "d" d >>= parseTidsSep "+"
    pure { id := id, rq := rq, prio := prio, crashLimit := cl, deps := deps, inst := inst, crashes := cr }
  | _ => none

def parseUpdate (s : String) : Option Update :=
  match s.splitOn ":" with
  | ["F", t] => parseTid t |>.map .finished
  | ["X", t] => parseTid t |>.map .failed
  | ["R", t, v] => do pure (.running (← parseTid t) (← v.toNat?))
  | ["P", t, v] => do pure (.runningPrefilled (← parseTid t) (← v.toNat?))
  | ["J", t, v] => do
    let t ← parseTid t
    let v ← if v = "-" then some none else v.toNat?.map some
    pure (.reject t v)
  | ["E", r, v] => do pure (.enable (← r.toNat?) (← v.toNat?))
  | _ => none

def parseSn (s : String) : Option (List SnEntry) :=
  if s = "-" then some [] else (s.splitOn ";").mapM fun e =>
    match e.splitOn ":" with
    | [rq, v, counts, taken] => do
      let rq ← rq.toNat?
      let v ← v.toNat?
      let counts ← (counts.splitOn "+").mapM fun c =>
        match c.splitOn "x" with
        | [w, n] => do pure ((← w.toNat?), (← n.toNat?))
        | _ => none
      let taken ← parseTidsSep "+" taken
      pure { rq := rq, v := v, counts := counts, taken := taken }
    | _ => none

def parseMn (s : String) : Option (List MnEntry) :=
  if s = "-" then some [] else (s.splitOn ";").mapM fun e =>
    match e.splitOn ":" with
    | [rq, sets] => do
      let rq ← rq.toNat?
      let sets ← (sets.splitOn "/").mapM (parseNatsSep "+")
      pure { rq := rq, sets := sets }
    | _ => none

def parsePf (s : String) : Option (List (Nat × List Nat)) :=
  if s = "-" then some [] else (s.splitOn ";").mapM fun e =>
    match e.splitOn ":" with
    | [rq, ws] => do pure ((← rq.toNat?), (← parseNatsSep "+" ws))
    | _ => none

def parseRets (s : String) : Option (List (List TaskId)) :=
  if s = "-" then some [] else (s.splitOn "/").mapM fun l => if l = "0" then some [] else parseTidsSep "+" l

/-- split a token list at the `|` tokens -/
def splitOps (toks : List String) : List (List String) :=
  let r := toks.foldl (fun (acc : List (List String) × List String) t =>
    if t = "|" then (acc.1 ++ [acc.2], []) else (acc.1, acc.2 ++ [t])) ([], [])
  r.1 ++ [r.2]

/-- one sub-operation as a `Core.Op`; `rets` is threaded through (consumed by failures) -/
def subOp (s : State) (rets : List (List TaskId)) (toks : List String) : Option (Op × List (List TaskId)) :=
  match toks with
  | ["wnew", id, tot, g, term] => do
    let id ← id.toNat?
    let tot ← dropPrefix "tot=" tot >>= parseNatsSep ","
    let g ← dropPrefix "g=" g
    let term ← dropPrefix "term=" term
    let term ← if term = "-" then some none else term.toNat?.map some
    let w : Worker := { id := id, assign := .sn [] tot [], total := tot, group := g, termination := term }
    pure (.newWorker w, rets)
  | ["wlost", id, reason, fail, order] => do
    let id ← id.toNat?
    let order ← parseTidsSep "," order
    pure (.removeWorker id reason (fail = "1") order rets, [])
  | ["newrq", id, vs] => do
    let id ← id.toNat?
    let rqv ← (vs.splitOn "/").mapM parseRq
    if id ≠ s.rqs.length then none else pure (.newRq rqv, rets)
  | ["newtasks", items] => do
    let nts ← (items.splitOn ",").mapM parseNewTask
    pure (.newTasks nts, rets)
  | ["cancel", ids] => do
    let ids ← parseTidsSep "," ids
    pure (.cancel ids, rets)
  | ["update", w, items] => do
    let w ← w.toNat?
    let us ← if items = "-" then some [] else (items.splitOn ",").mapM parseUpdate
    pure (.update w us rets, [])
  | ["retracted", w, ids] => do
    let w ← w.toNat?
    let ids ← parseTidsSep "," ids
    pure (.retracted w ids, rets)
  | ["sched", now, sn, mn, pf] => do
    let now ← dropPrefix "now=" now >>= String.toNat?
    let sn ← dropPrefix "sn=" sn >>= parseSn
    let mn ← dropPrefix "mn=" mn >>= parseMn
    let pf ← dropPrefix "pf=" pf >>= parsePf
    pure (.schedule { now := now, sn := sn, mn := mn, prefillOrders := pf }, rets)
  | _ => none

/-- the side conditions of the history theorems (`C05.c05_inv_partial`, `c05_resinv_reachable`,
`C01/C08.c0x_core_forgets_reachable`), evaluated by the model on the pre-state of every operation of a real trace:
which of them fail (as monitor lines; `no-saturation` is the mechanism of finding F29) -/
def hypFails (s : State) (op : Op) : List String :=
  let f (clause : String) (b : Bool) (sig : String) : List String :=
    if b then [] else [s!"mon FAIL {clause} {sig} a side condition of the history theorems is false on the pre-state of this operation of a real trace"]
  (match op with
   | .newWorker w => f "core.hyp" (decide (FreshWorker w)) "fresh-worker"
   | .newRq rqv => f "core.hyp" (decide (RqvOk rqv)) "request-names-resource-twice"
   | .update w us rets => f "core.hyp" (decide (UpdatesOk UpdProto s w us rets)) "reject-protocol"
   | .schedule sol => f "core.hyp" (decide (QueueOkD s)) "queue-ok" ++ f "core.hyp" (decide (SolMnOk s sol)) "mn-placement-for-sn-request" ++
       f "core.hyp" (decide (RdIn s)) "redirect-target-holds-task"
   | _ => []) ++ f "c05.hyp" (decide (NoSaturation s op)) "no-saturation"

/-- `NoIdReuse` (hypothesis of the message-level theorems): the ids a `newTasks` op submits were never submitted
before in this case and are pairwise distinct -/
def reuseFails (seen : List TaskId) : Op → List TaskId × List String
  | .newTasks nts =>
    let ids := nts.map (·.id)
    let dup := ids.any (fun i => seen.contains i) || !ids.eraseDups.length == ids.length
    (seen ++ ids, if dup then ["mon FAIL core.hyp task-id-submitted-twice a side condition of the history theorems is false on this operation of a real trace"] else [])
  | _ => (seen, [])

def runOps (s : State) (seen : List TaskId) (rets : List (List TaskId)) : List (List String) → Out → List String →
    Option (M (State × Out) × List TaskId × List String)
  | [], out, mons => some (.ok (s, out), seen, mons)
  | toks :: rest, out, mons =>
    match subOp s rets toks with
    | none => none
    | some (op, rets1) =>
      let (seen1, m2) := reuseFails seen op
      let mons := mons ++ hypFails s op ++ m2 ++ npMons s seen op
      match Core.step s op with
      | .error e => some (.error e, seen1, mons)
      | .ok (s1, o) => runOps s1 seen1 rets1 rest (out.add o) mons

/-! printing (must match harness/src/coreview.rs) -/

def showState : TS → String
  | .waiting n => s!"W{n}"
  | .assigned w v => s!"A{w}.{v}"
  | .prefilled w => s!"P{w}"
  | .retracting w => s!"S{w}"
  | .running w v => s!"R{w}.{v}"
  | .runningMN ws => "M" ++ "+".intercalate (ws.map toString)
  | .finished => "F"

def showMsgs (msgs : List Msg) : List String :=
  let workers := sortBy (· < ·) ((msgs.map fun m => match m with
    | .compute w _ => w | .retract w _ => w | .cancel w _ => w).eraseDups)
  let computeLines := workers.filterMap fun w =>
    let items := (msgs.filterMap fun m => match m with
      | .compute w' l => if w' = w then some l else none
      | _ => none).flatten
    if items.isEmpty then none else
    let items := sortBy (fun (a b : TaskId × Nat × Option Nat × List Nat) => tidLt a.1 b.1) items
    some s!"out msg {w} compute {",".intercalate (items.map fun (t, i, rv, nodes) =>
      s!"{showTid t}:{i}:{match rv with | some v => toString v | none => "p"}:{if nodes.isEmpty then "-" else "+".intercalate (nodes.map toString)}")}"
  let idLines (kind : String) (sel : Msg → Option (Nat × List TaskId)) := workers.filterMap fun w =>
    let ids := (msgs.filterMap fun m => match sel m with
      | some (w', l) => if w' = w then some l else none
      | none => none).flatten
    if ids.isEmpty then none else some s!"out msg {w} {kind} {showTids (sortTids ids)}"
  computeLines ++ idLines "retract" (fun m => match m with | .retract w l => some (w, l) | _ => none)
    ++ idLines "cancel" (fun m => match m with | .cancel w l => some (w, l) | _ => none)

def showCb : Cb → String
  | .started t i ws rv => s!"out cb started {showTid t} {i} {showNatList ws} {rv}"
  | .finished t => s!"out cb finished {showTid t}"
  | .error t cons => s!"out cb error {showTid t} {showTids (sortTids cons)}"
  | .workerNew w => s!"out cb wnew {w}"
  | .workerLost w running reason => s!"out cb wlost {w} {showTids running} {reason}"

def showQueueEntry (p : Int × List TaskId) : String := s!"{p.1}={"+".intercalate (p.2.map showTid)}"

def snapshot (s : State) : List String :=
  let tasks := sortBy (fun (a b : Task) => tidLt a.id b.id) s.tasks
  let tl := tasks.map fun t =>
    s!"out t {showTid t.id} {showState t.state} c={showTids (sortTids t.consumers)} d={showTids (sortTids t.deps)} rq={t.rq} i={t.inst} k={t.crashes}"
  let workers := sortBy (fun (a b : Worker) => a.id < b.id) s.workers
  let wl := workers.map fun w =>
    let a := match w.assign with
      | .sn assigned free pre => s!"sn a={showTids (sortTids assigned)} f={showNatList free} p={showTids (sortTids pre)}"
      | .mn t root st => s!"mn {showTid t} {if root then 1 else 0} {if st then 1 else 0}"
    let blocked := sortBy (fun (a b : Nat × Nat) => a.1 < b.1 || (a.1 == b.1 && a.2 < b.2)) w.blocked
    s!"out w {w.id} {a} tot={showNatList w.total} b={showList (fun (p : Nat × Nat) => s!"{p.1}.{p.2}") blocked} g={w.group} s={if w.stopping then 1 else 0}"
  let ql := (List.range s.queues.length).filterMap fun i =>
    match s.queues[i]? with
    | none => none
    | some q =>
      let ready := if q.ready.isEmpty then "-" else ";".intercalate (q.ready.map showQueueEntry)
      let pf := match q.prefill with
        | some (p, ids) => showQueueEntry (p, sortTids ids)
        | none => "-"
      some s!"out q {i} {ready} pf={pf}"
  let rd := sortBy (fun (a b : TaskId × Nat × Nat) => tidLt a.1 b.1) s.redirects
  tl ++ wl ++ ql ++ [s!"out rd {showList (fun (r : TaskId × Nat × Nat) => s!"{showTid r.1}>{r.2.1}.{r.2.2}") rd}"]

structure DState where
  s : State := {}
  /-- every task id submitted so far in this case -/
  seen : List TaskId := []

def step (d : DState) (toks : List String) : DState × List String :=
  match toks with
  | "multi" :: rets :: rest =>
    match dropPrefix "rets=" rets >>= parseRets with
    | none => (d, ["out !bad-op"])
    | some rets =>
      match runOps d.s d.seen rets (splitOps rest) {} [] with
      | none => (d, ["out !bad-op"])
      | some (.error (.panic site), _, mons) =>
        (d, [if site.startsWith "!bad-choice" then s!"out {site}" else "out !panic core"] ++ mons)
      | some (.ok (s', out), seen, mons) =>
        ({ s := s', seen := seen },
         showMsgs out.msgs ++ out.cbs.map showCb ++ [s!"out flag {if s'.needSched then 1 else 0}"] ++ snapshot s' ++ mons)
  | _ => (d, ["out !bad-op"])

def reset (toks : List String) : DState :=
  let get (key : String) (d : Nat) : Nat :=
    match toks.findSome? (fun t => dropPrefix (key ++ "=") t) with
    | some v => v.toNat?.getD d
    | none => d
  { s := { prefillReserve := get "reserve" 1, prefillMax := get "max" 1 } }

def driver : Driver DState := { reset := reset, step := step }

end CoreDriver
