import HqModel.Base.Proto
import HqModel.Sched.Box
import HqModel.Sched.Spec
/-! Driver of the scheduling-decision model (component `sched`, property C15), see /verif/FRAMEWORK.md.

Ops of a case: `worker <id> <total> <free> <assigned> <blocked> [<total2> <free2>]`, `class <rq> <need> <weight>
[<need2>]`, `queue` build the instance as the harness read it back from the real core (the optional fields are the
second resource kind, 0 when absent);
`sol` gives the value of every variable of the real MILP in HiGHS' solution, `place` the task ids each worker
received; `schedule <status>` makes the model answer: its batches, its MILP (variables with exact scaled
weights, rows), the ids `take_tasks` pops and the queues left, and the verdicts on the implementation's
solution: feasible / optimal for the modelled MILP (exhaustive over the integer box), fragment, C15 predicate. -/
open HqModel HqModel.Proto HqModel.Sched
open HqModel.Core (TaskId)

namespace SchedDriver

def showTid (t : TaskId) : String := s!"{t.1}.{t.2}"

def parseTid (s : String) : Option TaskId :=
  match s.splitOn "." with
  | [a, b] => do let x ← a.toNat?; let y ← b.toNat?; pure (x, y)
  | _ => none

def parseTidsSep (sep s : String) : Option (List TaskId) :=
  if s = "-" || s = "" then some [] else (s.splitOn sep).mapM parseTid

structure St where
  inst : Instance := {}
  sol : List (Var × Nat) := []
  place : Placement := []
  bad : Bool := false
  deriving Inhabited

def showVar : Var → String
  | .P w c => s!"P.{w}.{c}"
  | .R w c => s!"R.{w}.{c}"
  | .B c s => s!"B.{c}.{s}"

def parseVar (s : String) : Option Var :=
  match s.splitOn "." with
  | [k, a, b] => do
    let x ← a.toNat?
    let y ← b.toNat?
    match k with
    | "P" => some (.P x y)
    | "R" => some (.R x y)
    | "B" => some (.B x y)
    | _ => none
  | _ => none

def varKey : Var → Nat × Nat × Nat
  | .P a b => (0, a, b)
  | .R a b => (1, a, b)
  | .B a b => (2, a, b)

def keyLt (a b : Nat × Nat × Nat) : Bool :=
  a.1 < b.1 || (a.1 == b.1 && (a.2.1 < b.2.1 || (a.2.1 == b.2.1 && a.2.2 < b.2.2)))

def varLt (a b : Var) : Bool := keyLt (varKey a) (varKey b)

def parseQueue (s : String) : Option Ready :=
  if s = "-" then some [] else
  (s.splitOn ",").mapM fun e =>
    match e.splitOn ":" with
    | [p, ids] => do
      let prio ← p.toInt?
      let ts ← parseTidsSep "+" ids
      pure (prio, ts)
    | _ => none

def showQueue (q : Ready) : String :=
  showList (fun (e : Int × List TaskId) => s!"{e.1}:{"+".intercalate (e.2.map showTid)}") q

def showBatch (b : Batch) : String :=
  let cuts := showList (fun (c : Cut) =>
    let bl := "+".intercalate (c.blockers.map fun x => s!"{x.1}:{match x.2 with | some s => toString s | none => "*"}")
    s!"{c.size}/{bl}") b.cuts
  s!"out batch {b.rq} size={b.size} limit={b.limit} reached={if b.reached then 1 else 0} blocker={if b.blocker then 1 else 0} cuts={cuts}"

/-- canonical text of a row: equal variables merged, terms sorted, divided by the gcd -/
def showRow (r : Row) : String :=
  let merged : List (Var × Nat) := r.terms.foldl (fun acc t =>
    if acc.any (·.1 = t.1) then acc.map fun a => if a.1 = t.1 then (a.1, a.2 + t.2) else a else acc ++ [t]) []
  let sorted := sortBy (fun a b => varLt a.1 b.1) merged
  let g := sorted.foldl (fun g t => Nat.gcd g t.2) r.bound
  let g := max g 1
  s!"out row {if r.ge then "ge" else "le"} {r.bound / g} {showList (fun (t : Var × Nat) => s!"{t.2 / g}*{showVar t.1}") sorted}"

def schedule (s : St) (status : String) : List String :=
  let inst := s.inst
  let bs := batches inst
  let m := milp inst
  let x := assignOf s.sol
  let batchLines := bs.map showBatch
  let varLines := (sortBy (fun a b => varLt a.1 b.1) m.vars).map fun v => s!"out var {showVar v.1} {v.2}"
  let rowLines := sortBy (fun a b => decide (a < b)) (m.rows.map showRow)
  -- take_tasks per batch
  let takes := bs.filterMap fun b =>
    let counts := inst.workers.filterMap fun w =>
      if hasP inst w b.rq && x (.P w.id b.rq) > 0 then some (w.id, x (.P w.id b.rq)) else none
    if counts.isEmpty then none else some (b.rq, counts)
  let takenLines := takes.map fun e =>
    let total := (e.2.map (·.2)).sum
    let ids := match takeIds (inst.queue e.1) total with
      | some ids => showList showTid ids
      | none => "!panic"
    s!"out taken {e.1} 0 {showList (fun (c : Nat × Nat) => s!"{c.1}={c.2}") e.2} {ids}"
  let leftLines := (List.range inst.queues.length).map fun c =>
    let q := inst.queue c
    let total := placedCount inst x c
    let left := match HqModel.Core.takeFromQueue (total + q.length + 1) q total [] with
      | .ok (q', _) => showQueue q'
      | .error _ => "!panic"
    s!"out left {c} {left}"
  -- deal: per (worker, class) as many placed tasks as the solution says
  let tasks := inst.tasks
  let dealOk := inst.workers.all fun w => (List.range inst.queues.length).all fun c =>
    countOn inst s.place w.id c == (if hasP inst w c then x (.P w.id c) else 0)
  let dealOk := dealOk && s.place.all fun e => tasks.any (·.id = e.1)
  let known := s.sol.all fun e => m.vars.any (·.1 = e.1)
  let feas := feasibleB m x && known
  let best := bruteBest m (boxBound inst)
  let obj := objective m x
  let optimal := feas && best == some obj
  let frag := inst.fragment
  let ok := decide (PriorityRespecting inst s.place)
  let verdicts := [
    s!"out deal {if dealOk then "ok" else "mismatch"}",
    s!"out feasible {if feas then 1 else 0}",
    s!"out objective {obj} best {match best with | some b => toString b | none => "-"}",
    s!"out optimal {if optimal then 1 else 0}",
    s!"out frag {frag}",
    s!"out spec {if batchesSpecB inst bs then 1 else 0}",
    s!"out c15 {if ok then "ok" else "violated"}"]
  let mon :=
    if !ok && status == "done" then
      let sig := if frag == "out" then (if optimal then "outside-F-optimal-for-model" else "outside-F-not-optimal-for-model")
                 else if optimal then s!"in-{frag}" else s!"in-{frag}-not-optimal-for-model"
      [s!"mon FAIL c15.priority {sig} the model evaluates the C15 predicate to false on the implementation's placement"]
    else []
  batchLines ++ [s!"out den {m.den}"] ++ varLines ++ rowLines ++ takenLines ++ leftLines ++ verdicts ++ mon

def addWorker (s : St) (id total free assigned blocked total2 free2 : String) : St × List String :=
  match id.toNat?, total.toNat?, free.toNat?, parseNatList assigned, parseNatList blocked, total2.toNat?, free2.toNat? with
  | some i, some t, some f, some a, some b, some t2, some f2 =>
    ({ s with inst := { s.inst with workers := s.inst.workers ++
        [{ id := i, total := t, free := f, assigned := a, blocked := b, total2 := t2, free2 := f2 }] } }, [])
  | _, _, _, _, _, _, _ => ({ s with bad := true }, ["out !bad-op"])

def addClass (s : St) (rq need weight need2 : String) : St × List String :=
  match rq.toNat?, need.toNat?, weight.toNat?, need2.toNat? with
  | some r, some n, some w, some n2 =>
    if r ≠ s.inst.classes.length then ({ s with bad := true }, ["out !bad-op"]) else
    ({ s with inst := { s.inst with classes := s.inst.classes ++ [{ need := n, weight := w, need2 := n2 }] } }, [])
  | _, _, _, _ => ({ s with bad := true }, ["out !bad-op"])

def step (s : St) (toks : List String) : St × List String :=
  let badOp := ({ s with bad := true }, ["out !bad-op"])
  match toks with
  | ["worker", id, total, free, assigned, blocked] => addWorker s id total free assigned blocked "0" "0"
  | ["worker", id, total, free, assigned, blocked, total2, free2] =>
    addWorker s id total free assigned blocked total2 free2
  | ["class", rq, need, weight] => addClass s rq need weight "0"
  | ["class", rq, need, weight, need2] => addClass s rq need weight need2
  | ["queue", rq, entries] =>
    match rq.toNat?, parseQueue entries with
    | some r, some q =>
      if r ≠ s.inst.queues.length then badOp else
      ({ s with inst := { s.inst with queues := s.inst.queues ++ [q] } }, [])
    | _, _ => badOp
  | ["sol", l] =>
    let parsed : Option (List (Var × Nat)) :=
      if l = "-" then some [] else (l.splitOn ",").mapM fun e =>
        match e.splitOn "=" with
        | [v, n] => do let var ← parseVar v; let k ← n.toNat?; pure (var, k)
        | _ => none
    match parsed with
    | some sol => ({ s with sol := sol }, [])
    | none => badOp
  | ["place", w, ids] =>
    match w.toNat?, parseTidsSep "," ids with
    | some wid, some ts => ({ s with place := s.place ++ ts.map fun t => (t, wid) }, [])
    | _, _ => badOp
  | ["schedule", status] =>
    if s.bad then badOp else (s, schedule s status)
  | _ => badOp

def driver : Driver St where
  reset := fun _ => {}
  step := step

end SchedDriver

def main : IO Unit := SchedDriver.driver.main {}
