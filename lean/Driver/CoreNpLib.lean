import HqModel.Lemmas.CoreNoPanicDefs
/-!
Driver side of the C09 progress theorems (`HqModel/Props/C09Core.lean`): the NEW input side conditions `OpNP` and the
exclusion `OpExcl` (finding F27), evaluated on the pre-state of one core operation of a real trace.
One string `c09.hyp <signature> <detail>` per false conjunct; `npMons` wraps them as monitor lines.
Cheap: no scan of the invariant `NpInv`; `SolOk` / `UpdatesOk` re-run the model on the operation (as `hypFails` does).
Imports only `Lemmas/CoreNoPanicDefs.lean` (core + Std, no Mathlib; same cone as `Lemmas/CoreQueueRun.lean`).
-/
open HqModel HqModel.Core

namespace CoreDriver

private def npTid (t : TaskId) : String := s!"{t.1}.{t.2}"

/-- which conjuncts of `OpNP s op` / `OpExcl s op` are false (`seen` = ids submitted so far; unused here: `NoIdReuse`
is evaluated by `reuseFails`) -/
def npFails (s : Core.State) (_seen : List TaskId) (op : Core.Op) : List String :=
  let f (b : Bool) (sig : String) (detail : String) : List String :=
    if b then [] else [s!"c09.hyp {sig} {detail}"]
  match op with
  | .newWorker w =>
    f (decide (s.worker? w.id = none)) "worker-id-reused" s!"worker id {w.id} is already in the worker map"
  | .removeWorker w _ _ _ rets =>
    f ((s.worker? w).isSome) "lost-worker-unknown" s!"on_remove_worker for worker {w} that is not in the worker map" ++
    f (decide (RetsOk rets)) "cancel-list-names-task-twice" "a list returned by on_task_error names a task twice"
  | .newRq _ => []
  | .newTasks nts =>
    f (decide (NewTasksOk s nts)) "new-tasks-malformed"
      (if nts.isEmpty then "empty on_new_tasks"
       else match nts.find? (fun nt => !(decide (nt.rq < s.rqs.length))) with
         | some nt => s!"task {npTid nt.id} names request {nt.rq} that does not exist"
         | none => match nts.find? (fun nt => !(decide nt.deps.Nodup)) with
           | some nt => s!"task {npTid nt.id} names a dependency twice"
           | none => "-")
  | .cancel ids =>
    f (decide ids.Nodup) "cancel-names-task-twice" "on_cancel_tasks with a repeated task id"
  | .update w us rets =>
    f (decide (UpdatesOk UpdNP s w us rets)) "worker-protocol"
      s!"an update of the message of worker {w} is not admissible in the state in which the reactor processes it" ++
    f (decide (RetsOk rets)) "cancel-list-names-task-twice" "a list returned by on_task_error names a task twice" ++
    f (decide (UpdatesOk NoF27 s w us rets)) "f27-running-from-mn-worker"
      s!"Running(Prefilled) for a Retracting task from worker {w} which is in a multi-node assignment"
  | .retracted _ _ => []
  | .schedule sol =>
    f (decide (SolOk s sol)) "solution-malformed"
      (if !(decide (SnOk sol.now s [] sol.sn)) then
         "an sn entry names a missing or multi-node (request, variant) or places more tasks than the queue offers"
       else "a multi-node set is empty, repeats a worker, names a missing or non-free worker, or the queue has no ready task")

/-- the same as monitor lines -/
def npMons (s : Core.State) (seen : List TaskId) (op : Core.Op) : List String :=
  (npFails s seen op).map fun x => s!"mon FAIL {x}"

end CoreDriver
