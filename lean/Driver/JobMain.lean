import HqModel.Base.Proto
import HqModel.Job.Model
import HqModel.Job.Run
import HqModel.Lemmas.JobJournal
/-! Driver of the job-layer model (component `job`), see /verif/FRAMEWORK.md. -/
open HqModel HqModel.Proto HqModel.Job
open HqModel.Emit (emitFails advance)
open HqModel.Journal (AState meaningStep)

namespace JobDriver

def showTid (t : TaskId) : String := s!"{t.1}.{t.2}"
def showTids (ts : List TaskId) : String := showList showTid ts

def tidLt (a b : TaskId) : Bool := a.1 < b.1 || (a.1 == b.1 && a.2 < b.2)
def sortTids (ts : List TaskId) : List TaskId := sortBy tidLt ts

def parseTid (s : String) : Option TaskId :=
  match s.splitOn "." with
  | [a, b] => do let x ← a.toNat?; let y ← b.toNat?; pure (x, y)
  | _ => none

def parseTids (s : String) : Option (List TaskId) :=
  if s = "-" then some [] else (s.splitOn ",").mapM parseTid

def parseOptNat (s : String) : Option (Option Nat) :=
  if s = "-" then some none else s.toNat?.map some

def parseKV (key s : String) : Option String :=
  if s.startsWith (key ++ "=") then some (s.drop (key.length + 1)).toString else none

def parseRanges (s : String) : Option IntArray :=
  if s = "-" then some [] else
  (s.splitOn ";").mapM fun r =>
    match r.splitOn ":" with
    | [a, b, c] => do
      let x ← a.toNat?; let y ← b.toNat?; let z ← c.toNat?
      pure ({ start := x, count := y, step := z } : IntRange)
    | _ => none

def parseGraph (s : String) : Option (List (Nat × List Nat)) :=
  (s.splitOn ";").mapM fun item =>
    match item.splitOn ":" with
    | [a, b] => do
      let t ← a.toNat?
      let deps ← if b = "" then some [] else (b.splitOn ".").mapM String.toNat?
      pure (t, deps)
    | _ => none

def showEv : Ev → String
  | .jobOpen j => s!"ev jobOpen {j}"
  | .submit j c => s!"ev submit {j} {if c then 1 else 0}"
  | .jobClose j => s!"ev jobClose {j}"
  | .jobCompleted j => s!"ev jobCompleted {j}"
  | .jobIdle j => s!"ev jobIdle {j}"
  | .jobCancel j => s!"ev jobCancel {j}"
  | .started t i ws rv => s!"ev started {showTid t} {i} {showNatList ws} {rv}"
  | .finished t => s!"ev finished {showTid t}"
  | .failed t => s!"ev failed {showTid t}"
  | .canceled ts => s!"ev canceled {showTids (sortTids ts)}"
  | .aborted ts => s!"ev aborted {showTids (sortTids ts)}"
  | .workerNew w => s!"ev wnew {w}"
  | .workerLost w r => s!"ev wlost {w} {r}"

def showJob (job : Job) : List String :=
  let st := match job.status with
    | .ok s => s.name
    | .error _ => "!panic"
  let c := job.cnt
  let tasks := sortBy (fun (a b : Nat × TState) => a.1 < b.1) job.tasks
  [s!"out job {job.id} open={if job.isOpen then 1 else 0} n={job.nTasks} cnt={c.running},{c.finished},{c.failed},{c.canceled},{c.aborted} st={st}",
   s!"out tasks {job.id} {showList (fun (p : Nat × TState) => s!"{p.1}:{p.2.letter}") tasks}"]

def snapshot (s : State) (withLive : Bool) : List String :=
  let jobs := sortBy (fun (a b : Job) => a.id < b.id) s.jobs
  (jobs.flatMap showJob) ++ (if withLive then [s!"out live {showTids (sortTids s.sent)}"] else [])

def evLines (evs : List Ev) : List String := evs.map fun e => "out " ++ showEv e

/-- the harness only distinguishes "a panic inside the job layer"; the site is kept for the replay file -/
def panicLine : Stop → String
  | .panic _ => "out !panic job"

def parseStatus : String → Option Status
  | "waiting" => some .waiting | "running" => some .running | "finished" => some .finished
  | "failed" => some .failed | "canceled" => some .canceled | "aborted" => some .aborted
  | "opened" => some .opened | _ => none

/-- sequential loops over the job ids of one request -/
def closeAll (s : State) : List Nat → State × List Ev × List String
  | [] => (s, [], [])
  | j :: rest =>
    let (s1, ev1, r) := s.closeJob j
    let txt := match r with | .closed => "closed" | .alreadyClosed => "already" | .invalidJob => "invalid"
    let (s2, ev2, rs) := closeAll s1 rest
    (s2, ev1 ++ ev2, s!"out resp close {j} {txt}" :: rs)

def cancelAll (s : State) : List Nat → Except Stop (State × List Ev × List String)
  | [] => .ok (s, [], [])
  | j :: rest =>
    match s.cancelJob j with
    | .error e => .error e
    | .ok (s1, ev1, r) =>
      let txt := match r with
        | .invalidJob => "invalid"
        | .canceled ids n => s!"canceled {showNatList (sortBy (· < ·) ids)} {n}"
      match cancelAll s1 rest with
      | .error e => .error e
      | .ok (s2, ev2, rs) => .ok (s2, ev1 ++ ev2, s!"out resp cancel {j} {txt}" :: rs)

def forgetAll (s : State) (allowed : List Status) : List Nat → Except Stop (State × Nat)
  | [] => .ok (s, 0)
  | j :: rest =>
    match s.forgetJob j allowed with
    | .error e => .error e
    | .ok (s1, b) =>
      match forgetAll s1 allowed rest with
      | .error e => .error e
      | .ok (s2, n) => .ok (s2, n + (if b then 1 else 0))

def step (s : State) (toks : List String) : State × List String :=
  let bad := (s, ["out !bad-op"])
  match toks with
  | ["open", mf] =>
    match parseKV "mf" mf >>= parseOptNat with
    | none => bad
    | some mf =>
      match s.openJob mf with
      | .error e => (s, [panicLine e])
      | .ok (s', evs, j) => (s', evLines evs ++ [s!"out resp open {j}"] ++ snapshot s' true)
  | ["submit", job, mf, kind, a, b] =>
    match parseKV "job" job >>= parseOptNat, parseKV "mf" mf >>= parseOptNat with
    | some job, some mf =>
      let desc : Option TaskDesc :=
        if kind = "array" then do
          let ids ← parseRanges a
          let en ← parseOptNat b
          pure (TaskDesc.array ids en)
        else none
      match desc with
      | none => bad
      | some desc => doSubmit s job mf desc
    | _, _ => bad
  | ["submit", job, mf, "graph", g] =>
    match parseKV "job" job >>= parseOptNat, parseKV "mf" mf >>= parseOptNat, parseGraph g with
    | some job, some mf, some g => doSubmit s job mf (.graph g)
    | _, _, _ => bad
  | ["prune"] => (s, snapshot s true)   -- `hq journal prune`: no effect on the job layer
  | ["close", ids] =>
    match parseNatList ids with
    | none => bad
    | some ids =>
      let (s', evs, rs) := closeAll s ids
      (s', evLines evs ++ rs ++ snapshot s' true)
  | ["cancel", ids] =>
    match parseNatList ids with
    | none => bad
    | some ids =>
      match cancelAll s ids with
      | .error e => (s, [panicLine e])
      | .ok (s', evs, rs) => (s', evLines evs ++ rs ++ snapshot s' true)
  | ["forget", ids, sts] =>
    let allowed := if sts = "-" then some [] else (sts.splitOn ",").mapM parseStatus
    match parseNatList ids, allowed with
    | some ids, some allowed =>
      match forgetAll s allowed ids with
      | .error e => (s, [panicLine e])
      | .ok (s', n) => (s', [s!"out resp forget {n} {ids.length - n}"] ++ snapshot s' true)
    | _, _ => bad
  | ["cb.started", t, inst, ws, rv] =>
    match parseTid t, inst.toNat?, parseNatList ws, rv.toNat? with
    | some t, some inst, some ws, some rv =>
      match s.taskStarted t inst ws rv with
      | .error e => (s, [panicLine e])
      | .ok (s', evs) => (s', evLines evs ++ snapshot s' false)
    | _, _, _, _ => bad
  | ["cb.finished", t] =>
    match parseTid t with
    | none => bad
    | some t =>
      match s.taskFinished t with
      | .error e => (s, [panicLine e])
      | .ok (s', evs) => (s', evLines evs ++ snapshot s' false)
  | ["cb.error", t, cons] =>
    match parseTid t, parseTids cons with
    | some t, some cons =>
      match s.taskFailed t cons with
      | .error e => (s, [panicLine e])
      | .ok (s', evs, ret) => (s', evLines evs ++ [s!"out ret {showTids (sortTids ret)}"] ++ snapshot s' false)
    | _, _ => bad
  | ["cb.wnew", w] =>
    match w.toNat? with
    | none => bad
    | some w =>
      match s.workerNew w with
      | .error e => (s, [panicLine e])
      | .ok (s', evs) => (s', evLines evs ++ snapshot s' false)
  | ["cb.wlost", w, running, reason] =>
    match w.toNat?, parseTids running with
    | some w, some running =>
      match s.workerLost w running reason with
      | .error e => (s, [panicLine e])
      | .ok (s', evs) => (s', evLines evs ++ snapshot s' false)
    | _, _ => bad
  | _ => bad
where
  doSubmit (s : State) (job mf : Option Nat) (desc : TaskDesc) : State × List String :=
    match s.submit job mf desc with
    | .error e => (s, [panicLine e])
    | .ok (s', evs, resp, core) =>
      let r := match resp with
        | .ok j => s!"ok {j}"
        | .jobNotOpened => "notopened"
        | .jobNotFound => "notfound"
        | .taskIdAlreadyExists t => s!"exists {t}"
        | .nonUniqueTaskId t => s!"nonunique {t}"
        | .invalidDependencies t => s!"invaliddeps {t}"
      (s', evLines evs ++ [s!"out resp submit {r}", s!"out core {showTids (sortTids core)}"] ++ snapshot s' true)

/-- the op line as model operations (`close a,b` = two ops), for the side conditions of the `c10_emitted_*` theorems -/
def parseOps (toks : List String) : Option (List Op) :=
  match toks with
  | ["open", mf] => do let mf ← parseKV "mf" mf >>= parseOptNat; pure [.openJob mf]
  | ["submit", job, mf, "array", a, b] => do
      let job ← parseKV "job" job >>= parseOptNat; let mf ← parseKV "mf" mf >>= parseOptNat
      let ids ← parseRanges a; let en ← parseOptNat b
      pure [.submit job mf (.array ids en)]
  | ["submit", job, mf, "graph", g] => do
      let job ← parseKV "job" job >>= parseOptNat; let mf ← parseKV "mf" mf >>= parseOptNat
      let g ← parseGraph g
      pure [.submit job mf (.graph g)]
  | ["close", ids] => (parseNatList ids).map (·.map .close)
  | ["cancel", ids] => (parseNatList ids).map (·.map .cancel)
  | ["forget", ids, sts] => do
      let allowed ← if sts = "-" then some [] else (sts.splitOn ",").mapM parseStatus
      let ids ← parseNatList ids
      pure (ids.map fun j => .forget j allowed)
  | ["cb.started", t, inst, ws, rv] => do
      let t ← parseTid t; let i ← inst.toNat?; let ws ← parseNatList ws; let rv ← rv.toNat?
      pure [.started t i ws rv]
  | ["cb.finished", t] => do let t ← parseTid t; pure [.finished t]
  | ["cb.error", t, cons] => do let t ← parseTid t; let c ← parseTids cons; pure [.failed t c]
  | ["cb.wnew", w] => do let w ← w.toNat?; pure [.workerNew w]
  | ["cb.wlost", w, running, reason] => do let w ← w.toNat?; let r ← parseTids running; pure [.workerLost w r reason]
  | _ => none

/-- evaluate `Emit.EmitOk` on the pre-state of every operation of the line (monitor lines for the failing conjuncts)
and advance `A` = `meaning` of the journal written so far -/
def emitShadow (s : State) (A : AState) : List Op → AState × List String
  | [] => (A, [])
  | op :: rest =>
    let mons := (emitFails s A op).map fun sig =>
      s!"mon FAIL c10.emit {sig} a side condition of the c10_emitted theorems is false on the pre-state of this operation of a real trace"
    match Job.step s op with
    | .error _ => (A, mons)
    | .ok (s', evs) =>
      let r := emitShadow s' (advance s A op evs) rest
      (r.1, mons ++ r.2)

/-- driver state: the model state + what live listeners need: every job reported completed so far, and per waiting
client (`hq submit --wait`: a listener for the job's events registered when the submit is processed) the jobs reported
completed since its registration -/
structure DState where
  s : State := {}
  /-- `meaning` of the journal the job layer has written so far (for `Emit.EmitOk`) -/
  A : AState := meaningStep {} (.serverStart "u")
  completed : List Nat := []
  /-- (job the client waits for, jobs reported completed since the registration) -/
  waits : List (Nat × List Nat) := []

def completedIn (lines : List String) : List Nat :=
  lines.filterMap fun l => if l.startsWith "out ev jobCompleted " then (l.drop 20).toString.toNat? else none

def submittedJob (lines : List String) : Option Nat :=
  lines.findSome? fun l => if l.startsWith "out resp submit ok " then (l.drop 19).toString.toNat? else none

def stepD (d : DState) (toks : List String) : DState × List String :=
  match toks with
  | "submitw" :: rest =>
    -- a submit whose connection then streams the job's live events; the response line is not compared (it is
    -- delivered after the journal flush)
    let (A', mons) := match parseOps ("submit" :: rest) with
      | some ops => emitShadow d.s d.A ops
      | none => (d.A, [])
    let (s', lines) := step d.s ("submit" :: rest)
    let lines := lines ++ mons
    let d := { d with A := A' }
    let done := completedIn lines
    let waits := d.waits.map fun w => (w.1, w.2 ++ done)
    let waits := match submittedJob lines with
      | some j => waits ++ [(j, done.filter (· == j))]
      | none => waits
    ({ d with s := s', completed := d.completed ++ done, waits := waits },
     lines.filter fun l => !l.startsWith "out resp submit ")
  | ["waitreport", j] =>
    match j.toNat? with
    | none => (d, ["out !bad-op"])
    | some j =>
      let got := d.waits.any fun w => w.1 == j && w.2.contains j
      (d, [s!"out wait {j} completed={if d.completed.contains j then 1 else 0} got={if got then 1 else 0}"])
  | _ =>
    let (A', mons) := match parseOps toks with
      | some ops => emitShadow d.s d.A ops
      | none => (d.A, [])
    let (s', lines) := step d.s toks
    let done := completedIn lines
    ({ s := s', A := A', completed := d.completed ++ done, waits := d.waits.map fun w => (w.1, w.2 ++ done) }, lines ++ mons)

def driver : Driver DState := { reset := fun _ => {}, step := stepD }

end JobDriver

def main : IO Unit := JobDriver.driver.main {}
