import HqModel.Base.Proto
import HqModel.Rpc.Model
/-!
Driver `hqm-rpc` (model M9): `op end <kind> pre=<0|1> other=<0|1>` →
`out lost <reason>`, `out removed <0|1>`, `out resent <0|1|->`, `out alive <0|1>`.
-/
open HqModel.Proto HqModel.Rpc

def parseKind : String → Option EndKind
  | "eof" => some .eof | "trunc" => some .trunc | "garbage" => some .garbage | "stop-idle" => some .stopIdle
  | "stop-time" => some .stopTime | "stop-int" => some .stopInt | "silent" => some .silent | _ => none

def reasonName : Reason → String
  | .stopped => "stopped" | .connectionLost => "connection-lost" | .heartbeatLost => "heartbeat-lost"
  | .idleTimeout => "idle-timeout" | .timeLimitReached => "time-limit"

def bit (b : Bool) : String := if b then "1" else "0"

def step (_ : Unit) : List String → Unit × List String
  | ["end", k, pre, other] =>
    match parseKind k with
    | none => ((), ["out !bad-op"])
    | some k =>
      let o := connEnd k (pre = "pre=1") (other = "other=1")
      ((), [s!"out lost {match o.lost with | some r => reasonName r | none => "none"}", s!"out removed {bit o.removed}",
            s!"out resent {match o.resent with | some b => bit b | none => "-"}", s!"out alive {bit o.alive}"])
  | _ => ((), ["out !bad-op"])

def main : IO Unit :=
  Driver.main { reset := fun _ => (), step := step } ()
