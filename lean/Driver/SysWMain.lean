import HqModel.Lemmas.SysWRun
import Driver.CoreLib
/-!
Driver of the composed model WITH the workers, `SysW` (`HqModel/SysW/Model.lean`: server = job layer M4 x core M1, one
worker model M2 per worker, two FIFO queues per worker): the link check of notes/sysw.md §8 / notes/sysw_link.md.

Input: the trace of `hqv sysw gen|replay` (harness/src/sysw.rs): one `op` per WORLD ACTION of a real simulated-cluster
run, carrying the inputs of `SysW.Op`. Per op the driver
* builds the `SysW.Op`(s) of the action, evaluates `decide (SysW.OpOk s op)` (false = `mon FAIL sysw.hyp <conjunct>`),
* runs `SysW.step`; a `Stop` must coincide with a panic of the real run (the op line ends with `!panic` then): a
  `Stop.sys (.job _ | .core _)` / `Stop.worker _ (.panic _)` prints `out !panic job|core|worker` exactly like the harness;
  every other `Stop`, and a panic-`Stop` without a real panic, is `mon FAIL sysw.step <kind>`,
* prints the same `out` lines as the harness from the MODEL state: job events / responses, core messages / callbacks,
  flag, core snapshot, job snapshot, and for every worker record both queues (kinds, task ids, variants, instance ids, in
  order) and the running / backlog / blocked sets of its M2 state — `bin/check` compares them per op,
* evaluates the conclusions of the proved clauses as model-side monitors: `sysw.fin_proto` (`Sys.OpOk` of the update batch
  at the head of every w2s queue, with the real `rets` before a delivery and with `[]` after every action), `c06.single`,
  `c08.cancel_sent`.

A case that cannot be replayed (an op does not parse, the head of a model queue is not the message the real run delivered)
prints `out !bad-op <why>`: a disagreement for `bin/check`, never a default.

What the model has no action / no input for is applied by the driver as an EDIT of the state OUTSIDE `SysW.step` (each is
reported in notes/sysw_link.md §4 as a gap of the composed model; counted per case in the `info edits …` line at `end`):
`age_worker` and the running worker clock (M2's `remaining` is a run constant), the `launchFails` attribute of backlog tasks
(the harness can mark a task with `fail_next_launch` after it was delivered into a backlog), the ORDER of the ids in a
`RetractResponse` (M2 lists them newest-first per class, the real worker oldest-first / hash order across classes), the ORDER
of the single-task `ComputeTasks` messages `on_remove_worker` sends for redirected retracting tasks (hash order of the real
task map, list order in M1).
-/
open HqModel HqModel.Proto

namespace SysWDriver
open HqModel.SysW (WState S2W W2S Extra enc dec findW)

abbrev TaskId := Nat × Nat

def showTid := CoreDriver.showTid
def showTids := CoreDriver.showTids
def sortTids := CoreDriver.sortTids
def tidLt := Core.tidLt

/-! ### printing the job layer (as Driver/JobMain.lean) -/

def showEv : Job.Ev → String
  | .jobOpen j => s!"ev jobOpen {j}"
  | .submit j c => s!"ev submit {j} {if c then 1 else 0}"
  | .jobClose j => s!"ev jobClose {j}"
  | .jobCompleted j => s!"ev jobCompleted {j}"
  | .jobIdle j => s!"ev jobIdle {j}"
  | .jobCancel j => s!"ev jobCancel {j}"
  | .started t i ws rv => s!"ev started {showTid t} {i} {showNatList ws} {rv}"
  | .finished t => s!"ev finished {showTid t}"
  | .failed t => s!"ev failed {showTid t}"
  | .canceled ts => s!"ev canceled {showTids (sortTids ts)}"
  | .aborted ts => s!"ev aborted {showTids (sortTids ts)}"
  | .workerNew w => s!"ev wnew {w}"
  | .workerLost w r => s!"ev wlost {w} {r}"

def showJob (job : Job.Job) : List String :=
  let st := match job.status with
    | .ok s => s.name
    | .error _ => "!panic"
  let c := job.cnt
  let tasks := sortBy (fun (a b : Nat × Job.TState) => a.1 < b.1) job.tasks
  [s!"out job {job.id} open={if job.isOpen then 1 else 0} n={job.nTasks} cnt={c.running},{c.finished},{c.failed},{c.canceled},{c.aborted} st={st}",
   s!"out tasks {job.id} {showList (fun (p : Nat × Job.TState) => s!"{p.1}:{p.2.letter}") tasks}"]

def jobSnapshot (s : Job.State) : List String :=
  let jobs := sortBy (fun (a b : Job.Job) => a.id < b.id) s.jobs
  (jobs.flatMap showJob) ++ [s!"out live {showTids (sortTids s.sent)}"]

/-! ### printing the queues and the worker states (must match harness/src/sysw.rs) -/

def showItem (it : TaskId × Nat × Option Nat × List Nat) : String :=
  s!"{showTid it.1}:{it.2.1}:{match it.2.2.1 with | some v => toString v | none => "p"}:{if it.2.2.2.isEmpty then "-" else "+".intercalate (it.2.2.2.map toString)}"

def showS2W : S2W → String
  | .compute items => "C=" ++ showList showItem items
  -- the id order inside RetractTasks / CancelTasks is a hash order of the server, immaterial for the worker: printed sorted
  | .retract ids => "R=" ++ showTids (sortTids ids)
  | .cancel ids => "X=" ++ showTids (sortTids ids)

def showUpd : Core.Update → String
  | .finished t => s!"F:{showTid t}"
  | .failed t => s!"X:{showTid t}"
  | .running t rv => s!"R:{showTid t}:{rv}"
  | .runningPrefilled t rv => s!"P:{showTid t}:{rv}"
  | .reject t (some rv) => s!"J:{showTid t}:{rv}"
  | .reject t none => s!"J:{showTid t}:-"
  | .enable rq rv => s!"E:{rq}:{rv}"

def showW2S : W2S → String
  | .updates us => "U=" ++ showList showUpd us
  -- id order of a RetractResponse: see `coreSubs` (printed sorted)
  | .retracted ids => "T=" ++ showTids (sortTids ids)

def dedupNat (l : List Nat) : List Nat := l.foldr (fun x acc => if acc.contains x then acc else x :: acc) []

def pairLt (a b : Nat × Nat) : Bool := a.1 < b.1 || (a.1 == b.1 && a.2 < b.2)

def workerLines (x : WState) : List String :=
  let run := sortBy (fun (a b : Worker.Running) => tidLt (dec a.task.id) (dec b.task.id)) x.w.running
  let keys := sortBy (· < ·) (dedupNat x.w.bkeys)
  let bl := keys.filterMap fun rq =>
    let l := (x.w.backlog rq).reverse
    if l.isEmpty then none
    else some s!"{rq}={"+".intercalate (l.map fun (t : Worker.Task) => s!"{showTid (dec t.id)}i{t.inst}")}"
  [s!"out s2w {x.id} {showList showS2W x.s2w ";"}",
   s!"out w2s {x.id} {showList showW2S x.w2s ";"}",
   s!"out wrun {x.id} {showList (fun (r : Worker.Running) => s!"{showTid (dec r.task.id)}:{r.task.inst}:{r.task.rq}:{r.rv}") run}",
   s!"out wbl {x.id} {if bl.isEmpty then "-" else ";".intercalate bl}",
   s!"out wblk {x.id} {showList (fun (k : Nat × Nat) => s!"{k.1}.{k.2}") (sortBy pairLt x.w.blocked)}"]

def allWorkerLines (s : SysW.State) : List String :=
  (sortBy (fun (a b : WState) => a.id < b.id) s.workers).flatMap workerLines

/-- launcher calls and stop signals of the M2 steps of one action (worker id, outputs) -/
def woutLines (wouts : List (Nat × Worker.Out)) : List String :=
  let launches := wouts.filterMap fun
    | (w, .launch t i rv _ ok) => some s!"out launch {w} {showTid (dec t)} {i} {rv} {if ok then "ok" else "fail"}"
    | _ => none
  let stops := sortBy (fun (a b : Nat × TaskId × Worker.StopKind) => a.1 < b.1 || (a.1 == b.1 && tidLt a.2.1 b.2.1))
    (wouts.filterMap fun | (w, .stop t k) => some (w, dec t, k) | _ => none)
  launches ++ stops.map fun (w, t, k) => s!"out stop {w} {showTid t} {match k with | .cancel => "cancel" | .timeout => "timeout"}"

/-! ### monitors -/

def monLine (clause sig detail : String) : String := s!"mon FAIL {clause} {sig} {detail}"

/-- which conjunct of `SysW.OpOk` is false -/
def hypFails (s : SysW.State) (op : SysW.Op) : List String :=
  if decide (SysW.OpOk s op) then [] else
  let f (b : Bool) (sig : String) : List String := if b then [] else [sig]
  let which : List String := match op with
    | .srv (.submit _ _ desc nts) =>
      f (decide (Sys.SubmitOk desc)) "submit-ok" ++ f (nts.all fun nt => !s.submitted.contains nt.id) "task-id-submitted-twice"
    | .srv (.schedule sol) =>
      f (decide (Core.QueueOkD s.sys.core)) "queue-ok" ++ f (decide (Core.SolMnOk s.sys.core sol)) "mn-placement-for-sn-request"
    | .addWorker wk _ _ =>
      f (decide (Core.FreshWorker wk)) "fresh-worker" ++ f (!s.sys.job.workers.contains wk.id) "worker-id-known-to-job-layer" ++
      f (s.sys.core.tasks.all fun task => Core.owner task.state != some wk.id) "worker-id-owns-a-task"
    | _ => []
  (if which.isEmpty then ["opok-false"] else which).map fun sig =>
    monLine "sysw.hyp" sig "a side condition of the sysw_* theorems (SysW.OpOk) is false on the pre-state of this real action"

/-- the first update of the batch that violates `Sys.UpdOk` in the state in which the reactor processes it -/
def firstBadUpdate (c : Core.State) (w : Nat) : List Core.Update → List (List TaskId) → Option String
  | [], _ => none
  | u :: rest, rets =>
    if !decide (Sys.UpdOk c w u) then
      some (match u with
        | .finished _ => "finished-of-a-task-that-is-not-running"
        | .reject _ _ => "reject-protocol"
        | _ => "update-protocol") else
    match c.updateState w u rets with
    | .ok (c1, rets') => firstBadUpdate c1 w rest rets'
    | .error _ => none

/-- conclusion of `sysw_fin_proto` for the batch at the head of the w2s queue of `x` -/
def finProtoHead (s : SysW.State) (x : WState) (rets : List (List TaskId)) (when : String) : List String :=
  match x.w2s with
  | .updates us :: _ =>
    if decide (Sys.OpOk s.sys (.update x.id us rets)) then [] else
    [monLine "sysw.fin_proto" ((firstBadUpdate s.sys.core x.id us rets).getD "updates-not-ok")
      s!"model: the TaskUpdate batch at the head of the queue of worker {x.id} [{showList showUpd us}] violates Sys.OpOk ({when})"]
  | _ => []

def finProtoAll (s : SysW.State) : List String := s.workers.flatMap fun x => finProtoHead s x [] "after the action, rets = []"

/-- conclusion of `sysw_c06_single_partial`: a task the core knows is in `running_tasks` of at most one worker record -/
def c06Fails (s : SysW.State) : List String :=
  let runs : List (Nat × Nat) := s.workers.flatMap fun x => x.w.running.map fun r => (x.id, r.task.id)
  let bad := runs.filter fun (w, n) => (Core.stOf s.sys.core.tasks (dec n)).isSome && runs.any fun (w', n') => n' == n && w' != w
  match bad with
  | [] => []
  | (w, n) :: _ => [monLine "c06.single" "runs-on-two-workers" s!"model: task {showTid (dec n)} the core knows is in the running set of worker {w} and of another worker record"]

/-- conclusion of `sysw_c08_cancel_sent` for one `srv (cancel j ids)` step `s → s'` -/
def c08Fails (s s' : SysW.State) (j : Nat) (ids : List TaskId) : List String :=
  s.workers.flatMap fun x => x.w.running.filterMap fun r =>
    let t := dec r.task.id
    if t.1 == j && ids.contains t && (Core.stOf s.sys.core.tasks t).isSome then
      match findW s'.workers x.id with
      | some x' =>
        if x'.w.running == x.w.running && x'.s2w.any (fun m => match m with | .cancel l => l.contains t | _ => false) then none
        else some (monLine "c08.cancel_sent" "no-cancel-message" s!"model: worker {x.id} runs task {showTid t} of the cancelled job but has no CancelTasks naming it in its queue after the cancel step")
      | none => some (monLine "c08.cancel_sent" "worker-record-gone" s!"model: worker {x.id} runs task {showTid t} and has no record after the cancel step")
    else none

/-! ### running the actions of one op -/

structure Acc where
  s : SysW.State
  evs : List Job.Ev := []
  core : Core.Out := {}
  /-- `out resp` / `out core` lines, in order -/
  lines : List String := []
  wouts : List (Nat × Worker.Out) := []
  mons : List String := []
  /-- the `out` line of a `Stop` and whether it stands for a panic of the real code -/
  stop : Option (String × Bool × String) := none
  /-- the op could not be interpreted (parse error, queue head is not what the real run delivered) -/
  bad : Option String := none
  /-- edits of the state outside `SysW.step` that changed something (kinds; counted per case, see `finish`) -/
  edits : List String := []

def Acc.halted (a : Acc) : Bool := a.stop.isSome || a.bad.isSome

def classify : SysW.Stop → String × Bool × String
  | .sys (.job site) => ("out !panic job", true, s!"stop-job {site}")
  | .sys (.core site) =>
    if site.startsWith "!bad-choice" then (s!"out {site}", false, s!"bad-choice {site}") else ("out !panic core", true, s!"stop-core {site}")
  | .sys .badRets => ("out !stop bad-rets", false, "bad-rets")
  | .sys .badSubmit => ("out !stop bad-submit", false, "bad-submit")
  | .sys .badCancel => ("out !stop bad-cancel", false, "bad-cancel")
  | .worker w (.panic site) => ("out !panic worker", true, s!"stop-worker {w} {repr site}")
  | .worker w .notEnabled => ("out !stop worker-not-enabled", false, s!"worker-not-enabled {w}")
  | .worker w .badChoice => ("out !stop worker-bad-choice", false, s!"worker-bad-choice {w}")
  | .notAllowed => ("out !stop not-allowed", false, "not-allowed")
  | .noWorker => ("out !stop no-worker", false, "no-worker")
  | .emptyQueue => ("out !stop empty-queue", false, "empty-queue")
  | .badInput => ("out !stop bad-input", false, "bad-input")

def opWorker : SysW.Op → Nat
  | .deliverS2W w _ => w
  | .wlocal w _ => w
  | _ => 0

/-- one `SysW.step`, with the side conditions and the monitors of the proved clauses; returns the `Sys` output if any -/
def runOp (a : Acc) (op : SysW.Op) : Acc × Option Sys.Out :=
  if a.halted then (a, none) else
  let pre := hypFails a.s op ++ (match op with
    | .deliverW2S w rets => match findW a.s.workers w with
      | some x => finProtoHead a.s x rets "before its delivery, real rets"
      | none => []
    | _ => [])
  match SysW.step a.s op with
  | .error e => ({ a with mons := a.mons ++ pre, stop := some (classify e) }, none)
  | .ok (s', o) =>
    let post := match op with
      | .srv (.cancel j ids) => c08Fails a.s s' j ids
      | _ => []
    let a := { a with s := s', mons := a.mons ++ pre ++ post, wouts := a.wouts ++ o.wouts.map fun x => (opWorker op, x) }
    match o.sys with
    | some so => ({ a with evs := a.evs ++ so.evs, core := a.core.add so.core }, some so)
    | none => (a, none)

def runOp' (a : Acc) (op : SysW.Op) : Acc := (runOp a op).1

/-! ### parsing -/

def parseOptNat (s : String) : Option (Option Nat) := if s = "-" then some none else s.toNat?.map some

def kv (key : String) (toks : List String) : Option String := toks.findSome? fun t => CoreDriver.dropPrefix (key ++ "=") t

def parseRanges (s : String) : Option Job.IntArray :=
  if s = "-" then some [] else
  (s.splitOn ";").mapM fun r =>
    match r.splitOn ":" with
    | [a, b, c] => do
      let x ← a.toNat?; let y ← b.toNat?; let z ← c.toNat?
      pure ({ start := x, count := y, step := z } : Job.IntRange)
    | _ => none

def parseGraph (s : String) : Option (List (Nat × List Nat)) :=
  (s.splitOn ";").mapM fun item =>
    match item.splitOn ":" with
    | [a, b] => do
      let t ← a.toNat?
      let deps ← if b = "" then some [] else (b.splitOn ".").mapM String.toNat?
      pure (t, deps)
    | _ => none

def parseStatus : String → Option Job.Status
  | "waiting" => some .waiting | "running" => some .running | "finished" => some .finished
  | "failed" => some .failed | "canceled" => some .canceled | "aborted" => some .aborted
  | "opened" => some .opened | _ => none

def parseTids (s : String) : Option (List TaskId) := CoreDriver.parseTidsSep "," s

/-- `rq.rv.0|1+…` -/
def parseEn (s : String) : Option (List ((Nat × Nat) × Bool)) :=
  if s = "-" then some [] else (s.splitOn "+").mapM fun e =>
    match e.splitOn "." with
    | [rq, rv, b] => do
      let rq ← rq.toNat?
      let rv ← rv.toNat?
      let b ← if b = "1" then some true else if b = "0" then some false else none
      pure ((rq, rv), b)
    | _ => none

def parseRes : String → Option Worker.TaskResult
  | "fin" => some .finished | "err" => some .error | "can" => some .canceled | "tmo" => some .timeouted | _ => none

structure RealItem where
  t : TaskId
  inst : Nat
  rq : Nat
  rv : Option Nat
  tl : Option Nat
  /-- the allocator's answer: allocated? (`none` for a prefill entry) -/
  alloc : Option Bool

/-- `task:inst:rq:rv|p:tl|-:k|n|-` (the task id contains a `.`, no `:`) -/
def parseItem (s : String) : Option RealItem :=
  match s.splitOn ":" with
  | [t, i, rq, rv, tl, ans] => do
    let t ← CoreDriver.parseTid t
    let i ← i.toNat?
    let rq ← rq.toNat?
    let rv ← if rv = "p" then some none else rv.toNat?.map some
    let tl ← parseOptNat tl
    let alloc ← if ans = "k" then some (some true) else if ans = "n" then some (some false) else if ans = "-" then some none else none
    if rv.isSome != alloc.isSome then none else pure { t := t, inst := i, rq := rq, rv := rv, tl := tl, alloc := alloc }
  | _ => none

/-- `task:res:en` separated by `/` -/
def parseEnds (s : String) : Option (List (TaskId × Worker.TaskResult × List ((Nat × Nat) × Bool))) :=
  if s = "-" then some [] else (s.splitOn "/").mapM fun e =>
    match e.splitOn ":" with
    | [t, r, en] => do pure ((← CoreDriver.parseTid t), (← parseRes r), (← parseEn en))
    | _ => none

/-! ### state edits outside `SysW.step` (see the header) -/

def modifyW (s : SysW.State) (w : Nat) (f : Worker.State → Worker.State) : SysW.State :=
  { s with workers := s.workers.map fun x => if x.id = w then { x with w := f x.w } else x }

/-- the tasks in the backlogs of worker `w` are marked `launchFails` iff the harness's launcher will refuse them now -/
def patchFails (s : SysW.State) (w : Nat) (fl : List Nat) : SysW.State :=
  match findW s.workers w with
  | none => s
  | some x =>
    let differs := x.w.bkeys.any fun rq => (x.w.backlog rq).any fun t => t.launchFails != fl.contains t.id
    if !differs then s else
    modifyW s w fun ws => { ws with backlog := fun rq => (ws.backlog rq).map fun t => { t with launchFails := fl.contains t.id } }

/-- `w:t,t,..;w:..` -/
def parseOrd (s : String) : Option (List (Nat × List TaskId)) :=
  if s = "-" then some [] else (s.splitOn ";").mapM fun e =>
    match e.splitOn ":" with
    | [w, ts] => do pure ((← w.toNat?), (← parseTids ts))
    | _ => none

def firstTask : S2W → Option TaskId
  | .compute (it :: _) => some it.1
  | _ => none

/-- `on_remove_worker` sends the redirected tasks that were being retracted from the lost worker one ComputeTasks message
each, in the iteration order of the real task map (a hash map); M1 sends them in its list order. The ComputeTasks messages
this action appended to a queue are put into the real order (given by the first task of each) when that is a permutation
of them; the slots of other messages are kept. An edit outside `SysW.step` (a hash-order choice M1 does not take as input). -/
def reorderNew (s0 s1 : SysW.State) (ord : List (Nat × List TaskId)) : SysW.State :=
  { s1 with workers := s1.workers.map fun x =>
      match ord.find? (·.1 == x.id) with
      | none => x
      | some (_, firsts) =>
        let n0 := ((findW s0.workers x.id).map (·.s2w.length)).getD 0
        let old := x.s2w.take n0
        let new := x.s2w.drop n0
        let comps := new.filter fun m => (firstTask m).isSome
        let wanted := firsts.filterMap fun t => comps.find? fun m => firstTask m == some t
        if wanted.length != comps.length || firsts.length != comps.length || firsts.eraseDups.length != firsts.length then x else
        -- refill the compute slots in the wanted order
        let r := new.foldl (fun (p : List S2W × List S2W) m =>
          if (firstTask m).isSome then
            match p.2 with
            | c :: rest => (p.1 ++ [c], rest)
            | [] => (p.1 ++ [m], [])
          else (p.1 ++ [m], p.2)) ([], wanted)
        { x with s2w := old ++ r.1 } }

/-! ### the ops -/

def Acc.withFails (a : Acc) (w : Nat) (fl : List Nat) : Acc :=
  let s' := SysWDriver.patchFails a.s w fl
  -- `patchFails` returns the state itself when no backlog entry changes
  let changed := match findW a.s.workers w with
    | some x => x.w.bkeys.any fun rq => (x.w.backlog rq).any fun t => t.launchFails != fl.contains t.id
    | none => false
  { a with s := s', edits := if changed then a.edits ++ ["launch-fails"] else a.edits }

def respLinesSubmit (r : Job.SubmitResp) (nts : List Core.NewTask) : List String :=
  let txt := match r with
    | .ok j => s!"ok {j}"
    | .jobNotOpened => "notopened"
    | .jobNotFound => "notfound"
    | .taskIdAlreadyExists t => s!"exists {t}"
    | .nonUniqueTaskId t => s!"nonunique {t}"
    | .invalidDependencies t => s!"invaliddeps {t}"
  let core := match r with | .ok _ => nts.map (·.id) | _ => []
  [s!"out resp submit {txt}", s!"out core {showTids (sortTids core)}"]

/-- the `newrq` sub-ops of a submit, one `srv (newRq ..)` each (parsed in the state they are applied to) -/
def runNewRqs (a : Acc) : List (List String) → Acc
  | [] => a
  | sub :: rest =>
    if a.halted then a else
    match CoreDriver.subOp a.s.sys.core [] sub with
    | some (.newRq rqv, _) => runNewRqs (runOp' a (.srv (.newRq rqv))) rest
    | _ => { a with bad := some "newrq sub-op" }

def clientOp (a : Acc) (jobop : List String) (subs : List (List String)) : Acc :=
  let bad (why : String) : Acc := { a with bad := some why }
  let submit (job mf : String) (desc : Option Job.TaskDesc) : Acc :=
    match kv "job" [job] >>= parseOptNat, kv "mf" [mf] >>= parseOptNat, desc with
    | some job, some mf, some desc =>
      let a := runNewRqs a (subs.filter fun s => s.head? == some "newrq")
      let nts : Option (List Core.NewTask) := match subs.find? (fun s => s.head? == some "newtasks") with
        | some [_, items] => (items.splitOn ",").mapM CoreDriver.parseNewTask
        | some _ => none
        | none => some []
      match nts with
      | none => bad "newtasks sub-op"
      | some nts =>
        if subs.any (fun s => s.head? != some "newrq" && s.head? != some "newtasks") then bad "unexpected sub-op of a submit" else
        let (a, so) := runOp a (.srv (.submit job mf desc nts))
        match so with
        | some { resp := .submit r, .. } => { a with lines := a.lines ++ respLinesSubmit r nts }
        | _ => a
    | _, _, _ => bad "submit"
  match jobop with
  | ["open", mf] =>
    match kv "mf" [mf] >>= parseOptNat with
    | none => bad "open"
    | some mf =>
      let (a, so) := runOp a (.srv (.openJob mf))
      match so with
      | some { resp := .opened j, .. } => { a with lines := a.lines ++ [s!"out resp open {j}"] }
      | _ => a
  | [kind, job, mf, "array", ids, en] =>
    if kind = "submit" || kind = "submitw" then
      submit job mf (do pure (.array (← parseRanges ids) (← parseOptNat en)))
    else bad "client op"
  | [kind, job, mf, "graph", g] =>
    if kind = "submit" || kind = "submitw" then submit job mf ((parseGraph g).map .graph) else bad "client op"
  | ["prune"] => a
  | ["close", ids] =>
    match parseNatList ids with
    | none => bad "close"
    | some ids => ids.foldl (fun a j =>
        let (a, so) := runOp a (.srv (.close j))
        match so with
        | some { resp := .close r, .. } =>
          { a with lines := a.lines ++ [s!"out resp close {j} {match r with | .closed => "closed" | .alreadyClosed => "already" | .invalidJob => "invalid"}"] }
        | _ => a) a
  | ["cancel", jobs] =>
    match parseNatList jobs, (subs.mapM fun s => match s with | ["cancel", ids] => parseTids ids | _ => none) with
    | some jobs, some lists =>
      -- the i-th job takes the next id list handed to the core if all its ids belong to it (else the job had nothing to cancel)
      let r := jobs.foldl (fun (p : Acc × List (List TaskId)) j =>
        let (a, ls) := p
        let (ids, ls) := match ls with
          | l :: rest => if !l.isEmpty && l.all (fun t => t.1 == j) then (l, rest) else ([], ls)
          | [] => ([], [])
        let (a, so) := runOp a (.srv (.cancel j ids))
        match so with
        | some { resp := .cancel r, .. } =>
          let txt := match r with
            | .invalidJob => "invalid"
            | .canceled ts n => s!"canceled {showNatList (sortBy (· < ·) ts)} {n}"
          ({ a with lines := a.lines ++ [s!"out resp cancel {j} {txt}"] }, ls)
        | _ => (a, ls)) (a, lists)
      if r.2.isEmpty || r.1.halted then r.1 else { r.1 with bad := some "cancel sub-ops left over" }
    | _, _ => bad "cancel"
  | ["forget", jobs, sts] =>
    match parseNatList jobs, (if sts = "-" then some [] else (sts.splitOn ",").mapM parseStatus) with
    | some jobs, some allowed =>
      let r := jobs.foldl (fun (p : Acc × Nat) j =>
        let (a, so) := runOp p.1 (.srv (.forget j allowed))
        match so with
        | some { resp := .forget true, .. } => (a, p.2 + 1)
        | _ => (a, p.2)) (a, 0)
      if r.1.halted then r.1 else { r.1 with lines := r.1.lines ++ [s!"out resp forget {r.2} {jobs.length - r.2}"] }
    | _, _ => bad "forget"
  | _ => bad "client op"

/-- a core-driven action (`schedule`, `add_worker`, `lose_worker`, `deliver_w2s`): one `SysW.Op` per core sub-op -/
def coreSubs (a : Acc) (rets : List (List TaskId)) (rem : Option Nat) : List (List String) → Acc
  | [] => a
  | sub :: rest =>
    if a.halted then a else
    match CoreDriver.subOp a.s.sys.core rets sub with
    | none => { a with bad := some s!"core sub-op {" ".intercalate sub}" }
    | some (cop, rets') =>
      let a := match cop with
        | .newWorker wk => runOp' a (.addWorker wk (a.s.sys.core.rqs.map fun rqv => rqv.map (·.minTime)) rem)
        | .removeWorker w reason f order rs => runOp' a (.loseWorker w reason f order rs)
        | .newRq rqv => runOp' a (.srv (.newRq rqv))
        | .schedule sol => runOp' a (.srv (.schedule sol))
        | .update w us rs =>
          -- the REAL message must be the head of the model's queue
          match (findW a.s.workers w).bind (·.w2s.head?) with
          | some (.updates us') =>
            if us'.map showUpd == us.map showUpd then runOp' a (.deliverW2S w rs)
            else { a with bad := some s!"the head of the w2s queue of worker {w} is [{showList showUpd us'}] in the model" }
          | _ => { a with bad := some s!"the head of the w2s queue of worker {w} is no TaskUpdate in the model" }
        | .retracted w ids =>
          match (findW a.s.workers w).bind (·.w2s.head?) with
          | some (.retracted ids') =>
            -- The ORDER of the ids in the response is not the one M2 produces (M2: newest first inside a class, `bkeys` order
            -- across classes; real worker: `Vec::retain` = oldest first, hash order across classes). The reactor processes
            -- them in order (the redirect ComputeTasks lists them in that order), so the real order is taken as a recorded
            -- choice: the head is replaced by the same ids in the real order (an edit outside `SysW.step`).
            if sortTids ids' == sortTids ids then
              let a := if ids' == ids then a else
                { a with edits := a.edits ++ ["retract-response-order"], s := { a.s with workers := a.s.workers.map fun x =>
                    if x.id = w then { x with w2s := .retracted ids :: x.w2s.drop 1 } else x } }
              runOp' a (.deliverW2S w [])
            else { a with bad := some s!"the head of the w2s queue of worker {w} is RetractResponse [{showTids ids'}] in the model" }
          | _ => { a with bad := some s!"the head of the w2s queue of worker {w} is no RetractResponse in the model" }
        | _ => { a with bad := some "core sub-op not expected here" }
      coreSubs a rets' rem rest

structure D where
  s : SysW.State := {}
  dead : Bool := false
  /-- next fresh allocation handle -/
  nextH : Nat := 1
  /-- edits outside `SysW.step` applied in this case -/
  edits : List String := []

def headS2W (s : SysW.State) (w : Nat) : Option S2W := (findW s.workers w).bind (·.s2w.head?)

def taskEnds (a : Acc) (w : Nat) (fl : List Nat) : List (TaskId × Worker.TaskResult × List ((Nat × Nat) × Bool)) → Acc
  | [] => a
  | (t, res, en) :: rest =>
    if a.halted then a else
    taskEnds (runOp' (a.withFails w fl) (.wlocal w (.taskEnd (enc t) res en))) w fl rest

/-- the tokens of one op → the result of running its actions + (server side?, prints state?) + handles used -/
def interpret (d : D) (toks : List String) : Acc × Bool × Bool × Nat :=
  let a : Acc := { s := d.s }
  let bad (why : String) : Acc × Bool × Bool × Nat := ({ a with bad := some why }, false, false, 0)
  let flOf (toks : List String) : Option (List Nat) := (kv "fl" toks >>= parseTids).map (·.map enc)
  let remOf (tok : String) : Option (Option Nat) := CoreDriver.dropPrefix "rem=" tok >>= parseOptNat
  -- the worker's clock runs (`remaining_time()` reads the wall clock): `remaining` of a time-limited worker is refreshed
  -- with the value the real action found (differs from the last value by the wall time of the run, a few ms)
  let setRem (a : Acc) (w : Nat) (rem : Option Nat) : Acc :=
    match rem with
    | some r => { a with s := modifyW a.s w fun ws => if ws.remaining.isSome then { ws with remaining := some r } else ws }
    | none => a
  match toks with
  | "nop" :: _ => (a, false, false, 0)
  | "client" :: rest =>
    let jobop := rest.takeWhile (· ≠ "##")
    let subs := (CoreDriver.splitOps ((rest.dropWhile (· ≠ "##")).drop 1)).filter (!·.isEmpty)
    (clientOp a jobop subs, true, true, 0)
  | "schedule" :: rets :: subs =>
    match CoreDriver.dropPrefix "rets=" rets >>= CoreDriver.parseRets with
    | some rets => (coreSubs a rets none (CoreDriver.splitOps subs), true, true, 0)
    | none => bad "rets"
  | "add_worker" :: _ :: rem :: rets :: subs =>
    match CoreDriver.dropPrefix "rem=" rem >>= parseOptNat, CoreDriver.dropPrefix "rets=" rets >>= CoreDriver.parseRets with
    | some rem, some rets => (coreSubs a rets rem (CoreDriver.splitOps subs), true, true, 0)
    | _, _ => bad "add_worker"
  | "lose_worker" :: _ :: ord :: rets :: subs =>
    match CoreDriver.dropPrefix "rets=" rets >>= CoreDriver.parseRets, CoreDriver.dropPrefix "ord=" ord >>= parseOrd with
    | some rets, some ord =>
      let a' := coreSubs a rets none (CoreDriver.splitOps subs)
      let s2 := reorderNew a.s a'.s ord
      let changed := s2.workers.any fun x => (findW a'.s.workers x.id).any fun y => y.s2w.map showS2W != x.s2w.map showS2W
      (if a'.halted then a' else { a' with s := s2, edits := if changed then a'.edits ++ ["lost-redirect-order"] else a'.edits }, true, true, 0)
    | _, _ => bad "rets / ord"
  | "deliver_w2s" :: _ :: rets :: subs =>
    if subs == ["other"] then (a, true, true, 0) else
    match CoreDriver.dropPrefix "rets=" rets >>= CoreDriver.parseRets with
    | some rets => (coreSubs a rets none (CoreDriver.splitOps subs), true, true, 0)
    | none => bad "rets"
  | ["age_worker", w, _, rem] =>
    match w.toNat?, CoreDriver.dropPrefix "rem=" rem >>= parseOptNat with
    | some w, some rem => ({ a with s := modifyW a.s w fun ws => { ws with remaining := rem }, edits := ["age-worker"] }, false, false, 0)
    | _, _ => bad "age_worker"
  | "deliver_s2w" :: w :: "compute" :: fl :: rem :: items =>
    match w.toNat?, flOf [fl], items.mapM parseItem, remOf rem with
    | some w, some fl, some real, some rem =>
      let a := setRem a w rem
      match headS2W a.s w with
      | some (.compute mitems) =>
        -- one `Extra` per item of the MODEL's message, taken from the real item of the same task
        let extras := (List.range mitems.length).mapM fun i => do
          let it ← mitems[i]?
          let r ← real.find? fun r => r.t == it.1
          if r.inst != it.2.1 || r.rv != it.2.2.1 then none else
          pure ({ rq := r.rq, timeLimit := r.tl, launchFails := fl.contains (enc it.1),
                  alloc := if r.alloc == some true then some (d.nextH + i) else none } : Extra)
        match extras with
        | some extras =>
          if real.length != mitems.length then bad "the ComputeTasks at the head of the model's queue has another number of items" else
          (runOp' (a.withFails w fl) (.deliverS2W w extras), false, true, mitems.length)
        | none => bad s!"the ComputeTasks at the head of the model's queue differs: {showS2W (.compute mitems)}"
      | some m => bad s!"the head of the model's s2w queue is {showS2W m}"
      | none => bad "the model's s2w queue is empty"
    | _, _, _, _ => bad "compute"
  | ["deliver_s2w", w, "cancel", ids, fl, rem, ends] =>
    match w.toNat?, parseTids ids, flOf [fl], CoreDriver.dropPrefix "ends=" ends >>= parseEnds, remOf rem with
    | some w, some ids, some fl, some ends, some rem =>
      let a := setRem a w rem
      match headS2W a.s w with
      | some (.cancel ids') =>
        if sortTids ids' != sortTids ids then bad s!"the head of the model's s2w queue is {showS2W (.cancel ids')}" else
        (taskEnds (runOp' a (.deliverS2W w [])) w fl ends, false, true, 0)
      | some m => bad s!"the head of the model's s2w queue is {showS2W m}"
      | none => bad "the model's s2w queue is empty"
    | _, _, _, _, _ => bad "cancel"
  | ["deliver_s2w", w, "retract", ids] =>
    match w.toNat?, parseTids ids with
    | some w, some ids =>
      match headS2W a.s w with
      | some (.retract ids') =>
        if sortTids ids' != sortTids ids then bad s!"the head of the model's s2w queue is {showS2W (.retract ids')}" else
        (runOp' a (.deliverS2W w []), false, true, 0)
      | some m => bad s!"the head of the model's s2w queue is {showS2W m}"
      | none => bad "the model's s2w queue is empty"
    | _, _ => bad "retract"
  | ["deliver_s2w", w, "newrq", id, mts] =>
    match w.toNat?, id.toNat?, (mts.splitOn "/").mapM String.toNat? with
    | some w, some id, some mts => (runOp' a (.wlocal w (.newRq id mts)), false, true, 0)
    | _, _, _ => bad "newrq"
  | ["deliver_s2w", _, "other"] => (a, false, true, 0)
  | ["end_task", w, t, res, fl, rem, en] =>
    match w.toNat?, CoreDriver.parseTid t, parseRes res, flOf [fl], CoreDriver.dropPrefix "en=" en >>= parseEn, remOf rem with
    | some w, some t, some res, some fl, some en, some rem => (taskEnds (setRem a w rem) w fl [(t, res, en)], false, true, 0)
    | _, _, _, _, _, _ => bad "end_task"
  | _ => bad "unknown op"

def stepD (d : D) (toks0 : List String) : D × List String :=
  if d.dead then (d, []) else
  let realPanic := toks0.getLast? == some "!panic"
  let toks := if realPanic then toks0.dropLast else toks0
  let (a, serverSide, printState, used) := interpret d toks
  match a.bad, a.stop with
  | some why, _ =>
    -- never a default: `!bad-op` is a disagreement for `bin/check` (the harness never prints it)
    ({ d with dead := true }, [s!"out !bad-op the op cannot be replayed on the model: {why}"] ++ a.mons)
  | none, some (line, isPanic, what) =>
    let mon := if isPanic && realPanic then [] else
      [monLine "sysw.step" ((what.splitOn " ").headD "stop") s!"the composed model stops ({what}) on an action the real system performed{if realPanic then " with a panic of another kind" else " without panic"}"]
    ({ d with dead := true }, [line] ++ a.mons ++ mon)
  | none, none =>
    let s := a.s
    let server := if serverSide then
        a.evs.map (fun e => "out " ++ showEv e) ++ a.lines ++ CoreDriver.showMsgs a.core.msgs ++ a.core.cbs.map CoreDriver.showCb ++
        [s!"out flag {if s.sys.core.needSched then 1 else 0}"] ++ CoreDriver.snapshot s.sys.core ++ jobSnapshot s.sys.job
      else []
    let state := if printState then (if serverSide then [] else woutLines a.wouts) ++ allWorkerLines s ++ finProtoAll s ++ c06Fails s else []
    let mon := if realPanic then [monLine "sysw.step" "real-panic-not-predicted" "the real action panicked, the composed model performs it"] else []
    ({ s := s, dead := realPanic, nextH := d.nextH + used, edits := d.edits ++ a.edits }, server ++ state ++ a.mons ++ mon)

def reset (toks : List String) : D :=
  let get (key : String) (dflt : Nat) : Nat := ((kv key toks).bind String.toNat?).getD dflt
  { s := SysW.initState (get "reserve" 1) (get "max" 1) }

/-- an informational line per case (ignored by `bin/check`): how many state edits outside `SysW.step` the replay needed -/
def finish (d : D) : List String :=
  let kinds := ["age-worker", "launch-fails", "retract-response-order", "lost-redirect-order"]
  ["info edits " ++ " ".intercalate (kinds.map fun k => s!"{k}={(d.edits.filter (· == k)).length}")]

def driver : Driver D := { reset := reset, step := stepD, finish := finish }

end SysWDriver

def main : IO Unit := SysWDriver.driver.main {}
