import HqModel.AutoAlloc.Wire
/-! Model driver of the `autoalloc` component: `hqm-autoalloc < trace` (see /verif/FRAMEWORK.md). -/
open HqModel.AutoAlloc

def main : IO Unit :=
  HqModel.Proto.Driver.main Wire.driver { st := init ⟨10, 20, 0⟩ 1 }
