import HqModel.Base.Proto
import HqModel.Env.Model
/-!
Driver `hqm-env` (model M8, `HqModel/Env/Model.lean`): the resource variables a started task is told.
  `op run <task> held=<rid|name|lab+lab|units|fractions;..|-> pin=<n|t|o> nv=<n> rv=<v> preset=<-|KEY+KEY>`
      the launch of one task with the allocation the real allocator granted (recorded input)
  `op run <task> refused`     the allocator refused the request (nothing is launched)
  `op release <task>`
Output: `out env K=V ..` (sorted by variable name, `-` if none), `out ts <cpu list|->`, `out end finished|failed`;
`out refused`; `out ok`.
-/
open HqModel.Proto HqModel.Env

def keyName : Key → String
  | .hqCpus => "HQ_CPUS"
  | .hqPin => "HQ_PIN"
  | .variant => "HQ_RESOURCE_VARIANT"
  | .values n => "HQ_RESOURCE_VALUES_" ++ String.ofList n
  | .cuda => "CUDA_VISIBLE_DEVICES"
  | .cudaOrder => "CUDA_DEVICE_ORDER"
  | .rocr => "ROCR_VISIBLE_DEVICES"
  | .ompNum => "OMP_NUM_THREADS"
  | .ompPlaces => "OMP_PLACES"
  | .ompBind => "OMP_PROC_BIND"

def parseKeyName : String → Option Key
  | "OMP_NUM_THREADS" => some .ompNum
  | "OMP_PLACES" => some .ompPlaces
  | "OMP_PROC_BIND" => some .ompBind
  | _ => none

def parseHeldItem (s : String) : Option Held :=
  match s.splitOn "|" with
  | [rid, name, labs, units, fr] => do
    let rid ← rid.toNat?
    let units ← units.toNat?
    let fr ← fr.toNat?
    let labels := if labs = "-" then [] else (labs.splitOn "+").map String.toList
    pure { rid := rid, name := name.toList, labels := labels, units := units, fractions := fr }
  | _ => none

def parseHeld (s : String) : Option (List Held) :=
  if s = "-" then some [] else (s.splitOn ";").mapM parseHeldItem

def parsePin : String → Option Pin
  | "n" => some .none
  | "t" => some .taskset
  | "o" => some .omp
  | _ => none

def field (toks : List String) (key : String) : Option String :=
  toks.findSome? fun t => if t.startsWith key then some (t.drop key.length).toString else none

def parseInput (toks : List String) : Option Input := do
  let held ← parseHeld (← field toks "held=")
  let pin ← parsePin (← field toks "pin=")
  let nv ← (← field toks "nv=").toNat?
  let rv ← (← field toks "rv=").toNat?
  let ps ← field toks "preset="
  let preset ← if ps = "-" then some [] else (ps.splitOn "+").mapM parseKeyName
  pure { held := held, pin := pin, nVariants := nv, variant := rv, preset := preset }

def showEnv (e : Env) : String :=
  let kv := e.map fun (k, v) => (keyName k, String.ofList v)
  let sorted := sortBy (fun a b => a.1 < b.1) kv
  if sorted.isEmpty then "-" else " ".intercalate (sorted.map fun (k, v) => k ++ "=" ++ v)

def step (_ : Unit) : List String → Unit × List String
  | ["run", _, "refused"] => ((), ["out refused"])
  | "run" :: _ :: rest =>
    match parseInput rest with
    | none => ((), ["out !bad-op"])
    | some i =>
      match launch i with
      | .error _ => ((), ["out end failed"])
      | .ok (e, ts) =>
        ((), [s!"out env {showEnv e}", s!"out ts {match ts with | some l => String.ofList l | none => "-"}", "out end finished"])
  | ["release", _] => ((), ["out ok"])
  | _ => ((), ["out !bad-op"])

def main : IO Unit :=
  Driver.main { reset := fun _ => (), step := step } ()
