import HqModel.Base.Proto
import HqModel.Query.Model
/-!
Driver `hqm-query` (model M10): `op query types=<tl|-:max:sn;..|-> queues=<n:mt:size;..|-> sn=<n>` (queues in the iteration order of the
real `task_queues`) → `out mn <type:nodes:max,..|->` sorted by (type, nodes, max).
-/
open HqModel.Proto HqModel.Query

def parseType (s : String) : Option WType :=
  match s.splitOn ":" with
  | [tl, m, _sn] => do
    let tl ← if tl = "-" then some none else tl.toNat?.map some
    pure { timeLimit := tl, maxPerAlloc := ← m.toNat? }
  | _ => none

def parseQueue (s : String) : Option MnQueue :=
  match s.splitOn ":" with
  | [n, mt, sz] => do pure { nNodes := ← n.toNat?, minTime := ← mt.toNat?, size := ← sz.toNat? }
  | _ => none

def parseListOf (f : String → Option α) (s : String) : Option (List α) :=
  if s = "-" then some [] else (s.splitOn ";").mapM f

def field (toks : List String) (key : String) : Option String :=
  toks.findSome? fun t => if t.startsWith key then some (t.drop key.length).toString else none

def ansLt (a b : MnAnswer) : Bool :=
  a.wtype < b.wtype || (a.wtype == b.wtype && (a.perAlloc < b.perAlloc || (a.perAlloc == b.perAlloc && a.maxAllocs < b.maxAllocs)))

def step (_ : Unit) : List String → Unit × List String
  | "query" :: rest =>
    match (field rest "types=").bind (parseListOf parseType), (field rest "queues=").bind (parseListOf parseQueue) with
    | some ts, some qs =>
      let as := sortBy ansLt (mnAnswers ts qs)
      ((), ["out mn " ++ showList (fun a => s!"{a.wtype}:{a.perAlloc}:{a.maxAllocs}") as])
    | _, _ => ((), ["out !bad-op"])
  | _ => ((), ["out !bad-op"])

def main : IO Unit :=
  Driver.main { reset := fun _ => (), step := step } ()
