import HqModel.Lemmas.SysOk
import Driver.CoreLib
/-!
Driver of the COMPOSED model `Sys` (job layer M4 + core M1, `HqModel/Sys/Model.lean`): the link check of notes/sys.md §8.
Input (stdin): the merged world-action trace built by checks/sys_link.py from the job view and the core view of the same
cases: `C <idx> reserve=R max=M` / `S <action…> X <expected callbacks | - | ?>` / `E`.
Per action it evaluates the side conditions `Sys.OpOk` of the `sys_*` theorems, runs `Sys.step`, compares the callbacks the
composed model delivers with the `cb.*` ops the real job layer received, and evaluates the conclusion of `sys_registry` on
the new state. Output: a trace (`case` / `op` / `mon FAIL sys.… ` / `end`).
-/
open HqModel HqModel.Sys

namespace Replay

def parseOptNat (s : String) : Option (Option Nat) := if s = "-" then some none else s.toNat?.map some

def parseRanges (s : String) : Option Job.IntArray :=
  if s = "-" then some [] else
  (s.splitOn ";").mapM fun r =>
    match r.splitOn ":" with
    | [a, b, c] => do
      let x ← a.toNat?; let y ← b.toNat?; let z ← c.toNat?
      pure ({ start := x, count := y, step := z } : Job.IntRange)
    | _ => none

def parseGraph (s : String) : Option (List (Nat × List Nat)) :=
  (s.splitOn ";").mapM fun item =>
    match item.splitOn ":" with
    | [a, b] => do
      let t ← a.toNat?
      let deps ← if b = "" then some [] else (b.splitOn ".").mapM String.toNat?
      pure (t, deps)
    | _ => none

def parseStatus : String → Option Job.Status
  | "waiting" => some .waiting | "running" => some .running | "finished" => some .finished
  | "failed" => some .failed | "canceled" => some .canceled | "aborted" => some .aborted
  | "opened" => some .opened | _ => none

def parseNts (s : String) : Option (List Core.NewTask) :=
  if s = "-" then some [] else (s.splitOn ",").mapM CoreDriver.parseNewTask

/-- one world action from the merged trace -/
def parseOp (s : State) (toks : List String) : Option Op :=
  match toks with
  | ["open", mf] => do pure (.openJob (← parseOptNat mf))
  | ["submit", job, mf, "array", a, b, nts] => do
    pure (.submit (← parseOptNat job) (← parseOptNat mf) (.array (← parseRanges a) (← parseOptNat b)) (← parseNts nts))
  | ["submit", job, mf, "graph", g, nts] => do
    pure (.submit (← parseOptNat job) (← parseOptNat mf) (.graph (← parseGraph g)) (← parseNts nts))
  | ["close", j] => do pure (.close (← j.toNat?))
  | ["cancel", j, ids] => do pure (.cancel (← j.toNat?) (← CoreDriver.parseTidsSep "," ids))
  | ["forget", j, sts] => do
    let allowed ← if sts = "-" then some [] else (sts.splitOn ",").mapM parseStatus
    pure (.forget (← j.toNat?) allowed)
  | "core" :: rets :: sub => do
    let rets ← CoreDriver.parseRets rets
    let (cop, _) ← CoreDriver.subOp s.core rets sub
    match cop with
    | .newWorker w => pure (.newWorker w)
    | .removeWorker w reason f order rets => pure (.removeWorker w reason f order rets)
    | .newRq rqv => pure (.newRq rqv)
    | .update w us rets => pure (.update w us rets)
    | .retracted w ids => pure (.retracted w ids)
    | .schedule sol => pure (.schedule sol)
    | _ => none
  | _ => none

def showTid (t : TaskId) : String := s!"{t.1}.{t.2}"
def showCb : Core.Cb → String
  | .started t _ _ _ => s!"started:{showTid t}"
  | .finished t => s!"finished:{showTid t}"
  | .error t _ => s!"error:{showTid t}"
  | .workerNew w => s!"wnew:{w}"
  | .workerLost w _ _ => s!"wlost:{w}"


def tidLt (a b : TaskId) : Bool := a.1 < b.1 || (a.1 == b.1 && a.2 < b.2)

partial def loop (h : IO.FS.Stream) (s : State) (dead : Bool) (pendingCbs : List String) : IO Unit := do
  let line ← h.getLine
  if line.isEmpty then return ()
  let toks := (line.trimAscii.toString.splitOn " ").filter (· ≠ "")
  match toks with
  | "C" :: idx :: params =>
    let get (key : String) (d : Nat) : Nat :=
      match params.findSome? (fun t => CoreDriver.dropPrefix (key ++ "=") t) with
      | some v => v.toNat?.getD d
      | none => d
    IO.println s!"case {idx} 0 sys {" ".intercalate params}"
    loop h (initState (get "reserve" 1) (get "max" 1)) false []
  | ["E"] =>
    IO.println "end"
    loop h s dead []
  | "S" :: rest =>
    if dead then loop h s dead [] else
    let body := rest.takeWhile (· ≠ "X")
    let exp := (rest.dropWhile (· ≠ "X")).drop 1 |>.headD "-"
    IO.println s!"op {" ".intercalate body}"
    match parseOp s body with
    | none =>
      IO.println "mon FAIL sys.parse bad-action the merged action could not be parsed"
      loop h s true []
    | some op =>
      if !decide (OpOk s op) then
        IO.println "mon FAIL sys.hyp opok-false a side condition of the sys_* theorems (Sys.OpOk) is false on the pre-state of this real action"
      match step s op with
      | .error e =>
        let sig := match e with
          | .job _ => "stop-job" | .core _ => "stop-core" | .badRets => "bad-rets" | .badSubmit => "bad-submit" | .badCancel => "bad-cancel"
        IO.println s!"mon FAIL sys.step {sig} the composed model stops on an action the real server performed without panic: {repr e}"
        loop h s true []
      | .ok (s', o) =>
        let cbs := pendingCbs ++ o.core.cbs.map showCb
        let pend ← if exp = "?" then pure cbs else do
          let got := if cbs.isEmpty then "-" else ",".intercalate cbs
          if got ≠ exp then
            IO.println s!"mon FAIL sys.callbacks callbacks-differ the composed model delivers [{got}] to the job layer, the real job layer received [{exp}]"
          pure []
        let ids := (s'.core.tasks.map (·.id))
        let reg := ids.all s'.job.sent.contains && s'.job.sent.all ids.contains
        if !reg then
          IO.println "mon FAIL sys.registry registry-differs in the composed state the core task map and the job layer's set of unfinished sent tasks differ (conclusion of sys_registry)"
        loop h s' false pend
  | _ => loop h s dead pendingCbs

end Replay

def main : IO Unit := do
  let stdin ← IO.getStdin
  Replay.loop stdin {} false []
