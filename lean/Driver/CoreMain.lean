import Driver.CoreLib
/-! Driver of the tako core model (component `core`): see Driver/CoreLib.lean. -/

def main : IO Unit := CoreDriver.driver.main {}
