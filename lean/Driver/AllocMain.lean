import HqModel.Base.Proto
import HqModel.Alloc.Allocator
/-!
Model driver `hqm-alloc` for the component `alloc` (protocol: /verif/notes/alloc.md).
-/
open HqModel.Proto HqModel.Alloc

namespace Driver.Alloc

structure DState where
  st : Option State := none
  /-- the case header could not be parsed / the allocator could not be built / a panic ended the case -/
  dead : Bool := true

def parseKind (ts : List String) : Option Kind :=
  match ts with
  | ["L", n] => n.toNat?.map Kind.list
  | ["R", a, b] => do pure (Kind.range (← a.toNat?) (← b.toNat?))
  | ["G", sizes] => do pure (Kind.groups (← (sizes.splitOn ".").mapM String.toNat?))
  | ["S", n] => n.toNat?.map Kind.sum
  | _ => none

def parseHeader (toks : List String) : Option Descriptor :=
  let rec go : List String → Descriptor → Option Descriptor
    | [], d => some d
    | t :: ts, d =>
      match t.splitOn ":" with
      | "d" :: rid :: rest =>
        if !d.couplings.isEmpty then none else
        match rid.toNat?, parseKind rest with
        | some r, some k => go ts { d with items := d.items ++ [(r, k)] }
        | _, _ => none
      | ["w", i1, g1, i2, g2, w] =>
        match i1.toNat?, g1.toNat?, i2.toNat?, g2.toNat?, w.toNat? with
        | some a, some b, some c, some e, some f => go ts { d with couplings := d.couplings ++ [(a, b, c, e, f)] }
        | _, _, _, _, _ => none
      | _ => none
  go toks { items := [], couplings := [] }

def parsePolicy : String → Option Policy
  | "C" => some .compact
  | "FC" => some .forceCompact
  | "T" => some .tight
  | "FT" => some .forceTight
  | "S" => some .scatter
  | _ => none

def parseEntry (s : String) : Option Entry :=
  match s.splitOn ":" with
  | [rid, "A"] => rid.toNat?.map (fun r => ⟨r, .all, 0⟩)
  | [rid, p, a] => do pure ⟨← rid.toNat?, ← parsePolicy p, ← a.toNat?⟩
  | _ => none

def parseRequest (s : String) : Option Request :=
  if s = "-" then some [] else (s.splitOn ",").mapM parseEntry

def parseSet (s : String) : Option (List Nat) :=
  if s = "e" then some [] else (s.splitOn ".").mapM String.toNat?

def parseSolRec (s : String) : Option (Option SolRec) :=
  if s = "N" then some none else
  match s.splitOn "@" with
  | [o, sets] => do
    let obj ← o.toInt?
    let ss ← (sets.splitOn "+").mapM parseSet
    pure (some ⟨obj, ss⟩)
  | _ => none

def parseSols (s : String) : Option (List (Option SolRec)) :=
  if s = "-" then some [] else (s.splitOn "/").mapM parseSolRec

def parsePicks (s : String) : Option (List (Nat × Nat)) :=
  if s = "-" then some [] else
  (s.splitOn ",").mapM (fun t =>
    match t.splitOn ":" with
    | [a, b] => do pure (← a.toNat?, ← b.toNat?)
    | _ => none)

def showFracs (m : FMap) : String :=
  showList (fun (kv : Nat × Nat) => s!"{kv.1}:{kv.2}") (sortBy (fun a b => a.1 < b.1) m)

def bar (l : List String) : String := if l.isEmpty then "-" else "|".intercalate l

def showPool (r : Nat) : Pool → String
  | .empty => s!"out pool {r} E"
  | .indices full g => s!"out pool {r} I {full} {showNatList g.free.reverse} {showFracs g.fracs}"
  | .groups full gs =>
    s!"out pool {r} G {full} {bar (gs.map (fun g => showNatList g.free.reverse))} {bar (gs.map (fun g => showFracs g.fracs))}"
  | .sum full free => s!"out pool {r} S {full} {free}"

def showConcise (r : Nat) (c : CState) : String :=
  s!"out concise {r} {bar (c.map (fun g => s!"{g.units}/{showFracs g.fracs}"))}"

def snapshot (s : State) : List String :=
  (s.pools.zipIdx.map (fun (p, r) => showPool r p)) ++ (s.concise.zipIdx.map (fun (c, r) => showConcise r c))

def showRa (ra : RAlloc) : String :=
  s!"out alloc {ra.rid} {ra.amount} {showList (fun (e : AIdx) => s!"{e.index}.{e.group}.{e.fractions}") ra.indices}"

def showStop : Stop → String
  | .panic s => s!"out !panic {s.kw}"
  | .hang => "out !hang"
  | .badChoice => "out !bad-choice"

def badOp (d : DState) : DState × List String := ({ d with dead := true }, ["out !bad-op"])

def step (d : DState) (toks : List String) : DState × List String :=
  match d.st with
  | none => badOp d
  | some s =>
    if d.dead && toks != ["init"] then badOp d else
    match toks with
    | ["init"] => ({ d with dead := false }, snapshot s)
    | ["enabled", rq, sol] =>
      match parseRequest rq, parseSols sol with
      | some rq, some sols =>
        match isEnabled s rq ⟨sols, []⟩ with
        | .error e => ({ d with dead := true }, [showStop e])
        | .ok (b, s') => ({ d with st := some s' }, [s!"out enabled {if b then 1 else 0}"])
      | _, _ => badOp d
    | ["alloc", h, rq, sol, fp] =>
      match h.toNat?, parseRequest rq, parseSols sol, parsePicks fp with
      | some h, some rq, some sols, some picks =>
        match tryAllocate s h rq ⟨sols, picks⟩ with
        | .error e => ({ d with dead := true }, [showStop e])
        | .ok (none, s') => ({ d with st := some s' }, "out res none" :: snapshot s')
        | .ok (some al, s') => ({ d with st := some s' }, "out res some" :: (al.map showRa ++ snapshot s'))
      | _, _, _, _ => badOp d
    | ["release", h] =>
      match h.toNat? with
      | none => badOp d
      | some h =>
        match release s h with
        | none => badOp d
        | some (.error e) => ({ d with dead := true }, [showStop e])
        | some (.ok s') => ({ d with st := some s' }, snapshot s')
    | _ => badOp d

def reset (toks : List String) : DState :=
  match toks with
  | _ :: _ :: rest =>
    match parseHeader rest with
    | some desc => { st := State.init desc, dead := true }
    | none => {}
  | _ => {}

def driver : Driver DState := { reset := reset, step := step }

end Driver.Alloc

def main : IO Unit := Driver.Alloc.driver.main {}
