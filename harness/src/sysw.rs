//! Component `sysw`: ONE trace per simulated cluster run with one `op` per WORLD ACTION, carrying everything the
//! composed model `SysW` (server = job layer M4 x core M1, one worker model M2 per worker, two FIFO queues per worker;
//! lean/HqModel/SysW/Model.lean) needs to replay the run through `SysW.step` (driver lean/Driver/SysWMain.lean, exe
//! `hqm-sysw`), and after every action the harness's view of both queues of every worker, of the running / backlog /
//! blocked sets of every REAL worker, and of the job layer and the core. See notes/sysw_link.md.
//!
//! How a case is produced: the `Sim` run of the case (same sub-seed, same generator as components `job` / `core`) is
//! executed once to obtain its `act` lines, then the acts are re-executed ONE AT A TIME on a fresh `Sim`
//! (`Sim::replay`, the function behind `hqv job|core replay`) so that this module can look at the world before and
//! after every single action without any change to sim.rs / world.rs.
//!
//! op lines (tokens separated by one blank; a trailing `!panic` = the real action panicked)
//!   client <job-view op line> ## <core sub-ops of the action separated by |>
//!   schedule rets=R sched now= sn= mn= pf=
//!   add_worker <id> rem=<time limit ms|-> rets=- wnew <id> tot= g= term=
//!   lose_worker <id> ord=<w:first task of each ComputeTasks sent to w, in order;..|-> rets=R wlost <id> <reason> <0|1> <assigned order>
//!   deliver_w2s <w> rets=R update <w> <items> | retracted <w> <ids> | other
//!   deliver_s2w <w> compute fl=<ids whose next launch fails> rem=<remaining ms|-> <item>..   item = task:inst:rq:rv|p:tl ms|-:k|n|-
//!   deliver_s2w <w> cancel <ids> fl=.. rem=.. ends=<end>/..             end = task:can|tmo:<rq.rv.0|1+..|->
//!   deliver_s2w <w> retract <ids> | newrq <id> <min_time ms per variant joined by /> | other
//!   end_task <w> <task> <fin|err> fl=.. rem=.. en=<rq.rv.0|1+..|->
//!   age_worker <w> <ms> rem=<remaining ms afterwards>
//!   nop <act>                                                            (fail_next_launch, rest_check, flush gate)
//! out lines: see `server_lines` / `worker_lines` (tags ev resp core msg cb flag t w q rd job tasks live launch stop
//!   s2w w2s wrun wbl wblk, `!panic core|job|worker`).
use std::collections::{BTreeMap, BTreeSet};

use tako::TaskId;
use tako::internal::messages::worker::{FromWorkerMessage, ToWorkerMessage, WorkerTaskUpdate};
use tako::verif::worker::VerifWorkerSnapshot;

use crate::coreview::{CoreView, update_op};
use crate::sim::{Sim, is_job_layer_panic, tid, tids};
use crate::util::{GenArgs, Trace, list};
use crate::world::{World, clone_to_worker, snapshot_jobs};

// ------------------------------------------------------------------------------------------------
// canonical text of messages and worker states

fn upd_item(u: &WorkerTaskUpdate) -> String {
    match u {
        WorkerTaskUpdate::Finished { task_id } => format!("F:{}", tid(*task_id)),
        WorkerTaskUpdate::Failed { task_id, .. } => format!("X:{}", tid(*task_id)),
        WorkerTaskUpdate::Running(m) => format!("R:{}:{}", tid(m.task_id), m.rv_id.as_num()),
        WorkerTaskUpdate::RunningPrefilled(m) => format!("P:{}:{}", tid(m.task_id), m.rv_id.as_num()),
        WorkerTaskUpdate::RejectRequest { task_id, rv_id } => {
            format!("J:{}:{}", tid(*task_id), rv_id.map(|v| v.as_num().to_string()).unwrap_or("-".into()))
        }
        WorkerTaskUpdate::EnableRequest { resource_rq_id, rv_id } => format!("E:{}:{}", resource_rq_id.as_num(), rv_id.as_num()),
    }
}

fn upd_task(u: &WorkerTaskUpdate) -> Option<TaskId> {
    match u {
        WorkerTaskUpdate::Finished { task_id } | WorkerTaskUpdate::Failed { task_id, .. } | WorkerTaskUpdate::RejectRequest { task_id, .. } => Some(*task_id),
        WorkerTaskUpdate::Running(m) | WorkerTaskUpdate::RunningPrefilled(m) => Some(m.task_id),
        WorkerTaskUpdate::EnableRequest { .. } => None,
    }
}

fn w2s_msg(m: &FromWorkerMessage) -> Option<String> {
    match m {
        FromWorkerMessage::TaskUpdate(us) => Some(format!("U={}", list(us.iter().map(upd_item)))),
        // the order of the ids in a RetractResponse (Vec order inside a class, hash order across classes) is not what M2
        // produces (see notes/sysw_link.md): compared as a set here; the real order is an input of the delivery
        FromWorkerMessage::RetractResponse(r) => Some(format!("T={}", tids(&sorted(&r.retracted)))),
        _ => None,
    }
}

fn s2w_msg(m: &ToWorkerMessage) -> Option<String> {
    match m {
        ToWorkerMessage::ComputeTasks(c) => Some(format!(
            "C={}",
            list(c.tasks.iter().map(|t| format!(
                "{}:{}:{}:{}",
                tid(t.id),
                t.instance_id.as_num(),
                t.resource_rq_variant.map(|v| v.as_num().to_string()).unwrap_or("p".into()),
                if t.node_list.is_empty() { "-".to_string() } else { t.node_list.iter().map(|w| w.as_num().to_string()).collect::<Vec<_>>().join("+") }
            )))
        )),
        // the order of the ids inside RetractTasks / CancelTasks is the iteration order of a hash set in the server and is
        // immaterial for the worker (it builds a set / treats every id on its own): compared as sets
        ToWorkerMessage::RetractTasks(r) => Some(format!("R={}", tids(&sorted(&r.ids)))),
        ToWorkerMessage::CancelTasks(r) => Some(format!("X={}", tids(&sorted(&r.ids)))),
        _ => None,
    }
}

fn sorted(ts: &[TaskId]) -> Vec<TaskId> {
    let mut v = ts.to_vec();
    v.sort();
    v
}

fn join_or_dash(v: Vec<String>, sep: &str) -> String {
    if v.is_empty() { "-".to_string() } else { v.join(sep) }
}

/// both queues and the task sets of every connected worker
fn worker_lines(world: &World, out: &mut Vec<String>) {
    for (id, w) in &world.workers {
        out.push(format!("out s2w {} {}", id, join_or_dash(w.to_worker.iter().filter_map(s2w_msg).collect(), ";")));
        out.push(format!("out w2s {} {}", id, join_or_dash(w.to_server.iter().filter_map(w2s_msg).collect(), ";")));
        let snap = w.vw.snapshot();
        out.push(format!(
            "out wrun {} {}",
            id,
            list(snap.running.iter().map(|r| format!("{}:{}:{}:{}", tid(r.task_id), r.instance_id.as_num(), r.resource_rq_id.as_num(), r.rv_id.as_num())))
        ));
        out.push(format!(
            "out wbl {} {}",
            id,
            join_or_dash(
                snap.prefilled
                    .iter()
                    .map(|(rq, ts)| format!("{}={}", rq.as_num(), ts.iter().map(|(t, i)| format!("{}i{}", tid(*t), i.as_num())).collect::<Vec<_>>().join("+")))
                    .collect(),
                ";"
            )
        ));
        out.push(format!("out wblk {} {}", id, list(snap.blocked.iter().map(|(rq, rv)| format!("{}.{}", rq.as_num(), rv.as_num())))));
    }
}

/// scheduling flag, core snapshot (as the core view prints it), job snapshot + live ids (as the job view prints them)
fn server_lines(world: &World, out: &mut Vec<String>) {
    out.push(format!("out flag {}", world.server.scheduling_flag() as u8));
    let mut cv = CoreView::default();
    cv.snapshot(&world.server.core_snapshot());
    out.append(&mut cv.lines);
    for j in snapshot_jobs(&world.state_ref) {
        out.push(format!("out job {} open={} n={} cnt={} st={}", j.id, j.open as u8, j.n_tasks, list(j.counters.iter()), j.status));
        out.push(format!("out tasks {} {}", j.id, list(j.tasks.iter().map(|(t, s)| format!("{t}:{s}")))));
    }
    out.push(format!("out live {}", tids(&world.server.task_ids())));
}

// ------------------------------------------------------------------------------------------------
// the worker-side inputs of M2 that the messages do not carry

struct PreWorker {
    snap: VerifWorkerSnapshot,
    n_to_server: usize,
    rem: Option<u64>,
    head_s2w: Option<ToWorkerMessage>,
    head_w2s: Option<String>,
}

fn en_text(en: &[((u32, u32), bool)]) -> String {
    join_or_dash(en.iter().map(|((rq, rv), b)| format!("{}.{}.{}", rq, rv, *b as u8)).collect(), "+")
}

/// The task futures that resolved on one worker during one action, in order, each with the `is_enabled` answers M2 takes
/// as input. NOT observable through the hooks of the world's `VerifWorker` (its snapshot sorts `blocked_requests`, the
/// allocator is not exposed): reconstructed from the `TaskUpdate` messages the REAL worker emitted during the action —
/// an `EnableRequest` in the message of an end = the allocator answered `true` for that entry, in that iteration order;
/// every other blocked entry = `false` (their order does not matter). Attribution of messages to ends when several
/// tasks end in one action (a `CancelTasks` naming several running tasks): an end whose class has a backlog (or that
/// reports a result) always sends a message; an end without backlog sends one only if it enables something, and such
/// a message consists of `EnableRequest`s only — it is given to the first end that can have sent it.
fn ends_text(ends: &[(TaskId, &str)], pre: &VerifWorkerSnapshot, removed: &[TaskId], msgs: &[&FromWorkerMessage]) -> Vec<String> {
    let mut backlog: BTreeMap<u32, Vec<TaskId>> = pre
        .prefilled
        .iter()
        .map(|(rq, ts)| (rq.as_num(), ts.iter().map(|(t, _)| *t).filter(|t| !removed.contains(t)).collect()))
        .collect();
    let mut blocked: Vec<(u32, u32)> = pre.blocked.iter().map(|(rq, rv)| (rq.as_num(), rv.as_num() as u32)).collect();
    let mut cursor = 0usize;
    let mut out = vec![];
    for (t, res) in ends {
        let rq = pre.running.iter().find(|r| r.task_id == *t).map(|r| r.resource_rq_id.as_num());
        let has_backlog = rq.and_then(|rq| backlog.get(&rq)).map(|b| !b.is_empty()).unwrap_or(false);
        let reports = *res == "fin" || *res == "err" || *res == "tmo";
        let next = msgs.get(cursor).and_then(|m| if let FromWorkerMessage::TaskUpdate(us) = m { Some(us) } else { None });
        let only_enables = next.map(|us| us.iter().all(|u| matches!(u, WorkerTaskUpdate::EnableRequest { .. }))).unwrap_or(false);
        let mine = if reports || has_backlog || only_enables { next } else { None };
        let mut enabled: Vec<(u32, u32)> = vec![];
        if let Some(us) = mine {
            cursor += 1;
            for u in us.iter() {
                match u {
                    WorkerTaskUpdate::EnableRequest { resource_rq_id, rv_id } => enabled.push((resource_rq_id.as_num(), rv_id.as_num() as u32)),
                    other => {
                        if let (Some(p), Some(rq)) = (upd_task(other), rq) {
                            if let Some(b) = backlog.get_mut(&rq) {
                                b.retain(|x| *x != p);
                            }
                        }
                    }
                }
            }
        }
        let mut en: Vec<((u32, u32), bool)> = enabled.iter().map(|k| (*k, true)).collect();
        for k in &blocked {
            if !enabled.contains(k) {
                en.push((*k, false));
            }
        }
        blocked.retain(|k| !enabled.contains(k));
        out.push(format!("{}:{}:{}", tid(*t), res, en_text(&en)));
    }
    out
}

/// `fl=` the tasks whose next launch the harness's launcher refuses, `rem=` the worker's remaining life time (ms) as the
/// action finds it (`remaining_time()` reads the wall clock: the value is refreshed at every action that can evaluate it)
fn fl_text(fail_set: &[TaskId], rem: Option<u64>) -> String {
    format!("fl={} rem={}", tids(fail_set), rem.map(|r| r.to_string()).unwrap_or("-".into()))
}

// ------------------------------------------------------------------------------------------------

fn parse_multi(cl: &[String]) -> (String, Vec<Vec<String>>) {
    let mut rets = "-".to_string();
    let mut subs: Vec<Vec<String>> = vec![];
    for l in cl {
        let Some(rest) = l.strip_prefix("op multi ") else { continue };
        let toks: Vec<&str> = rest.split(' ').collect();
        if let Some(r) = toks.first().and_then(|t| t.strip_prefix("rets=")) {
            if r != "-" {
                rets = r.to_string();
            }
        }
        let mut cur: Vec<String> = vec![];
        for t in &toks[1..] {
            if *t == "|" {
                subs.push(std::mem::take(&mut cur));
            } else {
                cur.push(t.to_string());
            }
        }
        if !cur.is_empty() {
            subs.push(cur);
        }
    }
    (rets, subs)
}

fn subs_text(subs: &[Vec<String>]) -> String {
    subs.iter().map(|s| s.join(" ")).collect::<Vec<_>>().join(" | ")
}

/// `n<nodes>t<min_time ms>e<entries>` -> min_time
fn variant_min_time(v: &str) -> Option<u64> {
    let rest = v.strip_prefix('n')?;
    let (_, rest) = rest.split_once('t')?;
    let (t, _) = rest.split_once('e')?;
    t.parse().ok()
}

fn parse_tid(s: &str) -> Option<TaskId> {
    let (j, t) = s.split_once('.')?;
    Some(TaskId::new(tako::JobId::new(j.parse().ok()?), tako::JobTaskId::new(t.parse().ok()?)))
}

/// Re-executes the acts one at a time on `sim` (a fresh simulator of the case) and prints the case body.
pub fn observe_case(tr: &mut Trace, sim: &mut Sim, acts: &[String]) {
    // min_time (ms) of every variant of every request class the core registered so far
    let mut rq_min: Vec<Vec<u64>> = vec![];
    for a in acts {
        if sim.panicked.is_some() {
            break;
        }
        let (kind, rest) = a.split_once(' ').unwrap_or((a.as_str(), ""));
        let toks: Vec<&str> = rest.split(' ').collect();
        // ---- before the action
        let fail_set: Vec<TaskId> = sim.world.launch.borrow().fail_launch.iter().copied().collect();
        let stopped_len = sim.world.launch.borrow().stopped.len();
        let launches_len = sim.world.launch.borrow().log.len();
        let wid: Option<u32> = match kind {
            "deliver" => toks.get(1).and_then(|t| t.parse().ok()),
            "end_task" | "age_worker" | "lose_worker" => toks.first().and_then(|t| t.parse().ok()),
            _ => None,
        };
        let pre: Option<PreWorker> = wid.and_then(|w| sim.world.workers.get(&w)).map(|w| PreWorker {
            snap: w.vw.snapshot(),
            n_to_server: w.to_server.len(),
            rem: w.vw.remaining_ms(),
            head_s2w: w.to_worker.front().map(clone_to_worker),
            head_w2s: w.to_server.front().and_then(|m| update_op(w.id, m)),
        });
        let is_cancel = kind == "client" && rest.rsplit_once(" ## ").map(|(_, op)| op.starts_with("cancel ")).unwrap_or(false);
        let (running_pre, core_pre): (Vec<(u32, Vec<TaskId>)>, Vec<TaskId>) = if is_cancel {
            (
                sim.world.workers.iter().map(|(id, w)| (*id, w.vw.snapshot().running.iter().map(|r| r.task_id).collect())).collect(),
                sim.world.server.task_ids(),
            )
        } else {
            (vec![], vec![])
        };
        let s2w_len: BTreeMap<u32, usize> = sim.world.workers.iter().map(|(id, w)| (*id, w.to_worker.len())).collect();
        let (j0, c0) = (sim.job.lines.len(), sim.core.lines.len());

        // ---- the action on the real code
        sim.replay(std::slice::from_ref(a));

        let jl: Vec<String> = sim.job.lines[j0..].to_vec();
        let cl: Vec<String> = sim.core.lines[c0..].to_vec();
        if !jl.iter().chain(cl.iter()).any(|l| l.starts_with("act ")) {
            continue; // the action was not enabled (cannot happen when the acts come from a run of the same code)
        }
        tr.line(&format!("act {a}"));
        let panicked = sim.panicked.clone();
        let (rets, subs) = parse_multi(&cl);
        for s in &subs {
            if s.first().map(|x| x == "newrq").unwrap_or(false) && s.len() >= 3 {
                if let Ok(id) = s[1].parse::<usize>() {
                    let mts: Vec<u64> = s[2].split('/').map(|v| variant_min_time(v).unwrap_or(0)).collect();
                    if id == rq_min.len() {
                        rq_min.push(mts);
                    } else if id < rq_min.len() {
                        rq_min[id] = mts;
                    }
                }
            }
        }
        let mut server_side = false;
        let mut worker_side = false;
        let mut extra_mons: Vec<String> = vec![];
        let world = &sim.world;
        let new_msgs = |w: u32, from: usize| -> Vec<&FromWorkerMessage> {
            world.workers.get(&w).map(|x| x.to_server.iter().skip(from).collect()).unwrap_or_default()
        };
        let mut op = match kind {
            "client" => {
                server_side = true;
                let jobop = jl.iter().find_map(|l| l.strip_prefix("op ").filter(|o| !o.starts_with("cb."))).unwrap_or("?");
                format!("client {} ## {}", jobop, subs_text(&subs)).trim_end().to_string()
            }
            "schedule" => {
                server_side = true;
                format!("schedule rets={} {}", rets, subs_text(&subs))
            }
            "add_worker" => {
                server_side = true;
                let id: u32 = subs.first().and_then(|s| s.get(1)).and_then(|t| t.parse().ok()).unwrap_or(0);
                let rem = world.workers.get(&id).and_then(|w| w.config.time_limit).map(|d| d.as_millis().to_string()).unwrap_or("-".into());
                format!("add_worker {} rem={} rets={} {}", id, rem, rets, subs_text(&subs))
            }
            "lose_worker" => {
                server_side = true;
                // `on_remove_worker` sends every task that was being retracted from the lost worker and has a redirect target
                // in its own ComputeTasks message, in the iteration order of the task map (a hash map): the core model sends
                // them in ITS list order. The real order (first task of every ComputeTasks message this action appended to a
                // queue that received at least two) is recorded as a choice of the run.
                let mut ord: Vec<String> = vec![];
                for (id, w) in &world.workers {
                    let firsts: Vec<String> = w
                        .to_worker
                        .iter()
                        .skip(s2w_len.get(id).copied().unwrap_or(0))
                        .filter_map(|m| if let ToWorkerMessage::ComputeTasks(c) = m { c.tasks.first().map(|t| tid(t.id)) } else { None })
                        .collect();
                    if firsts.len() >= 2 {
                        ord.push(format!("{}:{}", id, firsts.join(",")));
                    }
                }
                format!("lose_worker {} ord={} rets={} {}", toks[0], join_or_dash(ord, ";"), rets, subs_text(&subs))
            }
            "deliver" if toks[0] == "w2s" => {
                server_side = true;
                let msg = if subs.is_empty() { pre.as_ref().and_then(|p| p.head_w2s.clone()).unwrap_or("other".to_string()) } else { subs_text(&subs) };
                format!("deliver_w2s {} rets={} {}", toks[1], rets, msg)
            }
            "deliver" => {
                worker_side = true;
                let w: u32 = toks[1].parse().unwrap();
                let body = match pre.as_ref().and_then(|p| p.head_s2w.as_ref().map(|m| (p, m))) {
                    None => "other".to_string(),
                    Some((p, ToWorkerMessage::ComputeTasks(m))) => {
                        let post = world.workers.get(&w).map(|x| x.vw.snapshot()).unwrap_or_default();
                        let msgs = new_msgs(w, p.n_to_server);
                        let upd: Vec<&WorkerTaskUpdate> =
                            msgs.iter().filter_map(|m| if let FromWorkerMessage::TaskUpdate(us) = m { Some(us.iter()) } else { None }).flatten().collect();
                        let backlog_len = |s: &VerifWorkerSnapshot, rq: u32| s.prefilled.iter().find(|(r, _)| r.as_num() == rq).map(|(_, ts)| ts.len()).unwrap_or(0);
                        let items: Vec<String> = m
                            .tasks
                            .iter()
                            .map(|t| {
                                let rq = t.resource_rq_id.as_num();
                                // The allocator's answer to the `try_allocate` of an assigned entry. Not observable through the
                                // world's hooks: inferred from what the REAL worker reported about the task. Running / Failed =
                                // allocated; RejectRequest = refused (soft reject), unless the worker's remaining life time is below
                                // the variant's time request (hard reject: the task is refused AFTER a successful allocation) — then
                                // from the blocked set / backlog before and after (a refused allocation blocks the request; a
                                // successful one runs the prefill loop, which empties the backlog of the class in that regime).
                                let ans = match t.resource_rq_variant {
                                    None => "-",
                                    Some(rv) => {
                                        let rv = rv.as_num() as u32;
                                        match upd.iter().find(|u| upd_task(u) == Some(t.id)) {
                                            Some(WorkerTaskUpdate::RejectRequest { .. }) => {
                                                let mt = rq_min.get(rq as usize).and_then(|v| v.get(rv as usize)).copied().unwrap_or(0);
                                                let hard = p.rem.map(|r| r < mt).unwrap_or(false);
                                                if !hard {
                                                    "n"
                                                } else {
                                                    let key = |s: &VerifWorkerSnapshot| s.blocked.iter().any(|(a, b)| a.as_num() == rq && b.as_num() as u32 == rv);
                                                    if !key(&p.snap) {
                                                        if key(&post) { "n" } else { "k" }
                                                    } else if backlog_len(&p.snap, rq) > 0 && backlog_len(&post, rq) == 0 {
                                                        "k"
                                                    } else {
                                                        "n"
                                                    }
                                                }
                                            }
                                            _ => "k",
                                        }
                                    }
                                };
                                format!(
                                    "{}:{}:{}:{}:{}:{}",
                                    tid(t.id),
                                    t.instance_id.as_num(),
                                    rq,
                                    t.resource_rq_variant.map(|v| v.as_num().to_string()).unwrap_or("p".into()),
                                    m.shared_data.get(t.shared_index).and_then(|s| s.time_limit).map(|d| d.as_millis().to_string()).unwrap_or("-".into()),
                                    ans
                                )
                            })
                            .collect();
                        format!("compute {} {}", fl_text(&fail_set, p.rem), items.join(" "))
                    }
                    Some((_, ToWorkerMessage::RetractTasks(m))) => format!("retract {}", tids(&m.ids)),
                    Some((p, ToWorkerMessage::CancelTasks(m))) => {
                        let ctl = world.launch.borrow();
                        let ends: Vec<(TaskId, &str)> =
                            ctl.stopped.iter().skip(stopped_len).filter(|(x, _, _)| *x == w).map(|(_, t, tmo)| (*t, if *tmo { "tmo" } else { "can" })).collect();
                        let msgs = new_msgs(w, p.n_to_server);
                        format!("cancel {} {} ends={}", tids(&m.ids), fl_text(&fail_set, p.rem), join_or_dash(ends_text(&ends, &p.snap, &m.ids, &msgs), "/"))
                    }
                    Some((_, ToWorkerMessage::NewResourceRequest(id, _))) => match rq_min.get(id.as_num() as usize) {
                        Some(mts) => format!("newrq {} {}", id.as_num(), mts.iter().map(|x| x.to_string()).collect::<Vec<_>>().join("/")),
                        None => format!("newrq {} ?", id.as_num()),
                    },
                    Some(_) => "other".to_string(),
                };
                format!("deliver_s2w {} {}", w, body)
            }
            "end_task" => {
                worker_side = true;
                let w: u32 = toks[0].parse().unwrap();
                let en = match (&pre, parse_tid(toks[1])) {
                    (Some(p), Some(t)) => {
                        let msgs = new_msgs(w, p.n_to_server);
                        ends_text(&[(t, toks[2])], &p.snap, &[], &msgs).pop().and_then(|e| e.rsplit_once(':').map(|(_, en)| en.to_string())).unwrap_or("-".into())
                    }
                    _ => "-".to_string(),
                };
                format!("end_task {} {} {} {} en={}", w, toks[1], toks[2], fl_text(&fail_set, pre.as_ref().and_then(|p| p.rem)), en)
            }
            "age_worker" => {
                let w: u32 = toks[0].parse().unwrap();
                let rem = world.workers.get(&w).and_then(|x| x.vw.remaining_ms()).map(|r| r.to_string()).unwrap_or("-".into());
                format!("age_worker {} {} rem={}", w, toks[1], rem)
            }
            other => format!("nop {} {}", other, rest).trim_end().to_string(),
        };
        if panicked.is_some() {
            op.push_str(" !panic");
        }
        tr.op(&op);

        // ---- outputs
        let mut mons: Vec<String> = vec![];
        for l in jl.iter().chain(cl.iter()) {
            if l.starts_with("mon ") && !mons.contains(l) {
                mons.push(l.clone());
            }
        }
        if let Some(p) = &panicked {
            let site = if is_job_layer_panic(p) {
                "job"
            } else if worker_side {
                "worker"
            } else {
                "core"
            };
            tr.out(&format!("!panic {site}"));
            for m in &mons {
                tr.line(m);
            }
            break;
        }
        let mut out: Vec<String> = vec![];
        if server_side {
            for pfx in ["out ev ", "out resp ", "out core "] {
                out.extend(jl.iter().filter(|l| l.starts_with(pfx)).cloned());
            }
            for pfx in ["out msg ", "out cb "] {
                out.extend(cl.iter().filter(|l| l.starts_with(pfx)).cloned());
            }
            server_lines(world, &mut out);
        }
        if worker_side {
            let ctl = world.launch.borrow();
            for l in ctl.log.iter().skip(launches_len) {
                out.push(format!("out launch {} {} {} {} {}", l.worker, tid(l.task), l.instance, l.rv, if l.ok { "ok" } else { "fail" }));
            }
            let mut stops: Vec<(u32, TaskId, bool)> = ctl.stopped.iter().skip(stopped_len).cloned().collect();
            stops.sort();
            for (w, t, tmo) in stops {
                out.push(format!("out stop {} {} {}", w, tid(t), if tmo { "timeout" } else { "cancel" }));
            }
        }
        if server_side || worker_side {
            worker_lines(world, &mut out);
            // monitor c06.single (conclusion of sysw_c06_single_partial on the REAL workers): a task the core knows is in the
            // running set of at most one worker
            let known: BTreeSet<TaskId> = world.server.task_ids().into_iter().collect();
            let mut seen: BTreeMap<TaskId, u32> = BTreeMap::new();
            for (id, w) in &world.workers {
                for r in w.vw.snapshot().running {
                    if let Some(other) = seen.insert(r.task_id, *id) {
                        if known.contains(&r.task_id) {
                            extra_mons.push(format!(
                                "mon FAIL c06.single runs-on-two-workers task {} is in the running set of workers {} and {} at the same time",
                                tid(r.task_id), other, id
                            ));
                        }
                    }
                }
            }
        }
        if is_cancel {
            // monitor c08.cancel_sent (conclusion of sysw_c08_cancel_sent on the REAL queues): every worker that was running a
            // task the core knew and the cancel named has a CancelTasks naming it in its queue after the request is answered
            let named: Vec<TaskId> = subs
                .iter()
                .filter(|s| s.first().map(|x| x == "cancel").unwrap_or(false))
                .flat_map(|s| s.get(1).map(|l| l.split(',').filter_map(parse_tid).collect::<Vec<_>>()).unwrap_or_default())
                .collect();
            for (w, running) in &running_pre {
                for t in running {
                    if named.contains(t) && core_pre.contains(t) {
                        let sent = world.workers.get(w).map(|x| x.to_worker.iter().any(|m| matches!(m, ToWorkerMessage::CancelTasks(c) if c.ids.contains(t)))).unwrap_or(true);
                        if !sent {
                            extra_mons.push(format!(
                                "mon FAIL c08.cancel_sent no-cancel-message worker {} runs task {} of a cancelled job but no CancelTasks naming it is in its queue after the cancel was answered",
                                w, tid(*t)
                            ));
                        }
                    }
                }
            }
        }
        for l in out {
            tr.line(&l);
        }
        for m in mons.iter().chain(extra_mons.iter()) {
            tr.line(m);
        }
    }
}

/// the `act` lines of the case with this sub-seed (exactly the run of components `job` / `core`)
fn generate_acts(subseed: u64, steps: u32) -> (String, Vec<String>) {
    let mut sim = Sim::new(subseed);
    let header = sim.header();
    for _ in 0..steps {
        if sim.panicked.is_some() {
            break;
        }
        sim.step();
    }
    if sim.panicked.is_none() {
        sim.drain(60);
    }
    (header, acts_of(&sim))
}

fn acts_of(sim: &Sim) -> Vec<String> {
    sim.core.lines.iter().filter_map(|l| l.strip_prefix("act ").map(|s| s.to_string())).collect()
}

pub fn run_case(tr: &mut Trace, idx: u64, subseed: u64, steps: u32) {
    let (header, acts) = generate_acts(subseed, steps);
    let line = format!("case {idx} {subseed} sysw steps={steps} {header}");
    tr.line(&line);
    let mut sim = Sim::for_replay(&line);
    observe_case(tr, &mut sim, &acts);
    tr.end();
}

pub fn main(mode: &str, args: &[String]) {
    let a = GenArgs::parse(args);
    let mut tr = Trace::new();
    match mode {
        "gen" => {
            let steps: u32 = a.value("--steps").map(|s| s.parse().unwrap()).unwrap_or(if a.thorough { 120 } else { 60 });
            if let Some(d) = a.value("--exhaust") {
                // bounded exhaustive exploration (the runs of `hqv job|core gen --exhaust d`), each observed by a replay
                let depth: usize = d.parse().unwrap();
                let only: Option<u32> = a.value("--scenario").map(|s| s.parse().unwrap());
                for sc in (0..10u32).filter(|sc| only.map_or(*sc < 6, |o| o == *sc)) {
                    crate::sim::exhaust(sc, depth, a.shard, a.nshards, |sim, leaf| {
                        let line = format!("case {} 0 sysw exhaust={depth} scenario={sc} {}", a.shard * 100_000_000 + sc as u64 * 10_000_000 + leaf, sim.header());
                        let acts = acts_of(sim);
                        tr.line(&line);
                        let mut sim2 = Sim::for_replay(&line);
                        observe_case(&mut tr, &mut sim2, &acts);
                        tr.end();
                    });
                }
                tr.flush();
                return;
            }
            for k in 0..a.cases {
                let subseed = a.case_seed(k);
                run_case(&mut tr, a.shard * 1_000_000 + k, subseed, steps);
            }
        }
        "case" => {
            let subseed: u64 = args[0].parse().unwrap();
            let steps: u32 = args[1].parse().unwrap();
            run_case(&mut tr, 0, subseed, steps);
        }
        "replay" => {
            // trace(s) on stdin: every case is re-executed from its `act` lines
            use std::io::BufRead;
            let stdin = std::io::stdin();
            let mut header: Option<String> = None;
            let mut acts: Vec<String> = Vec::new();
            for line in stdin.lock().lines() {
                let line = line.unwrap();
                if line.starts_with("case ") {
                    header = Some(line);
                    acts.clear();
                } else if let Some(a) = line.strip_prefix("act ") {
                    acts.push(a.to_string());
                } else if line == "end" {
                    if let Some(h) = header.take() {
                        tr.line(&h);
                        let mut sim = Sim::for_replay(&h);
                        observe_case(&mut tr, &mut sim, &acts);
                        tr.end();
                    }
                }
            }
        }
        _ => {
            eprintln!("component sysw: unknown mode {mode}");
            std::process::exit(2);
        }
    }
    tr.flush();
}
