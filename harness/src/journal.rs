//! Component `journal` (see /verif/FRAMEWORK.md): event journal + restore + prune (C10, C11, C12).
//!
//! `hqv journal gen …` generates producible journals (genr.rs), writes them with the REAL `JournalWriter`,
//! restores every chosen prefix / torn tail with the REAL `StateRestorer` (hook), prunes with the REAL
//! `prune_journal`, prints canonical results and evaluates the monitors (exec.rs, spec.rs).
//! `hqv journal replay` re-executes the `op` lines of a trace read from stdin.
mod exec;
mod genr;
mod rec;
mod spec;

use std::io::BufRead;
use std::path::PathBuf;

use crate::util::{GenArgs, Rng, Trace, parse_list};
use exec::Exec;
use genr::Gen;
use rec::{Desc, GTask, Rec};

fn workdir() -> tempfile::TempDir {
    let shm = PathBuf::from("/dev/shm");
    if shm.is_dir() {
        tempfile::TempDir::with_prefix_in("hqv-journal", &shm).unwrap()
    } else {
        tempfile::TempDir::with_prefix("hqv-journal").unwrap()
    }
}

fn u32s(s: &str) -> Vec<u32> {
    parse_list(s).into_iter().map(|x| x as u32).collect()
}

/// one malformed variant of a producible journal (the model must predict the error / panic / silent acceptance)
fn mutate(rng: &mut Rng, recs: &mut Vec<Rec>) -> &'static str {
    let n = recs.len();
    let pos = rng.below(n as u64) as usize;
    match rng.below(11) {
        0 => { recs.remove(pos); "drop" }
        1 => { let r = recs[pos].clone(); recs.insert(pos, r); "dup" }
        2 => { if pos + 1 < n { recs.swap(pos, pos + 1); } "swap" }
        3 => { recs.insert(pos, Rec::TFin(1, rng.below(3) as u32)); "tfin-anywhere" }
        4 => { recs.insert(pos, Rec::JClose(rng.range(1, 4) as u32)); "jclose-anywhere" }
        5 => { recs.insert(pos, Rec::JCancel(rng.range(1, 9) as u32)); "jcancel-anywhere" }
        6 => { recs.insert(pos, Rec::QNew(1)); "qnew-dup" }
        7 => {
            recs.insert(pos, Rec::Submit { job: 1, closed: false, mf: None, desc: Desc::Array { ranges: vec![(0, 2, 1)], entries: None } });
            "attach-existing-ids"
        }
        8 => {
            let bad = rng.chance(1, 2);
            recs.insert(pos, Rec::Submit { job: 40 + rng.below(2) as u32, closed: true, mf: None, desc: Desc::Graph(vec![
                GTask { id: 0, deps: vec![], rq_ok: true },
                GTask { id: if bad { 0 } else { 1 }, deps: vec![if bad { 0 } else { 5 }], rq_ok: true },
            ]) });
            "graph-invalid"
        }
        9 => {
            recs.insert(pos, Rec::Submit { job: 50, closed: true, mf: None, desc: Desc::Graph(vec![GTask { id: 0, deps: vec![], rq_ok: false }]) });
            "graph-bad-rq"
        }
        _ => {
            recs.insert(pos, Rec::Submit { job: 60, closed: true, mf: None, desc: Desc::Array { ranges: vec![(0, 3, 1), (2, 2, 1)], entries: Some(2) } });
            "array-overlap"
        }
    }
}

fn gen_case(tr: &mut Trace, idx: u64, subseed: u64, thorough: bool, kind: &str, actions: u32) {
    let dir = workdir();
    let mut g = Gen::new(subseed);
    g.multi_job_batches = kind == "multibatch";
    g.fail_before_start = kind == "failstart";
    let mut recs;
    if kind == "sim" {
        // the journal a REAL server run persists: the simulated cluster (sim.rs) with a journal sink
        recs = vec![Rec::Start("verif-uid".to_string())];
        recs.extend(sim_journal(subseed, actions + 15));
    } else {
        for _ in 0..actions { g.action(); }
        recs = g.out.clone();
    }
    let mut rng = Rng::new(subseed ^ 0xABCDEF);
    let mut what = "-";
    if kind == "malformed" {
        what = mutate(&mut rng, &mut recs);
    }
    let mut ex = Exec::new(dir.path(), kind != "malformed");
    tr.case(idx, subseed, &format!("hdr={} kind={kind} actions={actions} mut={what} tier={}", ex.hdr, if thorough { "t" } else { "q" }));
    for r in &recs {
        let toks = r.tokens();
        let size = ex.append(r.clone());
        tr.op(&format!("rec {size} {toks}"));
    }
    let n = recs.len();
    // --- restores at record boundaries
    let mut ks: Vec<usize> = (0..=n).collect();
    let limit = if thorough { usize::MAX } else { 40 };
    if ks.len() > limit {
        // keep the end, the start and a random sample
        let mut keep = vec![0, n];
        while keep.len() < limit {
            let k = rng.below(n as u64 + 1) as usize;
            if !keep.contains(&k) { keep.push(k); }
        }
        keep.sort();
        ks = keep;
    }
    for k in &ks { ex.op_restore(tr, *k, 0); }
    // --- torn tails: byte offsets inside the last 3 records (thorough: all; quick: 6 random ones)
    let first = n.saturating_sub(3);
    let mut cuts: Vec<(usize, u64)> = vec![];
    for k in first..n {
        let size = ex.boundary(k + 1) - ex.boundary(k);
        for e in 1..size { cuts.push((k, e)); }
    }
    if !thorough {
        let mut sel = vec![];
        for _ in 0..6 { if !cuts.is_empty() { sel.push(*rng.pick(&cuts)); } }
        cuts = sel;
    }
    for (k, e) in &cuts { ex.op_restore(tr, *k, *e); }
    // --- the restarted server continues the journal: reopen (truncating a torn tail), append, restart again
    if kind != "malformed" {
        let mut rs: Vec<(usize, u64)> = cuts.iter().copied().take(if thorough { 12 } else { 3 }).collect();
        rs.push((n, 0));
        rs.push((rng.below(n as u64 + 1) as usize, 0));
        for (k, e) in rs { ex.op_resume(tr, k, e); }
        // the same through a REAL server session (bootstrap::init_hq_server over TCP): a cut inside the FIRST record, a random
        // torn tail, the whole journal; only prefixes without allocation queues
        if actions > 0 && kind != "sim" {
            let no_queue = |k: usize| !recs[..k].iter().any(|r| matches!(r, Rec::QNew(_)));
            let mut bs: Vec<(usize, u64)> = vec![];
            let first = ex.boundary(1) - ex.boundary(0);
            if first > 1 { bs.push((0, 1 + rng.below(first - 1))); }
            if let Some((k, e)) = cuts.first().copied() { bs.push((k, e)); }
            bs.push((n, 0));
            if thorough { bs.push((rng.below(n as u64 + 1) as usize, 0)); }
            for (k, e) in bs { if no_queue(k) { ex.op_boot(tr, k, e); } }
        }
    }
    if thorough && kind == "producible" {
        // offsets inside the header: the reader refuses the file (observation, no monitor)
        for e in 0..ex.hdr { tr.op(&format!("hdrcut {e}")); tr.out(&format!("res {}", hdr_cut(&ex, e))); }
    }
    // --- prune at action boundaries
    if kind != "malformed" && kind != "sim" {
        let pts = g.prune_points.clone();
        let n_prunes = if thorough { 10 } else { 3 };
        for _ in 0..n_prunes {
            let i = rng.below(pts.len() as u64) as usize;
            let (k, lj, lw) = &pts[i];
            ex.op_prune(tr, *k, lj, lw);
            ex.op_prestore(tr);
            // continue the history on the pruned file up to a later action boundary, restore, prune again
            if i + 1 < pts.len() {
                let i2 = (i + 1 + rng.below(4) as usize).min(pts.len() - 1);
                let (k2, lj2, lw2) = &pts[i2];
                for r in recs[*k..*k2].to_vec() { ex.op_papp(tr, r); }
                ex.op_prestore(tr);
                ex.op_pprune(tr, lj2, lw2);
                ex.op_prestore(tr);
                // pruning twice with the same live sets changes nothing
                let before = ex.pruned.clone();
                ex.op_pprune(tr, lj2, lw2);
                if ex.pruned != before {
                    tr.mon_fail("c12.wf", "prune-not-idempotent", "pruning a pruned journal with the same live sets changed it");
                }
                // the same through the REAL journal thread: events, prune request, later events
                ex.op_sprune(tr, *k, lj, lw, *k2);
            }
        }
    }
    tr.end();
}

/// run one simulated-cluster case with the journal sink on and decode what the real `EventStreamer` persisted
fn sim_journal(subseed: u64, steps: u32) -> Vec<Rec> {
    let mut sim = crate::sim::Sim::new_cfg(subseed, true);
    for _ in 0..steps {
        if sim.panicked.is_some() { break; }
        sim.step();
    }
    if sim.panicked.is_none() { sim.drain(60); }
    let evs = sim.world.journal.borrow();
    evs.iter().filter_map(Rec::from_event).collect()
}

fn hdr_cut(ex: &Exec, e: u64) -> String {
    let full = std::fs::read(ex.dir.join("journal.bin")).unwrap();
    let p = ex.dir.join("hdr.bin");
    std::fs::write(&p, &full[..e as usize]).unwrap();
    exec::real_restore(&p).status
}

fn replay(tr: &mut Trace) {
    let stdin = std::io::stdin();
    let mut cur: Option<(tempfile::TempDir, Exec)> = None;
    for line in stdin.lock().lines() {
        let line = line.unwrap();
        let toks: Vec<&str> = line.split_whitespace().collect();
        match toks.as_slice() {
            ["case", idx, subseed, params @ ..] => {
                if cur.is_some() { tr.end(); }
                let dir = workdir();
                let monitors = !params.iter().any(|p| *p == "kind=malformed");
                let ex = Exec::new(dir.path(), monitors);
                let params: Vec<String> = params.iter().map(|p| if p.starts_with("hdr=") { format!("hdr={}", ex.hdr) } else { p.to_string() }).collect();
                tr.case(idx.parse().unwrap_or(0), subseed.parse().unwrap_or(0), &params.join(" "));
                cur = Some((dir, ex));
            }
            ["op", rest @ ..] => {
                let Some((_, ex)) = cur.as_mut() else { continue };
                match rest {
                    ["rec", _size, r @ ..] => match Rec::parse(r) {
                        Some(rec) => { let toks = rec.tokens(); let size = ex.append(rec); tr.op(&format!("rec {size} {toks}")); }
                        None => { tr.op(&rest.join(" ")); tr.out("!bad-op"); }
                    },
                    ["restore", k, e] => ex.op_restore(tr, k.parse().unwrap(), e.parse().unwrap()),
                    ["resume", k, e, ..] => ex.op_resume(tr, k.parse().unwrap(), e.parse().unwrap()),
                    ["boot", k, e, ..] => ex.op_boot(tr, k.parse().unwrap(), e.parse().unwrap()),
                    ["prune", k, lj, lw] => ex.op_prune(tr, k.parse().unwrap(), &u32s(lj), &u32s(lw)),
                    ["papp", r @ ..] => match Rec::parse(r) {
                        Some(rec) => ex.op_papp(tr, rec),
                        None => { tr.op(&rest.join(" ")); tr.out("!bad-op"); }
                    },
                    ["pprune", lj, lw] => ex.op_pprune(tr, &u32s(lj), &u32s(lw)),
                    ["prestore"] => ex.op_prestore(tr),
                    ["sprune", k, lj, lw, k2] => ex.op_sprune(tr, k.parse().unwrap(), &u32s(lj), &u32s(lw), k2.parse().unwrap()),
                    _ => { tr.op(&rest.join(" ")); tr.out("!bad-op"); }
                }
            }
            ["end"] => { if cur.take().is_some() { tr.end(); } }
            _ => {}
        }
    }
    if cur.is_some() { tr.end(); }
}

pub fn main(mode: &str, args: &[String]) {
    let mut tr = Trace::new();
    match mode {
        "gen" => {
            let a = GenArgs::parse(args);
            let actions: u32 = a.value("--actions").map(|s| s.parse().unwrap()).unwrap_or(if a.thorough { 70 } else { 45 });
            for k in 0..a.cases {
                let subseed = a.case_seed(k);
                // per 8 cases: 1 malformed, 1 with batches spanning two jobs, 1 with failures before the first start
                let kind = match k % 8 { 1 | 4 => "sim", 3 => "failstart", 5 => "malformed", 6 => "multibatch", _ => "producible" };
                let kind = a.value("--kind").unwrap_or(kind).to_string();
                gen_case(&mut tr, a.shard * 1_000_000 + k, subseed, a.thorough, &kind, actions);
                tr.flush();
            }
        }
        "replay" => replay(&mut tr),
        _ => {
            eprintln!("component journal: unknown mode {mode}");
            std::process::exit(2);
        }
    }
    tr.flush();
}
