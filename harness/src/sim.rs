//! Scenario generator over the `World` (real server + job layer + real workers) and the textual views
//! of one run: the job view (component `job`), later the core view and the worker view.
use std::collections::{BTreeMap, BTreeSet};

use hyperqueue::client::status::Status;
use hyperqueue::common::arraydef::{IntArray, IntRange};
use hyperqueue::server::event::payload::EventPayload;
use hyperqueue::transfer::messages::{
    CancelJobResponse, CancelRequest, CloseJobRequest, CloseJobResponse, ForgetJobRequest, FromClientMessage,
    IdSelector, JobDescription, JobSubmitDescription, JobTaskDescription, LocalResourceRqId, PinMode, SubmitRequest,
    SubmitResponse, TaskDescription, TaskKind, TaskKindProgram, TaskWithDependencies, ToClientMessage,
};
use smallvec::smallvec;
use tako::gateway::{CrashLimit, LostWorkerReason, ResourceRequest, ResourceRequestEntry, ResourceRequestVariants};
use tako::internal::messages::worker::ToWorkerMessage;
use tako::program::ProgramDefinition;
use tako::resources::{AllocationRequest, ResourceAmount};
use tako::resources::ResourceDescriptor;
use tako::worker::{ServerLostPolicy, WorkerConfiguration};
use tako::{JobId, JobTaskId, TaskId, WorkerId};

use crate::util::{Rng, list};
use crate::world::{Callback, CbKind, EndKind, JobSnap, World, WorldConfig, drain_events, snapshot_jobs};

pub fn tid(t: TaskId) -> String {
    format!("{}.{}", t.job_id().as_num(), t.job_task_id().as_num())
}

pub fn tids(ts: &[TaskId]) -> String {
    list(ts.iter().map(|t| tid(*t)))
}

fn sorted_tids(ts: &[TaskId]) -> String {
    let mut v = ts.to_vec();
    v.sort();
    tids(&v)
}

pub fn reason_name(r: LostWorkerReason) -> &'static str {
    match r {
        LostWorkerReason::Stopped => "stopped",
        LostWorkerReason::ConnectionLost => "connlost",
        LostWorkerReason::HeartbeatLost => "hblost",
        LostWorkerReason::IdleTimeout => "idle",
        LostWorkerReason::TimeLimitReached => "timelimit",
    }
}

pub fn event_line(e: &EventPayload) -> Option<String> {
    Some(match e {
        EventPayload::WorkerConnected(w, _) => format!("ev wnew {}", w.as_num()),
        EventPayload::WorkerLost(w, r) => format!("ev wlost {} {}", w.as_num(), reason_name(*r)),
        EventPayload::WorkerOverviewReceived(_) => return None,
        EventPayload::Submit { job_id, closed_job, .. } => format!("ev submit {} {}", job_id.as_num(), *closed_job as u8),
        EventPayload::JobCompleted(j) => format!("ev jobCompleted {}", j.as_num()),
        EventPayload::JobOpen(j, _) => format!("ev jobOpen {}", j.as_num()),
        EventPayload::JobClose(j) => format!("ev jobClose {}", j.as_num()),
        EventPayload::JobIdle(j) => format!("ev jobIdle {}", j.as_num()),
        EventPayload::JobCancel { job_id, .. } => format!("ev jobCancel {}", job_id.as_num()),
        EventPayload::TaskStarted { task_id, instance_id, worker_ids, rv_id } => format!(
            "ev started {} {} {} {}",
            tid(*task_id),
            instance_id.as_num(),
            list(worker_ids.iter().map(|w| w.as_num())),
            rv_id.as_num()
        ),
        EventPayload::TaskFinished { task_id } => format!("ev finished {}", tid(*task_id)),
        EventPayload::TaskFailed { task_id, .. } => format!("ev failed {}", tid(*task_id)),
        EventPayload::TasksCanceled { task_ids } => format!("ev canceled {}", sorted_tids(task_ids)),
        EventPayload::TasksAborted { task_ids } => format!("ev aborted {}", sorted_tids(task_ids)),
        EventPayload::AllocationQueueCreated(..)
        | EventPayload::AllocationQueueRemoved(..)
        | EventPayload::AllocationQueued { .. }
        | EventPayload::AllocationStarted(..)
        | EventPayload::AllocationFinished(..)
        | EventPayload::ServerStart { .. }
        | EventPayload::ServerStop
        | EventPayload::TaskNotify(_) => return None,
    })
}

use crate::world::status_name;

// ------------------------------------------------------------------------------------------------
// job view

pub struct JobView {
    pub lines: Vec<String>,
}

impl JobView {
    fn snapshot(&mut self, w: &World, jobs: &[JobSnap], live: Option<&[TaskId]>) {
        let _ = w;
        for j in jobs {
            let st = j.status;
            self.lines.push(format!(
                "out job {} open={} n={} cnt={} st={}",
                j.id,
                j.open as u8,
                j.n_tasks,
                list(j.counters.iter()),
                st
            ));
            self.lines.push(format!("out tasks {} {}", j.id, list(j.tasks.iter().map(|(t, s)| format!("{t}:{s}")))));
            // monitors: C13 counters
            let mut cnt = [0u32; 5];
            for (_, s) in &j.tasks {
                match s {
                    'R' => cnt[0] += 1,
                    'F' => cnt[1] += 1,
                    'X' => cnt[2] += 1,
                    'C' => cnt[3] += 1,
                    'A' => cnt[4] += 1,
                    _ => {}
                }
            }
            if cnt != j.counters || j.n_tasks as usize != j.tasks.len() {
                self.lines.push(format!(
                    "mon FAIL c13.counters counters-vs-task-states job {} counters {:?} but task states give {:?}",
                    j.id, j.counters, cnt
                ));
            }
            // C13 "the job state follows the documented rules" (docs/jobs/jobs.md, in this order): a running task -> RUNNING; a
            // waiting task -> WAITING; a failed task -> FAILED; an aborted task -> ABORTED; a canceled task -> CANCELED; else
            // FINISHED (OPENED while the job is open) -- judged on the task states, not on what the code derives its answer from
            {
                let n = |c: char| j.tasks.iter().filter(|(_, s)| *s == c).count();
                let want = if n('R') > 0 { "running" } else if n('W') > 0 { "waiting" } else if n('X') > 0 { "failed" } else if n('A') > 0 { "aborted" } else if n('C') > 0 { "canceled" } else if j.open { "opened" } else { "finished" };
                if st != want && st != "!panic" {
                    self.lines.push(format!("mon FAIL c13.state rule-order job {} is reported as {} but its task states {} give {}", j.id, st, list(j.tasks.iter().map(|(t, s)| format!("{t}:{s}"))), want));
                }
            }
        }
        if let Some(live) = live {
            self.lines.push(format!("out live {}", tids(live)));
            // monitor C02 registry: non-terminal job tasks == tasks known to the core
            let mut hq: Vec<TaskId> = Vec::new();
            for j in jobs {
                for (t, s) in &j.tasks {
                    if *s == 'W' || *s == 'R' {
                        hq.push(TaskId::new(JobId::new(j.id), JobTaskId::new(*t)));
                    }
                }
            }
            hq.sort();
            if hq != live {
                self.lines.push(format!(
                    "mon FAIL c02.registry job-layer-vs-core unfinished tasks shown to the user [{}] but the scheduler knows [{}]",
                    tids(&hq),
                    tids(live)
                ));
            }
        }
    }

    pub fn callbacks(&mut self, w: &World, cbs: &[Callback], completed: &mut BTreeMap<u32, u32>) {
        for cb in cbs {
            let op = match &cb.kind {
                CbKind::Started { task, instance, workers, rv } => {
                    format!("op cb.started {} {} {} {}", tid(*task), instance, list(workers.iter()), rv)
                }
                CbKind::Finished { task } => format!("op cb.finished {}", tid(*task)),
                CbKind::Error { task, consumers, .. } => format!("op cb.error {} {}", tid(*task), tids(consumers)),
                CbKind::WorkerNew { worker } => format!("op cb.wnew {worker}"),
                CbKind::WorkerLost { worker, running, reason } => {
                    format!("op cb.wlost {} {} {}", worker, tids(running), reason_name(*reason))
                }
            };
            self.lines.push(op);
            self.events(&cb.events, completed);
            if let CbKind::Error { ret, .. } = &cb.kind {
                self.lines.push(format!("out ret {}", sorted_tids(ret)));
            }
            self.snapshot(w, &cb.jobs, None);
        }
    }

    pub fn events(&mut self, evs: &[EventPayload], completed: &mut BTreeMap<u32, u32>) {
        for e in evs {
            if let Some(l) = event_line(e) {
                self.lines.push(format!("out {l}"));
            }
            if let EventPayload::JobCompleted(j) = e {
                let c = completed.entry(j.as_num()).or_insert(0);
                *c += 1;
                if *c > 1 {
                    self.lines.push(format!("mon FAIL c13.completed_once reported-twice job {} completed {} times", j.as_num(), c));
                }
            }
        }
    }
}

// ------------------------------------------------------------------------------------------------
// scenario

#[derive(Clone, Debug)]
pub struct SimParams {
    pub steps: u32,
    pub max_workers: u32,
}

pub struct Sim {
    pub world: World,
    pub rng: Rng,
    pub job: JobView,
    pub core: crate::coreview::CoreView,
    pub mon: crate::monitors::Monitors,
    last_client_sent: Vec<(u32, ToWorkerMessage)>,
    sched_before: Option<tako::verif::server::CoreSnapshot>,
    completed: BTreeMap<u32, u32>,
    known_jobs: Vec<u32>,
    open_jobs: Vec<u32>,
    pub panicked: Option<String>,
    /// human-readable log of world actions (debugging / replay files)
    pub log: Vec<String>,
    /// `hq submit --wait` connections: (connection, job id, submit response already seen)
    pub waits: Vec<(crate::world::WaitClient, Option<u32>)>,
    /// generate submits with stream options and slow journal flushes (needs the journal sink)
    pub wait_mode: bool,
    /// open jobs whose latest submit used an unused id below the largest one
    low_submit: Vec<u32>,
    /// request variants every submitted task came with
    task_rqv: BTreeMap<TaskId, ResourceRequestVariants>,
    /// time limit every submitted task came with
    task_tl: BTreeMap<TaskId, Option<std::time::Duration>>,
    /// (proactive_filling_reserve, proactive_filling_max) of the scheduler
    pub prefill: (u32, u32),
    /// exhaustive exploration: remaining (worker losses, cancels, extra workers) on this path
    /// connected workers that were started inside an allocation (they carry the manager info)
    pub alloc_workers: BTreeSet<u32>,
    pub x_budget: (u32, u32, u32),
    /// time request (s) of the multi-node tasks the exhaustive exploration submits (0 = none)
    pub x_mn_min_time: u64,
    pub x_submit: u32,
    pub x_submit_job: Option<u32>,
    /// generator profile: 0 basic, 1 prefill-heavy, 2 multi-node, 3 resources/variants/strict policies,
    /// 4 worker time limits and time requests (incl. variants with different time requests)
    pub profile: u64,
}

fn task_desc(priority: i32, crash: CrashLimit, time_limit: Option<u64>) -> TaskDescription {
    TaskDescription {
        kind: TaskKind::ExternalProgram(TaskKindProgram {
            program: ProgramDefinition {
                args: vec!["true".into()],
                env: Default::default(),
                stdout: Default::default(),
                stderr: Default::default(),
                stdin: vec![],
                cwd: "/tmp".into(),
            },
            pin_mode: PinMode::None,
            task_dir: false,
        }),
        time_limit: time_limit.map(std::time::Duration::from_millis),
        priority: priority.into(),
        crash_limit: crash,
    }
}

fn cpu_rq(cpus: u32, n_nodes: u32) -> ResourceRequestVariants {
    ResourceRequestVariants::new_simple(ResourceRequest {
        n_nodes,
        resources: if n_nodes > 0 {
            Default::default()
        } else {
            smallvec![ResourceRequestEntry {
                resource: "cpus".to_string(),
                policy: AllocationRequest::Compact(ResourceAmount::new_units(cpus)),
            }]
        },
        min_time: Default::default(),
        weight: Default::default(),
    })
}

pub fn worker_config(worker_id: WorkerId, cpus: u32, group: &str, time_limit_ms: Option<u64>) -> WorkerConfiguration {
    WorkerConfiguration {
        resources: ResourceDescriptor::simple_cpus(cpus),
        listen_address: format!("1.1.1.{worker_id}:123"),
        hostname: format!("test{worker_id}"),
        group: group.to_string(),
        work_dir: Default::default(),
        heartbeat_interval: std::time::Duration::from_millis(1000),
        overview_configuration: Default::default(),
        idle_timeout: None,
        time_limit: time_limit_ms.map(std::time::Duration::from_millis),
        retract_check_interval: std::time::Duration::from_secs(30),
        on_server_lost: ServerLostPolicy::Stop,
        min_utilization: 0.0,
        extra: Default::default(),
    }
}

/// request classes used by the generator
pub fn gen_rq(rng: &mut Rng, profile: u64) -> ResourceRequestVariants {
    let cpu = |policy: AllocationRequest| ResourceRequestEntry { resource: "cpus".to_string(), policy };
    let gpu = |n: u32| ResourceRequestEntry { resource: "gpus".to_string(), policy: AllocationRequest::Compact(ResourceAmount::new_units(n)) };
    let rq = |n_nodes: u32, resources: Vec<ResourceRequestEntry>| ResourceRequest {
        n_nodes,
        resources: resources.into_iter().collect(),
        min_time: Default::default(),
        weight: Default::default(),
    };
    match profile {
        1 => cpu_rq(1, 0),
        2 => {
            if rng.chance(1, 3) {
                ResourceRequestVariants::new_simple(rq(2, vec![]))
            } else {
                cpu_rq(rng.range(1, 2) as u32, 0)
            }
        }
        3 => match rng.below(6) {
            0 => ResourceRequestVariants::new_simple(rq(0, vec![cpu(AllocationRequest::ForceCompact(ResourceAmount::new_units(2)))])),
            1 => ResourceRequestVariants::new_simple(rq(0, vec![cpu(AllocationRequest::Compact(ResourceAmount::new_units(1))), gpu(1)])),
            2 => ResourceRequestVariants::new_simple(rq(0, vec![cpu(AllocationRequest::All)])),
            3 => {
                let a = rq(0, vec![cpu(AllocationRequest::Compact(ResourceAmount::new_units(1))), gpu(1)]);
                let b = rq(0, vec![cpu(AllocationRequest::Compact(ResourceAmount::new_units(2)))]);
                if rng.chance(1, 2) { ResourceRequestVariants::new(smallvec![a, b]) } else { ResourceRequestVariants::new(smallvec![b, a]) }
            }
            4 => ResourceRequestVariants::new_simple(rq(0, vec![cpu(AllocationRequest::Compact(ResourceAmount::new(1, 5000)))])),
            _ => match rng.below(4) {
                // `all` of one resource together with an amount of another one (either order of resource ids)
                0 => ResourceRequestVariants::new_simple(rq(0, vec![cpu(AllocationRequest::All), gpu(1)])),
                1 => ResourceRequestVariants::new_simple(rq(0, vec![
                    cpu(AllocationRequest::Compact(ResourceAmount::new_units(1))),
                    ResourceRequestEntry { resource: "gpus".to_string(), policy: AllocationRequest::All },
                ])),
                _ => cpu_rq(1, 0),
            },
        },
        4 if rng.chance(1, 6) => {
            // a multi-node request with a time request (workers of profile 4 have time limits)
            let mut r = rq(rng.range(1, 2) as u32, vec![]);
            r.min_time = std::time::Duration::from_secs(*rng.pick(&[0u64, 600, 3600]));
            ResourceRequestVariants::new_simple(r)
        }
        4 => {
            let t = |rng: &mut Rng| std::time::Duration::from_secs(*rng.pick(&[0u64, 0, 600, 3600]));
            let mut a = rq(0, vec![cpu(AllocationRequest::Compact(ResourceAmount::new_units(rng.range(1, 2) as u32)))]);
            a.min_time = t(rng);
            if rng.chance(1, 2) {
                let mut b = rq(0, vec![cpu(AllocationRequest::Compact(ResourceAmount::new_units(1))), gpu(1)]);
                b.min_time = t(rng);
                if rng.chance(1, 2) { ResourceRequestVariants::new(smallvec![a, b]) } else { ResourceRequestVariants::new(smallvec![b, a]) }
            } else {
                ResourceRequestVariants::new_simple(a)
            }
        }
        _ => cpu_rq(rng.range(1, 2) as u32, 0),
    }
}

pub fn gen_worker_resources(rng: &mut Rng, profile: u64) -> (ResourceDescriptor, Vec<u64>) {
    use tako::resources::{ResourceDescriptorItem, ResourceDescriptorKind};
    match profile {
        1 => {
            let c = rng.range(1, 2) as u32;
            (ResourceDescriptor::simple_cpus(c), vec![c as u64 * 10_000])
        }
        4 => {
            let c = rng.range(2, 4) as u32;
            let mut items = vec![ResourceDescriptorItem { name: "cpus".to_string(), kind: ResourceDescriptorKind::regular_sockets(1, c) }];
            let mut totals = vec![c as u64 * 10_000];
            if rng.chance(2, 3) {
                items.push(ResourceDescriptorItem::range("gpus", 0, 0));
                totals.push(10_000);
            }
            (ResourceDescriptor::new(items, Default::default()), totals)
        }
        3 if rng.chance(1, 4) => {
            // a big worker: several tasks of a multi-variant request fit only when the variants are mixed
            let items = vec![
                ResourceDescriptorItem { name: "cpus".to_string(), kind: ResourceDescriptorKind::regular_sockets(2, 4) },
                ResourceDescriptorItem::range("gpus", 0, 3),
            ];
            (ResourceDescriptor::new(items, Default::default()), vec![80_000, 40_000])
        }
        3 => {
            let sockets = rng.range(1, 2) as u32;
            let per = rng.range(1, 2) as u32;
            let mut items = vec![ResourceDescriptorItem { name: "cpus".to_string(), kind: ResourceDescriptorKind::regular_sockets(sockets, per) }];
            let mut totals = vec![(sockets * per) as u64 * 10_000];
            if rng.chance(1, 2) {
                let g = rng.range(1, 2) as u32;
                items.push(ResourceDescriptorItem::range("gpus", 0, g - 1));
                totals.push(g as u64 * 10_000);
            }
            (ResourceDescriptor::new(items, Default::default()), totals)
        }
        _ => {
            let c = rng.range(1, 4) as u32;
            (ResourceDescriptor::simple_cpus(c), vec![c as u64 * 10_000])
        }
    }
}

fn ranges_text(ranges: &[(u32, u32, u32)]) -> String {
    if ranges.is_empty() {
        "-".to_string()
    } else {
        ranges.iter().map(|(s, c, st)| format!("{s}:{c}:{st}")).collect::<Vec<_>>().join(";")
    }
}

impl Sim {
    pub fn new(seed: u64) -> Sim {
        Sim::new_cfg(seed, false)
    }

    /// journal sink on + submits with `--wait` + slow journal flushes
    pub fn new_wait(seed: u64) -> Sim {
        let mut s = Sim::new_cfg(seed, true);
        s.wait_mode = true;
        s
    }

    /// `journal`: the real `EventStreamer` is given a journal sink (see `World::journal`)
    pub fn new_cfg(seed: u64, journal: bool) -> Sim {
        // proactive filling configuration: a function of the seed alone (printed in the case header for replays)
        let mut r2 = Rng::new(seed ^ 0x5EED_F111);
        let prefill = (*r2.pick(&[0u32, 1, 1, 2]), *r2.pick(&[1u32, 1, 2, 3]));
        Sim::build(seed, journal, prefill)
    }

    /// header tokens of a case (`reserve=R max=M`)
    pub fn header(&self) -> String {
        format!("reserve={} max={}", self.prefill.0, self.prefill.1)
    }

    /// a simulator for replaying the `act` lines of a case with the given header
    pub fn for_replay(header: &str) -> Sim {
        let get = |k: &str, d: u32| header.split(' ').find_map(|t| t.strip_prefix(k).and_then(|v| v.parse().ok())).unwrap_or(d);
        let prefill = (get("reserve=", 1), get("max=", 1));
        let wait = header.split(' ').any(|t| t == "wait=1");
        let mut s = Sim::build(0, wait, prefill);
        s.wait_mode = wait;
        s
    }

    pub fn build(seed: u64, journal: bool, prefill: (u32, u32)) -> Sim {
        let world = World::new(&WorldConfig { prefill_reserve: prefill.0, prefill_max: prefill.1, journal });
        let mut rng = Rng::new(seed);
        let profile = rng.below(5);
        Sim {
            world,
            profile,
            rng,
            job: JobView { lines: vec![] },
            core: Default::default(),
            mon: Default::default(),
            last_client_sent: Vec::new(),
            sched_before: None,
            completed: Default::default(),
            known_jobs: vec![],
            open_jobs: vec![],
            waits: vec![],
            wait_mode: false,
            low_submit: vec![],
            task_rqv: Default::default(),
            task_tl: Default::default(),
            alloc_workers: Default::default(),
            x_budget: (1, 1, 1),
            x_mn_min_time: 0,
            x_submit: 0,
            x_submit_job: None,
            prefill,
            panicked: None,
            log: vec![format!("profile {profile}")],
        }
    }

    fn guarded<R>(&mut self, f: impl FnOnce(&mut Sim) -> R) -> Option<R> {
        match crate::util::catch(|| f(self)) {
            Ok(r) => Some(r),
            Err(msg) => {
                self.panicked = Some(msg);
                None
            }
        }
    }

    /// after any world action: print recorded callbacks in the job view and the action in the core view
    fn flush_callbacks(&mut self, core_ops: Vec<String>) {
        let cbs = self.world.take_callbacks();
        let mut completed = std::mem::take(&mut self.completed);
        self.job.callbacks(&self.world, &cbs, &mut completed);
        self.completed = completed;
        for cb in &cbs {
            match &cb.kind {
                CbKind::WorkerLost { worker, running, reason } => {
                    self.mon.worker_lost(*worker, running, reason.is_failure());
                    self.mon.events(&cb.events);
                    self.mon.worker_lost_jobs(*worker, running, &cb.jobs);
                }
                CbKind::Error { task, ret, .. } => {
                    self.mon.events(&cb.events);
                    self.mon.max_fails(*task, ret, &cb.jobs);
                    if !ret.is_empty() {
                        self.world.pump_server_messages();
                        let executing = self.world.running_tasks();
                        let pending: Vec<(u32, Vec<TaskId>)> = self
                            .world
                            .workers
                            .iter()
                            .flat_map(|(id, w)| w.to_worker.iter().filter_map(|m| if let ToWorkerMessage::CancelTasks(c) = m { Some((*id, c.ids.clone())) } else { None }))
                            .collect();
                        self.mon.abort_stops(ret, &executing, &pending);
                    }
                }
                _ => self.mon.events(&cb.events),
            }
            self.mon.announced(&cb.jobs);
        }
        self.core_flush(core_ops, &cbs);
        self.after_action();
    }

    /// monitors evaluated on the state after every action
    fn after_action(&mut self) {
        if self.panicked.is_some() {
            return;
        }
        for (w, ids) in std::mem::take(&mut self.world.gave_back) {
            self.mon.worker_gave_back(w, &ids);
        }
        let jobs = snapshot_jobs(&self.world.state_ref);
        let log = self.world.launch.borrow().log.clone();
        self.mon.launches(&log, &jobs);
        self.mon.executing(&self.world.running_tasks());
        self.mon.propagate(&jobs);
        let fails = std::mem::take(&mut self.mon.fails);
        for f in fails {
            self.job.lines.push(f.clone());
            self.core.lines.push(f);
        }
    }

    fn core_flush(&mut self, mut ops: Vec<String>, cbs: &[Callback]) {
        let recs = tako::verif::sched::take();
        self.mon.records(&recs);
        if let Some(before) = self.sched_before.take() {
            self.mon.placement(&recs, &before, self.world.now_ms);
        }
        ops.extend(crate::coreview::record_ops(&recs));
        if recs.iter().any(|r| matches!(r, tako::verif::sched::Record::Sn { .. } | tako::verif::sched::Record::Mn { .. } | tako::verif::sched::Record::PrefillOrder { .. }))
            || ops.iter().any(|o| o == "sched")
        {
            ops.retain(|o| o != "sched");
            ops.push(crate::coreview::schedule_op(&recs, self.world.now_ms));
        }
        let sent = self.world.take_sent();
        if ops.is_empty() {
            return;
        }
        let rets: Vec<Vec<TaskId>> = cbs.iter().filter_map(|c| if let CbKind::Error { ret, .. } = &c.kind { Some(ret.clone()) } else { None }).collect();
        if let Some(p) = &self.panicked {
            // a panic inside the job layer (client callback) is not an outcome of the core model: the op is dropped
            if !is_job_layer_panic(p) {
                self.core.op(&ops, &rets);
                self.core.lines.push("out !panic core".to_string());
            }
            return;
        }
        self.core.op(&ops, &rets);
        let flag = self.world.server.scheduling_flag();
        let snap = self.world.server.core_snapshot();
        self.core.outputs(&sent, cbs, flag, &snap);
        self.mon.resinv(&snap);
    }

    fn act_line(&mut self, l: String) {
        self.job.lines.push(format!("act {l}"));
        self.core.lines.push(format!("act {l}"));
    }

    /// the journal flush becomes slow: flush requests stay unanswered until `release_flush`
    pub fn do_hold_flush(&mut self) {
        self.act_line("hold_flush".to_string());
        self.log.push("hold_flush".to_string());
        self.world.flush_gate.borrow_mut().hold = true;
    }

    pub fn do_release_flush(&mut self) {
        if !self.world.flush_gate.borrow().hold {
            return;
        }
        self.act_line("release_flush".to_string());
        self.log.push("release_flush".to_string());
        self.guarded(|s| s.world.release_flushes());
        self.poll_waits();
    }

    fn poll_waits(&mut self) {
        let mut ws = std::mem::take(&mut self.waits);
        for (c, _) in ws.iter_mut() {
            self.guarded(|s| s.world.wait_poll(c));
        }
        self.waits = ws;
    }

    /// end of a case: what every waiting client was told (C13: the completion report is never missed)
    pub fn wait_reports(&mut self) {
        self.do_release_flush();
        self.poll_waits();
        let ws = std::mem::take(&mut self.waits);
        for (c, job) in &ws {
            let Some(j) = job else { continue };
            let got = c.received.iter().any(|m| matches!(m, ToClientMessage::Event(e) if matches!(e.payload, EventPayload::JobCompleted(id) if id.as_num() == *j)));
            let answered = c.received.iter().any(|m| matches!(m, ToClientMessage::SubmitResponse(SubmitResponse::Ok { .. })));
            let completed = self.completed.get(j).copied().unwrap_or(0) > 0;
            self.job.lines.push(format!("op waitreport {j}"));
            self.job.lines.push(format!("out wait {j} completed={} got={}", completed as u8, got as u8));
            if !answered {
                self.job.lines.push(format!("mon FAIL c13.wait submit-not-answered job {j}: the waiting client never received the submit response"));
            }
            if completed && !got {
                self.job.lines.push(format!(
                    "mon FAIL c13.wait completion-report-missed job {j} was reported completed but the client that submitted it with --wait never received the completion event (it received {} message(s))",
                    c.received.len()
                ));
            }
        }
        self.waits = ws;
    }

    fn client_op(&mut self, op_line: String, msg: FromClientMessage) -> Option<ToClientMessage> {
        let waiting = matches!(msg, FromClientMessage::Submit(_, Some(_)));
        if !waiting {
            // the main connection awaits its own flush: a slow flush ends before it is used
            self.do_release_flush();
        }
        let json = serde_json::to_string(&msg).unwrap();
        self.act_line(format!("client {json} ## {op_line}"));
        self.job.lines.push(format!("op {op_line}"));
        self.log.push(format!("client {op_line}"));
        if waiting {
            let r = self.guarded(|s| s.world.wait_submit_begin(msg));
            let Some(c) = r else {
                let p = self.panicked.clone().unwrap_or_default();
                self.job.lines.push(format!("mon FAIL c09.panic {} {}", self.panic_sig(&p), p.replace('\n', " ")));
                return None;
            };
            let evs = drain_events(&self.world.events);
            let job = evs.iter().find_map(|e| if let EventPayload::Submit { job_id, .. } = e { Some(job_id.as_num()) } else { None });
            let mut completed = std::mem::take(&mut self.completed);
            self.job.events(&evs, &mut completed);
            self.completed = completed;
            self.mon.events(&evs);
            let cbs = self.world.take_callbacks();
            self.last_client_sent = self.world.sent.iter().map(|(w, m)| (*w, crate::world::clone_to_worker(m))).collect();
            self.core_flush(vec![], &cbs);
            if let Some(j) = job {
                if !self.known_jobs.contains(&j) {
                    self.known_jobs.push(j);
                }
            }
            self.waits.push((c, job));
            return Some(ToClientMessage::Finished);
        }
        let resp = self.guarded(|s| s.world.client(msg));
        let Some(resp) = resp else {
            let p = self.panicked.clone().unwrap_or_default();
            if is_job_layer_panic(&p) {
                self.job.lines.push("out !panic job".to_string());
            }
            self.job.lines.push(format!("mon FAIL c09.panic {} {}", self.panic_sig(&p), p.replace('\n', " ")));
            let cbs = self.world.take_callbacks();
            self.core_flush(vec![], &cbs);
            self.core.lines.push(format!("mon FAIL c09.panic {} {}", self.panic_sig(&p), p.replace('\n', " ")));
            return None;
        };
        let evs = drain_events(&self.world.events);
        let mut completed = std::mem::take(&mut self.completed);
        self.job.events(&evs, &mut completed);
        self.completed = completed;
        self.mon.events(&evs);
        let cbs = self.world.take_callbacks();
        self.last_client_sent = self.world.sent.iter().map(|(w, m)| (*w, crate::world::clone_to_worker(m))).collect();
        self.core_flush(vec![], &cbs);
        resp
    }

    /// one client request through the real rpc loop, with the response printed in the job view
    pub fn client_action(&mut self, op_line: String, msg: FromClientMessage) {
        let is_submit = matches!(msg, FromClientMessage::Submit(..));
        let is_forget = matches!(msg, FromClientMessage::ForgetJob(..));
        // C08 "tasks of other jobs are unaffected": the ids in the scheduler's queues before a cancel request
        let queued_before: Vec<TaskId> = if matches!(msg, FromClientMessage::Cancel(..)) {
            let snap = self.world.server.core_snapshot();
            snap.queues.iter().flat_map(|q| q.ready.iter().flat_map(|(_, ids)| ids.iter().copied()).chain(q.prefill.iter().flat_map(|(_, ids)| ids.iter().copied())).collect::<Vec<_>>()).collect()
        } else {
            vec![]
        };
        // the time limit every task of the submit was given
        let submit_tls: Vec<(Option<u32>, Option<std::time::Duration>)> = match &msg {
            FromClientMessage::Submit(r, _) => match &r.submit_desc.task_desc {
                JobTaskDescription::Array { task_desc, .. } => vec![(None, task_desc.time_limit)],
                JobTaskDescription::Graph { tasks, .. } => tasks.iter().map(|t| (Some(t.id.as_num()), t.task_desc.time_limit)).collect(),
            },
            _ => vec![],
        };
        // the request class of every task of the submit (for directed submits of the same class later)
        let submit_rqs: Option<(Option<ResourceRequestVariants>, Vec<(u32, ResourceRequestVariants)>)> = match &msg {
            FromClientMessage::Submit(r, _) => match &r.submit_desc.task_desc {
                JobTaskDescription::Array { resource_rq, .. } => Some((Some(resource_rq.clone()), vec![])),
                JobTaskDescription::Graph { resource_rqs, tasks } => Some((
                    None,
                    tasks.iter().filter_map(|t| resource_rqs.get(t.resource_rq_id.as_usize()).map(|r| (t.id.as_num(), r.clone()))).collect(),
                )),
            },
            _ => None,
        };
        let before: Vec<TaskId> = self.world.server.task_ids();
        // auto-id submit into an existing job: (job, largest id before, number of ids expected)
        let auto: Option<(u32, Option<u32>, u32, Vec<u32>)> = match &msg {
            FromClientMessage::Submit(r, _) => match (&r.job_id, &r.submit_desc.task_desc) {
                (Some(j), JobTaskDescription::Array { ids, entries, .. }) if ids.is_empty() => {
                    let state = self.world.state_ref.get();
                    state.get_job(*j).filter(|job| job.is_open()).map(|job| {
                        let existing: Vec<u32> = job.tasks.keys().map(|k| k.as_num()).collect();
                        (j.as_num(), existing.iter().max().copied(), entries.as_ref().map(|e| e.len() as u32).unwrap_or(1), existing)
                    })
                }
                _ => None,
            },
            _ => None,
        };
        let executing_before = self.world.running_tasks();
        let (jobs_before, empty_before): (Vec<u32>, Vec<u32>) = if is_forget {
            let js = snapshot_jobs(&self.world.state_ref);
            (js.iter().map(|j| j.id).collect(), js.iter().filter(|j| j.tasks.is_empty()).map(|j| j.id).collect())
        } else {
            (vec![], vec![])
        };
        self.world.sent.clear();
        let resp = self.client_op(op_line, msg);
        if self.panicked.is_some() {
            return;
        }
        match resp {
            Some(ToClientMessage::SubmitResponse(r)) => {
                let line = match &r {
                    SubmitResponse::Ok { job, .. } => {
                        let id = job.info.id.as_num();
                        if !self.known_jobs.contains(&id) {
                            self.known_jobs.push(id);
                        }
                        format!("ok {id}")
                    }
                    SubmitResponse::JobNotOpened => "notopened".into(),
                    SubmitResponse::JobNotFound => "notfound".into(),
                    SubmitResponse::TaskIdAlreadyExists(t) => format!("exists {}", t.as_num()),
                    SubmitResponse::NonUniqueTaskId(t) => format!("nonunique {}", t.as_num()),
                    SubmitResponse::InvalidDependencies(t) => format!("invaliddeps {}", t.as_num()),
                };
                self.job.lines.push(format!("out resp submit {line}"));
            }
            Some(ToClientMessage::OpenJobResponse(r)) => {
                let id = r.job_id.as_num();
                self.known_jobs.push(id);
                self.open_jobs.push(id);
                self.job.lines.push(format!("out resp open {id}"));
            }
            Some(ToClientMessage::CloseJobResponse(rs)) => {
                for (j, r) in rs {
                    let t = match r {
                        CloseJobResponse::Closed => {
                            self.open_jobs.retain(|x| *x != j.as_num());
                            "closed"
                        }
                        CloseJobResponse::InvalidJob => "invalid",
                        CloseJobResponse::AlreadyClosed => "already",
                    };
                    self.job.lines.push(format!("out resp close {} {}", j.as_num(), t));
                }
            }
            Some(ToClientMessage::CancelJobResponse(rs)) => {
                {
                    let cancelled: Vec<u32> = rs.iter().map(|(j, _)| j.as_num()).collect();
                    let snap = self.world.server.core_snapshot();
                    let after: BTreeSet<TaskId> = snap.queues.iter().flat_map(|q| q.ready.iter().flat_map(|(_, ids)| ids.iter().copied()).chain(q.prefill.iter().flat_map(|(_, ids)| ids.iter().copied())).collect::<Vec<_>>()).collect();
                    let dropped: Vec<String> = queued_before.iter().filter(|t| !cancelled.contains(&t.job_id().as_num()) && !after.contains(t)).map(|t| format!("{}.{}", t.job_id().as_num(), t.job_task_id().as_num())).collect();
                    if !dropped.is_empty() {
                        self.job.lines.push(format!("mon FAIL c08.other_jobs queued-task-dropped the cancel of job(s) {cancelled:?} removed tasks {dropped:?} of OTHER jobs from the scheduler's queues"));
                    }
                }
                for (j, r) in rs {
                    let t = match r {
                        CancelJobResponse::Canceled(ts, n) => {
                            let now: Vec<TaskId> = ts.iter().map(|t| TaskId::new(j, *t)).collect();
                            let told = std::mem::take(&mut self.last_client_sent);
                            self.mon.cancel_stops(&now, &executing_before, &told);
                            self.last_client_sent = told;
                            self.mon.cancel_answered(ts.iter().map(|t| TaskId::new(j, *t)));
                            let mut ts: Vec<u32> = ts.iter().map(|t| t.as_num()).collect();
                            ts.sort();
                            let snap = snapshot_jobs(&self.world.state_ref);
                            self.mon.cancel_leaves_nothing(j.as_num(), &snap);
                            format!("canceled {} {}", list(ts.iter()), n)
                        }
                        CancelJobResponse::InvalidJob => "invalid".to_string(),
                        CancelJobResponse::Failed(_) => "failed".to_string(),
                    };
                    self.job.lines.push(format!("out resp cancel {} {}", j.as_num(), t));
                }
            }
            Some(ToClientMessage::ForgetJobResponse(r)) => {
                self.job.lines.push(format!("out resp forget {} {}", r.forgotten, r.ignored));
                // C13: only completed jobs can be forgotten (an open job, or one with unfinished tasks, stays)
                let still: Vec<u32> = snapshot_jobs(&self.world.state_ref).iter().map(|j| j.id).collect();
                for j in &jobs_before {
                    if !still.contains(j) && self.completed.get(j).copied().unwrap_or(0) == 0 {
                        // a closed job without tasks is never reported completed (finding F18): its removal is a consequence
                        let sig = if empty_before.contains(j) { "forgot-empty-uncompleted-job" } else { "forgot-uncompleted-job" };
                        self.job.lines.push(format!("mon FAIL c13.completed_once {sig} job {j} was removed by a forget request although it was never reported completed"));
                    }
                }
            }
            Some(ToClientMessage::Finished) => {} // waiting submit (the response arrives after the journal flush) / prune
            other => self.job.lines.push(format!("out resp !unexpected {other:?}").replace('\n', " ")),
        }
        if let Some((j, max_before, count, existing)) = auto {
            let state = self.world.state_ref.get();
            if let Some(job) = state.get_job(JobId::new(j)) {
                let new_ids: Vec<u32> = job.tasks.keys().map(|k| k.as_num()).filter(|k| !existing.contains(k)).collect();
                if !new_ids.is_empty() {
                    self.mon.auto_ids(j, max_before, count, &new_ids);
                }
            }
        }
        if is_submit {
            let after: Vec<TaskId> = self.world.server.task_ids();
            let new: Vec<TaskId> = after.iter().filter(|t| !before.contains(t)).cloned().collect();
            self.job.lines.push(format!("out core {}", tids(&new)));
            for t in &new {
                let tl = submit_tls.iter().find(|(id, _)| id.is_none() || *id == Some(t.job_task_id().as_num())).map(|(_, l)| *l).unwrap_or(None);
                self.task_tl.insert(*t, tl);
            }
            if let Some((all, per)) = submit_rqs {
                for t in &new {
                    let r = all.clone().or_else(|| per.iter().find(|(id, _)| *id == t.job_task_id().as_num()).map(|(_, r)| r.clone()));
                    if let Some(r) = r {
                        self.task_rqv.insert(*t, r);
                    }
                }
            }
        }
        let _ = is_forget;
        self.job_snapshot();
    }

    fn job_snapshot(&mut self) {
        let jobs = snapshot_jobs(&self.world.state_ref);
        self.mon.announced(&jobs);
        let live = self.world.server.task_ids();
        let w = &self.world;
        self.job.snapshot(w, &jobs, Some(&live));
        self.after_action();
    }

    // ---- client actions -------------------------------------------------------------------

    fn gen_task_desc(&mut self) -> (TaskDescription, i32) {
        let prio = self.rng.below(3) as i32;
        let crash = match self.rng.below(5) {
            0 => CrashLimit::NeverRestart,
            1 => CrashLimit::MaxCrashes(1),
            2 => CrashLimit::MaxCrashes(2),
            3 => CrashLimit::Unlimited,
            _ => CrashLimit::default(),
        };
        // task time limits (never reached in the simulated cluster: tasks end when the harness says so); profile 4 only
        let tl = if self.profile == 4 { *self.rng.pick(&[None, None, Some(3_600_000u64), Some(7_200_000), Some(10_800_000)]) } else { None };
        (task_desc(prio, crash, tl), prio)
    }

    pub fn act_submit(&mut self) {
        let malformed = self.rng.chance(1, 8);
        // target: new job or existing (open / closed / unknown when malformed)
        let job_id: Option<u32> = if !self.open_jobs.is_empty() && self.rng.chance(1, 2) {
            Some(*self.rng.pick(&self.open_jobs))
        } else if malformed && self.rng.chance(1, 2) {
            if !self.known_jobs.is_empty() && self.rng.chance(1, 2) { Some(*self.rng.pick(&self.known_jobs)) } else { Some(90 + self.rng.below(3) as u32) }
        } else {
            None
        };
        let max_fails = match self.rng.below(4) {
            0 => Some(0),
            1 => Some(1),
            _ => None,
        };
        let profile = self.profile;
        let existing_ids: Vec<u32> = job_id
            .and_then(|j| self.world.state_ref.get().get_job(JobId::new(j)).map(|job| job.tasks.keys().map(|k| k.as_num()).collect()))
            .unwrap_or_default();
        let max_existing = existing_ids.iter().max().copied();
        let (desc, text) = if self.rng.chance(3, 5) {
            // array
            let (td, _) = self.gen_task_desc();
            let auto = self.rng.chance(2, 5);
            let mut entries: Option<u32> = if self.rng.chance(1, 3) { Some(self.rng.range(1, 3) as u32) } else { None };
            if auto && entries.is_some() && self.rng.chance(1, 6) {
                // `hq submit --each-line <empty file>`: auto-assigned ids for ZERO entries (a submit that adds no task)
                entries = Some(0);
            }
            let ranges: Vec<(u32, u32, u32)> = if auto {
                vec![]
            } else {
                // an unused id BELOW the largest one (any unused id is legal; auto ids still continue after the largest)
                let low: Option<u32> = if !malformed && entries.is_none() && self.rng.chance(1, 4) {
                    max_existing.and_then(|m| {
                        let free: Vec<u32> = (0..m).filter(|i| !existing_ids.contains(i)).collect();
                        if free.is_empty() { None } else { Some(*self.rng.pick(&free)) }
                    })
                } else {
                    None
                };
                let start = if let Some(l) = low {
                    l
                } else if malformed && self.rng.chance(1, 2) {
                    max_existing.unwrap_or(0)
                } else {
                    max_existing.map(|m| m + 1 + self.rng.below(3) as u32).unwrap_or(self.rng.below(3) as u32)
                };
                if let (Some(_), Some(j)) = (low, job_id) {
                    if !self.low_submit.contains(&j) {
                        self.low_submit.push(j);
                    }
                }
                let n = if low.is_some() { 1 } else { entries.unwrap_or(if profile == 1 || (profile == 3 && self.rng.chance(1, 3)) { self.rng.range(3, 8) as u32 } else { self.rng.range(1, 4) as u32 }) };
                if self.rng.chance(1, 4) && n >= 2 {
                    // stepped range with exactly n elements
                    let step = 2;
                    vec![(start, (n - 1) * step + 1, step)]
                } else if self.rng.chance(1, 4) && n >= 2 {
                    vec![(start, 1, 1), (start + 2, n - 1, 1)]
                } else {
                    vec![(start, n, 1)]
                }
            };
            let ids = IntArray::new(ranges.iter().map(|(s, c, st)| IntRange::new(*s, *c, *st)).collect());
            let text = format!("array {} {}", ranges_text(&ranges), entries.map(|e| e.to_string()).unwrap_or("-".into()));
            (
                JobTaskDescription::Array {
                    ids,
                    entries: entries.map(|n| (0..n).map(|i| vec![i as u8].into()).collect()),
                    resource_rq: gen_rq(&mut self.rng, profile),
                    task_desc: td,
                },
                text,
            )
        } else {
            // graph
            let n = self.rng.range(1, 5) as u32;
            // a later submit that depends on several earlier tasks of the job, finished and unfinished ones
            let late_deps = !malformed && existing_ids.len() >= 2 && self.rng.chance(1, 2);
            // tasks of the job that failed / were canceled: a dependency on them is refused (fix 2a18501); keep most
            // submits acceptable
            let bad_existing: Vec<u32> = if self.rng.chance(5, 6) {
                job_id
                    .and_then(|j| self.world.state_ref.get().get_job(JobId::new(j)).map(|job| {
                        job.tasks.iter().filter(|(_, t)| matches!(t.state,
                            hyperqueue::server::job::JobTaskState::Failed { .. } | hyperqueue::server::job::JobTaskState::Canceled { .. }
                            | hyperqueue::server::job::JobTaskState::Aborted { .. })).map(|(k, _)| k.as_num()).collect()
                    }))
                    .unwrap_or_default()
            } else {
                vec![]
            };
            let base = max_existing.map(|m| m + 1).unwrap_or(0);
            let mut tasks = Vec::new();
            let mut text_items = Vec::new();
            let mut ids: Vec<u32> = Vec::new();
            for i in 0..n {
                let mut id = base + i;
                if malformed && self.rng.chance(1, 6) && i > 0 {
                    id = base; // duplicate
                }
                let mut deps: Vec<u32> = Vec::new();
                for &p in &ids {
                    if self.rng.chance(1, 3) {
                        deps.push(p);
                    }
                }
                let late = late_deps && i == n - 1;
                for &e in &existing_ids {
                    if self.rng.chance(1, if late { 2 } else { 6 }) && !bad_existing.contains(&e) {
                        deps.push(e);
                    }
                }
                if malformed && self.rng.chance(1, 6) {
                    deps.push(if self.rng.chance(1, 2) { id } else { 77 });
                }
                // a dependency on a task listed LATER in the same submit (must be refused: the core adds tasks one by
                // one and treats a dependency it does not know yet as finished)
                if malformed && i + 1 < n && self.rng.chance(1, 3) {
                    deps.push(base + i + 1);
                }
                deps.dedup();
                let (td, _) = self.gen_task_desc();
                text_items.push(format!("{}:{}", id, deps.iter().map(|d| d.to_string()).collect::<Vec<_>>().join(".")));
                tasks.push(TaskWithDependencies {
                    id: JobTaskId::new(id),
                    resource_rq_id: LocalResourceRqId::new(self.rng.below(2) as u32),
                    task_desc: td,
                    task_deps: deps.iter().map(|d| JobTaskId::new(*d)).collect(),
                });
                ids.push(id);
            }
            (
                JobTaskDescription::Graph { resource_rqs: vec![gen_rq(&mut self.rng, profile), gen_rq(&mut self.rng, profile)], tasks },
                format!("graph {}", text_items.join(";")),
            )
        };
        let op = format!(
            "submit job={} mf={} {}",
            job_id.map(|j| j.to_string()).unwrap_or("-".into()),
            max_fails.map(|m| m.to_string()).unwrap_or("-".into()),
            text
        );
        // `hq submit --wait`: live job events of the submitted job are streamed on the same connection
        let wait = self.wait_mode && !malformed && self.rng.chance(1, 2);
        let stream = if wait {
            use hyperqueue::server::event::streamer::{EventFilter, EventFilterFlags};
            use hyperqueue::transfer::messages::{StreamEvents, StreamEventsMode};
            Some(StreamEvents { mode: StreamEventsMode::LiveEvents, enable_worker_overviews: false, filter: EventFilter::new(None, EventFilterFlags::JOB_EVENTS) })
        } else {
            None
        };
        let op = if wait { op.replacen("submit", "submitw", 1) } else { op };
        if wait && self.rng.chance(2, 3) {
            self.do_release_flush();
            self.do_hold_flush();
        }
        let msg = FromClientMessage::Submit(
            SubmitRequest {
                job_desc: JobDescription { name: "j".into(), max_fails },
                submit_desc: JobSubmitDescription { task_desc: desc, submit_dir: "/tmp".into(), stream_path: None },
                job_id: job_id.map(JobId::new),
            },
            stream,
        );
        self.client_action(op, msg);
    }

    /// probe used by src/bin/probe_mn.rs
    pub fn probe_mn(&mut self, prio_mn: i32) {
        use tako::resources::ResourceDescriptor;
        for g in ["ga", "gb"] {
            let next = WorkerId::new(self.world.server.worker_counter() + 1);
            let mut cfg = worker_config(next, 2, g, None);
            cfg.resources = ResourceDescriptor::simple_cpus(2);
            self.world.add_worker(cfg);
        }
        let mk = |prio: i32, rq: ResourceRequestVariants| FromClientMessage::Submit(
            SubmitRequest {
                job_desc: JobDescription { name: "j".into(), max_fails: None },
                submit_desc: JobSubmitDescription {
                    task_desc: JobTaskDescription::Array { ids: IntArray::from_id(0), entries: None, resource_rq: rq, task_desc: task_desc(prio, CrashLimit::default(), None) },
                    submit_dir: "/tmp".into(),
                    stream_path: None,
                },
                job_id: None,
            },
            None,
        );
        let mn = ResourceRequestVariants::new_simple(ResourceRequest { n_nodes: 2, resources: Default::default(), min_time: Default::default(), weight: Default::default() });
        self.world.client(mk(prio_mn, mn));
        self.world.client(mk(1, cpu_rq(1, 0)));
        for i in 0..3 {
            let r = self.world.schedule();
            let snap = self.world.server.core_snapshot();
            println!("round {i}: {:?} tasks: {:?}", r, snap.tasks.iter().map(|t| format!("{} {:?}", tid(t.id), t.state)).collect::<Vec<_>>());
        }
    }

    /// `hq journal prune` through the real rpc loop: `handle_prune_journal` computes the live sets from the job-layer
    /// state; C12's theorems assume they cover everything the journal still needs (`LiveCovers`): every job without a
    /// `JobCompleted` record and every connected worker
    pub fn act_prune(&mut self) {
        let n_before = self.world.prunes.borrow().len();
        self.client_action("prune".to_string(), FromClientMessage::PruneJournal);
        let prunes = self.world.prunes.borrow().clone();
        for (n, lj, lw) in prunes.iter().skip(n_before) {
            let evs = self.world.journal.borrow();
            let mut jobs: BTreeSet<u32> = BTreeSet::new();
            let mut workers: BTreeSet<u32> = BTreeSet::new();
            for e in evs.iter().take(*n) {
                match &e.payload {
                    EventPayload::Submit { job_id, closed_job: true, .. } => { jobs.insert(job_id.as_num()); }
                    EventPayload::JobOpen(j, _) => { jobs.insert(j.as_num()); }
                    EventPayload::JobCompleted(j) => { jobs.remove(&j.as_num()); }
                    EventPayload::WorkerConnected(w, _) => { workers.insert(w.as_num()); }
                    EventPayload::WorkerLost(w, _) => { workers.remove(&w.as_num()); }
                    _ => {}
                }
            }
            // a forgotten job is gone from the server (its records may go)
            let snap_jobs = snapshot_jobs(&self.world.state_ref);
            let known: Vec<u32> = snap_jobs.iter().map(|j| j.id).collect();
            let all_missing: Vec<u32> = jobs.iter().copied().filter(|j| !lj.contains(j) && known.contains(j)).collect();
            // a closed job WITHOUT tasks is never reported completed (finding F18): it is stored, has no JobCompleted record
            // and is not live for the prune; its records are dropped (consequence of the same defect, own signature)
            let empty: Vec<u32> = all_missing.iter().copied().filter(|j| snap_jobs.iter().any(|x| x.id == *j && !x.open && x.tasks.is_empty())).collect();
            let missing: Vec<u32> = all_missing.iter().copied().filter(|j| !empty.contains(j)).collect();
            if !empty.is_empty() {
                self.job.lines.push(format!("mon FAIL c12.live_sets empty-uncompleted-job-not-kept the prune request names live jobs {:?} but the closed jobs without tasks {:?} have no JobCompleted record and are still stored", lj, empty));
            }
            if !missing.is_empty() {
                self.job.lines.push(format!("mon FAIL c12.live_sets live-job-not-kept the prune request names live jobs {:?} but jobs {:?} have no JobCompleted record and are still stored", lj, missing));
            }
            let missing_w: Vec<u32> = workers.iter().copied().filter(|w| !lw.contains(w)).collect();
            if !missing_w.is_empty() {
                self.job.lines.push(format!("mon FAIL c12.live_sets connected-worker-not-kept the prune request names live workers {:?} but workers {:?} are connected", lw, missing_w));
            }
        }
    }

    pub fn act_open(&mut self) {
        let max_fails = match self.rng.below(4) {
            0 => Some(0),
            1 => Some(1),
            _ => None,
        };
        let op = format!("open mf={}", max_fails.map(|m| m.to_string()).unwrap_or("-".into()));
        self.client_action(op, FromClientMessage::OpenJob(JobDescription { name: "o".into(), max_fails }));
    }

    fn pick_jobs(&mut self) -> Vec<u32> {
        let mut ids = Vec::new();
        let n = self.rng.range(1, 2);
        for _ in 0..n {
            let id = if self.known_jobs.is_empty() || self.rng.chance(1, 10) { 95 } else { *self.rng.pick(&self.known_jobs) };
            if !ids.contains(&id) {
                ids.push(id);
            }
        }
        ids
    }

    fn selector(ids: &[u32]) -> IdSelector {
        IdSelector::Specific(IntArray::new(ids.iter().map(|i| IntRange::new(*i, 1, 1)).collect()))
    }

    pub fn act_close(&mut self) {
        let ids = self.pick_jobs();
        self.client_action(format!("close {}", list(ids.iter())), FromClientMessage::CloseJob(CloseJobRequest { selector: Self::selector(&ids) }));
    }

    pub fn act_cancel(&mut self) {
        let ids = self.pick_jobs();
        self.client_action(format!("cancel {}", list(ids.iter())), FromClientMessage::Cancel(CancelRequest { selector: Self::selector(&ids), reason: None }));
    }

    pub fn act_forget(&mut self) {
        let ids = self.pick_jobs();
        let all = [Status::Finished, Status::Failed, Status::Canceled, Status::Aborted];
        let filter: Vec<Status> = all.iter().filter(|_| self.rng.chance(3, 4)).cloned().collect();
        self.client_action(
            format!("forget {} {}", list(ids.iter()), list(filter.iter().map(|s| status_name(*s)))),
            FromClientMessage::ForgetJob(ForgetJobRequest { selector: Self::selector(&ids), filter }),
        );
        // forgotten jobs disappear from the state
        let present: Vec<u32> = snapshot_jobs(&self.world.state_ref).iter().map(|j| j.id).collect();
        self.known_jobs.retain(|j| present.contains(j) || self.rng.chance(1, 2));
    }

    // ---- cluster actions ------------------------------------------------------------------

    /// signature of a caught panic: the source function; the `is_free()` assertion of `set_mn_task` in a run in which
    /// the server's books of a still connected worker have saturated before (finding F29: free + reserved != total from
    /// then on) is marked as a consequence of that state, so that it is identified separately from the same site on sound books
    fn panic_sig(&self, p: &str) -> String {
        let site = panic_site(p);
        // only the assertion that reads a worker's books (`is_free()` when a multi-node task is placed) is explained by them
        if site == "worker.set_mn_task" && !self.mon.prefill_saturated.is_empty() { format!("{site}+after-f29-saturated-books") } else { site }
    }

    fn world_action(&mut self, core_ops: Vec<String>, f: impl FnOnce(&mut Sim)) {
        self.guarded(|s| f(s));
        self.flush_callbacks(core_ops);
        if let Some(p) = self.panicked.clone() {
            let l = format!("mon FAIL c09.panic {} {}", self.panic_sig(&p), p.replace('\n', " "));
            self.job.lines.push(l.clone());
            self.core.lines.push(l);
            self.mon.job_layer_panic(&panic_site(&p), &p);
            let fails = std::mem::take(&mut self.mon.fails);
            for f in fails {
                self.job.lines.push(f.clone());
                self.core.lines.push(f);
            }
        }
    }

    pub fn act_add_worker(&mut self) {
        let (desc, _totals) = gen_worker_resources(&mut self.rng, self.profile);
        let group = if self.profile == 2 {
            // mostly one group, so that a multi-node task can be hosted again after a loss
            if self.rng.chance(3, 4) { "ga" } else { "gb" }
        } else if self.rng.chance(1, 3) {
            if self.rng.chance(1, 2) { "ga" } else { "gb" }
        } else {
            "default"
        };
        let next = WorkerId::new(self.world.server.worker_counter() + 1);
        let limit = if self.profile == 4 { *self.rng.pick(&[None, Some(60_000u64), Some(1_800_000), Some(1_800_000)]) } else { None };
        let mut cfg = worker_config(next, 1, group, limit);
        cfg.resources = desc;
        if self.rng.chance(1, 3) {
            // a worker started inside an allocation of the batch system: it carries the manager info
            let (k, v) = hyperqueue::verif::autoalloc::manager_extra(&format!("a{}", next.as_num() % 3));
            cfg.extra.insert(k, v);
        }
        self.do_add_worker(cfg);
    }

    pub fn do_add_worker(&mut self, cfg: WorkerConfiguration) {
        let next = WorkerId::new(self.world.server.worker_counter() + 1);
        let group = cfg.group.clone();
        let term = cfg.time_limit.map(|d| (self.world.now_ms + d.as_millis() as u64).to_string()).unwrap_or("-".to_string());
        if let Some(d) = cfg.time_limit {
            self.mon.worker_term.insert(next.as_num(), self.world.now_ms + d.as_millis() as u64);
        }
        self.act_line(format!("add_worker {}", serde_json::to_string(&cfg).unwrap()));
        self.log.push(format!("add_worker group={group}"));
        let managed = cfg.extra.contains_key(&hyperqueue::verif::autoalloc::manager_extra("x").0);
        self.guarded(|s| {
            s.world.add_worker(cfg);
        });
        // C18: the job layer tells the autoalloc service about every worker of an allocation (and about no other)
        {
            use hyperqueue::verif::autoalloc::VerifWorkerNotice;
            let notices = self.world.alloc_rx.borrow_mut().drain();
            let told = notices.iter().any(|n| matches!(n, VerifWorkerNotice::Connected { worker, .. } if *worker == next.as_num()));
            if managed {
                self.alloc_workers.insert(next.as_num());
            }
            if managed != told && self.panicked.is_none() {
                self.job.lines.push(format!("mon FAIL c18.notify connect-notice worker {} (started inside an allocation: {managed}) connected, the autoalloc service was told: {told} ({notices:?})", next.as_num()));
            }
        }
        let tot = self
            .world
            .server
            .core_snapshot()
            .workers
            .iter()
            .find(|w| w.id == next.as_num())
            .map(|w| list(w.total.iter()))
            .unwrap_or("-".into());
        let op = format!("wnew {} tot={} g={} term={}", next.as_num(), tot, group, term);
        self.flush_callbacks(vec![op]);
        if let Some(p) = &self.panicked {
            let l = format!("mon FAIL c09.panic {} {}", self.panic_sig(p), p.replace('\n', " "));
            self.job.lines.push(l.clone());
            self.core.lines.push(l);
        }
    }

    pub fn act_lose_worker(&mut self) {
        let ids: Vec<u32> = self.world.workers.keys().cloned().collect();
        if ids.is_empty() {
            return;
        }
        let id = *self.rng.pick(&ids);
        let reason = *self.rng.pick(&[
            LostWorkerReason::Stopped,
            LostWorkerReason::ConnectionLost,
            LostWorkerReason::HeartbeatLost,
            LostWorkerReason::IdleTimeout,
            LostWorkerReason::TimeLimitReached,
        ]);
        self.do_lose_worker(id, reason);
    }

    pub fn do_lose_worker(&mut self, id: u32, reason: LostWorkerReason) {
        if !self.world.workers.contains_key(&id) {
            return;
        }
        self.act_line(format!("lose_worker {id} {}", reason_name(reason)));
        self.log.push(format!("lose_worker {id} {}", reason_name(reason)));
        let order = self.world.server.assigned_order(WorkerId::new(id));
        let op = crate::coreview::lost_op(id, reason, &order);
        self.world_action(vec![op], |s| s.world.lose_worker(id, reason));
        // C18: every loss of a worker of an allocation reaches the autoalloc service, whatever the reason
        {
            use hyperqueue::verif::autoalloc::VerifWorkerNotice;
            let notices = self.world.alloc_rx.borrow_mut().drain();
            let told = notices.iter().any(|n| matches!(n, VerifWorkerNotice::Lost { worker, reason: r, .. } if *worker == id && *r == reason));
            let managed = self.alloc_workers.remove(&id);
            if managed != told && self.panicked.is_none() {
                self.job.lines.push(format!("mon FAIL c18.notify loss-notice worker {id} (started inside an allocation: {managed}) was lost ({}), the autoalloc service was told: {told} ({notices:?})", reason_name(reason)));
            }
        }
    }

    /// time passes on a worker that the server does not see (message delay / clock skew): the worker's remaining life
    /// time shrinks, so a task the server judged feasible can be refused on arrival (hard reject) or retracted by the
    /// worker's own check
    pub fn do_age_worker(&mut self, id: u32, ms: u64) {
        // never beyond the limit (a real worker stops itself there)
        let Some(rem) = self.world.workers.get(&id).and_then(|w| w.vw.remaining_ms()) else { return };
        if ms + 1000 >= rem {
            return;
        }
        self.act_line(format!("age_worker {id} {ms}"));
        self.log.push(format!("age_worker {id} {ms}"));
        if let Some(w) = self.world.workers.get(&id) {
            w.vw.age(std::time::Duration::from_millis(ms));
        }
        // the worker really ends that much earlier than the server believes (what "can run it" means at rest)
        if let Some(t) = self.mon.worker_term.get(&id).copied() {
            let cur = self.mon.worker_true_term.get(&id).copied().unwrap_or(t);
            self.mon.worker_true_term.insert(id, cur.saturating_sub(ms));
        }
    }

    pub fn act_age_worker(&mut self) -> bool {
        let cands: Vec<(u32, u64)> = self.world.workers.iter().filter_map(|(id, w)| w.vw.remaining_ms().map(|r| (*id, r))).collect();
        if cands.is_empty() {
            return false;
        }
        let (id, rem) = *self.rng.pick(&cands);
        let ms = rem * self.rng.range(3, 9) / 10;
        self.do_age_worker(id, ms);
        true
    }

    pub fn act_schedule(&mut self) {
        self.act_line("schedule".to_string());
        self.world.now_ms += 10;
        self.sched_before = Some(self.world.server.core_snapshot());
        self.log.push("schedule".to_string());
        self.world_action(vec!["sched".to_string()], |s| {
            s.world.schedule();
        });
    }

    pub fn act_deliver(&mut self) -> bool {
        let mut cands: Vec<(u32, bool)> = Vec::new();
        for (id, w) in &self.world.workers {
            if !w.to_worker.is_empty() {
                cands.push((*id, true));
            }
            if !w.to_server.is_empty() {
                cands.push((*id, false));
            }
        }
        if cands.is_empty() {
            return false;
        }
        let (id, to_worker) = *self.rng.pick(&cands);
        self.do_deliver(id, to_worker)
    }

    pub fn do_deliver(&mut self, id: u32, to_worker: bool) -> bool {
        let Some(w) = self.world.workers.get(&id) else { return false };
        if (to_worker && w.to_worker.is_empty()) || (!to_worker && w.to_server.is_empty()) {
            return false;
        }
        self.act_line(format!("deliver {} {}", if to_worker { "s2w" } else { "w2s" }, id));
        let mut ops = vec![];
        {
            let w = &self.world.workers[&id];
            let m = if to_worker { format!("{:?}", w.to_worker.front().unwrap()) } else { format!("{:?}", w.to_server.front().unwrap()) };
            let m: String = m.chars().filter(|c| *c != '\n').take(400).collect();
            self.log.push(format!("deliver {} {} {}", if to_worker { "s2w" } else { "w2s" }, id, m));
            if to_worker {
                if let ToWorkerMessage::ComputeTasks(m) = w.to_worker.front().unwrap() {
                    for t in &m.tasks {
                        if let (Some(expect), Some(sh)) = (self.task_tl.get(&t.id), m.shared_data.get(t.shared_index)) {
                            if sh.time_limit != *expect {
                                let l = format!(
                                    "mon FAIL c01.ran sent-with-time-limit-of-another-task task {} was submitted with time limit {:?} but is sent to worker {} with {:?}",
                                    tid(t.id), expect, id, sh.time_limit
                                );
                                self.job.lines.push(l.clone());
                                self.core.lines.push(l);
                            }
                        }
                    }
                }
            }
            if !to_worker {
                let front = w.to_server.front().unwrap();
                if let Some(op) = crate::coreview::update_op(id, front) {
                    ops.push(op);
                }
                if let tako::internal::messages::worker::FromWorkerMessage::TaskUpdate(us) = front {
                    let snap = self.world.server.core_snapshot();
                    for u in us.iter() {
                        if let tako::internal::messages::worker::WorkerTaskUpdate::RunningPrefilled(m) = u {
                            self.mon.before_running_prefilled(id, m.task_id, m.rv_id.as_num() as u32, &snap);
                        }
                    }
                }
            }
        }
        self.world_action(ops, |s| {
            if to_worker {
                if let Some(m) = s.world.deliver_to_worker(id) {
                    s.mon.worker_processed(id, &m);
                }
            } else {
                s.world.deliver_to_server(id);
            }
        });
        true
    }

    pub fn act_end_task(&mut self) -> bool {
        let running = self.world.running_tasks();
        if running.is_empty() {
            return false;
        }
        let (w, t) = *self.rng.pick(&running);
        let kind = if self.rng.chance(1, 4) { EndKind::Error } else { EndKind::Finished };
        self.do_end_task(w, t, kind)
    }

    pub fn do_end_task(&mut self, w: u32, t: TaskId, kind: EndKind) -> bool {
        if !self.world.running_tasks().contains(&(w, t)) {
            return false;
        }
        self.act_line(format!("end_task {w} {} {}", tid(t), if kind == EndKind::Finished { "fin" } else { "err" }));
        self.log.push(format!("end_task w={w} {} {:?}", tid(t), kind));
        if kind == EndKind::Finished {
            self.mon.finished_ok.insert((w, t));
        }
        self.world_action(vec![], |s| {
            s.world.end_task(w, t, kind);
        });
        true
    }

    pub fn act_fail_next_launch(&mut self) {
        let ids = self.world.server.task_ids();
        if ids.is_empty() {
            return;
        }
        let t = *self.rng.pick(&ids);
        self.do_fail_next_launch(t);
    }

    pub fn do_fail_next_launch(&mut self, t: TaskId) {
        self.act_line(format!("fail_next_launch {}", tid(t)));
        self.log.push(format!("fail_next_launch {}", tid(t)));
        self.world.launch.borrow_mut().fail_launch.insert(t);
    }

    /// the rest check of C02 (logged as an action so that a replay evaluates it at the same point)
    pub fn do_rest_check(&mut self) {
        self.act_line("rest_check".to_string());
        self.mon.now_ms = self.world.now_ms;
        let jobs = snapshot_jobs(&self.world.state_ref);
        let snap = self.world.server.core_snapshot();
        let completed = self.completed.clone();
        // With a connected worker whose clock ran ahead of what the server saw (`age_worker`), "at rest" is not a
        // rest of the real system: the server still believes the worker has time for requests it refuses, and in the
        // real system its own clock catches up within the skew. The progress clause is not judged on such states.
        let skew = snap.workers.iter().any(|w| match (self.mon.worker_true_term.get(&w.id), self.mon.worker_term.get(&w.id)) {
            (Some(a), Some(b)) => a != b,
            _ => false,
        });
        if !skew {
            self.mon.rest(&jobs, &snap, &completed);
        }
        let fails = std::mem::take(&mut self.mon.fails);
        for f in fails {
            self.job.lines.push(f.clone());
            self.core.lines.push(f);
        }
    }

    /// re-executes recorded `act …` lines (the text after "act ") on the real code
    pub fn replay(&mut self, acts: &[String]) {
        for a in acts {
            if self.panicked.is_some() {
                break;
            }
            let (kind, rest) = a.split_once(' ').unwrap_or((a.as_str(), ""));
            let toks: Vec<&str> = rest.split(' ').collect();
            let parse_tid = |s: &str| -> TaskId {
                let (j, t) = s.split_once('.').unwrap();
                TaskId::new(JobId::new(j.parse().unwrap()), JobTaskId::new(t.parse().unwrap()))
            };
            match kind {
                "client" => {
                    let (json, op) = rest.split_once(" ## ").expect("client act without op line");
                    let msg: FromClientMessage = serde_json::from_str(json).expect("bad client json");
                    self.client_action(op.to_string(), msg);
                }
                "add_worker" => {
                    let cfg: WorkerConfiguration = serde_json::from_str(rest).expect("bad worker json");
                    self.do_add_worker(cfg);
                }
                "lose_worker" => {
                    let reason = match toks[1] {
                        "stopped" => LostWorkerReason::Stopped,
                        "connlost" => LostWorkerReason::ConnectionLost,
                        "hblost" => LostWorkerReason::HeartbeatLost,
                        "idle" => LostWorkerReason::IdleTimeout,
                        _ => LostWorkerReason::TimeLimitReached,
                    };
                    self.do_lose_worker(toks[0].parse().unwrap(), reason);
                }
                "schedule" => self.act_schedule(),
                "deliver" => {
                    self.do_deliver(toks[1].parse().unwrap(), toks[0] == "s2w");
                }
                "end_task" => {
                    self.do_end_task(toks[0].parse().unwrap(), parse_tid(toks[1]), if toks[2] == "fin" { EndKind::Finished } else { EndKind::Error });
                }
                "fail_next_launch" => self.do_fail_next_launch(parse_tid(toks[0])),
                "rest_check" => self.do_rest_check(),
                "age_worker" => self.do_age_worker(toks[0].parse().unwrap(), toks[1].parse().unwrap()),
                "hold_flush" => self.do_hold_flush(),
                "release_flush" => self.do_release_flush(),
                other => panic!("unknown act {other}"),
            }
        }
    }

    /// multi-node tasks: aim at a running multi-node task (lose its root or a non-root worker, cancel its job, end it)
    /// or, when one is waiting, make room for it / connect workers of one group
    fn act_focus_mn(&mut self) -> bool {
        use tako::verif::server::SnapTaskState;
        let snap = self.world.server.core_snapshot();
        let reasons = [LostWorkerReason::Stopped, LostWorkerReason::ConnectionLost, LostWorkerReason::HeartbeatLost, LostWorkerReason::IdleTimeout];
        let running: Vec<(TaskId, Vec<u32>)> =
            snap.tasks.iter().filter_map(|t| if let SnapTaskState::RunningMultiNode(ws) = &t.state { Some((t.id, ws.clone())) } else { None }).collect();
        if !running.is_empty() {
            let (t, ws) = self.rng.pick(&running).clone();
            let reason = *self.rng.pick(&reasons);
            // a task still Retracting from a worker of this multi-node task (the state family of finding F27): one
            // cancel request over both jobs makes `on_cancel_tasks` collect ids of both for the same worker
            let retracting: Vec<TaskId> = snap
                .tasks
                .iter()
                .filter_map(|x| if let SnapTaskState::Retracting(w) = &x.state { ws.contains(w).then_some(x.id) } else { None })
                .collect();
            if !retracting.is_empty() && self.rng.chance(1, 2) {
                let mut js = vec![t.job_id().as_num(), self.rng.pick(&retracting).job_id().as_num()];
                js.sort();
                js.dedup();
                self.client_action(format!("cancel {}", list(js.iter())), FromClientMessage::Cancel(CancelRequest { selector: Self::selector(&js), reason: None }));
                return true;
            }
            match self.rng.below(8) {
                0 | 1 | 2 => self.do_lose_worker(ws[0], reason),
                3 => {
                    let w = *self.rng.pick(&ws);
                    self.do_lose_worker(w, reason)
                }
                4 => {
                    let j = t.job_id().as_num();
                    self.client_action(format!("cancel {j}"), FromClientMessage::Cancel(CancelRequest { selector: Self::selector(&[j]), reason: None }));
                }
                5 => {
                    let kind = if self.rng.chance(1, 3) { EndKind::Error } else { EndKind::Finished };
                    if !self.do_end_task(ws[0], t, kind) {
                        self.do_deliver(ws[0], true);
                    }
                }
                6 => {
                    if !self.do_deliver(ws[0], true) {
                        self.do_deliver(ws[0], false);
                    }
                }
                _ => {
                    self.do_deliver(ws[0], false);
                }
            }
            return true;
        }
        false
    }

    /// State-directed submits (each a legal client request the uniform generator produces too rarely):
    /// * into an open job that has finished AND unfinished tasks: one new task depending on both kinds (the core no
    ///   longer knows the finished ones);
    /// * into an open job whose last submit used an unused id BELOW the largest id: a submit with auto-assigned ids;
    /// * while a request class has a prefilled backlog on some worker and waiting tasks: a single task of the same
    ///   class with the highest priority (the backlog is disposed of and returns to the ready queue).
    fn act_directed_submit(&mut self) -> bool {
        use hyperqueue::server::job::JobTaskState;
        use tako::verif::server::SnapTaskState;
        let mut cands: Vec<(u32, Vec<u32>, Vec<u32>, u32)> = vec![]; // job, finished, unfinished, max id
        let mut auto_cands: Vec<u32> = vec![];
        {
            let state = self.world.state_ref.get();
            for j in &self.open_jobs {
                if let Some(job) = state.get_job(JobId::new(*j)) {
                    if !job.is_open() {
                        continue;
                    }
                    let fin: Vec<u32> = job.tasks.iter().filter(|(_, t)| matches!(t.state, JobTaskState::Finished { .. })).map(|(k, _)| k.as_num()).collect();
                    let unf: Vec<u32> = job.tasks.iter().filter(|(_, t)| matches!(t.state, JobTaskState::Waiting | JobTaskState::Running { .. })).map(|(k, _)| k.as_num()).collect();
                    let max = job.tasks.keys().map(|k| k.as_num()).max().unwrap_or(0);
                    if !fin.is_empty() && !unf.is_empty() {
                        cands.push((*j, fin, unf, max));
                    }
                    if self.low_submit.contains(j) {
                        auto_cands.push(*j);
                    }
                }
            }
        }
        let profile = self.profile;
        // open jobs with a task that ended unsuccessfully (failed / canceled / ABORTED): a dependency on it must be refused
        let mut bad_cands: Vec<(u32, Vec<u32>, u32)> = vec![];
        {
            let state = self.world.state_ref.get();
            for j in &self.open_jobs {
                if let Some(job) = state.get_job(JobId::new(*j)) {
                    if !job.is_open() {
                        continue;
                    }
                    let bad: Vec<u32> = job
                        .tasks
                        .iter()
                        .filter(|(_, t)| matches!(t.state, JobTaskState::Failed { .. } | JobTaskState::Canceled { .. } | JobTaskState::Aborted { .. }))
                        .map(|(k, _)| k.as_num())
                        .collect();
                    if !bad.is_empty() {
                        bad_cands.push((*j, bad, job.tasks.keys().map(|k| k.as_num()).max().unwrap_or(0)));
                    }
                }
            }
        }
        match self.rng.below(4) {
            3 if !bad_cands.is_empty() => {
                let (j, bad, max) = self.rng.pick(&bad_cands).clone();
                let dep = *self.rng.pick(&bad);
                let id = max + 1;
                let (td, _) = self.gen_task_desc();
                let desc = JobTaskDescription::Graph {
                    resource_rqs: vec![gen_rq(&mut self.rng, profile)],
                    tasks: vec![TaskWithDependencies { id: JobTaskId::new(id), resource_rq_id: LocalResourceRqId::new(0), task_desc: td, task_deps: vec![JobTaskId::new(dep)] }],
                };
                self.submit_desc(Some(j), None, desc, format!("graph {id}:{dep}"));
                true
            }
            0 if !cands.is_empty() => {
                let (j, fin, unf, max) = self.rng.pick(&cands).clone();
                let mut deps: Vec<u32> = vec![*self.rng.pick(&fin), *self.rng.pick(&unf)];
                for d in fin.iter().chain(unf.iter()) {
                    if !deps.contains(d) && self.rng.chance(1, 3) {
                        deps.push(*d);
                    }
                }
                let id = max + 1;
                let (td, _) = self.gen_task_desc();
                let text = format!("graph {}:{}", id, deps.iter().map(|d| d.to_string()).collect::<Vec<_>>().join("."));
                let desc = JobTaskDescription::Graph {
                    resource_rqs: vec![gen_rq(&mut self.rng, profile)],
                    tasks: vec![TaskWithDependencies {
                        id: JobTaskId::new(id),
                        resource_rq_id: LocalResourceRqId::new(0),
                        task_desc: td,
                        task_deps: deps.iter().map(|d| JobTaskId::new(*d)).collect(),
                    }],
                };
                self.submit_desc(Some(j), None, desc, text);
                true
            }
            1 if !auto_cands.is_empty() => {
                let j = *self.rng.pick(&auto_cands);
                self.low_submit.retain(|x| *x != j);
                let (td, _) = self.gen_task_desc();
                let desc = JobTaskDescription::Array { ids: IntArray::new(vec![]), entries: None, resource_rq: gen_rq(&mut self.rng, profile), task_desc: td };
                self.submit_desc(Some(j), None, desc, "array - -".to_string());
                true
            }
            2 => {
                // a request class with a prefilled backlog at priority p: first a single task of the same class and
                // priority (alone in the ready queue at p), then a newcomer of the same class with a higher priority
                // (the backlog is disposed of and returns to the ready queue at p)
                let snap = self.world.server.core_snapshot();
                let user = |raw: u64| ((raw >> 32) as u32 ^ 0x8000_0000) as i32;
                let mut cands: Vec<(u32, i32, bool)> = vec![]; // class, priority of the backlog, ready queue has an entry at p
                for (i, q) in snap.queues.iter().enumerate() {
                    if let Some((p, ids)) = &q.prefill {
                        if !ids.is_empty() {
                            cands.push((i as u32, user(*p), q.ready.iter().any(|(rp, _)| rp == p)));
                        }
                    }
                }
                if cands.is_empty() {
                    return false;
                }
                let (class, p, has_entry) = *self.rng.pick(&cands);
                let Some(rqv) = snap.tasks.iter().filter(|t| t.rq == class).find_map(|t| self.task_rqv.get(&t.id).cloned()) else { return false };
                let prio = if has_entry { p + 1 } else { p };
                let desc = JobTaskDescription::Array { ids: IntArray::from_id(0), entries: None, resource_rq: rqv, task_desc: task_desc(prio, CrashLimit::default(), None) };
                self.submit_desc(None, None, desc, "array 0:1:1 -".to_string());
                true
            }
            _ => false,
        }
    }

    fn submit_desc(&mut self, job_id: Option<u32>, max_fails: Option<u32>, desc: JobTaskDescription, text: String) {
        let op = format!(
            "submit job={} mf={} {}",
            job_id.map(|j| j.to_string()).unwrap_or("-".into()),
            max_fails.map(|m| m.to_string()).unwrap_or("-".into()),
            text
        );
        let msg = FromClientMessage::Submit(
            SubmitRequest {
                job_desc: JobDescription { name: "j".into(), max_fails },
                submit_desc: JobSubmitDescription { task_desc: desc, submit_dir: "/tmp".into(), stream_path: None },
                job_id: job_id.map(JobId::new),
            },
            None,
        );
        self.client_action(op, msg);
    }

    /// State-directed choice: when the core holds a transient state that uniformly random actions rarely hit at the
    /// right moment (a task being retracted from a worker, possibly redirected to another one; prefilled tasks),
    /// aim the next action at it. Every choice ends in a `do_*` primitive, so the `act` lines replay it.
    fn act_focus(&mut self) -> bool {
        use tako::verif::server::SnapTaskState;
        let snap = self.world.server.core_snapshot();
        let reasons = [
            LostWorkerReason::Stopped,
            LostWorkerReason::ConnectionLost,
            LostWorkerReason::HeartbeatLost,
            LostWorkerReason::IdleTimeout,
            LostWorkerReason::TimeLimitReached,
        ];
        let retr: Vec<(TaskId, u32)> =
            snap.tasks.iter().filter_map(|t| if let SnapTaskState::Retracting(w) = t.state { Some((t.id, w)) } else { None }).collect();
        if !retr.is_empty() {
            let (t, src) = *self.rng.pick(&retr);
            let target = snap.redirects.iter().find(|r| r.0 == t).map(|r| r.1);
            let reason = *self.rng.pick(&reasons);
            match self.rng.below(9) {
                0 => self.do_lose_worker(src, reason),
                1 | 2 => match target {
                    Some(tg) => self.do_lose_worker(tg, reason),
                    None => {
                        self.do_deliver(src, true);
                    }
                },
                3 | 4 => {
                    if !self.do_deliver(src, true) {
                        self.do_deliver(src, false);
                    }
                }
                5 => {
                    self.do_deliver(src, false);
                }
                6 => {
                    let j = t.job_id().as_num();
                    self.client_action(format!("cancel {j}"), FromClientMessage::Cancel(CancelRequest { selector: Self::selector(&[j]), reason: None }));
                }
                7 => {
                    let kind = if self.rng.chance(1, 3) { EndKind::Error } else { EndKind::Finished };
                    if !self.do_end_task(src, t, kind) {
                        self.do_deliver(src, true);
                    }
                }
                _ => self.act_schedule(),
            }
            return true;
        }
        let pre: Vec<(TaskId, u32)> =
            snap.tasks.iter().filter_map(|t| if let SnapTaskState::Prefilled(w) = t.state { Some((t.id, w)) } else { None }).collect();
        if !pre.is_empty() {
            let (_, w) = *self.rng.pick(&pre);
            match self.rng.below(4) {
                0 if self.world.workers.len() < 4 => self.act_add_worker(),
                1 => {
                    let reason = *self.rng.pick(&reasons);
                    self.do_lose_worker(w, reason)
                }
                _ => self.act_schedule(),
            }
            return true;
        }
        false
    }

    pub fn step(&mut self) {
        if self.world.flush_gate.borrow().hold {
            // a journal flush is in progress (slow fsync): the cluster goes on meanwhile
            match self.rng.below(8) {
                0 => self.do_release_flush(),
                1 | 2 => self.act_schedule(),
                3 | 4 | 5 => {
                    if !self.act_deliver() {
                        self.act_schedule()
                    }
                }
                _ => {
                    let running = self.world.running_tasks();
                    if running.is_empty() {
                        self.act_deliver();
                    } else {
                        let (w, t) = *self.rng.pick(&running);
                        self.do_end_task(w, t, EndKind::Finished);
                    }
                }
            }
            return;
        }
        if self.rng.chance(1, 4) && self.act_focus() {
            return;
        }
        if self.rng.chance(1, 12) && self.act_directed_submit() {
            return;
        }
        if self.wait_mode && self.rng.chance(1, 15) {
            self.act_prune();
            return;
        }
        if self.profile == 4 && self.rng.chance(1, 12) && self.act_age_worker() {
            return;
        }
        if self.profile == 2 && self.rng.chance(1, 6) && self.act_focus_mn() {
            return;
        }
        let nworkers = self.world.workers.len() as u64;
        let w = [
            if nworkers < if self.profile == 2 { 4 } else { 3 } { 6 } else { 0 }, // add worker
            8,                                // submit
            2,                                // open
            3,                                // close
            3,                                // cancel
            2,                                // forget
            10,                               // schedule
            30,                               // deliver
            14,                               // end task
            2,                                // fail launch
            if nworkers > 0 { 3 } else { 0 }, // lose worker
        ];
        match self.rng.weighted(&w) {
            0 => self.act_add_worker(),
            1 => self.act_submit(),
            2 => self.act_open(),
            3 => self.act_close(),
            4 => self.act_cancel(),
            5 => self.act_forget(),
            6 => self.act_schedule(),
            7 => {
                if !self.act_deliver() {
                    self.act_schedule()
                }
            }
            8 => {
                if !self.act_end_task() {
                    self.act_deliver();
                }
            }
            9 => self.act_fail_next_launch(),
            _ => self.act_lose_worker(),
        }
    }

    /// fault-free suffix: deliver everything, end every running task successfully, schedule, until rest
    pub fn drain(&mut self, max_rounds: u32) -> bool {
        self.do_release_flush();
        for _ in 0..max_rounds {
            if self.panicked.is_some() {
                return false;
            }
            let mut progress = false;
            while self.panicked.is_none() && self.act_deliver() {
                progress = true;
            }
            let running = self.world.running_tasks();
            for (w, t) in running {
                if self.panicked.is_some() {
                    break;
                }
                self.do_end_task(w, t, EndKind::Finished);
                progress = true;
            }
            if self.panicked.is_some() {
                return false;
            }
            let flag = self.world.server.scheduling_flag();
            if flag {
                self.act_schedule();
                progress = true;
            }
            if !progress {
                // one more scheduling round must not dispatch anything
                self.act_schedule();
                let pending = self.world.workers.values().any(|w| !w.to_worker.is_empty() || !w.to_server.is_empty());
                if !pending && self.world.running_tasks().is_empty() && !self.world.server.scheduling_flag() {
                    self.do_rest_check();
                    return true;
                }
            }
        }
        false
    }
}

// ------------------------------------------------------------------------------------------------
// bounded exhaustive exploration (thorough tier): every sequence of enabled world actions up to a depth, from a
// few small fixed scenarios, each executed from scratch on the real code (the world cannot be cloned)

#[derive(Clone, Debug)]
pub enum XAct {
    Schedule,
    Deliver(u32, bool),
    End(u32, TaskId, bool),
    Lose(u32, bool),
    Cancel(u32),
    AddWorker,
    /// a 2-node task arrives (scenario 3)
    SubmitMn,
}

impl Sim {
    /// scenario 0: one 2-cpu worker, closed graph job 0; 1:0; 2 with max_fails 0
    /// scenario 1: two 1-cpu workers, array job of 3 tasks, proactive filling reserve 0 / max 2
    /// scenario 2: two workers of one group, one 2-node task and one 1-cpu task
    /// scenario 3: two groups of two 1-cpu workers, two 1-cpu tasks; a 2-node task may arrive later
    /// scenario 4: one worker with 8 cpus + 4 gpus, five tasks of a request with the variants [2 cpus | 1 cpu + 1 gpu]
    ///             (4 fit through either variant alone, 6 when the variants are mixed)
    /// scenario 5: one 1-cpu worker; job 1 = task A (assigned), open job 2 = task P (prefilled); A has ended on the worker
    ///             and the worker started P from its backlog (update in flight); a 2-node task may be submitted into
    ///             job 2, both jobs may be cancelled, a second worker may connect
    pub fn scenario(k: u32) -> Sim {
        use tako::resources::ResourceDescriptor;
        let prefill = if k == 1 || k == 5 { (0, 2) } else { (1, 1) };
        let mut s = Sim::build(0, false, prefill);
        s.profile = if k >= 2 { 2 } else { 0 };
        let mut add = |s: &mut Sim, cpus: u32, group: &str| {
            let next = WorkerId::new(s.world.server.worker_counter() + 1);
            let mut cfg = worker_config(next, cpus, group, None);
            cfg.resources = ResourceDescriptor::simple_cpus(cpus);
            s.do_add_worker(cfg);
        };
        match k {
            0 => {
                add(&mut s, 2, "default");
                let mk = |id: u32, deps: Vec<u32>| TaskWithDependencies {
                    id: JobTaskId::new(id),
                    resource_rq_id: LocalResourceRqId::new(0),
                    task_desc: task_desc(0, CrashLimit::MaxCrashes(1), None),
                    task_deps: deps.into_iter().map(JobTaskId::new).collect(),
                };
                let desc = JobTaskDescription::Graph { resource_rqs: vec![cpu_rq(1, 0)], tasks: vec![mk(0, vec![]), mk(1, vec![0]), mk(2, vec![])] };
                s.submit_desc(None, Some(0), desc, "graph 0:;1:0;2:".to_string());
            }
            1 => {
                add(&mut s, 1, "default");
                add(&mut s, 1, "default");
                let desc = JobTaskDescription::Array {
                    ids: IntArray::new(vec![IntRange::new(0, 3, 1)]),
                    entries: None,
                    resource_rq: cpu_rq(1, 0),
                    task_desc: task_desc(0, CrashLimit::default(), None),
                };
                s.submit_desc(None, None, desc, "array 0:3:1 -".to_string());
            }
            4 => {
                use tako::resources::{ResourceDescriptorItem, ResourceDescriptorKind};
                let next = WorkerId::new(s.world.server.worker_counter() + 1);
                let mut cfg = worker_config(next, 8, "default", None);
                cfg.resources = ResourceDescriptor::new(
                    vec![
                        ResourceDescriptorItem { name: "cpus".to_string(), kind: ResourceDescriptorKind::regular_sockets(2, 4) },
                        ResourceDescriptorItem::range("gpus", 0, 3),
                    ],
                    Default::default(),
                );
                s.do_add_worker(cfg);
                let ent = |name: &str, n: u32| ResourceRequestEntry { resource: name.to_string(), policy: AllocationRequest::Compact(ResourceAmount::new_units(n)) };
                let mk = |es: Vec<ResourceRequestEntry>| ResourceRequest { n_nodes: 0, resources: es.into_iter().collect(), min_time: Default::default(), weight: Default::default() };
                let rqv = ResourceRequestVariants::new(smallvec![mk(vec![ent("cpus", 2)]), mk(vec![ent("cpus", 1), ent("gpus", 1)])]);
                let desc = JobTaskDescription::Array {
                    ids: IntArray::new(vec![IntRange::new(0, 5, 1)]),
                    entries: None,
                    resource_rq: rqv,
                    task_desc: task_desc(0, CrashLimit::default(), None),
                };
                s.submit_desc(None, None, desc, "array 0:5:1 -".to_string());
                s.x_budget = (0, 1, 0);
            }
            6 => {
                // a task with three dependencies listed in submit order, the first of which has finished (the core has
                // forgotten it) while the other two still run, and a second consumer of the last one
                add(&mut s, 3, "default");
                let mk = |id: u32, deps: Vec<u32>| TaskWithDependencies {
                    id: JobTaskId::new(id),
                    resource_rq_id: LocalResourceRqId::new(0),
                    task_desc: task_desc(0, CrashLimit::MaxCrashes(1), None),
                    task_deps: deps.into_iter().map(JobTaskId::new).collect(),
                };
                let desc = JobTaskDescription::Graph {
                    resource_rqs: vec![cpu_rq(1, 0)],
                    tasks: vec![mk(0, vec![]), mk(1, vec![]), mk(2, vec![]), mk(3, vec![0, 1, 2]), mk(4, vec![2])],
                };
                s.submit_desc(None, None, desc, "graph 0:;1:;2:;3:0.1.2;4:2".to_string());
                s.act_schedule();
                while s.do_deliver(1, true) {}
                let a = TaskId::new(JobId::new(1), JobTaskId::new(0));
                s.do_end_task(1, a, EndKind::Finished);
                while s.do_deliver(1, false) {}
                s.x_budget = (0, 1, 0);
                return s;
            }
            7 | 8 | 9 => {
                // one group of three workers, ONE of them (the first, second or third) too short-lived for the time request
                // of the two-node tasks that arrive later
                let short = k - 7;
                for i in 0..3u32 {
                    let next = WorkerId::new(s.world.server.worker_counter() + 1);
                    let mut cfg = worker_config(next, 1, "ga", if i == short { Some(50_000) } else { None });
                    cfg.resources = ResourceDescriptor::simple_cpus(1);
                    s.do_add_worker(cfg);
                }
                s.x_budget = (0, 0, 0);
                s.x_submit = 2;
                s.x_mn_min_time = 100;
                return s;
            }
            5 => {
                add(&mut s, 1, "ga");
                let one = |ids: IntArray| JobTaskDescription::Array { ids, entries: None, resource_rq: cpu_rq(1, 0), task_desc: task_desc(0, CrashLimit::default(), None) };
                s.submit_desc(None, None, one(IntArray::from_id(0)), "array 0:1:1 -".to_string());
                s.client_action("open mf=-".to_string(), FromClientMessage::OpenJob(JobDescription { name: "o".into(), max_fails: None }));
                s.submit_desc(Some(2), None, one(IntArray::from_id(0)), "array 0:1:1 -".to_string());
                s.act_schedule();
                // the worker receives A and P, A ends, the worker starts P from its backlog
                while s.do_deliver(1, true) {}
                let a = TaskId::new(JobId::new(1), JobTaskId::new(0));
                s.do_end_task(1, a, EndKind::Finished);
                s.x_budget = (0, 2, 1);
                s.x_submit = 1;
                s.x_submit_job = Some(2);
                return s;
            }
            3 => {
                add(&mut s, 1, "ga");
                add(&mut s, 1, "ga");
                add(&mut s, 1, "gb");
                add(&mut s, 1, "gb");
                let sn = JobTaskDescription::Array {
                    ids: IntArray::new(vec![IntRange::new(0, 2, 1)]),
                    entries: None,
                    resource_rq: cpu_rq(1, 0),
                    task_desc: task_desc(0, CrashLimit::default(), None),
                };
                s.submit_desc(None, None, sn, "array 0:2:1 -".to_string());
                s.x_budget = (0, 0, 0);
                s.x_submit = 1;
            }
            _ => {
                add(&mut s, 1, "ga");
                add(&mut s, 1, "ga");
                let mn = JobTaskDescription::Array { ids: IntArray::from_id(0), entries: None, resource_rq: cpu_rq(0, 2), task_desc: task_desc(1, CrashLimit::MaxCrashes(1), None) };
                s.submit_desc(None, None, mn, "array 0:1:1 -".to_string());
                let sn = JobTaskDescription::Array { ids: IntArray::from_id(0), entries: None, resource_rq: cpu_rq(1, 0), task_desc: task_desc(0, CrashLimit::default(), None) };
                s.submit_desc(None, None, sn, "array 0:1:1 -".to_string());
            }
        }
        s.act_schedule();
        s
    }

    pub fn x_enabled(&self) -> Vec<XAct> {
        let mut v = vec![XAct::Schedule];
        for (id, w) in &self.world.workers {
            if !w.to_worker.is_empty() {
                v.push(XAct::Deliver(*id, true));
            }
            if !w.to_server.is_empty() {
                v.push(XAct::Deliver(*id, false));
            }
        }
        for (w, t) in self.world.running_tasks() {
            v.push(XAct::End(w, t, true));
            v.push(XAct::End(w, t, false));
        }
        if self.x_budget.0 > 0 {
            for id in self.world.workers.keys() {
                v.push(XAct::Lose(*id, true));
                v.push(XAct::Lose(*id, false));
            }
        }
        if self.x_budget.1 > 0 {
            for j in &self.known_jobs {
                v.push(XAct::Cancel(*j));
            }
        }
        if self.x_budget.2 > 0 {
            v.push(XAct::AddWorker);
        }
        if self.x_submit > 0 {
            v.push(XAct::SubmitMn);
        }
        v
    }

    pub fn x_do(&mut self, a: &XAct) {
        match a {
            XAct::Schedule => self.act_schedule(),
            XAct::Deliver(w, to_worker) => {
                self.do_deliver(*w, *to_worker);
            }
            XAct::End(w, t, ok) => {
                self.do_end_task(*w, *t, if *ok { EndKind::Finished } else { EndKind::Error });
            }
            XAct::Lose(w, failure) => {
                self.x_budget.0 -= 1;
                self.do_lose_worker(*w, if *failure { LostWorkerReason::ConnectionLost } else { LostWorkerReason::Stopped });
            }
            XAct::Cancel(j) => {
                self.x_budget.1 -= 1;
                self.client_action(format!("cancel {j}"), FromClientMessage::Cancel(CancelRequest { selector: Self::selector(&[*j]), reason: None }));
            }
            XAct::SubmitMn => {
                self.x_submit -= 1;
                let job = self.x_submit_job;
                let (ids, text) = if job.is_some() { (IntArray::from_id(1), "array 1:1:1 -") } else { (IntArray::from_id(0), "array 0:1:1 -") };
                let mut rq = cpu_rq(0, 2);
                if self.x_mn_min_time > 0 {
                    rq = ResourceRequestVariants::new_simple(ResourceRequest { n_nodes: 2, resources: Default::default(), min_time: std::time::Duration::from_secs(self.x_mn_min_time), weight: Default::default() });
                }
                let mn = JobTaskDescription::Array { ids, entries: None, resource_rq: rq, task_desc: task_desc(1, CrashLimit::MaxCrashes(1), None) };
                self.submit_desc(job, None, mn, text.to_string());
            }
            XAct::AddWorker => {
                self.x_budget.2 -= 1;
                let next = WorkerId::new(self.world.server.worker_counter() + 1);
                let group = if self.profile == 2 { "ga" } else { "default" };
                let mut cfg = worker_config(next, 1, group, None);
                cfg.resources = tako::resources::ResourceDescriptor::simple_cpus(1);
                self.do_add_worker(cfg);
            }
        }
    }
}

/// odometer enumeration of all action sequences of length <= depth; `emit` is called with every completed run
pub fn exhaust(scenario: u32, depth: usize, shard: u64, nshards: u64, mut emit: impl FnMut(&mut Sim, u64)) {
    let mut choice: Vec<usize> = vec![];
    let mut leaf: u64 = 0;
    loop {
        let mut sim = Sim::scenario(scenario);
        let mut counts: Vec<usize> = vec![];
        let mut skipped = false;
        for d in 0..depth {
            if sim.panicked.is_some() {
                break;
            }
            let acts = sim.x_enabled();
            if acts.is_empty() {
                break;
            }
            if d >= choice.len() {
                choice.push(0);
            }
            counts.push(acts.len());
            sim.x_do(&acts[choice[d]]);
            if d == 1 && ((choice[0] * 31 + choice[1]) as u64) % nshards != shard {
                skipped = true;
                break;
            }
        }
        choice.truncate(counts.len());
        if !skipped && (depth < 2 || counts.len() >= 2 || shard == 0) {
            if sim.panicked.is_none() {
                sim.drain(40);
            }
            emit(&mut sim, leaf);
            leaf += 1;
        }
        // next sequence
        let mut i = counts.len();
        loop {
            if i == 0 {
                return;
            }
            i -= 1;
            if choice[i] + 1 < counts[i] {
                choice[i] += 1;
                choice.truncate(i + 1);
                break;
            }
        }
    }
}

/// did the panic originate in the modelled job layer (M4) rather than in tako's core?
pub fn is_job_layer_panic(msg: &str) -> bool {
    msg.starts_with("[hyperqueue/src/server/job.rs")
        || msg.starts_with("[hyperqueue/src/server/state.rs")
        || msg.starts_with("[hyperqueue/src/server/client/")
        || msg.starts_with("[hyperqueue/src/client/status.rs")
}

pub fn panic_site(msg: &str) -> String {
    // "[<path under crates/>:<line>] message" -> "<file stem>.<enclosing fn>" read from the current source
    if let Some(rest) = msg.strip_prefix('[') {
        if let Some((loc, _)) = rest.split_once(']') {
            if let Some((file, line)) = loc.rsplit_once(':') {
                if let (Ok(line), Ok(text)) = (line.parse::<usize>(), std::fs::read_to_string(format!("/repo/crates/{file}"))) {
                    let lines: Vec<&str> = text.lines().collect();
                    let stem = std::path::Path::new(file).file_stem().and_then(|s| s.to_str()).unwrap_or("file");
                    let mut i = line.min(lines.len());
                    while i > 0 {
                        i -= 1;
                        let l = lines[i].trim_start();
                        let l = l.strip_prefix("pub(crate) ").or(l.strip_prefix("pub ")).unwrap_or(l);
                        let l = l.strip_prefix("async ").unwrap_or(l);
                        if let Some(r) = l.strip_prefix("fn ") {
                            let name: String = r.chars().take_while(|c| c.is_alphanumeric() || *c == '_').collect();
                            return format!("{stem}.{name}");
                        }
                    }
                    return format!("{stem}.?");
                }
            }
        }
    }
    "other".to_string()
}
