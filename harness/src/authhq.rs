//! Component `authhq`: the handshake as the REAL call sites configure it (roles, protocol number, key):
//! `ClientSession::connect_to_server`, `accept_client` (hyperqueue/src/transfer/connection.rs) and
//! `connect_to_server_and_authenticate` (tako worker/rpc.rs), over real TCP connections on 127.0.0.1, against
//! (a) the honest peer and (b) a peer that does not hold the key and ECHOES every byte it receives (reflection of both
//! handshake messages). The harness passes only the key; roles and protocol number come from the code.
//!
//! op:  `site <hq-client|hq-server|tako-worker> <honest|echo> key=<0|1>`
//! out: `res <accept|refuse>`            the endpoint under test
use std::io::BufRead;
use std::net::{Ipv4Addr, SocketAddr};
use std::sync::Arc;
use std::time::Duration;

use hyperqueue::common::serverdir::{ClientAccessRecord, ConnectAccessRecordPart};
use hyperqueue::transfer::connection::{ClientSession, accept_client};
use orion::kdf::SecretKey;
use tokio::io::{AsyncReadExt, AsyncWriteExt};
use tokio::net::{TcpListener, TcpStream};

use crate::util::{GenArgs, Trace};

fn key() -> Arc<SecretKey> {
    Arc::new(SecretKey::from_slice(&[7u8; 32]).unwrap())
}

async fn echo(mut s: TcpStream) {
    let mut buf = [0u8; 4096];
    loop {
        match s.read(&mut buf).await {
            Ok(0) | Err(_) => return,
            Ok(n) => {
                if s.write_all(&buf[..n]).await.is_err() {
                    return;
                }
            }
        }
    }
}

async fn run_row(site: &str, peer: &str, with_key: bool) -> bool {
    let k = if with_key { Some(key()) } else { None };
    let listener = TcpListener::bind(SocketAddr::new(Ipv4Addr::LOCALHOST.into(), 0)).await.unwrap();
    let port = listener.local_addr().unwrap().port();
    let record = ClientAccessRecord { version: "v".into(), client: ConnectAccessRecordPart { host: "127.0.0.1".into(), port, secret_key: k.clone() } };
    let t = Duration::from_secs(5);
    match (site, peer) {
        ("hq-client", "echo") => {
            tokio::task::spawn_local(async move {
                if let Ok((s, _)) = listener.accept().await {
                    echo(s).await
                }
            });
            matches!(tokio::time::timeout(t, ClientSession::connect_to_server(&record)).await, Ok(Ok(_)))
        }
        ("hq-client", _) => {
            let k2 = k.clone();
            tokio::task::spawn_local(async move {
                if let Ok((s, _)) = listener.accept().await {
                    let _c = accept_client(s, k2).await;
                    tokio::time::sleep(Duration::from_secs(1)).await;
                }
            });
            matches!(tokio::time::timeout(t, ClientSession::connect_to_server(&record)).await, Ok(Ok(_)))
        }
        ("hq-server", "echo") => {
            tokio::task::spawn_local(async move {
                if let Ok(s) = TcpStream::connect(SocketAddr::new(Ipv4Addr::LOCALHOST.into(), port)).await {
                    echo(s).await
                }
            });
            let (s, _) = listener.accept().await.unwrap();
            matches!(tokio::time::timeout(t, accept_client(s, k)).await, Ok(Ok(_)))
        }
        ("hq-server", _) => {
            tokio::task::spawn_local(async move {
                let _c = ClientSession::connect_to_server(&record).await;
                tokio::time::sleep(Duration::from_secs(1)).await;
            });
            let (s, _) = listener.accept().await.unwrap();
            matches!(tokio::time::timeout(t, accept_client(s, k)).await, Ok(Ok(_)))
        }
        ("tako-worker", "echo") => {
            tokio::task::spawn_local(async move {
                if let Ok((s, _)) = listener.accept().await {
                    echo(s).await
                }
            });
            let addr = SocketAddr::new(Ipv4Addr::LOCALHOST.into(), port);
            matches!(tokio::time::timeout(t, tako::comm::connect_to_server_and_authenticate(&[addr], k.clone())).await, Ok(Ok(_)))
        }
        _ => {
            // honest tako server: the real server accepts the worker's handshake (registration is not sent)
            drop(listener);
            let l2 = TcpListener::bind(SocketAddr::new(Ipv4Addr::LOCALHOST.into(), 0)).await.unwrap();
            let (server, fut) = tako::server::server_start(l2, k.clone(), Duration::from_millis(20), false, None, None, "uid".into(), 1.into(), Default::default()).unwrap();
            let h = tokio::task::spawn_local(fut);
            let addr = SocketAddr::new(Ipv4Addr::LOCALHOST.into(), server.get_worker_listen_port());
            let r = matches!(tokio::time::timeout(t, tako::comm::connect_to_server_and_authenticate(&[addr], k.clone())).await, Ok(Ok(_)));
            h.abort();
            r
        }
    }
}

fn exec(t: &mut Trace, toks: &[&str]) {
    if toks.first().copied() != Some("site") {
        return;
    }
    let (site, peer, with_key) = (toks[1].to_string(), toks[2].to_string(), toks[3] == "key=1");
    let r = crate::util::catch(|| {
        let rt = tokio::runtime::Builder::new_current_thread().enable_all().build().unwrap();
        let set = tokio::task::LocalSet::new();
        rt.block_on(set.run_until(run_row(&site, &peer, with_key)))
    });
    match r {
        Ok(accepted) => {
            t.out(&format!("res {}", if accepted { "accept" } else { "refuse" }));
            if accepted && peer == "echo" && with_key {
                t.mon_fail("c20.sound", "accepted-reflected-handshake", &format!("{site} accepted a peer that does not hold the key and only echoes the endpoint's own messages"));
            }
            if !accepted && peer == "honest" {
                t.mon_fail("c20.complete", "refused-honest-peer", &format!("{site} refused the honest peer with the same key configuration"));
            }
        }
        Err(p) => {
            t.out("!panic harness");
            t.mon_fail("c09.panic", "authhq-harness", &p);
        }
    }
}

fn rows() -> Vec<String> {
    let mut v = vec![];
    for site in ["hq-client", "hq-server", "tako-worker"] {
        for peer in ["honest", "echo"] {
            for k in [1, 0] {
                v.push(format!("site {site} {peer} key={k}"));
            }
        }
    }
    v
}

fn gen_main(args: &[String]) {
    let g = GenArgs::parse(args);
    let mut t = Trace::new();
    for (idx, op) in rows().iter().enumerate() {
        if idx as u64 % g.nshards != g.shard {
            continue;
        }
        t.case(idx as u64, g.case_seed(idx as u64), "rows=12");
        t.op(op);
        let toks: Vec<&str> = op.split(' ').collect();
        exec(&mut t, &toks);
        t.end();
    }
    t.flush();
}

fn replay_main() {
    let mut t = Trace::new();
    for line in std::io::stdin().lock().lines() {
        let line = line.unwrap();
        let toks: Vec<&str> = line.split(' ').filter(|x| !x.is_empty()).collect();
        match toks.first().copied() {
            Some("case") => t.line(&toks.join(" ")),
            Some("op") => {
                t.line(&toks.join(" "));
                exec(&mut t, &toks[1..]);
            }
            Some("end") => t.end(),
            _ => {}
        }
    }
    t.flush();
}

pub fn main(mode: &str, args: &[String]) {
    match mode {
        "gen" => gen_main(args),
        "replay" => replay_main(),
        _ => {
            eprintln!("usage: hqv authhq gen --seed S --shard i/n --cases N --tier T | hqv authhq replay");
            std::process::exit(2);
        }
    }
}
