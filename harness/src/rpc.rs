//! Component `rpc` (M9): the end of a worker connection, on the REAL tako server over TCP.
//!
//! `tako::server::server_start` listens on 127.0.0.1; hand-made workers connect with the real
//! `connect_to_server_and_authenticate`, register, and then their connection ENDS in one of the ways a worker can
//! go away: clean close, close in the middle of a frame, an undecodable frame, a `Stop(reason)` message, silence
//! (no heartbeat). Observed: the loss the server announces to its client (`on_worker_lost` reason), whether the
//! server still knows the worker, whether a task that was assigned to it is sent to another worker, and whether the
//! server survives a later submit + scheduling round (`worker_rpc_loop`, `worker_receive_loop`, `on_remove_worker`).
//!
//! op:  `end <kind> pre=<0|1> other=<0|1>`   kind = eof | trunc | garbage | stop-idle | stop-time | stop-int | silent
//! out: `lost <reason|none>` | `removed <0|1>` | `resent <0|1|->` | `alive <0|1>`
use std::cell::RefCell;
use std::io::BufRead;
use std::net::{Ipv4Addr, SocketAddr};
use std::rc::Rc;
use std::time::Duration;

use futures::{SinkExt, StreamExt};
use tako::comm::{ConnectionRegistration, RegisterWorker, connect_to_server_and_authenticate, open_message, seal_message, serialize};
use tako::events::EventProcessor;
use tako::gateway::{CrashLimit, LostWorkerReason, SharedTaskConfiguration, TaskConfiguration, TaskSubmit};
use tako::internal::messages::worker::{FromWorkerMessage, ToWorkerMessage, WorkerRegistrationResponse, WorkerStopReason};
use tako::resources::{ResourceDescriptor, ResourceDescriptorItem, ResourceDescriptorKind};
use tako::server::ConnectionDescriptor;
use tako::worker::{ServerLostPolicy, WorkerConfiguration};
use tako::{InstanceId, JobId, JobTaskId, ResourceVariantId, TaskId, UserPriority, WorkerId};
use tokio::io::AsyncWriteExt;

use crate::util::{GenArgs, Rng, Trace};

const KINDS: [&str; 7] = ["eof", "trunc", "garbage", "stop-idle", "stop-time", "stop-int", "silent"];

#[derive(Default)]
struct Events {
    lost: Vec<(u32, LostWorkerReason)>,
    new: Vec<u32>,
}

struct Client(Rc<RefCell<Events>>);

impl EventProcessor for Client {
    fn on_task_finished(&mut self, _: TaskId) {}
    fn on_task_started(&mut self, _: TaskId, _: InstanceId, _: &[WorkerId], _: ResourceVariantId, _: tako::task::SerializedTaskContext) {}
    fn on_task_error(&mut self, _: TaskId, _: Vec<TaskId>, _: tako::internal::messages::common::TaskFailInfo) -> Vec<TaskId> {
        vec![]
    }
    fn on_worker_new(&mut self, worker_id: WorkerId, _: &WorkerConfiguration) {
        self.0.borrow_mut().new.push(worker_id.as_num());
    }
    fn on_worker_lost(&mut self, worker_id: WorkerId, _: &[TaskId], reason: LostWorkerReason) {
        self.0.borrow_mut().lost.push((worker_id.as_num(), reason));
    }
    fn on_worker_overview(&mut self, _: Box<tako::worker::WorkerOverview>) {}
    fn on_task_notify(&mut self, _: TaskId, _: WorkerId, _: Box<[u8]>) {}
}

fn configuration(heartbeat_ms: u64) -> WorkerConfiguration {
    WorkerConfiguration {
        resources: ResourceDescriptor::new(vec![ResourceDescriptorItem { name: "cpus".into(), kind: ResourceDescriptorKind::simple_indices(1) }], Default::default()),
        listen_address: "".to_string(),
        hostname: "h".to_string(),
        group: "g".to_string(),
        work_dir: Default::default(),
        heartbeat_interval: Duration::from_millis(heartbeat_ms),
        overview_configuration: Default::default(),
        idle_timeout: None,
        on_server_lost: ServerLostPolicy::Stop,
        time_limit: None,
        extra: Default::default(),
        min_utilization: 0.0,
        retract_check_interval: Duration::from_secs(30),
    }
}

fn reason_name(r: LostWorkerReason) -> &'static str {
    match r {
        LostWorkerReason::Stopped => "stopped",
        LostWorkerReason::ConnectionLost => "connection-lost",
        LostWorkerReason::HeartbeatLost => "heartbeat-lost",
        LostWorkerReason::IdleTimeout => "idle-timeout",
        LostWorkerReason::TimeLimitReached => "time-limit",
    }
}

struct Outcome {
    lost: Option<LostWorkerReason>,
    removed: bool,
    resent: Option<bool>,
    alive: bool,
}

async fn register(address: SocketAddr, heartbeat_ms: u64) -> (ConnectionDescriptor, u32) {
    let mut c = connect_to_server_and_authenticate(&[address], None).await.unwrap();
    let message = ConnectionRegistration::Worker(RegisterWorker { configuration: configuration(heartbeat_ms) });
    let data = serialize(&message).unwrap().into();
    c.sender.send(seal_message(&mut c.sealer, data)).await.unwrap();
    let data = c.receiver.next().await.unwrap().unwrap();
    let response: WorkerRegistrationResponse = open_message(&mut c.opener, &data).unwrap();
    (c, response.worker_id.as_num())
}

fn submit(server: &tako::control::ServerRef, job: u32) {
    let rq = server.get_or_create_resource_rq_id(&tako::gateway::ResourceRequestVariants::default());
    let id = TaskId::new(JobId::new(job), JobTaskId::new(0));
    let _ = server.add_new_tasks(TaskSubmit {
        tasks: vec![TaskConfiguration { id, resource_rq_id: rq, shared_data_index: 0, task_deps: Default::default(), entry: None }],
        shared_data: vec![SharedTaskConfiguration { time_limit: None, priority: UserPriority::new(0), crash_limit: CrashLimit::default(), body: Rc::from(Vec::<u8>::new()) }],
        adjust_instance_id_and_crash_counters: Default::default(),
    });
}

/// reads frames of a healthy connection for `ms`, returns whether a ComputeTasks naming task (job, 0) arrived
async fn saw_compute(c: &mut ConnectionDescriptor, job: u32, ms: u64) -> bool {
    let deadline = tokio::time::Instant::now() + Duration::from_millis(ms);
    let mut next_hb = tokio::time::Instant::now();
    loop {
        let now = tokio::time::Instant::now();
        if now >= deadline {
            return false;
        }
        if now >= next_hb {
            let data = serialize(&FromWorkerMessage::Heartbeat).unwrap().into();
            let _ = c.sender.send(seal_message(&mut c.sealer, data)).await;
            next_hb = now + Duration::from_millis(80);
        }
        match tokio::time::timeout(Duration::from_millis(40), c.receiver.next()).await {
            Ok(Some(Ok(data))) => {
                if let Ok(ToWorkerMessage::ComputeTasks(m)) = open_message::<ToWorkerMessage>(&mut c.opener, &data) {
                    if m.tasks.iter().any(|t| t.id.job_id().as_num() == job) {
                        return true;
                    }
                }
            }
            Ok(Some(Err(_))) | Ok(None) => return false,
            Err(_) => {}
        }
    }
}

fn run_case(kind: &str, pre: bool, other: bool) -> Outcome {
    let rt = tokio::runtime::Builder::new_current_thread().enable_all().build().unwrap();
    let set = tokio::task::LocalSet::new();
    let events: Rc<RefCell<Events>> = Default::default();
    let ev2 = events.clone();
    let kind = kind.to_string();
    rt.block_on(set.run_until(async move {
        let listener = tokio::net::TcpListener::bind(SocketAddr::new(Ipv4Addr::LOCALHOST.into(), 0)).await.unwrap();
        let (server, fut) =
            tako::server::server_start(listener, None, Duration::from_millis(20), false, None, None, "verif-uid".to_string(), 1.into(), Default::default()).unwrap();
        server.set_client_events(Box::new(Client(ev2)));
        let handle = tokio::task::spawn_local(fut);
        let address = SocketAddr::new(Ipv4Addr::LOCALHOST.into(), server.get_worker_listen_port());
        // the worker under test announces a 200 ms heartbeat (its silence is noticed within about a second)
        let (mut victim, wid) = register(address, 200).await;
        if pre {
            // a task is assigned to the worker before it goes away
            submit(&server, 1);
            let _ = saw_compute(&mut victim, 1, 400).await;
        }
        // the healthy worker announces a long heartbeat interval: a loaded machine must not make it look lost
        let mut healthy = if other { Some(register(address, 20_000).await.0) } else { None };
        // ---- the connection ends
        match kind.as_str() {
            "eof" => {
                let mut stream = victim.sender.reunite(victim.receiver).unwrap().into_inner();
                let _ = stream.shutdown().await;
            }
            "trunc" => {
                let mut stream = victim.sender.reunite(victim.receiver).unwrap().into_inner();
                let _ = stream.write_all(&[64, 0, 0, 0, 1, 2, 3]).await;
                let _ = stream.shutdown().await;
            }
            "garbage" => {
                let _ = victim.sender.send(seal_message(&mut victim.sealer, vec![0xffu8; 24].into())).await;
                // keep the socket open: the server has to give the connection up on its own
                tokio::task::spawn_local(async move {
                    let _keep = victim;
                    tokio::time::sleep(Duration::from_secs(30)).await;
                });
            }
            "stop-idle" | "stop-time" | "stop-int" => {
                let r = match kind.as_str() {
                    "stop-idle" => WorkerStopReason::IdleTimeout,
                    "stop-time" => WorkerStopReason::TimeLimitReached,
                    _ => WorkerStopReason::Interrupted,
                };
                let data = serialize(&FromWorkerMessage::Stop(r)).unwrap().into();
                let _ = victim.sender.send(seal_message(&mut victim.sealer, data)).await;
                let mut stream = victim.sender.reunite(victim.receiver).unwrap().into_inner();
                let _ = stream.shutdown().await;
            }
            _ => {
                // silent: the socket stays open, no heartbeat is sent
                tokio::task::spawn_local(async move {
                    let _keep = victim;
                    tokio::time::sleep(Duration::from_secs(30)).await;
                });
            }
        }
        // ---- wait for the announcement (heartbeat loss needs > 2 intervals and a 500 ms check period)
        let mut resent = None;
        let mut waited = 0;
        while waited < 4000 && !events.borrow().lost.iter().any(|(w, _)| *w == wid) && !handle.is_finished() {
            if let Some(h) = healthy.as_mut() {
                if pre && resent != Some(true) {
                    resent = Some(saw_compute(h, 1, 40).await);
                } else {
                    let _ = saw_compute(h, u32::MAX, 40).await;
                }
            } else {
                tokio::time::sleep(Duration::from_millis(40)).await;
            }
            waited += 40;
        }
        if let Some(h) = healthy.as_mut() {
            if pre && resent != Some(true) {
                resent = Some(saw_compute(h, 1, 600).await);
            }
        }
        // ---- a later submit and a scheduling round
        submit(&server, 2);
        if let Some(h) = healthy.as_mut() {
            let _ = saw_compute(h, 2, 200).await;
        } else {
            tokio::time::sleep(Duration::from_millis(200)).await;
        }
        let alive = !handle.is_finished();
        let removed = !alive || server.worker_info(WorkerId::new(wid)).is_none();
        let lost = events.borrow().lost.iter().find(|(w, _)| *w == wid).map(|(_, r)| *r);
        handle.abort();
        Outcome { lost, removed, resent, alive }
    }))
}

fn exec(t: &mut Trace, toks: &[&str]) {
    if toks.first().copied() != Some("end") {
        return;
    }
    let kind = toks[1];
    let pre = toks.iter().any(|x| *x == "pre=1");
    let other = toks.iter().any(|x| *x == "other=1");
    let r = crate::util::catch(|| run_case(kind, pre, other));
    match r {
        Ok(o) => {
            t.out(&format!("lost {}", o.lost.map(reason_name).unwrap_or("none")));
            t.out(&format!("removed {}", o.removed as u8));
            t.out(&format!("resent {}", o.resent.map(|b| (b as u8).to_string()).unwrap_or("-".into())));
            t.out(&format!("alive {}", o.alive as u8));
            if !o.alive {
                t.mon_fail("c09.panic", "server-down-after-connection-end", &format!("the server future ended after a worker connection ended with `{kind}`"));
            }
            if o.lost.is_none() {
                t.mon_fail("c09.conn", "loss-not-announced", &format!("the worker whose connection ended with `{kind}` was never announced as lost"));
            }
            if !o.removed {
                t.mon_fail("c09.conn", "worker-not-removed", &format!("the server still knows the worker whose connection ended with `{kind}`"));
            }
            if o.resent == Some(false) {
                t.mon_fail("c09.conn", "task-not-resent", &format!("the task assigned to the worker lost with `{kind}` was not sent to the other worker"));
            }
        }
        Err(p) => {
            t.out("!panic harness");
            t.mon_fail("c09.panic", "rpc-harness", &p);
        }
    }
}

fn gen_main(args: &[String]) {
    let g = GenArgs::parse(args);
    let mut t = Trace::new();
    // the table is small: kinds x pre x other = 28 rows, split over the shards; --cases limits the rows per shard
    let mut rows = vec![];
    for k in KINDS {
        for pre in [false, true] {
            for other in [false, true] {
                rows.push((k, pre, other));
            }
        }
    }
    let mut rng = Rng::new(g.seed ^ 0x5eed);
    for i in (1..rows.len()).rev() {
        let j = rng.below(i as u64 + 1) as usize;
        rows.swap(i, j);
    }
    let mut mine = 0u64;
    for (idx, (k, pre, other)) in rows.iter().enumerate() {
        if idx as u64 % g.nshards != g.shard {
            continue;
        }
        if mine >= g.cases {
            break;
        }
        mine += 1;
        t.case(idx as u64, g.case_seed(idx as u64), "rows=28");
        let op = format!("end {k} pre={} other={}", *pre as u8, *other as u8);
        t.op(&op);
        let toks: Vec<&str> = op.split(' ').collect();
        exec(&mut t, &toks);
        t.end();
    }
    t.flush();
}

fn replay_main() {
    let mut t = Trace::new();
    for line in std::io::stdin().lock().lines() {
        let line = line.unwrap();
        let toks: Vec<&str> = line.split(' ').filter(|x| !x.is_empty()).collect();
        match toks.first().copied() {
            Some("case") => t.line(&toks.join(" ")),
            Some("op") => {
                t.line(&toks.join(" "));
                exec(&mut t, &toks[1..]);
            }
            Some("end") => t.end(),
            _ => {}
        }
    }
    t.flush();
}

pub fn main(mode: &str, args: &[String]) {
    match mode {
        "gen" => gen_main(args),
        "replay" => replay_main(),
        _ => {
            eprintln!("usage: hqv rpc gen --seed S --shard i/n --cases N --tier T | hqv rpc replay");
            std::process::exit(2);
        }
    }
}
