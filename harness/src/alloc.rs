//! Component `alloc` — worker-side resource allocator (C04, C16).
//!
//! Drives the real `ResourceAllocator` of `/repo` through `tako::verif::alloc::VerifAllocator` and prints
//! the trace protocol of `/verif/notes/alloc.md`. `gen` generates cases, `replay` re-executes the
//! `case`/`op` lines of a trace read from stdin (choices are recomputed from the real run).
use crate::util::{GenArgs, Rng, Trace, catch, list};
use smallvec::SmallVec;
use std::collections::{BTreeMap, BTreeSet};
use std::io::BufRead;
use std::rc::Rc;
use std::time::Duration;
use tako::resources::{
    Allocation, AllocationRequest, ResourceAllocRequest, ResourceAmount, ResourceDescriptor,
    ResourceDescriptorCoupling, ResourceDescriptorCouplingItem, ResourceDescriptorItem,
    ResourceDescriptorKind, ResourceRequest, ResourceWeight,
};
use tako::verif::alloc::{
    AllocatorSnapshot, ConciseSnapshot, PoolSnapshot, SolverRecord, VerifAllocator,
    clear_solver_log, take_solver_log,
};

const FPU: u64 = 10_000;

// ------------------------------------------------------------------------------------------------
// Case description
// ------------------------------------------------------------------------------------------------

#[derive(Clone, Debug, PartialEq, Eq)]
pub enum Kind {
    List(u32),
    Range(u32, u32),
    Groups(Vec<u32>),
    /// size in fractions
    Sum(u64),
}

#[derive(Clone, Copy, Debug, PartialEq, Eq, PartialOrd, Ord)]
pub enum Pol {
    C,
    FC,
    T,
    FT,
    S,
    A,
}

impl Pol {
    fn tok(self) -> &'static str {
        match self {
            Pol::C => "C",
            Pol::FC => "FC",
            Pol::T => "T",
            Pol::FT => "FT",
            Pol::S => "S",
            Pol::A => "A",
        }
    }
    fn is_force(self) -> bool {
        matches!(self, Pol::FC | Pol::FT)
    }
    fn is_coupling(self) -> bool {
        matches!(self, Pol::C | Pol::FC | Pol::T | Pol::FT)
    }
}

/// (rid, policy, amount in fractions; ignored for `A`)
pub type RqEntry = (u32, Pol, u64);
pub type Rq = Vec<RqEntry>;

#[derive(Clone, Debug)]
pub enum Op {
    Init,
    Enabled(Rq),
    Alloc(Rq),
    Release(usize),
}

#[derive(Clone, Debug, Default)]
pub struct Case {
    pub items: Vec<(u32, Kind)>,
    /// (resource1_idx, group1_idx, resource2_idx, group2_idx, weight); resource idx = position in `items`
    pub couplings: Vec<(u8, u8, u8, u8, u16)>,
    pub ops: Vec<Op>,
}

fn amount_of(x: u64) -> ResourceAmount {
    ResourceAmount::new((x / FPU) as u32, (x % FPU) as u32)
}

fn build_descriptor(case: &Case) -> (ResourceDescriptor, Vec<String>) {
    let mut resources = Vec::new();
    for (rid, kind) in &case.items {
        let kind = match kind {
            Kind::List(n) => ResourceDescriptorKind::List {
                values: (0..*n).map(|i| format!("a{i}")).collect(),
            },
            Kind::Range(s, e) => ResourceDescriptorKind::Range {
                start: (*s).into(),
                end: (*e).into(),
            },
            Kind::Groups(sizes) => {
                let mut k = 0;
                ResourceDescriptorKind::Groups {
                    groups: sizes
                        .iter()
                        .map(|n| {
                            (0..*n)
                                .map(|_| {
                                    k += 1;
                                    format!("a{}", k - 1)
                                })
                                .collect()
                        })
                        .collect(),
                }
            }
            Kind::Sum(size) => ResourceDescriptorKind::Sum {
                size: amount_of(*size),
            },
        };
        resources.push(ResourceDescriptorItem {
            name: format!("r{rid}"),
            kind,
        });
    }
    let weights = case
        .couplings
        .iter()
        .map(|&(i1, g1, i2, g2, w)| ResourceDescriptorCouplingItem {
            resource1_idx: i1,
            group1_idx: g1.into(),
            resource2_idx: i2,
            group2_idx: g2.into(),
            weight: w,
        })
        .collect();
    let n = case.items.iter().map(|(r, _)| *r).max().map(|m| m + 1).unwrap_or(0);
    let names = (0..n).map(|i| format!("r{i}")).collect();
    (
        ResourceDescriptor::new(resources, ResourceDescriptorCoupling { weights }),
        names,
    )
}

fn build_request(rq: &Rq) -> ResourceRequest {
    let entries: SmallVec<[ResourceAllocRequest; 3]> = rq
        .iter()
        .map(|&(rid, pol, amount)| {
            let a = amount_of(amount);
            ResourceAllocRequest {
                resource_id: rid.into(),
                request: match pol {
                    Pol::C => AllocationRequest::Compact(a),
                    Pol::FC => AllocationRequest::ForceCompact(a),
                    Pol::T => AllocationRequest::Tight(a),
                    Pol::FT => AllocationRequest::ForceTight(a),
                    Pol::S => AllocationRequest::Scatter(a),
                    Pol::A => AllocationRequest::All,
                },
            }
        })
        .collect();
    ResourceRequest::new(0, Duration::ZERO, entries, ResourceWeight::default())
}

/// The request as the real code sees it (`entries()` order).
fn entries_of(req: &ResourceRequest) -> Rq {
    req.entries()
        .iter()
        .map(|e| {
            let rid = e.resource_id.as_num();
            match &e.request {
                AllocationRequest::Compact(a) => (rid, Pol::C, a.total_fractions()),
                AllocationRequest::ForceCompact(a) => (rid, Pol::FC, a.total_fractions()),
                AllocationRequest::Tight(a) => (rid, Pol::T, a.total_fractions()),
                AllocationRequest::ForceTight(a) => (rid, Pol::FT, a.total_fractions()),
                AllocationRequest::Scatter(a) => (rid, Pol::S, a.total_fractions()),
                AllocationRequest::All => (rid, Pol::A, 0),
            }
        })
        .collect()
}

// ------------------------------------------------------------------------------------------------
// Formatting
// ------------------------------------------------------------------------------------------------

fn header_params(case: &Case) -> String {
    let mut toks = Vec::new();
    for (rid, kind) in &case.items {
        toks.push(match kind {
            Kind::List(n) => format!("d:{rid}:L:{n}"),
            Kind::Range(s, e) => format!("d:{rid}:R:{s}:{e}"),
            Kind::Groups(sizes) => format!(
                "d:{rid}:G:{}",
                sizes.iter().map(|x| x.to_string()).collect::<Vec<_>>().join(".")
            ),
            Kind::Sum(size) => format!("d:{rid}:S:{size}"),
        });
    }
    for (i1, g1, i2, g2, w) in &case.couplings {
        toks.push(format!("w:{i1}:{g1}:{i2}:{g2}:{w}"));
    }
    toks.join(" ")
}

fn rq_string(entries: &Rq) -> String {
    list(entries.iter().map(|&(rid, pol, amount)| {
        if pol == Pol::A {
            format!("{rid}:A")
        } else {
            format!("{rid}:{}:{amount}", pol.tok())
        }
    }))
}

fn sol_string(log: &[SolverRecord]) -> String {
    if log.is_empty() {
        return "-".to_string();
    }
    log.iter()
        .map(|rec| match rec {
            None => "N".to_string(),
            Some((sets, obj)) => {
                let obj = (obj * 20000.0).round() as i64;
                let sets = sets
                    .iter()
                    .map(|s| {
                        if s.is_empty() {
                            "e".to_string()
                        } else {
                            let mut s = s.clone();
                            s.sort_unstable();
                            s.iter().map(|g| g.to_string()).collect::<Vec<_>>().join(".")
                        }
                    })
                    .collect::<Vec<_>>()
                    .join("+");
                format!("{obj}@{sets}")
            }
        })
        .collect::<Vec<_>>()
        .join("/")
}

fn fp_string(a: Option<&Allocation>) -> String {
    let Some(a) = a else {
        return "-".to_string();
    };
    list(a.resources.iter().filter_map(|ra| {
        ra.indices
            .last()
            .filter(|last| last.fractions > 0)
            .map(|last| format!("{}:{}", ra.resource_id.as_num(), last.index.as_num()))
    }))
}

fn frac_string(fr: &[(u32, u32)]) -> String {
    list(fr.iter().map(|(i, v)| format!("{i}:{v}")))
}

fn bar<T>(xs: &[T], f: impl Fn(&T) -> String) -> String {
    if xs.is_empty() {
        "-".to_string()
    } else {
        xs.iter().map(f).collect::<Vec<_>>().join("|")
    }
}

fn print_snapshot(t: &mut Trace, s: &AllocatorSnapshot) {
    for (r, p) in s.pools.iter().enumerate() {
        match p {
            PoolSnapshot::Empty => t.out(&format!("pool {r} E")),
            PoolSnapshot::Indices { full, free, fractions } => t.out(&format!(
                "pool {r} I {full} {} {}",
                list(free.iter()),
                frac_string(fractions)
            )),
            PoolSnapshot::Groups { full, free, fractions } => t.out(&format!(
                "pool {r} G {full} {} {}",
                bar(free, |g| list(g.iter())),
                bar(fractions, |g| frac_string(g))
            )),
            PoolSnapshot::Sum { full, free } => t.out(&format!("pool {r} S {full} {free}")),
        }
    }
    for (r, c) in s.concise.iter().enumerate() {
        t.out(&format!(
            "concise {r} {}",
            bar(&c.0, |(units, fr)| format!("{units}/{}", frac_string(fr)))
        ));
    }
}

fn panic_kw(msg: &str) -> &'static str {
    if msg.contains("unreachable") {
        "unreachable"
    } else if msg.contains("unwrap") {
        "unwrap"
    } else if msg.contains("assert") {
        "assert"
    } else if msg.contains("index out of bounds") || msg.contains("out of range") {
        "oob"
    } else if msg.contains("overflow") {
        "overflow"
    } else {
        "other"
    }
}

// ------------------------------------------------------------------------------------------------
// Reference computations for the monitors (independent of the implementation's arithmetic)
// ------------------------------------------------------------------------------------------------

#[derive(Clone, Debug, PartialEq, Eq)]
struct GroupState {
    free: Vec<u32>,
    fr: Vec<(u32, u32)>,
}

#[derive(Clone, Debug, PartialEq, Eq)]
enum PoolView {
    Empty,
    /// `is_groups`: `ResourcePool::Groups` (even with a single group)
    Idx { is_groups: bool, full: u64, groups: Vec<GroupState> },
    Sum { full: u64, free: u64 },
}

fn view(p: &PoolSnapshot) -> PoolView {
    match p {
        PoolSnapshot::Empty => PoolView::Empty,
        PoolSnapshot::Indices { full, free, fractions } => PoolView::Idx {
            is_groups: false,
            full: *full,
            groups: vec![GroupState { free: free.clone(), fr: fractions.clone() }],
        },
        PoolSnapshot::Groups { full, free, fractions } => PoolView::Idx {
            is_groups: true,
            full: *full,
            groups: free
                .iter()
                .enumerate()
                .map(|(g, f)| GroupState {
                    free: f.clone(),
                    fr: fractions.get(g).cloned().unwrap_or_default(),
                })
                .collect(),
        },
        PoolSnapshot::Sum { full, free } => PoolView::Sum { full: *full, free: *free },
    }
}

fn views(s: &AllocatorSnapshot) -> Vec<PoolView> {
    s.pools.iter().map(view).collect()
}

/// Normal form used to compare states "as multisets per group".
#[derive(Debug, PartialEq, Eq)]
enum NormPool {
    Empty,
    Idx(Vec<(Vec<u32>, Vec<(u32, u32)>)>),
    Sum(u64),
}

fn normalize(s: &AllocatorSnapshot) -> Vec<NormPool> {
    views(s)
        .into_iter()
        .map(|p| match p {
            PoolView::Empty => NormPool::Empty,
            PoolView::Sum { free, .. } => NormPool::Sum(free),
            PoolView::Idx { groups, .. } => NormPool::Idx(
                groups
                    .into_iter()
                    .map(|g| {
                        let mut free = g.free;
                        free.sort_unstable();
                        let fr = g.fr.into_iter().filter(|(_, v)| *v > 0).collect();
                        (free, fr)
                    })
                    .collect(),
            ),
        })
        .collect()
}

fn strip(c: &[(u32, Vec<(u32, u32)>)]) -> Vec<(u32, Vec<(u32, u32)>)> {
    c.iter()
        .map(|(u, fr)| (*u, fr.iter().copied().filter(|(_, v)| *v > 0).collect()))
        .collect()
}

fn summary_of(p: &PoolView) -> Vec<(u32, Vec<(u32, u32)>)> {
    match p {
        PoolView::Empty => vec![],
        PoolView::Sum { free, .. } => {
            let fr = (free % FPU) as u32;
            vec![((free / FPU) as u32, if fr > 0 { vec![(0, fr)] } else { vec![] })]
        }
        PoolView::Idx { groups, .. } => {
            groups.iter().map(|g| (g.free.len() as u32, g.fr.clone())).collect()
        }
    }
}

/// Is `amount` available in the pool (reference of c16.admit)?
fn entry_available(pool: Option<&PoolView>, universe: Option<&BTreeSet<(u32, u32)>>, e: &RqEntry) -> bool {
    let (_, pol, amount) = *e;
    match pool {
        None | Some(PoolView::Empty) => false,
        Some(PoolView::Sum { full, free }) => {
            if pol == Pol::A { free == full } else { amount <= *free }
        }
        Some(PoolView::Idx { groups, .. }) => {
            let w: u64 = groups.iter().map(|g| g.free.len() as u64).sum();
            if pol == Pol::A {
                let free: BTreeSet<(u32, u32)> = groups
                    .iter()
                    .enumerate()
                    .flat_map(|(g, gs)| gs.free.iter().map(move |i| (g as u32, *i)))
                    .collect();
                universe.is_some_and(|u| *u == free)
            } else {
                let (u, f) = (amount / FPU, amount % FPU);
                u <= w && (f == 0 || u < w || groups.iter().any(|g| g.fr.iter().any(|(_, v)| *v as u64 >= f)))
            }
        }
    }
}

/// Minimum cardinality of a feasible group subset (brute force); `None` if there is none.
fn min_groups(groups: &[GroupState], amount: u64) -> Option<usize> {
    let (u, f) = (amount / FPU, amount % FPU);
    let n = groups.len().min(16);
    let mut best: Option<usize> = None;
    for mask in 0u32..(1u32 << n) {
        let mut units = 0u64;
        let mut has_frac = false;
        for (g, gs) in groups.iter().enumerate().take(n) {
            if mask & (1 << g) != 0 {
                units += gs.free.len() as u64;
                if gs.fr.iter().any(|(_, v)| *v as u64 >= f) {
                    has_frac = true;
                }
            }
        }
        if units >= u && (f == 0 || units >= u + 1 || has_frac) {
            let c = mask.count_ones() as usize;
            if best.is_none_or(|b| c < b) {
                best = Some(c);
            }
        }
    }
    best
}

/// Best objective value of `group_solver` for ONE coupled entry when no coupling weight is active (brute force
/// over the group subsets with the solver's own cost terms); `None` if no subset is feasible.
fn best_objective(groups: &[GroupState], amount: u64) -> Option<f64> {
    let (u, f) = (amount / FPU, amount % FPU);
    let n = groups.len().min(16);
    let mut best: Option<f64> = None;
    for mask in 0u32..(1u32 << n) {
        let mut units = 0u64;
        let mut units_frac = 0u64;
        let mut any_frac = false;
        let mut cost = 0.0f64;
        for (g, gs) in groups.iter().enumerate().take(n) {
            if mask & (1 << g) == 0 {
                continue;
            }
            let ug = gs.free.len() as u64;
            let fg = gs.fr.iter().map(|(_, v)| *v as u64).max().unwrap_or(0);
            units += ug;
            if f == 0 {
                cost += -1024.0 - (ug as f64) / 32.0;
            } else if fg >= f {
                units_frac += ug + 1;
                cost += -1024.0 + (fg as f64) / (FPU as f64 / 16.0);
            } else {
                units_frac += ug;
                cost += -1024.0;
            }
        }
        for gs in groups.iter().take(n) {
            if gs.fr.iter().any(|(_, v)| *v as u64 >= f) {
                any_frac = true;
            }
        }
        let feasible = if f == 0 {
            units >= u
        } else {
            units_frac >= u + 1 && (u == 0 || !any_frac || units >= u)
        };
        if feasible && best.is_none_or(|b| cost > b) {
            best = Some(cost);
        }
    }
    best
}

// ------------------------------------------------------------------------------------------------
// Statistics (stderr, `--stats`)
// ------------------------------------------------------------------------------------------------

#[derive(Default)]
pub struct Stats {
    cases: u64,
    cases_with_coupling: u64,
    ops: BTreeMap<&'static str, u64>,
    granted: u64,
    refused: u64,
    forced_refused: u64,
    forced_granted: u64,
    allocs_active_coupling: u64,
    /// (pool kind, policy) -> (entries of granted requests, unavailable entries of refused requests, available entries of refused requests)
    per: BTreeMap<(&'static str, Pol), (u64, u64, u64)>,
    panics: BTreeMap<String, u64>,
    solver_calls: u64,
    solver_none: u64,
    ops_with_fp: u64,
    fp_from_map: u64,
    mon_fails: BTreeMap<String, u64>,
    enabled_true: u64,
    enabled_false: u64,
    zero_amount_rq: u64,
}

impl Stats {
    fn op(&mut self, name: &'static str) {
        *self.ops.entry(name).or_default() += 1;
    }
    fn print(&self) {
        eprintln!("== alloc stats ==");
        eprintln!("cases {} (with couplings {})", self.cases, self.cases_with_coupling);
        eprintln!("ops {:?}", self.ops);
        eprintln!(
            "alloc: granted {} refused {} | requests with Force* on groups: granted {} refused-although-available {} | allocs with active coupling {}",
            self.granted, self.refused, self.forced_granted, self.forced_refused, self.allocs_active_coupling
        );
        eprintln!("enabled: true {} false {}", self.enabled_true, self.enabled_false);
        eprintln!("requests with a zero amount entry: {}", self.zero_amount_rq);
        eprintln!("per (pool kind, policy): entries granted / refused+unavailable / refused+available");
        for ((k, p), (a, b, c)) in &self.per {
            eprintln!("  {k:>7} {:>2}: {a:>5} {b:>5} {c:>5}", p.tok());
        }
        eprintln!("panics {:?}", self.panics);
        eprintln!("solver calls {} (N: {})", self.solver_calls, self.solver_none);
        eprintln!("alloc ops with fp {} (picked from fraction map: {})", self.ops_with_fp, self.fp_from_map);
        eprintln!("monitor failures {:?}", self.mon_fails);
    }
}

// ------------------------------------------------------------------------------------------------
// Executor (real code + monitors)
// ------------------------------------------------------------------------------------------------

struct Mon<'a> {
    t: &'a mut Trace,
    stats: &'a mut Stats,
}

impl Mon<'_> {
    fn fail(&mut self, clause: &str, sig: &str, detail: String) {
        *self.stats.mon_fails.entry(format!("{clause}/{sig}")).or_default() += 1;
        self.t.mon_fail(clause, sig, &detail);
    }
}

fn kind_name(p: Option<&PoolView>) -> &'static str {
    match p {
        None => "missing",
        Some(PoolView::Empty) => "empty",
        Some(PoolView::Sum { .. }) => "sum",
        Some(PoolView::Idx { is_groups: false, .. }) => "indices",
        Some(PoolView::Idx { is_groups: true, groups, .. }) => {
            if groups.len() == 1 { "groups1" } else { "groups" }
        }
    }
}

/// State monitors evaluated after every op: c04.conserve, c04.concise.
fn state_monitors(
    m: &mut Mon,
    snap: &AllocatorSnapshot,
    universe: &[BTreeSet<(u32, u32)>],
    live: &[(usize, Rc<Allocation>)],
) {
    let pools = views(snap);
    // held[(rid, g, i)] = amount held by live allocations; sum_held[rid] = amounts of live allocations
    let mut held: BTreeMap<(u32, u32, u32), u64> = BTreeMap::new();
    let mut sum_held: BTreeMap<u32, u64> = BTreeMap::new();
    for (_, a) in live {
        for ra in &a.resources {
            let rid = ra.resource_id.as_num();
            *sum_held.entry(rid).or_default() += ra.amount.total_fractions();
            for ai in &ra.indices {
                let v = if ai.fractions == 0 { FPU } else { ai.fractions as u64 };
                *held.entry((rid, ai.group_idx, ai.index.as_num())).or_default() += v;
            }
        }
    }
    for (rid, p) in pools.iter().enumerate() {
        let rid = rid as u32;
        match p {
            PoolView::Empty => {
                if sum_held.contains_key(&rid) {
                    m.fail("c04.conserve", "foreign-index", format!("live allocation on empty pool {rid}"));
                }
            }
            PoolView::Sum { full, free } => {
                let h = sum_held.get(&rid).copied().unwrap_or(0);
                if free + h != *full {
                    m.fail("c04.conserve", "sum", format!("pool {rid}: free {free} + held {h} != full {full}"));
                }
            }
            PoolView::Idx { groups, .. } => {
                let uni = &universe[rid as usize];
                let mut free_amt: BTreeMap<(u32, u32), u64> = BTreeMap::new();
                for (g, gs) in groups.iter().enumerate() {
                    let g = g as u32;
                    for i in &gs.free {
                        let e = free_amt.entry((g, *i)).or_default();
                        if *e >= FPU {
                            m.fail("c04.conserve", "dup-free", format!("pool {rid} group {g} index {i} listed twice as free"));
                        }
                        *e += FPU;
                    }
                    for (i, v) in &gs.fr {
                        if *v as u64 >= FPU {
                            m.fail("c04.conserve", "frac-range", format!("pool {rid} group {g} index {i} fraction {v}"));
                        }
                        if *v > 0 && gs.free.contains(i) {
                            m.fail("c04.conserve", "dup-free", format!("pool {rid} group {g} index {i} free and in fraction map with {v}"));
                        }
                        *free_amt.entry((g, *i)).or_default() += *v as u64;
                    }
                }
                for (g, i) in uni {
                    let f = free_amt.get(&(*g, *i)).copied().unwrap_or(0);
                    let h = held.get(&(rid, *g, *i)).copied().unwrap_or(0);
                    if f + h > FPU {
                        m.fail("c04.conserve", "index-over", format!("pool {rid} group {g} index {i}: free {f} + held {h} > {FPU}"));
                    } else if f + h < FPU {
                        m.fail("c04.conserve", "index-lost", format!("pool {rid} group {g} index {i}: free {f} + held {h} < {FPU}"));
                    }
                }
                for (g, i) in free_amt.keys() {
                    if !uni.contains(&(*g, *i)) {
                        m.fail("c04.conserve", "foreign-index", format!("pool {rid}: free state mentions group {g} index {i} outside the universe"));
                    }
                }
                for (r, g, i) in held.keys() {
                    if *r == rid && !uni.contains(&(*g, *i)) {
                        m.fail("c04.conserve", "foreign-index", format!("pool {rid}: live allocation holds group {g} index {i} outside the universe"));
                    }
                }
            }
        }
    }
    for rid in sum_held.keys() {
        if *rid as usize >= pools.len() {
            m.fail("c04.conserve", "foreign-index", format!("live allocation on unknown pool {rid}"));
        }
    }
    // c04.concise
    for (rid, p) in pools.iter().enumerate() {
        let expect = strip(&summary_of(p));
        let got = snap.concise.get(rid).map(|c: &ConciseSnapshot| strip(&c.0));
        if got.as_ref() != Some(&expect) {
            m.fail("c04.concise", "mismatch", format!("pool {rid}: concise {got:?} != summary of pool {expect:?}"));
        }
    }
    if snap.concise.len() != pools.len() {
        m.fail("c04.concise", "mismatch", format!("{} concise states for {} pools", snap.concise.len(), pools.len()));
    }
}

struct Ctx {
    init: Vec<PoolView>,
    init_snap: AllocatorSnapshot,
    universe: Vec<BTreeSet<(u32, u32)>>,
    /// coupling items as pairs of resource ids
    coupling_rids: Vec<(u32, u32)>,
}

/// Monitors on the result of one `alloc` op.
fn alloc_monitors(
    m: &mut Mon,
    cx: &Ctx,
    entries: &Rq,
    pre_snap: &AllocatorSnapshot,
    result: Option<&Allocation>,
) {
    let pre = views(pre_snap);
    let pool_of = |rid: u32| pre.get(rid as usize);
    let rq_s = rq_string(entries);
    let granted = result.is_some();
    let avail: Vec<bool> = entries
        .iter()
        .map(|e| entry_available(pool_of(e.0), cx.universe.get(e.0 as usize), e))
        .collect();
    let all_avail = avail.iter().all(|x| *x);

    // coupled entries: on a Groups pool with one of the four group policies
    let coupled: Vec<&RqEntry> = entries
        .iter()
        .filter(|e| e.1.is_coupling() && matches!(pool_of(e.0), Some(PoolView::Idx { is_groups: true, .. })))
        .collect();
    let coupled_rids: Vec<u32> = coupled.iter().map(|e| e.0).collect();
    let active_coupling = cx
        .coupling_rids
        .iter()
        .any(|(a, b)| coupled_rids.contains(a) && coupled_rids.contains(b));
    let forced = coupled.iter().any(|e| e.1.is_force());

    // statistics
    {
        let s = &mut *m.stats;
        if granted { s.granted += 1 } else { s.refused += 1 }
        if forced && granted { s.forced_granted += 1 }
        if forced && !granted && all_avail { s.forced_refused += 1 }
        if granted && active_coupling { s.allocs_active_coupling += 1 }
        if entries.iter().any(|e| e.1 != Pol::A && e.2 == 0) { s.zero_amount_rq += 1 }
        for (e, a) in entries.iter().zip(&avail) {
            let slot = s.per.entry((kind_name(pool_of(e.0)), e.1)).or_default();
            if granted { slot.0 += 1 } else if !*a { slot.1 += 1 } else { slot.2 += 1 }
        }
    }

    // c16.admit
    if !entries.iter().any(|e| e.1.is_force()) {
        if all_avail && !granted {
            m.fail("c16.admit", "spurious-refusal", format!("request {rq_s} refused although every entry is available"));
        }
        if !all_avail && granted {
            m.fail("c16.admit", "spurious-grant", format!("request {rq_s} granted although entry availability is {avail:?}"));
        }
    }

    // brute-force minima for the coupled entries
    let minima = |e: &RqEntry| -> (Option<usize>, Option<usize>) {
        let now = match pool_of(e.0) {
            Some(PoolView::Idx { groups, .. }) => min_groups(groups, e.2),
            _ => None,
        };
        let init = match cx.init.get(e.0 as usize) {
            Some(PoolView::Idx { groups, .. }) => min_groups(groups, e.2),
            _ => None,
        };
        (now, init)
    };

    if forced && !active_coupling {
        if granted {
            for e in coupled.iter().filter(|e| e.1.is_force()) {
                let (now, init) = minima(e);
                if now != init {
                    m.fail(
                        "c16.strict",
                        "granted-with-more-groups",
                        format!("request {rq_s} entry {}:{}:{} granted with minimum {now:?} groups, initial minimum {init:?}", e.0, e.1.tok(), e.2),
                    );
                }
            }
        } else if all_avail
            && coupled.iter().all(|e| {
                let (now, init) = minima(e);
                now.is_some() && now == init
            })
        {
            // the admission test compares the solver objective over the coupled entries with the optimum on the
            // empty worker minus 0.1; without an active coupling weight the objective is the sum of the entries'
            // own optima. A refusal is explained by the tie-break terms (finding F30) only if that sum really
            // drops below the margin; otherwise the request is refused at an admissible objective.
            let obj = |views: &[PoolView]| -> Option<f64> {
                let mut sum = 0.0;
                for e in &coupled {
                    match views.get(e.0 as usize) {
                        Some(PoolView::Idx { groups, .. }) => sum += best_objective(groups, e.2)?,
                        _ => return None,
                    }
                }
                Some(sum)
            };
            let now = obj(&pre);
            let init = obj(&cx.init);
            let explained = match (now, init) {
                (Some(a), Some(b)) => a < b - 0.1 + 1e-6,
                _ => true,
            };
            if explained {
                m.fail(
                    "c16.strict-refusal",
                    "tiebreak-exceeds-margin",
                    format!("request {rq_s} refused although available and every coupled entry needs no more groups than on the initial state"),
                );
            } else {
                m.fail(
                    "c16.strict-refusal",
                    "refused-at-admissible-objective",
                    format!("request {rq_s} refused although available, every coupled entry needs no more groups than on the initial state and the solver objective of the coupled entries {now:?} is within 0.1 of the optimum {init:?}"),
                );
            }
        }
    }

    let Some(alloc) = result else {
        return;
    };

    // c04.exact: one ResourceAllocation per entry, same rid order
    if alloc.resources.len() != entries.len() {
        m.fail("c04.exact", "entries", format!("request {rq_s}: {} resource allocations for {} entries", alloc.resources.len(), entries.len()));
        return;
    }
    for (e, ra) in entries.iter().zip(&alloc.resources) {
        let (rid, pol, amount) = *e;
        let ra_rid = ra.resource_id.as_num();
        if ra_rid != rid {
            m.fail("c04.exact", "order", format!("request {rq_s}: allocation for resource {ra_rid} at the position of entry {rid}"));
            continue;
        }
        let pool = pool_of(rid);
        let want = match (pol, pool) {
            (Pol::A, Some(PoolView::Idx { full, .. })) | (Pol::A, Some(PoolView::Sum { full, .. })) => *full,
            (Pol::A, _) => 0,
            _ => amount,
        };
        let got = ra.amount.total_fractions();
        if got != want {
            m.fail("c04.exact", "amount", format!("resource {rid}: allocation amount {got}, requested {want}"));
        }
        match pool {
            Some(PoolView::Sum { full, .. }) => {
                if !ra.indices.is_empty() {
                    m.fail("c04.exact", "entries", format!("resource {rid}: sum pool allocation with {} indices", ra.indices.len()));
                }
                if pol == Pol::A && got != *full {
                    m.fail("c16.all", "all", format!("resource {rid}: `all` holds {got} of {full}"));
                }
            }
            Some(PoolView::Idx { is_groups, groups, .. }) => {
                let total: u64 = ra
                    .indices
                    .iter()
                    .map(|ai| if ai.fractions == 0 { FPU } else { ai.fractions as u64 })
                    .sum();
                if total != got {
                    m.fail("c04.exact", "amount", format!("resource {rid}: index entries sum to {total}, allocation amount {got}"));
                }
                let n_frac = ra.indices.iter().filter(|ai| ai.fractions > 0).count();
                let last_ok = n_frac == 0 || ra.indices.last().is_some_and(|ai| ai.fractions > 0);
                if n_frac > 1 || !last_ok {
                    let d = format!("resource {rid}: {n_frac} fractional entries, last entry fractional: {}", ra.indices.last().is_some_and(|ai| ai.fractions > 0));
                    m.fail("c04.exact", "order", d.clone());
                    m.fail("c16.single-fraction", "fractional-entries", d);
                }
                let whole: BTreeSet<(u32, u32)> = ra
                    .indices
                    .iter()
                    .filter(|ai| ai.fractions == 0)
                    .map(|ai| (ai.group_idx, ai.index.as_num()))
                    .collect();
                if pol == Pol::A && cx.universe.get(rid as usize) != Some(&whole) {
                    m.fail("c16.all", "all", format!("resource {rid}: `all` holds whole {whole:?}, universe {:?}", cx.universe.get(rid as usize)));
                }
                if *is_groups && pol == Pol::S {
                    let u = (amount / FPU) as usize;
                    let nonempty = groups.iter().filter(|g| !g.free.is_empty()).count();
                    let used: BTreeSet<u32> = whole.iter().map(|(g, _)| *g).collect();
                    if used.len() != u.min(nonempty) {
                        m.fail("c16.scatter", "spread", format!("resource {rid}: {} whole units over {} groups, {nonempty} groups had a free index", u, used.len()));
                    }
                }
                if *is_groups && pol.is_coupling() && !active_coupling && amount > 0 {
                    let used: BTreeSet<u32> = ra.indices.iter().map(|ai| ai.group_idx).collect();
                    let best = min_groups(groups, amount);
                    if Some(used.len()) != best {
                        m.fail("c16.min-groups", "not-minimal", format!("resource {rid} {}:{amount}: allocation uses {} groups, minimum is {best:?}", pol.tok(), used.len()));
                    }
                }
            }
            Some(PoolView::Empty) | None => {
                m.fail("c04.exact", "entries", format!("resource {rid}: allocation on an empty/unknown pool"));
            }
        }
    }
}

/// Watchdog: a broken (mutated) allocator may make the real code loop forever (e.g. the scatter loop
/// when the pools and the concise state disagree). Every real-code call of the executor is bracketed by
/// `enter`/`leave`; when a call makes no progress for `LIMIT_SECS`, the watchdog thread completes the
/// trace (`out !hang`, monitor failures, `end`) and exits the process. Never fires on the unchanged tree.
mod watchdog {
    use std::io::Write;
    use std::sync::Mutex;
    use std::sync::atomic::{AtomicU64, Ordering};

    const LIMIT_SECS: u64 = 15;
    static PROGRESS: AtomicU64 = AtomicU64::new(0);
    pub static SELFTEST_HANG: std::sync::atomic::AtomicBool = std::sync::atomic::AtomicBool::new(false);
    /// `Some((op line still to be printed, op name))` while the main thread is inside a real-code call
    static CURRENT: Mutex<Option<(Option<String>, &'static str)>> = Mutex::new(None);

    pub fn start() {
        std::thread::spawn(|| {
            let mut last = PROGRESS.load(Ordering::SeqCst);
            let mut stalled = 0u64;
            loop {
                std::thread::sleep(std::time::Duration::from_secs(1));
                let now = PROGRESS.load(Ordering::SeqCst);
                let inside = CURRENT.lock().unwrap().clone();
                if now != last || inside.is_none() {
                    last = now;
                    stalled = 0;
                    continue;
                }
                stalled += 1;
                if stalled < LIMIT_SECS {
                    continue;
                }
                // the main thread flushed its trace before entering the call and is stuck in it
                let (pending, name) = inside.unwrap();
                let mut out = std::io::stdout().lock();
                if let Some(line) = pending {
                    writeln!(out, "op {line}").ok();
                }
                writeln!(out, "out !hang").ok();
                let c04 = if name == "alloc" || name == "enabled" { "c04.exact" } else { "c04.release" };
                writeln!(out, "mon FAIL {c04} hang real code does not terminate in `{name}` (no progress for {LIMIT_SECS} s)").ok();
                writeln!(out, "mon FAIL c16.agree hang real code does not terminate in `{name}` (no progress for {LIMIT_SECS} s)").ok();
                writeln!(out, "end").ok();
                out.flush().ok();
                eprintln!("alloc: real code hangs in `{name}`; trace completed by the watchdog");
                std::process::exit(0);
            }
        });
    }

    pub fn enter(pending_op_line: Option<String>, name: &'static str) {
        *CURRENT.lock().unwrap() = Some((pending_op_line, name));
        PROGRESS.fetch_add(1, Ordering::SeqCst);
    }

    pub fn leave() {
        *CURRENT.lock().unwrap() = None;
        PROGRESS.fetch_add(1, Ordering::SeqCst);
    }
}

/// Result of applying one op to the real code.
#[derive(Clone, Copy, Debug, PartialEq, Eq)]
pub enum Outcome {
    /// `init`, `enabled`, `release`, or an `alloc` that returned `None`
    Done,
    /// `alloc` returned an allocation; its handle
    Granted(usize),
    /// the real code panicked (or the op could not be applied): the case is over
    Aborted,
}

/// Something the op generator can drive: the tracing executor or the silent dry run.
pub trait Driver {
    fn apply(&mut self, op: &Op) -> Outcome;
}

/// Applies ops to the real code, prints the trace of the case and evaluates the monitors.
pub struct Exec<'a> {
    t: &'a mut Trace,
    stats: &'a mut Stats,
    items: Vec<(u32, Kind)>,
    couplings: Vec<(u8, u8, u8, u8, u16)>,
    va: Option<VerifAllocator>,
    cx: Option<Ctx>,
    live: Vec<(usize, Rc<Allocation>)>,
    next_handle: usize,
    // previous op, for the "immediately followed by" monitors
    last_enabled: Option<(String, bool)>,
    last_alloc: Option<(usize, AllocatorSnapshot)>,
    aborted: bool,
}

impl<'a> Exec<'a> {
    /// Prints the `case` header (`case.ops` is not used).
    pub fn begin(idx: u64, subseed: u64, case: &Case, t: &'a mut Trace, stats: &'a mut Stats) -> Self {
        t.case(idx, subseed, &header_params(case));
        stats.cases += 1;
        if !case.couplings.is_empty() {
            stats.cases_with_coupling += 1;
        }
        Exec {
            t,
            stats,
            items: case.items.clone(),
            couplings: case.couplings.clone(),
            va: None,
            cx: None,
            live: Vec::new(),
            next_handle: 0,
            last_enabled: None,
            last_alloc: None,
            aborted: false,
        }
    }

    fn panic(&mut self, op: &str, msg: &str) -> Outcome {
        let kw = panic_kw(msg);
        *self.stats.panics.entry(format!("{op}:{kw}")).or_default() += 1;
        self.t.out(&format!("!panic {kw}"));
        self.aborted = true;
        Outcome::Aborted
    }

    fn bad_op(&mut self) -> Outcome {
        self.t.out("!bad-op");
        self.aborted = true;
        Outcome::Aborted
    }

    /// Flushes the trace and arms the watchdog for one real-code call.
    fn arm(&mut self, pending_op_line: Option<String>, name: &'static str) {
        self.t.flush();
        watchdog::enter(pending_op_line, name);
    }

    fn take_log(&mut self) -> Vec<SolverRecord> {
        let log = take_solver_log();
        self.stats.solver_calls += log.len() as u64;
        self.stats.solver_none += log.iter().filter(|x| x.is_none()).count() as u64;
        log
    }

    fn op_init(&mut self) -> Outcome {
        self.stats.op("init");
        self.t.op("init");
        let case = Case { items: self.items.clone(), couplings: self.couplings.clone(), ops: vec![] };
        let (desc, names) = build_descriptor(&case);
        self.arm(None, "init");
        let r = catch(|| VerifAllocator::new(&desc, names));
        watchdog::leave();
        let a = match r {
            Err(msg) => return self.panic("init", &msg),
            Ok(a) => a,
        };
        let snap = a.snapshot();
        print_snapshot(self.t, &snap);
        let init = views(&snap);
        let universe = init
            .iter()
            .map(|p| match p {
                PoolView::Idx { groups, .. } => groups
                    .iter()
                    .enumerate()
                    .flat_map(|(g, gs)| gs.free.iter().map(move |i| (g as u32, *i)))
                    .collect(),
                _ => BTreeSet::new(),
            })
            .collect();
        let coupling_rids = self
            .couplings
            .iter()
            .filter_map(|(i1, _, i2, _, _)| Some((self.items.get(*i1 as usize)?.0, self.items.get(*i2 as usize)?.0)))
            .collect();
        self.live.clear();
        self.next_handle = 0;
        let c = Ctx { init, init_snap: snap.clone(), universe, coupling_rids };
        state_monitors(&mut Mon { t: self.t, stats: self.stats }, &snap, &c.universe, &self.live);
        self.cx = Some(c);
        self.va = Some(a);
        Outcome::Done
    }

    fn op_enabled(&mut self, rq: &Rq) -> Outcome {
        self.stats.op("enabled");
        let req = build_request(rq);
        let rq_s = rq_string(&entries_of(&req));
        if self.va.is_none() || self.cx.is_none() {
            self.t.op(&format!("enabled {rq_s} -"));
            return self.bad_op();
        }
        clear_solver_log();
        self.arm(Some(format!("enabled {rq_s} -")), "enabled");
        let r = {
            let a = self.va.as_ref().unwrap();
            catch(|| a.is_enabled(&req))
        };
        watchdog::leave();
        let log = self.take_log();
        self.t.op(&format!("enabled {rq_s} {}", sol_string(&log)));
        let b = match r {
            Err(msg) => return self.panic("enabled", &msg),
            Ok(b) => b,
        };
        if b {
            self.stats.enabled_true += 1
        } else {
            self.stats.enabled_false += 1
        }
        self.t.out(&format!("enabled {}", b as u8));
        let snap = self.va.as_ref().unwrap().snapshot();
        let c = self.cx.as_ref().unwrap();
        state_monitors(&mut Mon { t: self.t, stats: self.stats }, &snap, &c.universe, &self.live);
        self.last_enabled = Some((rq_s, b));
        Outcome::Done
    }

    fn op_alloc(&mut self, rq: &Rq, prev_enabled: Option<(String, bool)>) -> Outcome {
        self.stats.op("alloc");
        let h = self.next_handle;
        self.next_handle += 1;
        let req = build_request(rq);
        let entries = entries_of(&req);
        let rq_s = rq_string(&entries);
        if self.va.is_none() || self.cx.is_none() {
            self.t.op(&format!("alloc {h} {rq_s} - -"));
            return self.bad_op();
        }
        let pre = self.va.as_ref().unwrap().snapshot();
        clear_solver_log();
        self.arm(Some(format!("alloc {h} {rq_s} - -")), "alloc");
        let r = {
            let a = self.va.as_mut().unwrap();
            catch(|| {
                // `--selftest-hang`: simulates a non-terminating real call (checks the watchdog only)
                while h == 2 && watchdog::SELFTEST_HANG.load(std::sync::atomic::Ordering::SeqCst) {
                    std::thread::sleep(Duration::from_millis(100));
                }
                a.try_allocate(&req)
            })
        };
        watchdog::leave();
        let log = self.take_log();
        let sol = sol_string(&log);
        let res = match r {
            Err(msg) => {
                self.t.op(&format!("alloc {h} {rq_s} {sol} -"));
                return self.panic("alloc", &msg);
            }
            Ok(res) => res,
        };
        let fp = fp_string(res.as_deref());
        if fp != "-" {
            self.stats.ops_with_fp += 1;
        }
        self.t.op(&format!("alloc {h} {rq_s} {sol} {fp}"));
        self.t.out(if res.is_some() { "res some" } else { "res none" });
        if let Some(al) = &res {
            for ra in &al.resources {
                self.t.out(&format!(
                    "alloc {} {} {}",
                    ra.resource_id.as_num(),
                    ra.amount.total_fractions(),
                    list(
                        ra.indices
                            .iter()
                            .map(|ai| format!("{}.{}.{}", ai.index.as_num(), ai.group_idx, ai.fractions))
                    )
                ));
            }
            // statistics: was the fractional index picked from the fraction map?
            let pv = views(&pre);
            for ra in &al.resources {
                if let (Some(last), Some(PoolView::Idx { groups, .. })) =
                    (ra.indices.last(), pv.get(ra.resource_id.as_num() as usize))
                    && last.fractions > 0
                    && groups
                        .iter()
                        .any(|g| g.fr.iter().any(|(i, v)| *i == last.index.as_num() && *v > 0))
                {
                    self.stats.fp_from_map += 1;
                }
            }
        }
        let post = self.va.as_ref().unwrap().snapshot();
        print_snapshot(self.t, &post);
        let c = self.cx.as_ref().unwrap();
        let mut m = Mon { t: self.t, stats: self.stats };
        if let Some((e_rq, e_res)) = &prev_enabled
            && *e_rq == rq_s
            && *e_res != res.is_some()
        {
            m.fail(
                "c16.agree",
                "enabled-vs-grant",
                format!("request {rq_s}: is_enabled = {e_res}, try_allocate granted = {}", res.is_some()),
            );
        }
        alloc_monitors(&mut m, c, &entries, &pre, res.as_deref());
        let outcome = if let Some(al) = res {
            self.live.push((h, al));
            self.last_alloc = Some((h, pre));
            Outcome::Granted(h)
        } else {
            Outcome::Done
        };
        state_monitors(&mut m, &post, &c.universe, &self.live);
        outcome
    }

    fn op_release(&mut self, h: usize, prev_alloc: Option<(usize, AllocatorSnapshot)>) -> Outcome {
        self.stats.op("release");
        self.t.op(&format!("release {h}"));
        let pos = self.live.iter().position(|(lh, _)| *lh == h);
        let (true, true, Some(pos)) = (self.va.is_some(), self.cx.is_some(), pos) else {
            return self.bad_op();
        };
        let (_, al) = self.live.remove(pos);
        self.arm(None, "release");
        let r = {
            let a = self.va.as_mut().unwrap();
            catch(|| a.release_allocation(al))
        };
        watchdog::leave();
        if let Err(msg) = r {
            return self.panic("release", &msg);
        }
        let post = self.va.as_ref().unwrap().snapshot();
        print_snapshot(self.t, &post);
        let c = self.cx.as_ref().unwrap();
        let mut m = Mon { t: self.t, stats: self.stats };
        if let Some((ah, pre)) = &prev_alloc
            && *ah == h
            && normalize(pre) != normalize(&post)
        {
            m.fail(
                "c04.release",
                "roundtrip",
                format!(
                    "alloc {h} + release {h}: state {:?} != state before the alloc {:?}",
                    normalize(&post),
                    normalize(pre)
                ),
            );
        }
        state_monitors(&mut m, &post, &c.universe, &self.live);
        Outcome::Done
    }

    /// c04.release (b) + `end`.
    pub fn finish(self) {
        // everything released => the initial state is restored
        if !self.aborted
            && self.live.is_empty()
            && self.next_handle > 0
            && let (Some(a), Some(c)) = (self.va.as_ref(), self.cx.as_ref())
        {
            let fin = a.snapshot();
            if normalize(&fin) != normalize(&c.init_snap) {
                Mon { t: self.t, stats: self.stats }.fail(
                    "c04.release",
                    "final",
                    format!(
                        "all handles released: state {:?} != initial state {:?}",
                        normalize(&fin),
                        normalize(&c.init_snap)
                    ),
                );
            }
        }
        self.t.end();
    }
}

impl Driver for Exec<'_> {
    fn apply(&mut self, op: &Op) -> Outcome {
        if self.aborted {
            return Outcome::Aborted;
        }
        let prev_enabled = self.last_enabled.take();
        let prev_alloc = self.last_alloc.take();
        match op {
            Op::Init => self.op_init(),
            Op::Enabled(rq) => self.op_enabled(rq),
            Op::Alloc(rq) => self.op_alloc(rq, prev_enabled),
            Op::Release(h) => self.op_release(*h, prev_alloc),
        }
    }
}

/// Runs the ops of `case` on the real code and prints the trace of the case.
pub fn execute(idx: u64, subseed: u64, case: &Case, t: &mut Trace, stats: &mut Stats) {
    let mut e = Exec::begin(idx, subseed, case, t, stats);
    for op in &case.ops {
        if e.apply(op) == Outcome::Aborted {
            break;
        }
    }
    e.finish();
}

// ------------------------------------------------------------------------------------------------
// Generator
// ------------------------------------------------------------------------------------------------

fn shuffle<T>(rng: &mut Rng, xs: &mut [T]) {
    for i in (1..xs.len()).rev() {
        let j = rng.below(i as u64 + 1) as usize;
        xs.swap(i, j);
    }
}

fn gen_kind(rng: &mut Rng, thorough: bool) -> Kind {
    match rng.weighted(&[2, 2, 6, 3]) {
        0 => Kind::List(rng.range(1, 6) as u32),
        1 => {
            let start = rng.range(0, 5) as u32;
            let len = rng.range(1, 6) as u32;
            Kind::Range(start, start + len - 1)
        }
        2 => {
            let n = 1 + rng.weighted(&[2, 5, 4, 3]);
            let sizes = match rng.weighted(&[45, 25, 15, 15]) {
                0 => vec![rng.range(1, 4) as u32; n],
                1 => (0..n).map(|_| rng.range(1, 4) as u32).collect(),
                2 => (0..n).map(|_| *rng.pick(&[1u32, 1, 2, 3, 5, 6, 6])).collect(),
                // bimodal: small and big groups side by side
                _ => (0..n).map(|_| *rng.pick(&[1u32, 1, 2, 5, 6, 6])).collect(),
            };
            Kind::Groups(sizes)
        }
        _ => {
            let max_q = if thorough { 32 } else { 19 };
            Kind::Sum(rng.range(1, max_q) * 2500)
        }
    }
}

fn kind_units(kind: &Kind) -> u64 {
    match kind {
        Kind::List(n) => *n as u64,
        Kind::Range(s, e) => (*e - *s + 1) as u64,
        Kind::Groups(sizes) => sizes.iter().map(|x| *x as u64).sum(),
        Kind::Sum(size) => size.div_ceil(FPU),
    }
}

fn gen_couplings(rng: &mut Rng, case: &Case) -> Vec<(u8, u8, u8, u8, u16)> {
    let eligible: Vec<(u8, u8)> = case
        .items
        .iter()
        .enumerate()
        .filter_map(|(i, (_, k))| match k {
            Kind::Groups(sizes) if sizes.len() >= 2 => Some((i as u8, sizes.len() as u8)),
            _ => None,
        })
        .collect();
    if eligible.is_empty() || !rng.chance(2, 5) {
        return vec![];
    }
    let n = rng.range(1, 4);
    let mut items: Vec<ResourceDescriptorCouplingItem> = (0..n)
        .map(|_| {
            let (i1, n1) = *rng.pick(&eligible);
            // prefer a different item when there is one
            let (i2, n2) = if eligible.len() >= 2 && rng.chance(3, 4) {
                let others: Vec<(u8, u8)> = eligible.iter().copied().filter(|(i, _)| *i != i1).collect();
                *rng.pick(&others)
            } else {
                *rng.pick(&eligible)
            };
            let mut it = ResourceDescriptorCouplingItem {
                resource1_idx: i1,
                group1_idx: (rng.below(n1 as u64) as u8).into(),
                resource2_idx: i2,
                group2_idx: (rng.below(n2 as u64) as u8).into(),
                weight: *rng.pick(&[1u16, 64, 128, 256, 1024, 3000]),
            };
            it.normalize();
            it
        })
        .collect();
    items.sort();
    items.dedup_by(|b, a| {
        a.resource1_idx == b.resource1_idx
            && a.group1_idx == b.group1_idx
            && a.resource2_idx == b.resource2_idx
            && a.group2_idx == b.group2_idx
    });
    items
        .iter()
        .map(|w| (w.resource1_idx, w.group1_idx.as_num(), w.resource2_idx, w.group2_idx.as_num(), w.weight))
        .collect()
}

fn gen_amount(rng: &mut Rng, pool_units: u64) -> u64 {
    // the zero amount is rejected by `validate()` upstream: malformed stream only
    if rng.chance(1, 50) {
        return 0;
    }
    loop {
        let units = if pool_units > 4 && rng.chance(1, 5) {
            rng.range(0, pool_units + 1)
        } else {
            rng.weighted(&[5, 10, 5, 2, 1]) as u64
        };
        let fr = *rng.pick(&[0u64, 0, 0, 0, 2500, 2500, 5000, 5000, 7500, 7500]);
        let amount = units * FPU + fr;
        if amount > 0 {
            return amount;
        }
    }
}

fn gen_variant(rng: &mut Rng, case: &Case) -> Rq {
    let n = 1 + rng.weighted(&[5, 4, 2]);
    let existing: Vec<u32> = case.items.iter().map(|(r, _)| *r).collect();
    let other: Vec<u32> = (0..=5).filter(|r| !existing.contains(r)).collect();
    let mut used: Vec<u32> = Vec::new();
    let mut rq = Rq::new();
    for _ in 0..n {
        let pool: Vec<u32> = if rng.chance(1, 20) { &other } else { &existing }
            .iter()
            .copied()
            .filter(|r| !used.contains(r))
            .collect();
        if pool.is_empty() {
            continue;
        }
        let rid = *rng.pick(&pool);
        used.push(rid);
        let pol = [Pol::C, Pol::T, Pol::S, Pol::FC, Pol::FT, Pol::A][rng.weighted(&[25, 20, 15, 12, 12, 6])];
        let units = case
            .items
            .iter()
            .find(|(r, _)| *r == rid)
            .map(|(_, k)| kind_units(k))
            .unwrap_or(0);
        let amount = if pol == Pol::A { 0 } else { gen_amount(rng, units) };
        rq.push((rid, pol, amount));
    }
    rq
}

/// The static part of a case (descriptor, couplings) and its pool of request templates.
fn gen_static(rng: &mut Rng, thorough: bool) -> (Case, Vec<Rq>) {
    let mut case = Case::default();
    let n_items = 1 + rng.weighted(&[3, 4, 3]);
    let mut rids: Vec<u32> = (0..=4).collect();
    shuffle(rng, &mut rids);
    rids.truncate(n_items);
    for rid in rids {
        let kind = gen_kind(rng, thorough);
        case.items.push((rid, kind));
    }
    case.couplings = gen_couplings(rng, &case);
    let (mut desc, _) = build_descriptor(&case);
    if desc.validate(false).is_err() && !case.couplings.is_empty() {
        case.couplings.clear();
        (desc, _) = build_descriptor(&case);
    }
    if let Err(e) = desc.validate(false) {
        // cannot happen with the kinds generated above; never feed an invalid descriptor
        eprintln!("alloc gen: invalid descriptor {desc:?}: {e:?}; replaced");
        case.items = vec![(0, Kind::Range(0, 3))];
        case.couplings.clear();
    }
    let n_variants = rng.range(2, 6);
    let variants: Vec<Rq> = (0..n_variants).map(|_| gen_variant(rng, &case)).collect();
    (case, variants)
}

/// Generates the op sequence of a case while applying it to `driver`: which handles are live depends
/// on the results of the real code. Stops when the real code panics.
fn gen_ops(rng: &mut Rng, variants: &[Rq], driver: &mut dyn Driver) -> Vec<Op> {
    let mut ops: Vec<Op> = Vec::new();
    let mut live: Vec<usize> = Vec::new();
    // applies one op; None = the case is over
    let mut apply = |ops: &mut Vec<Op>, live: &mut Vec<usize>, op: Op| -> Option<Outcome> {
        let out = driver.apply(&op);
        if let Op::Release(h) = &op {
            live.retain(|x| x != h);
        }
        ops.push(op);
        match out {
            Outcome::Aborted => None,
            Outcome::Granted(h) => {
                live.push(h);
                Some(out)
            }
            Outcome::Done => Some(out),
        }
    };
    if apply(&mut ops, &mut live, Op::Init).is_none() {
        return ops;
    }
    let n_steps = rng.range(8, 40);
    for _ in 0..n_steps {
        let step: Option<()> = (|| {
            match rng.weighted(&[4, 2, 3, 1, 1]) {
                0 => {
                    let rq = rng.pick(variants).clone();
                    apply(&mut ops, &mut live, Op::Enabled(rq.clone()))?;
                    apply(&mut ops, &mut live, Op::Alloc(rq))?;
                }
                1 => {
                    let rq = rng.pick(variants).clone();
                    apply(&mut ops, &mut live, Op::Alloc(rq))?;
                }
                2 => {
                    if !live.is_empty() {
                        let h = live[rng.below(live.len() as u64) as usize];
                        apply(&mut ops, &mut live, Op::Release(h))?;
                    }
                }
                3 => {
                    let rq = rng.pick(variants).clone();
                    if let Outcome::Granted(h) = apply(&mut ops, &mut live, Op::Alloc(rq))? {
                        apply(&mut ops, &mut live, Op::Release(h))?;
                    }
                }
                _ => {
                    let rq = rng.pick(variants).clone();
                    apply(&mut ops, &mut live, Op::Enabled(rq))?;
                }
            }
            Some(())
        })();
        if step.is_none() {
            return ops;
        }
    }
    // release everything that is still live, in random order
    let mut rest = live.clone();
    shuffle(rng, &mut rest);
    for h in rest {
        if apply(&mut ops, &mut live, Op::Release(h)).is_none() {
            break;
        }
    }
    ops
}

/// Silent driver: applies the ops to a real allocator without tracing (used by `gen_case`).
struct DryRun {
    case: Case,
    va: Option<VerifAllocator>,
    live: Vec<(usize, Rc<Allocation>)>,
    next_handle: usize,
}

impl Driver for DryRun {
    fn apply(&mut self, op: &Op) -> Outcome {
        let r = match op {
            Op::Init => {
                let (desc, names) = build_descriptor(&self.case);
                catch(|| VerifAllocator::new(&desc, names)).map(|a| {
                    self.va = Some(a);
                    Outcome::Done
                })
            }
            Op::Enabled(rq) => {
                let Some(a) = self.va.as_ref() else { return Outcome::Aborted };
                let req = build_request(rq);
                catch(|| a.is_enabled(&req)).map(|_| Outcome::Done)
            }
            Op::Alloc(rq) => {
                let Some(a) = self.va.as_mut() else { return Outcome::Aborted };
                let h = self.next_handle;
                self.next_handle += 1;
                let req = build_request(rq);
                catch(|| a.try_allocate(&req)).map(|res| match res {
                    None => Outcome::Done,
                    Some(al) => {
                        self.live.push((h, al));
                        Outcome::Granted(h)
                    }
                })
            }
            Op::Release(h) => {
                let pos = self.live.iter().position(|(lh, _)| lh == h);
                let (Some(a), Some(pos)) = (self.va.as_mut(), pos) else { return Outcome::Aborted };
                let (_, al) = self.live.remove(pos);
                catch(|| a.release_allocation(al)).map(|_| Outcome::Done)
            }
        };
        clear_solver_log();
        r.unwrap_or(Outcome::Aborted)
    }
}

/// Generates a complete case (the op sequence is generated along a silent dry run of the real
/// allocator). `gen` mode does the same in a single pass with the tracing executor as the driver.
pub fn gen_case(rng: &mut Rng, thorough: bool) -> Case {
    let (mut case, variants) = gen_static(rng, thorough);
    let mut dry = DryRun { case: case.clone(), va: None, live: Vec::new(), next_handle: 0 };
    case.ops = gen_ops(rng, &variants, &mut dry);
    case
}

/// `gen_case` + `execute` in one pass: prints exactly what `execute(idx, subseed, &gen_case(..))` prints.
pub fn gen_and_execute(idx: u64, subseed: u64, thorough: bool, t: &mut Trace, stats: &mut Stats) {
    let mut rng = Rng::new(subseed);
    let (case, variants) = gen_static(&mut rng, thorough);
    let mut e = Exec::begin(idx, subseed, &case, t, stats);
    gen_ops(&mut rng, &variants, &mut e);
    e.finish();
}

// ------------------------------------------------------------------------------------------------
// Replay parser
// ------------------------------------------------------------------------------------------------

fn parse_rq(s: &str) -> Option<Rq> {
    if s == "-" {
        return Some(vec![]);
    }
    s.split(',')
        .map(|e| {
            let parts: Vec<&str> = e.split(':').collect();
            let rid: u32 = parts.first()?.parse().ok()?;
            match (parts.get(1).copied()?, parts.get(2)) {
                ("A", None) => Some((rid, Pol::A, 0)),
                (p, Some(a)) if parts.len() == 3 => {
                    let pol = match p {
                        "C" => Pol::C,
                        "FC" => Pol::FC,
                        "T" => Pol::T,
                        "FT" => Pol::FT,
                        "S" => Pol::S,
                        _ => return None,
                    };
                    Some((rid, pol, a.parse().ok()?))
                }
                _ => None,
            }
        })
        .collect()
}

fn parse_case_params(toks: &[&str]) -> Option<Case> {
    let mut case = Case::default();
    for tok in toks {
        let p: Vec<&str> = tok.split(':').collect();
        match p.first().copied()? {
            "d" => {
                let rid: u32 = p.get(1)?.parse().ok()?;
                let kind = match (p.get(2).copied()?, p.len()) {
                    ("L", 4) => Kind::List(p[3].parse().ok()?),
                    ("R", 5) => Kind::Range(p[3].parse().ok()?, p[4].parse().ok()?),
                    ("G", 4) => Kind::Groups(p[3].split('.').map(|x| x.parse().ok()).collect::<Option<Vec<u32>>>()?),
                    ("S", 4) => Kind::Sum(p[3].parse().ok()?),
                    _ => return None,
                };
                case.items.push((rid, kind));
            }
            "w" if p.len() == 6 => {
                case.couplings.push((
                    p[1].parse().ok()?,
                    p[2].parse().ok()?,
                    p[3].parse().ok()?,
                    p[4].parse().ok()?,
                    p[5].parse().ok()?,
                ));
            }
            _ => return None,
        }
    }
    Some(case)
}

fn parse_op(toks: &[&str]) -> Option<Op> {
    match toks.first().copied()? {
        "init" => Some(Op::Init),
        "enabled" => Some(Op::Enabled(parse_rq(toks.get(1)?)?)),
        "alloc" => {
            let _h: usize = toks.get(1)?.parse().ok()?;
            Some(Op::Alloc(parse_rq(toks.get(2)?)?))
        }
        "release" => Some(Op::Release(toks.get(1)?.parse().ok()?)),
        _ => None,
    }
}

fn replay_main() {
    let mut t = Trace::new();
    let mut stats = Stats::default();
    let mut cur: Option<(u64, u64, Case)> = None;
    let stdin = std::io::stdin();
    for line in stdin.lock().lines() {
        let line = line.expect("stdin");
        let toks: Vec<&str> = line.split_ascii_whitespace().collect();
        match toks.first().copied() {
            Some("case") => {
                if let Some((idx, subseed, case)) = cur.take() {
                    execute(idx, subseed, &case, &mut t, &mut stats);
                }
                let idx = toks.get(1).and_then(|x| x.parse().ok());
                let subseed = toks.get(2).and_then(|x| x.parse().ok());
                match (idx, subseed, parse_case_params(toks.get(3..).unwrap_or(&[]))) {
                    (Some(idx), Some(subseed), Some(case)) => cur = Some((idx, subseed, case)),
                    _ => eprintln!("alloc replay: malformed case header skipped: {line}"),
                }
            }
            Some("op") => {
                if let Some((_, _, case)) = cur.as_mut() {
                    match parse_op(&toks[1..]) {
                        Some(op) => case.ops.push(op),
                        None => eprintln!("alloc replay: malformed op skipped: {line}"),
                    }
                }
            }
            Some("end") => {
                if let Some((idx, subseed, case)) = cur.take() {
                    execute(idx, subseed, &case, &mut t, &mut stats);
                }
            }
            _ => {}
        }
    }
    if let Some((idx, subseed, case)) = cur.take() {
        execute(idx, subseed, &case, &mut t, &mut stats);
    }
    t.flush();
}

pub fn main(mode: &str, args: &[String]) {
    watchdog::start();
    match mode {
        "gen" => {
            let a = GenArgs::parse(args);
            if a.has("--selftest-hang") {
                watchdog::SELFTEST_HANG.store(true, std::sync::atomic::Ordering::SeqCst);
            }
            let mut t = Trace::new();
            let mut stats = Stats::default();
            for k in 0..a.cases {
                let subseed = a.case_seed(k);
                if a.has("--two-pass") {
                    // same output, generated by a silent dry run first (self-check of the generator)
                    let case = gen_case(&mut Rng::new(subseed), a.thorough);
                    execute(k, subseed, &case, &mut t, &mut stats);
                } else {
                    gen_and_execute(k, subseed, a.thorough, &mut t, &mut stats);
                }
            }
            t.flush();
            if a.has("--stats") {
                stats.print();
            }
        }
        "replay" => replay_main(),
        _ => {
            eprintln!("component alloc: unknown mode {mode} (gen|replay)");
            std::process::exit(2);
        }
    }
}
