//! Component `auth` (property C20, see /verif/FRAMEWORK.md and /verif/work/auth_notes.md).
//!
//! Both ends run the REAL `tako::comm::do_authentication` over `tokio::io::duplex` pipes framed exactly
//! like `tako::internal::transfer::transport::make_protocol_builder` (LengthDelimitedCodec, little endian,
//! `tako::MAX_FRAME_SIZE`).  A man in the middle owns the other end of both pipes, sees the four
//! handshake frames (m1 = A→B request, m2 = B→A request, m3 = A→B response, m4 = B→A response) and
//! forwards / drops / substitutes them.  The whole finite table of single-message actions is enumerated.
//!
//! Trace: one case = one row of the table = two ops
//!   op base <keyA> <keyB> <myA> <peerA> <myB> <peerB> <protoA> <protoB>   earlier undisturbed session
//!   op adv <action…>                                                     main session under the action
//! each followed by `out res <A> <B>` and `out sent <kind m3> <kind m4>`.
use crate::util::{GenArgs, Trace};
use bytes::Bytes;
use futures::{SinkExt, StreamExt};
use orion::kdf::SecretKey;
use serde::{Deserialize, Serialize};
use std::io::BufRead;
use std::sync::Arc;
use tokio::io::{AsyncWriteExt, DuplexStream};
use tokio_util::codec::{Framed, LengthDelimitedCodec};

const ROLES: [&str; 4] = ["server", "worker", "hq-server", "hq-client"];
/// the (my_role, peer_role) pairs that occur in the code base:
/// tako/src/internal/server/rpc.rs, tako/src/internal/worker/rpc.rs, hyperqueue/src/transfer/connection.rs
const PAIRS: [(&str, &str); 4] =
    [("server", "worker"), ("worker", "server"), ("hq-server", "hq-client"), ("hq-client", "hq-server")];
const KEYS: [&str; 3] = ["none", "k1", "k2"];
const KEY1: [u8; 32] = [0x11; 32];
const KEY2: [u8; 32] = [0x22; 32];

// ---------------------------------------------------------------------------------------------
// Mirrors of tako::internal::messages::auth::* (pub(crate) there). Same serde shape; a `Vec<u8>`
// serialises under bincode exactly like `serde_bytes` (u64 length + bytes). Every genuine frame is
// round-tripped through these (see `check_mirror`), so a shape drift is reported, not silently used.
#[derive(Serialize, Deserialize, Debug, Clone, PartialEq)]
struct MChallenge {
    challenge: Vec<u8>,
}
#[derive(Serialize, Deserialize, Debug, Clone, PartialEq)]
enum MMode {
    NoAuth,
    Encryption(MChallenge),
}
#[derive(Serialize, Deserialize, Debug, Clone, PartialEq)]
struct MRequest {
    protocol: u32,
    role: String,
    mode: MMode,
}
#[derive(Serialize, Deserialize, Debug, Clone, PartialEq)]
struct MEncResp {
    response: Vec<u8>,
    nonce: Vec<u8>,
}
#[derive(Serialize, Deserialize, Debug, Clone, PartialEq)]
struct MError {
    message: String,
}
#[derive(Serialize, Deserialize, Debug, Clone, PartialEq)]
enum MResponse {
    NoAuth,
    Encryption(MEncResp),
    Error(MError),
}

fn enc<T: Serialize>(v: &T) -> Vec<u8> {
    tako::comm::serialize(v).unwrap()
}
fn dec_req(b: &[u8]) -> Option<MRequest> {
    tako::comm::deserialize::<MRequest>(b).ok()
}
fn dec_resp(b: &[u8]) -> Option<MResponse> {
    tako::comm::deserialize::<MResponse>(b).ok()
}

// ---------------------------------------------------------------------------------------------
#[derive(Clone, Copy, PartialEq, Debug)]
struct Cfg {
    key: usize, // index into KEYS
    my: &'static str,
    peer: &'static str,
    proto: u32,
}

fn key_of(k: usize) -> Option<Arc<SecretKey>> {
    match k {
        0 => None,
        1 => Some(Arc::new(SecretKey::from_slice(&KEY1).unwrap())),
        _ => Some(Arc::new(SecretKey::from_slice(&KEY2).unwrap())),
    }
}

fn role_static(s: &str) -> Option<&'static str> {
    ROLES.iter().copied().find(|r| *r == s)
}

#[derive(Clone, Copy, PartialEq, Debug)]
enum ReqMod {
    Proto,
    Role(&'static str),
    ChalFlip,
    ChalTrunc,
    ChalExt,
    ModeSwap,
}
#[derive(Clone, Copy, PartialEq, Debug)]
enum RespMod {
    CtFlip,
    NonceFlip,
    CtTrunc,
    NonceTrunc,
    NoAuth,
    Error,
}
#[derive(Clone, Copy, PartialEq, Debug)]
enum Adv {
    None,
    Drop(usize),
    Reflect(usize),
    Earlier(usize),
    Parallel(usize),
    ModReq(usize, ReqMod),
    ModResp(usize, RespMod),
    DoubleProto,
}

impl Adv {
    fn show(&self) -> String {
        match self {
            Adv::None => "none".into(),
            Adv::Drop(i) => format!("drop {i}"),
            Adv::Reflect(i) => format!("reflect {i}"),
            Adv::Earlier(i) => format!("earlier {i}"),
            Adv::Parallel(i) => format!("parallel {i}"),
            Adv::ModReq(i, m) => match m {
                ReqMod::Proto => format!("mod {i} proto"),
                ReqMod::Role(r) => format!("mod {i} role {r}"),
                ReqMod::ChalFlip => format!("mod {i} chalflip"),
                ReqMod::ChalTrunc => format!("mod {i} chaltrunc"),
                ReqMod::ChalExt => format!("mod {i} chalext"),
                ReqMod::ModeSwap => format!("mod {i} modeswap"),
            },
            Adv::ModResp(i, m) => match m {
                RespMod::CtFlip => format!("mod {i} ctflip"),
                RespMod::NonceFlip => format!("mod {i} nonceflip"),
                RespMod::CtTrunc => format!("mod {i} cttrunc"),
                RespMod::NonceTrunc => format!("mod {i} noncetrunc"),
                RespMod::NoAuth => format!("mod {i} noauth"),
                RespMod::Error => format!("mod {i} error"),
            },
            Adv::DoubleProto => "double-proto".into(),
        }
    }
    fn parse(t: &[&str]) -> Option<Adv> {
        let idx = |s: &str| s.parse::<usize>().ok().filter(|i| (1..=4).contains(i));
        match t {
            ["none"] => Some(Adv::None),
            ["double-proto"] => Some(Adv::DoubleProto),
            ["drop", i] => idx(i).map(Adv::Drop),
            ["reflect", i] => idx(i).map(Adv::Reflect),
            ["earlier", i] => idx(i).map(Adv::Earlier),
            ["parallel", i] => idx(i).map(Adv::Parallel),
            ["mod", i, "role", r] => {
                let (i, r) = (idx(i)?, role_static(r)?);
                (i <= 2).then_some(Adv::ModReq(i, ReqMod::Role(r)))
            }
            ["mod", i, what] => {
                let i = idx(i)?;
                if i <= 2 {
                    Some(Adv::ModReq(i, match *what {
                        "proto" => ReqMod::Proto,
                        "chalflip" => ReqMod::ChalFlip,
                        "chaltrunc" => ReqMod::ChalTrunc,
                        "chalext" => ReqMod::ChalExt,
                        "modeswap" => ReqMod::ModeSwap,
                        _ => return None,
                    }))
                } else {
                    Some(Adv::ModResp(i, match *what {
                        "ctflip" => RespMod::CtFlip,
                        "nonceflip" => RespMod::NonceFlip,
                        "cttrunc" => RespMod::CtTrunc,
                        "noncetrunc" => RespMod::NonceTrunc,
                        "noauth" => RespMod::NoAuth,
                        "error" => RespMod::Error,
                        _ => return None,
                    }))
                }
            }
            _ => None,
        }
    }
}

fn apply_req_mod(m: ReqMod, bytes: &[u8]) -> Vec<u8> {
    let Some(mut r) = dec_req(bytes) else { return bytes.to_vec() };
    match m {
        ReqMod::Proto => r.protocol = 1 - r.protocol,
        ReqMod::Role(x) => r.role = x.to_string(),
        ReqMod::ChalFlip => {
            if let MMode::Encryption(c) = &mut r.mode {
                if let Some(b) = c.challenge.first_mut() {
                    *b ^= 1;
                }
            }
        }
        ReqMod::ChalTrunc => {
            if let MMode::Encryption(c) = &mut r.mode {
                c.challenge.truncate(15);
            }
        }
        ReqMod::ChalExt => {
            if let MMode::Encryption(c) = &mut r.mode {
                c.challenge.push(0);
            }
        }
        ReqMod::ModeSwap => {
            r.mode = match r.mode {
                MMode::Encryption(_) => MMode::NoAuth,
                MMode::NoAuth => MMode::Encryption(MChallenge { challenge: vec![0; 16] }),
            }
        }
    }
    enc(&r)
}

/// Bit flips only apply to an `Encryption` response, otherwise the frame is left alone (model: same).
fn apply_resp_mod(m: RespMod, bytes: &[u8]) -> Vec<u8> {
    let Some(mut r) = dec_resp(bytes) else { return bytes.to_vec() };
    match m {
        RespMod::CtFlip => {
            if let MResponse::Encryption(e) = &mut r {
                let n = e.response.len();
                if n > 0 {
                    e.response[n / 2] ^= 1;
                }
            }
        }
        RespMod::NonceFlip => {
            if let MResponse::Encryption(e) = &mut r {
                if let Some(b) = e.nonce.first_mut() {
                    *b ^= 1;
                }
            }
        }
        RespMod::CtTrunc => {
            if let MResponse::Encryption(e) = &mut r {
                e.response.truncate(10);
            }
        }
        RespMod::NonceTrunc => {
            if let MResponse::Encryption(e) = &mut r {
                e.nonce.truncate(23);
            }
        }
        RespMod::NoAuth => r = MResponse::NoAuth,
        RespMod::Error => r = MResponse::Error(MError { message: "x".to_string() }),
    }
    enc(&r)
}

// ---------------------------------------------------------------------------------------------
type Frame = Option<Vec<u8>>;
type Fr = Framed<DuplexStream, LengthDelimitedCodec>;

fn framed(s: DuplexStream) -> Fr {
    // == tako::internal::transfer::transport::make_protocol_builder()
    LengthDelimitedCodec::builder().little_endian().max_frame_length(tako::MAX_FRAME_SIZE).new_framed(s)
}

async fn recv(f: &mut Fr) -> Frame {
    match f.next().await {
        Some(Ok(b)) => Some(b.to_vec()),
        _ => None,
    }
}

/// deliver a frame, or (None) close the direction so that the receiver sees EOF instead of waiting
async fn deliver(f: &mut Fr, m: &Frame) {
    match m {
        Some(b) => {
            let _ = f.send(Bytes::from(b.clone())).await;
        }
        None => {
            let _ = f.get_mut().shutdown().await;
        }
    }
}

/// One honest endpoint: the real handshake.
async fn endpoint(cfg: Cfg, stream: DuplexStream) -> bool {
    let (mut w, mut r) = framed(stream).split();
    tako::comm::do_authentication(cfg.proto, cfg.my, cfg.peer, key_of(cfg.key), &mut w, &mut r)
        .await
        .is_ok()
}

#[derive(Clone, Default, Debug)]
struct Outcome {
    res_a: bool,
    res_b: bool,
    sent: [Frame; 4],
    delivered: [Frame; 4],
}

/// Parallel session: a second honest endpoint R2 with configuration `cfg`; returns its own request and,
/// if `feed` is given, its response to `feed`. R2 then sees EOF (its result is irrelevant).
async fn parallel_session(cfg: Cfg, feed: Frame) -> (Frame, Frame) {
    let (r_end, adv_end) = tokio::io::duplex(1 << 16);
    let adv = async move {
        let mut f = framed(adv_end);
        let q2 = recv(&mut f).await;
        let y = if feed.is_some() {
            deliver(&mut f, &feed).await;
            recv(&mut f).await
        } else {
            None
        };
        drop(f);
        (q2, y)
    };
    let (_res, out) = tokio::join!(endpoint(cfg, r_end), adv);
    out
}

fn rewrite_role(bytes: &Frame, role: &str) -> Frame {
    let b = bytes.as_ref()?;
    let mut r = dec_req(b)?;
    r.role = role.to_string();
    Some(enc(&r))
}

async fn mitm(cfg_a: Cfg, cfg_b: Cfg, advs: &[Adv], earlier: Option<&Outcome>, sa: DuplexStream, sb: DuplexStream)
    -> ([Frame; 4], [Frame; 4]) {
    let mut fa = framed(sa);
    let mut fb = framed(sb);
    let old = |i: usize| -> Frame { earlier.and_then(|e| e.sent[i - 1].clone()) };
    // ---- requests
    let m1 = recv(&mut fa).await;
    let m2 = recv(&mut fb).await;
    let (mut d1, mut d2) = (m1.clone(), m2.clone());
    for adv in advs.iter().copied() {
    match adv {
        Adv::Drop(1) => d1 = None,
        Adv::Drop(2) => d2 = None,
        Adv::Reflect(1) => d1 = m2.clone(),
        Adv::Reflect(2) => d2 = m1.clone(),
        Adv::Earlier(1) => d1 = old(1),
        Adv::Earlier(2) => d2 = old(2),
        Adv::Parallel(1) => d1 = parallel_session(cfg_b, None).await.0,
        Adv::Parallel(2) => d2 = parallel_session(cfg_a, None).await.0,
        Adv::ModReq(1, m) => d1 = m1.as_ref().map(|b| apply_req_mod(m, b)),
        Adv::ModReq(2, m) => d2 = m2.as_ref().map(|b| apply_req_mod(m, b)),
        Adv::DoubleProto => {
            d1 = m1.as_ref().map(|b| apply_req_mod(ReqMod::Proto, b));
            d2 = m2.as_ref().map(|b| apply_req_mod(ReqMod::Proto, b));
        }
        _ => {}
    }
    }
    deliver(&mut fb, &d1).await;
    deliver(&mut fa, &d2).await;
    // ---- responses (an endpoint that refused early has closed its pipe: recv gives None)
    let m3 = recv(&mut fa).await;
    let m4 = recv(&mut fb).await;
    let (mut d3, mut d4) = (m3.clone(), m4.clone());
    for adv in advs.iter().copied() {
    match adv {
        Adv::Drop(3) => d3 = None,
        Adv::Drop(4) => d4 = None,
        Adv::Reflect(3) => d3 = m4.clone(),
        Adv::Reflect(4) => d4 = m3.clone(),
        Adv::Earlier(3) => d3 = old(3),
        Adv::Earlier(4) => d4 = old(4),
        // receiver of m3 is B (own request m2), receiver of m4 is A (own request m1)
        Adv::Parallel(3) => d3 = parallel_session(cfg_b, rewrite_role(&m2, cfg_b.peer)).await.1,
        Adv::Parallel(4) => d4 = parallel_session(cfg_a, rewrite_role(&m1, cfg_a.peer)).await.1,
        Adv::ModResp(3, m) => d3 = m3.as_ref().map(|b| apply_resp_mod(m, b)),
        Adv::ModResp(4, m) => d4 = m4.as_ref().map(|b| apply_resp_mod(m, b)),
        _ => {}
    }
    }
    deliver(&mut fb, &d3).await;
    deliver(&mut fa, &d4).await;
    // nothing more will ever come: close both pipes (data already written stays readable)
    drop(fa);
    drop(fb);
    ([m1, m2, m3, m4], [d1, d2, d3, d4])
}

async fn run_session(cfg_a: Cfg, cfg_b: Cfg, advs: &[Adv], earlier: Option<&Outcome>) -> Outcome {
    let (a_end, adv_a) = tokio::io::duplex(1 << 16);
    let (b_end, adv_b) = tokio::io::duplex(1 << 16);
    let (res_a, res_b, (sent, delivered)) =
        tokio::join!(endpoint(cfg_a, a_end), endpoint(cfg_b, b_end), mitm(cfg_a, cfg_b, advs, earlier, adv_a, adv_b));
    Outcome { res_a, res_b, sent, delivered }
}

// ---------------------------------------------------------------------------------------------
fn show_res(b: bool) -> &'static str {
    if b { "accept" } else { "refuse" }
}

fn kind(f: &Frame) -> &'static str {
    match f {
        None => "none",
        Some(b) => match dec_resp(b) {
            Some(MResponse::NoAuth) => "noauth",
            Some(MResponse::Encryption(_)) => "enc",
            Some(MResponse::Error(_)) => "error",
            None => "undecodable",
        },
    }
}

fn cfg_match(a: &Cfg, b: &Cfg) -> bool {
    a.key == b.key && a.proto == b.proto && a.peer == b.my && b.peer == a.my
}

/// the mirror structs must reproduce the genuine frames byte for byte
fn check_mirror(t: &mut Trace, o: &Outcome) {
    for i in 0..4 {
        if let Some(b) = &o.sent[i] {
            let back = if i < 2 { dec_req(b).map(|r| enc(&r)) } else { dec_resp(b).map(|r| enc(&r)) };
            if back.as_ref() != Some(b) {
                t.mon_fail("c20.mirror", "mirror-shape-drift", &format!("frame m{} does not round-trip through the harness mirror structs", i + 1));
            }
        }
    }
}

fn show_advs(advs: &[Adv]) -> String {
    advs.iter().map(|a| a.show()).collect::<Vec<_>>().join(" + ")
}

fn parse_advs(t: &[&str]) -> Option<Vec<Adv>> {
    let v: Option<Vec<Adv>> = t.split(|x| *x == "+").map(Adv::parse).collect();
    // several actions: only on pairwise different messages (the model driver rejects anything else too)
    v.filter(|v| {
        v.len() == 1
            || ((2..=4).contains(&v.len())
                && v.iter().all(|a| msg_index(a) != 0)
                && (0..v.len()).all(|i| (0..i).all(|j| msg_index(&v[i]) != msg_index(&v[j]))))
    })
}

fn challenge_of(f: &Frame) -> Option<Vec<u8>> {
    match dec_req(f.as_ref()?)?.mode {
        MMode::Encryption(c) => Some(c.challenge),
        MMode::NoAuth => None,
    }
}

/// Monitors on the REAL results. `advs`: the adversary actions of the row (one action = a row of the C20
/// table; several = a row of the thorough-tier pairs table, outside C20's single-substitution quantifier).
fn monitors(t: &mut Trace, a: &Cfg, b: &Cfg, advs: &[Adv], o: &Outcome) {
    check_mirror(t, o);
    let m = cfg_match(a, b);
    let desc = format!(
        "A=({},{},{},{}) B=({},{},{},{}) adv={} res={},{}",
        KEYS[a.key], a.my, a.peer, a.proto, KEYS[b.key], b.my, b.peer, b.proto, show_advs(advs),
        show_res(o.res_a), show_res(o.res_b)
    );
    let same = |i: usize| o.sent[i].is_some() && o.sent[i] == o.delivered[i];

    // ---- clauses that hold under ANY number of substitutions (theorems c20_auth, c20_accept_request_checked)
    // agreement: a keyed end accepts only if the peer holds the same key, acts in the expected role, received
    // exactly this end's challenge, and the consumed response is byte-identical to the peer's response of THIS session
    let agree = |me: &Cfg, peer: &Cfg, my_req: usize, consumed: usize| -> bool {
        me.key == peer.key && peer.my == me.peer && same(consumed)
            && challenge_of(&o.sent[my_req]).is_some()
            && challenge_of(&o.sent[my_req]) == challenge_of(&o.delivered[my_req])
    };
    if o.res_a && a.key != 0 && !agree(a, b, 0, 3) {
        t.mon_fail("c20.agreement", "accepted-without-agreement", &format!("keyed A accepted without agreement (key, role, challenge, genuine response): {desc}"));
    }
    if o.res_b && b.key != 0 && !agree(b, a, 1, 2) {
        t.mon_fail("c20.agreement", "accepted-without-agreement", &format!("keyed B accepted without agreement (key, role, challenge, genuine response): {desc}"));
    }
    // an end accepts only after a request that carried ITS protocol number, the role IT expects and the
    // authentication mode that fits ITS key - whoever sent it
    let req_ok = |me: &Cfg, f: &Frame| -> bool {
        match f.as_ref().and_then(|b| dec_req(b)) {
            Some(r) => {
                r.protocol == me.proto && r.role == me.peer && match (&r.mode, me.key) {
                    (MMode::NoAuth, 0) => true,
                    (MMode::Encryption(c), k) if k != 0 => c.challenge.len() == 16,
                    _ => false,
                }
            }
            None => false,
        }
    };
    if o.res_a && !req_ok(a, &o.delivered[1]) {
        t.mon_fail("c20.sound", "accepted-after-bad-request", &format!("A accepted although the request it received does not carry its protocol/expected role/auth mode: {desc}"));
    }
    if o.res_b && !req_ok(b, &o.delivered[0]) {
        t.mon_fail("c20.sound", "accepted-after-bad-request", &format!("B accepted although the request it received does not carry its protocol/expected role/auth mode: {desc}"));
    }

    if advs == [Adv::DoubleProto] {
        // finding "protocol-not-sealed": outside the C20 quantifier (two substitutions); own clause
        if (o.res_a || o.res_b) && a.proto != b.proto {
            t.mon_fail("c20.proto_bound", "protocol-not-sealed",
                &format!("endpoints with different protocol numbers accepted each other after the protocol field of BOTH requests was rewritten: {desc}"));
        }
        return;
    }
    if advs.len() != 1 {
        return;
    }
    // ---- clauses of the C20 table proper (ONE substitution)
    if m && advs[0] == Adv::None && !(o.res_a && o.res_b) {
        t.mon_fail("c20.complete", "honest-refused", &format!("matching configuration, undisturbed exchange, not both accept: {desc}"));
    }
    if !m && (o.res_a || o.res_b) {
        t.mon_fail("c20.mismatch", "mismatch-accepted", &format!("configuration mismatch but an end accepted: {desc}"));
    }
    // matching conversations: an end accepts only if the configurations match, its own request reached the peer
    // unmodified and the response it consumed is byte-identical to the response the peer sent in THIS session
    if o.res_a && !(m && same(0) && same(3)) {
        t.mon_fail("c20.sound", "accepted-nongenuine", &format!("A accepted although cfg_match={m} m1_intact={} m4_genuine={}: {desc}", same(0), same(3)));
    }
    if o.res_b && !(m && same(1) && same(2)) {
        t.mon_fail("c20.sound", "accepted-nongenuine", &format!("B accepted although cfg_match={m} m2_intact={} m3_genuine={}: {desc}", same(1), same(2)));
    }
}

fn print_outcome(t: &mut Trace, o: &Outcome) {
    t.out(&format!("res {} {}", show_res(o.res_a), show_res(o.res_b)));
    t.out(&format!("sent {} {}", kind(&o.sent[2]), kind(&o.sent[3])));
}

fn parse_base(t: &[&str]) -> Option<(Cfg, Cfg)> {
    if t.len() != 8 {
        return None;
    }
    let key = |s: &str| KEYS.iter().position(|k| *k == s);
    let a = Cfg { key: key(t[0])?, my: role_static(t[2])?, peer: role_static(t[3])?, proto: t[6].parse().ok()? };
    let b = Cfg { key: key(t[1])?, my: role_static(t[4])?, peer: role_static(t[5])?, proto: t[7].parse().ok()? };
    Some((a, b))
}

fn show_base(a: &Cfg, b: &Cfg) -> String {
    format!("base {} {} {} {} {} {} {} {}", KEYS[a.key], KEYS[b.key], a.my, a.peer, b.my, b.peer, a.proto, b.proto)
}

/// State of one case while ops are executed (shared by gen and replay).
#[derive(Default)]
struct CaseState {
    cfg: Option<(Cfg, Cfg)>,
    earlier: Option<Outcome>,
}

fn exec_op(rt: &tokio::runtime::Runtime, t: &mut Trace, st: &mut CaseState, toks: &[&str]) {
    match toks.first().copied() {
        Some("base") => match parse_base(&toks[1..]) {
            Some((a, b)) => {
                let o = rt.block_on(run_session(a, b, &[Adv::None], None));
                print_outcome(t, &o);
                monitors(t, &a, &b, &[Adv::None], &o);
                st.cfg = Some((a, b));
                st.earlier = Some(o);
            }
            None => t.out("!bad-op"),
        },
        Some("adv") => match (st.cfg, parse_advs(&toks[1..])) {
            (Some((a, b)), Some(advs)) => {
                let o = rt.block_on(run_session(a, b, &advs, st.earlier.as_ref()));
                print_outcome(t, &o);
                monitors(t, &a, &b, &advs, &o);
            }
            _ => t.out("!bad-op"),
        },
        _ => t.out("!bad-op"),
    }
}

// ---------------------------------------------------------------------------------------------
/// Actions applicable to a pair of configurations (static applicability: challenge modifications need
/// an `Encryption` request, i.e. a keyed sender; response bit flips are decided at run time).
fn actions(a: &Cfg, b: &Cfg) -> Vec<Adv> {
    let mut v = vec![Adv::None];
    for i in 1..=4 {
        v.push(Adv::Drop(i));
        v.push(Adv::Reflect(i));
        v.push(Adv::Earlier(i));
        v.push(Adv::Parallel(i));
    }
    for i in 1..=2 {
        let sender = if i == 1 { a } else { b };
        v.push(Adv::ModReq(i, ReqMod::Proto));
        for r in ROLES {
            if r != sender.my {
                v.push(Adv::ModReq(i, ReqMod::Role(r)));
            }
        }
        if sender.key != 0 {
            v.push(Adv::ModReq(i, ReqMod::ChalFlip));
            v.push(Adv::ModReq(i, ReqMod::ChalTrunc));
            v.push(Adv::ModReq(i, ReqMod::ChalExt));
        }
        v.push(Adv::ModReq(i, ReqMod::ModeSwap));
    }
    for i in 3..=4 {
        for m in [RespMod::CtFlip, RespMod::NonceFlip, RespMod::CtTrunc, RespMod::NonceTrunc, RespMod::NoAuth, RespMod::Error] {
            v.push(Adv::ModResp(i, m));
        }
    }
    v
}

type Row = (Cfg, Cfg, Vec<Adv>);

fn configs() -> Vec<(Cfg, Cfg)> {
    let mut v = vec![];
    for ka in 0..3 {
        for kb in 0..3 {
            for pa in PAIRS {
                for pb in PAIRS {
                    for proto_a in 0..2u32 {
                        for proto_b in 0..2u32 {
                            v.push((
                                Cfg { key: ka, my: pa.0, peer: pa.1, proto: proto_a },
                                Cfg { key: kb, my: pb.0, peer: pb.1, proto: proto_b },
                            ));
                        }
                    }
                }
            }
        }
    }
    v
}

/// THE C20 table: every configuration pair x every single-message action.
fn table() -> Vec<Row> {
    let mut rows = vec![];
    for (a, b) in configs() {
        for adv in actions(&a, &b) {
            rows.push((a, b, vec![adv]));
        }
    }
    rows
}

fn msg_index(a: &Adv) -> usize {
    match a {
        Adv::Drop(i) | Adv::Reflect(i) | Adv::Earlier(i) | Adv::Parallel(i) | Adv::ModReq(i, _) | Adv::ModResp(i, _) => *i,
        Adv::None | Adv::DoubleProto => 0,
    }
}

/// thorough tier only, OUTSIDE C20's quantifier: every pair of single-message actions on two different
/// messages. Only the correspondence and the clauses that hold for any adversary are evaluated on these rows.
fn pair_table() -> Vec<Row> {
    let mut rows = vec![];
    for (a, b) in configs() {
        let acts = actions(&a, &b);
        for x in &acts {
            for y in &acts {
                let (i, j) = (msg_index(x), msg_index(y));
                if i != 0 && i < j {
                    rows.push((a, b, vec![*x, *y]));
                }
            }
        }
    }
    rows
}

/// `--double-proto`: NOT part of the C20 table (two substitutions). Same key option, complementary roles,
/// different protocol numbers; the protocol field of both requests is rewritten.
fn double_proto_table() -> Vec<Row> {
    let mut rows = vec![];
    for k in 0..3 {
        for pa in PAIRS {
            for (proto_a, proto_b) in [(0u32, 1u32), (1, 0)] {
                let a = Cfg { key: k, my: pa.0, peer: pa.1, proto: proto_a };
                let b = Cfg { key: k, my: pa.1, peer: pa.0, proto: proto_b };
                rows.push((a, b, vec![Adv::DoubleProto]));
            }
        }
    }
    rows
}

fn runtime() -> tokio::runtime::Runtime {
    // paused clock: should an end ever wait (it must not: a dropped frame closes the direction), the
    // 15 s AUTH_TIMEOUT elapses in virtual time instead of stalling the run
    tokio::runtime::Builder::new_current_thread().enable_all().start_paused(true).build().unwrap()
}

fn gen_main(args: &[String]) {
    let g = GenArgs::parse(args);
    // (table name, rows); the C20 table is complete in BOTH tiers; --cases is ignored
    let mut tables: Vec<(&str, Vec<Row>)> = vec![];
    if g.has("--double-proto") {
        tables.push(("double-proto", double_proto_table()));
    } else {
        tables.push(("c20", table()));
        if (g.thorough || g.has("--pairs")) && !g.has("--no-pairs") {
            tables.push(("pairs", pair_table()));
        }
    }
    if g.has("--count") {
        for (name, rows) in &tables {
            println!("{name} {}", rows.len());
        }
        return;
    }
    let rt = runtime();
    let mut t = Trace::new();
    let mut k = 0u64;
    let mut idx = 0u64;
    for (name, rows) in &tables {
        let n = rows.len();
        for (a, b, advs) in rows.iter() {
            let my = idx % g.nshards == g.shard;
            idx += 1;
            if !my {
                continue;
            }
            t.case(idx - 1, g.case_seed(k), &format!("exhaustive=1 rows={n} table={name}"));
            k += 1;
            let mut st = CaseState::default();
            for op in [show_base(a, b), format!("adv {}", show_advs(advs))] {
                t.op(&op);
                let toks: Vec<&str> = op.split(' ').collect();
                exec_op(&rt, &mut t, &mut st, &toks);
            }
            t.end();
        }
    }
    t.flush();
}

fn replay_main() {
    let rt = runtime();
    let mut t = Trace::new();
    let mut st = CaseState::default();
    for line in std::io::stdin().lock().lines() {
        let line = line.unwrap();
        let toks: Vec<&str> = line.split(' ').filter(|x| !x.is_empty()).collect();
        match toks.first().copied() {
            Some("case") => {
                st = CaseState::default();
                t.line(&toks.join(" "));
            }
            Some("op") => {
                t.line(&toks.join(" "));
                exec_op(&rt, &mut t, &mut st, &toks[1..]);
            }
            Some("end") => t.end(),
            _ => {}
        }
    }
    t.flush();
}

pub fn main(mode: &str, args: &[String]) {
    match mode {
        "gen" => gen_main(args),
        "replay" => replay_main(),
        _ => {
            eprintln!("usage: hqv auth gen --seed S --shard i/n --cases N --tier T [--double-proto] [--pairs|--no-pairs] [--count] | hqv auth replay");
            std::process::exit(2);
        }
    }
}
