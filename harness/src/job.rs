//! Component `job`: the job view of a simulated cluster run (see sim.rs / world.rs).
//! ops = client requests + tako callbacks as observed on the real code; outs = events, responses,
//! ids handed to the core, job snapshot.
use crate::sim::Sim;
use crate::util::{GenArgs, Trace};

pub fn run_case(tr: &mut Trace, idx: u64, subseed: u64, steps: u32) {
    run_case_log(tr, idx, subseed, steps, false)
}

pub fn run_case_log(tr: &mut Trace, idx: u64, subseed: u64, steps: u32, log: bool) {
    tr.case(idx, subseed, &format!("job steps={steps}"));
    let mut sim = Sim::new(subseed);
    for _ in 0..steps {
        if sim.panicked.is_some() {
            break;
        }
        sim.step();
    }
    if sim.panicked.is_none() {
        sim.drain(60);
    }
    if log {
        for l in &sim.log {
            tr.line(&format!("# {l}"));
        }
        if let Some(p) = &sim.panicked {
            tr.line(&format!("# PANIC {p}"));
        }
    } else {
        for l in &sim.job.lines {
            tr.line(l);
        }
    }
    tr.end();
}

pub fn main(mode: &str, args: &[String]) {
    let a = GenArgs::parse(args);
    let mut tr = Trace::new();
    match mode {
        "gen" => {
            let steps: u32 = a.value("--steps").map(|s| s.parse().unwrap()).unwrap_or(if a.thorough { 120 } else { 60 });
            for k in 0..a.cases {
                let subseed = a.case_seed(k);
                run_case(&mut tr, a.shard * 1_000_000 + k, subseed, steps);
            }
        }
        "case" => {
            // hqv job case <subseed> <steps>
            let subseed: u64 = args[0].parse().unwrap();
            let steps: u32 = args[1].parse().unwrap();
            run_case_log(&mut tr, 0, subseed, steps, args.iter().any(|a| a == "--log"));
        }
        _ => {
            eprintln!("component job: unknown mode {mode}");
            std::process::exit(2);
        }
    }
    tr.flush();
}
